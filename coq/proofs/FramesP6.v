(* C08, part 6: Columns -- every fill order places every item exactly once, in the documented order,
   for EVERY item count and column count (the finite sweep of FramesP3 is superseded). *)
From RichModel Require Import Prelude Cells Segments SpecCells Frames SpecFrames.
From RichProofs Require Import CellsP FramesP FramesP3.
From Coq Require Import ZifyBool.

(* ---------------------------------------------------------------- generic lists *)
Lemma chunks_concat {A} (k : nat) : (1 <= k)%nat -> forall (rows : list (list A)) fuel,
  Forall (fun r => length r = k) rows -> (length rows < fuel)%nat ->
  chunks fuel (concat rows) k = rows.
Proof.
  intros Hk. induction rows as [|r rows IH]; intros fuel HF Hf.
  - destruct fuel; reflexivity.
  - destruct fuel as [|f]; [cbn in Hf; lia|]. inversion HF as [|? ? Hr Hrows]; subst.
    cbn [concat chunks]. destruct r as [|a r]; [cbn in Hk; lia|].
    cbn [app]. change (a :: r ++ concat rows) with ((a :: r) ++ concat rows).
    rewrite firstn_app, Nat.sub_diag, firstn_all. cbn [firstn]. rewrite app_nil_r.
    rewrite skipn_app, Nat.sub_diag, skipn_all. cbn [skipn app].
    f_equal. apply IH; [exact Hrows|cbn in Hf; lia].
Qed.

Lemma iota_app a b from : iota (a + b) from = iota a from ++ iota b (from + Z.of_nat a).
Proof.
  revert from. induction a as [|a IH]; intros from; cbn [iota Nat.add app].
  - f_equal. lia.
  - f_equal. rewrite IH. f_equal. f_equal. lia.
Qed.

Lemma iota_seq n : map Z.of_nat (seq 0 n) = iota n 0.
Proof.
  assert (G : forall n s, map Z.of_nat (seq s n) = iota n (Z.of_nat s)).
  { induction n0 as [|n0 IH]; intros s; [reflexivity|]. cbn [seq map iota]. f_equal. rewrite IH. f_equal. lia. }
  apply (G n 0%nat).
Qed.

Lemma iota_length n from : length (iota n from) = n.
Proof. revert from. induction n; intros; cbn; [reflexivity|]. f_equal. apply IHn. Qed.

Lemma nonblank_app a b : nonblank (a ++ b) = nonblank a ++ nonblank b.
Proof. unfold nonblank. apply filter_app. Qed.

Lemma nonblank_blanks k : nonblank (repeat (-1) k) = [].
Proof. induction k; [reflexivity|]. cbn. exact IHk. Qed.

Lemma nonblank_id l : Forall (fun x => x <> -1) l -> nonblank l = l.
Proof.
  induction 1 as [|x l Hx _ IH]; [reflexivity|]. cbn [nonblank filter].
  destruct (x =? -1) eqn:E; [lia|]. cbn [negb]. f_equal. exact IH.
Qed.

Lemma iota_nonneg n from : 0 <= from -> Forall (fun x => x <> -1) (iota n from).
Proof.
  revert from. induction n as [|n IH]; intros from H; [constructor|]. cbn [iota]. constructor; [lia|apply IH; lia].
Qed.

Lemma take_until_blank_app a b : Forall (fun x => x <> -1) a ->
  match b with [] => True | x :: _ => x = -1 end -> take_until_blank (a ++ b) = a.
Proof.
  induction 1 as [|x a Hx _ IH]; intros Hb.
  - cbn [app]. destruct b as [|y b]; [reflexivity|]. subst y. reflexivity.
  - cbn [app take_until_blank]. destruct (x =? -1) eqn:E; [lia|]. f_equal. apply IH. exact Hb.
Qed.

Lemma map_rev_rev {A} (g : list (list A)) : map (@rev A) (map (@rev A) g) = g.
Proof. rewrite map_map. rewrite <- (map_id g) at 2. apply map_ext. intros. apply rev_involutive. Qed.

Lemma zlist_eqb_refl l : zlist_eqb l l = true.
Proof. induction l as [|x l IH]; [reflexivity|]. cbn. rewrite Z.eqb_refl. exact IH. Qed.

Lemma rows_of_length {A} (k : nat) : forall R (l : list A), length l = (R * k)%nat ->
  exists rows, l = concat rows /\ length rows = R /\ Forall (fun r => length r = k) rows.
Proof.
  induction R as [|R IH]; intros l Li.
  - exists []. destruct l; [auto|cbn in Li; lia].
  - destruct (IH (skipn k l)) as [rows [R1 [R2 R3]]]; [rewrite skipn_length; lia|].
    exists (firstn k l :: rows). cbn [concat length]. rewrite <- R1, firstn_skipn.
    split; [reflexivity|]. split; [lia|]. constructor; [rewrite firstn_length; lia|exact R3].
Qed.

(* ---------------------------------------------------------------- the checker on chunked items *)
(* whatever the order flag, the checker sees the un-reversed rows *)
Lemma checker_rows cf rtl n cc (rows : list (list Z)) :
  columns_once_b cf rtl n cc (map (fun row => if rtl then rev row else row) rows)
  = columns_once_b cf false n cc rows.
Proof.
  unfold columns_once_b. destruct rtl; [|rewrite map_id; reflexivity]. rewrite map_rev_rev. reflexivity.
Qed.

Lemma div_up n cc : 0 <= n -> 1 <= cc ->
  (n + cc - 1) / cc = n / cc + (if n mod cc =? 0 then 0 else 1).
Proof.
  intros Hn Hc. pose proof (Z.div_mod n cc ltac:(lia)) as E. pose proof (Z.mod_pos_bound n cc ltac:(lia)) as B.
  set (q := n / cc) in *. set (m := n mod cc) in *.
  destruct (m =? 0) eqn:E0.
  - symmetry. apply (Z.div_unique _ _ _ (cc - 1)); lia.
  - symmetry. apply (Z.div_unique _ _ _ (m - 1)); lia.
Qed.

(* ---------------------------------------------------------------- row-first *)
Theorem columns_row_first : forall n cc rtl, 0 <= n -> 1 <= cc -> grid_ok n cc false rtl = true.
Proof.
  intros n cc rtl Hn Hc. unfold grid_ok, grid_of, iter_items.
  destruct (cc =? 0) eqn:E0; [lia|]. cbn [bind].
  set (body := map Z.of_nat (seq 0 (Z.to_nat n))).
  set (pad := if n mod cc =? 0 then [] else repeat (-1) (Z.to_nat (cc - n mod cc))).
  set (items := body ++ pad).
  rewrite checker_rows.
  pose proof (Z.div_mod n cc ltac:(lia)) as E. pose proof (Z.mod_pos_bound n cc ltac:(lia)) as B.
  set (q := n / cc) in *. set (m := n mod cc) in *.
  set (R := Z.to_nat (q + (if m =? 0 then 0 else 1))).
  assert (Lb : length body = Z.to_nat n) by (unfold body; rewrite map_length, seq_length; reflexivity).
  assert (Li : length items = (R * Z.to_nat cc)%nat).
  { unfold items, pad, R. rewrite app_length, Lb. destruct (m =? 0) eqn:Em; cbn [length]; [|rewrite repeat_length]; nia. }
  (* the rows: chunk r is firstn/skipn -- use the generic chunk lemma through an explicit row list *)
  pose proof (rows_of_length (Z.to_nat cc) R items Li) as Hrows.
  destruct Hrows as [rows [Ec [Lr Fr]]].
  rewrite Ec, chunks_concat with (k := Z.to_nat cc); [|lia|exact Fr|rewrite <- Ec, Li, Lr; nia].
  unfold columns_once_b. rewrite <- Ec.
  assert (Nb : nonblank items = body).
  { unfold items. rewrite nonblank_app. unfold pad. destruct (m =? 0); [|rewrite nonblank_blanks]; rewrite app_nil_r;
      apply nonblank_id; unfold body; rewrite iota_seq; apply iota_nonneg; lia. }
  assert (Fn : firstn (Z.to_nat n) items = body).
  { unfold items. rewrite firstn_app, Lb, Nat.sub_diag, <- Lb, firstn_all. cbn [firstn]. apply app_nil_r. }
  rewrite Nb, Fn. unfold body at 1. rewrite iota_seq, zlist_eqb_refl.
  assert (Nb2 : nonblank body = body) by (apply nonblank_id; unfold body; rewrite iota_seq; apply iota_nonneg; lia).
  rewrite Nb2, zlist_eqb_refl.
  replace (forallb (fun row => (length row =? Z.to_nat cc)%nat) rows) with true.
  2:{ symmetry. apply forallb_forall. intros x Hx. rewrite Forall_forall in Fr. rewrite (Fr x Hx). apply Nat.eqb_refl. }
  cbn [andb]. apply Nat.leb_le. unfold items. rewrite app_length, Lb. lia.
Qed.

(* ---------------------------------------------------------------- column-first: the fill *)
Fixpoint col_ents (k : nat) (row col idx : Z) : list (Z * Z * Z) :=
  match k with O => [] | S k' => (row, col, idx) :: col_ents k' (row + 1) col (idx + 1) end.
Fixpoint all_ents (col idx : Z) (lens : list Z) : list (Z * Z * Z) :=
  match lens with
  | [] => []
  | c :: r => col_ents (Z.to_nat c) 0 col idx ++ all_ents (col + 1) (idx + c) r
  end.

(* non-negative and non-increasing *)
Fixpoint dec (l : list Z) : Prop :=
  match l with
  | [] => True
  | x :: r => 0 <= x /\ match r with [] => True | y :: _ => y <= x end /\ dec r
  end.

Lemma dec_nonneg l : dec l -> Forall (fun y => 0 <= y) l.
Proof. induction l as [|x l IH]; intros H; [constructor|]. destruct H as [H1 [_ H3]]. constructor; auto. Qed.

Lemma sum_nonneg l : Forall (fun y => 0 <= y) l -> 0 <= sumZ l.
Proof. induction 1; [cbn; lia|]. rewrite sumZ_cons. lia. Qed.

Lemma dec_head_pos x r : dec (x :: r) -> 0 < sumZ (x :: r) -> 1 <= x.
Proof.
  revert x. induction r as [|y r IH]; intros x H Hs.
  - rewrite sumZ_cons in Hs. change (sumZ []) with 0 in Hs. lia.
  - destruct H as [H1 [H2 H3]]. rewrite sumZ_cons in Hs.
    destruct (Z.eq_dec x 0) as [->|]; [|lia].
    assert (y = 0) by (destruct H3; lia). subst y.
    specialize (IH 0 H3). lia.
Qed.

Lemma all_ents_zero lens : Forall (fun y => 0 <= y) lens -> sumZ lens = 0 -> forall col idx, all_ents col idx lens = [].
Proof.
  induction 1 as [|x l Hx Hl IH]; intros Hs col idx; [reflexivity|].
  rewrite sumZ_cons in Hs. pose proof (sum_nonneg l Hl). assert (x = 0) by lia. subst x.
  cbn [all_ents Z.to_nat col_ents app]. apply IH. lia.
Qed.

Lemma cf_go_ents : forall k idx row col cur rest acc,
  1 <= cur -> dec rest -> Z.of_nat k = cur + sumZ rest ->
  cf_go k idx row col (cur :: rest) acc
  = Ok (rev acc ++ col_ents (Z.to_nat cur) row col idx ++ all_ents (col + 1) (idx + cur) rest).
Proof.
  induction k as [|k IH]; intros idx row col cur rest acc Hc Hd Hk.
  - pose proof (sum_nonneg rest (dec_nonneg rest Hd)). lia.
  - cbn [cf_go]. destruct (cur - 1 =? 0) eqn:E.
    + assert (cur = 1) by lia. subst cur. cbn [Z.to_nat Pos.to_nat Pos.iter_op Nat.add col_ents].
      change (Z.to_nat 1) with 1%nat. cbn [col_ents app].
      destruct k as [|k].
      * cbn [cf_go rev]. rewrite all_ents_zero by (try apply dec_nonneg; try assumption; lia).
        cbn [app]. rewrite ?app_nil_r. reflexivity.
      * destruct rest as [|c2 r2].
        { change (sumZ []) with 0 in Hk. lia. }
        assert (Hc2 : 1 <= c2) by (apply (dec_head_pos c2 r2 Hd); lia).
        rewrite sumZ_cons in Hk. destruct Hd as [_ [_ Hd2]].
        rewrite (IH (idx + 1) 0 (col + 1) c2 r2 ((row, col, idx) :: acc) Hc2 Hd2 ltac:(lia)).
        cbn [rev all_ents]. rewrite <- !app_assoc. cbn [app]. reflexivity.
    + rewrite (IH (idx + 1) (row + 1) col (cur - 1) rest ((row, col, idx) :: acc) ltac:(lia) Hd ltac:(lia)).
      replace (Z.to_nat cur) with (S (Z.to_nat (cur - 1))) by lia. cbn [col_ents rev].
      rewrite <- !app_assoc. cbn [app]. replace (idx + 1 + (cur - 1)) with (idx + cur) by lia. reflexivity.
Qed.

(* column_lengths: q + 1 for the first n mod cc columns, q for the others *)
Definition clen (q m : Z) (c : nat) : Z := q + (if Z.of_nat c <? m then 1 else 0).

Lemma column_lengths_eq n cc : column_lengths n cc = map (clen (n / cc) (n mod cc)) (seq 0 (Z.to_nat cc)).
Proof. reflexivity. Qed.

Lemma dec_map_seq (f : nat -> Z) : (forall c, 0 <= f c) -> (forall c, f (S c) <= f c) ->
  forall k s, dec (map f (seq s k)).
Proof.
  intros H0 H1. induction k as [|k IH]; intros s; [exact Logic.I|].
  cbn [seq map dec]. split; [apply H0|]. split; [|apply IH].
  destruct k; [exact Logic.I|]. cbn [seq map]. apply H1.
Qed.

Lemma sum_clen q m : 0 <= m -> forall k, sumZ (map (clen q m) (seq 0 k)) = Z.of_nat k * q + Z.min (Z.of_nat k) m.
Proof.
  intros Hm. induction k as [|k IH]; [cbn; lia|].
  rewrite seq_S, map_app, sumZ_app, IH. cbn [Nat.add map]. rewrite sumZ_cons. change (sumZ []) with 0.
  unfold clen. destruct (Z.of_nat k <? m) eqn:E; lia.
Qed.

Lemma cf_positions_eq n cc : 0 <= n -> 1 <= cc ->
  cf_positions n cc = Ok (all_ents 0 0 (column_lengths n cc)).
Proof.
  intros Hn Hc. unfold cf_positions. rewrite column_lengths_eq.
  pose proof (Z.div_mod n cc ltac:(lia)) as E. pose proof (Z.mod_pos_bound n cc ltac:(lia)) as B.
  assert (Hq : 0 <= n / cc) by (apply Z.div_pos; lia).
  set (q := n / cc) in *. set (m := n mod cc) in *.
  assert (Hdec : forall k s, dec (map (clen q m) (seq s k))).
  { apply dec_map_seq; intros c; unfold clen; [destruct (Z.of_nat c <? m); lia|].
    destruct (Z.of_nat (S c) <? m) eqn:E1, (Z.of_nat c <? m) eqn:E2; lia. }
  assert (Hsum : sumZ (map (clen q m) (seq 0 (Z.to_nat cc))) = n).
  { rewrite sum_clen by lia. nia. }
  destruct (Z.to_nat n) as [|k] eqn:En.
  - assert (n = 0) by lia. cbn [cf_go rev].
    rewrite all_ents_zero; [reflexivity|apply dec_nonneg, Hdec|lia].
  - destruct (Z.to_nat cc) as [|ck] eqn:Ec; [lia|]. cbn [seq map] in *.
    rewrite sumZ_cons in Hsum.
    assert (H1 : 1 <= clen q m 0).
    { apply (dec_head_pos _ (map (clen q m) (seq 1 ck))); [apply (Hdec (S ck) 0%nat)|rewrite sumZ_cons; lia]. }
    rewrite cf_go_ents; [reflexivity|exact H1|apply (Hdec ck 1%nat)|lia].
Qed.

(* ---------------------------------------------------------------- column-first: the cells *)
Lemma cell_col_ents : forall k row0 col idx tl r c,
  cell_at (col_ents k row0 col idx ++ tl) r c
  = if (c =? col) && (row0 <=? r) && (r <? row0 + Z.of_nat k) then idx + (r - row0) else cell_at tl r c.
Proof.
  induction k as [|k IH]; intros row0 col idx tl r c.
  - cbn [col_ents app]. destruct ((c =? col) && (row0 <=? r) && (r <? row0 + Z.of_nat 0)) eqn:E; [lia|reflexivity].
  - cbn [col_ents app cell_at]. rewrite IH.
    destruct ((row0 =? r) && (col =? c)) eqn:E1.
    + replace ((c =? col) && (row0 <=? r) && (r <? row0 + Z.of_nat (S k))) with true by lia. lia.
    + destruct ((c =? col) && (row0 + 1 <=? r) && (r <? row0 + 1 + Z.of_nat k)) eqn:E2.
      * replace ((c =? col) && (row0 <=? r) && (r <? row0 + Z.of_nat (S k))) with true by lia. lia.
      * replace ((c =? col) && (row0 <=? r) && (r <? row0 + Z.of_nat (S k))) with false by lia. reflexivity.
Qed.

Fixpoint cspec (lens : list Z) (col idx r c : Z) : Z :=
  match lens with
  | [] => -1
  | c0 :: rest => if (c =? col) && (r <? c0) then idx + r else cspec rest (col + 1) (idx + c0) r c
  end.

Lemma cell_all_ents : forall lens col idx r c, 0 <= r -> Forall (fun y => 0 <= y) lens ->
  cell_at (all_ents col idx lens) r c = cspec lens col idx r c.
Proof.
  induction lens as [|c0 rest IH]; intros col idx r c Hr HF; [reflexivity|].
  inversion HF as [|? ? H0 Hrest]; subst. cbn [all_ents cspec]. rewrite cell_col_ents, IH by assumption.
  destruct ((c =? col) && (r <? c0)) eqn:E.
  - replace ((c =? col) && (0 <=? r) && (r <? 0 + Z.of_nat (Z.to_nat c0))) with true by lia. lia.
  - replace ((c =? col) && (0 <=? r) && (r <? 0 + Z.of_nat (Z.to_nat c0))) with false by lia. reflexivity.
Qed.

Lemma cspec_out : forall lens col idx r c, c < col -> cspec lens col idx r c = -1.
Proof.
  induction lens as [|c0 rest IH]; intros col idx r c H; [reflexivity|]. cbn [cspec].
  replace (c =? col) with false by lia. cbn [andb]. apply IH. lia.
Qed.

Lemma cspec_nth : forall lens col idx r (j : nat), (j < length lens)%nat ->
  cspec lens col idx r (col + Z.of_nat j)
  = if r <? nth j lens 0 then idx + sumZ (firstn j lens) + r else -1.
Proof.
  induction lens as [|c0 rest IH]; intros col idx r j Hj; [cbn in Hj; lia|].
  cbn [cspec]. destruct j as [|j].
  - replace (col + Z.of_nat 0 =? col) with true by lia. cbn [andb nth firstn]. change (sumZ []) with 0.
    destruct (r <? c0); [lia|]. apply cspec_out. lia.
  - replace (col + Z.of_nat (S j) =? col) with false by lia. cbn [andb nth firstn].
    replace (col + Z.of_nat (S j)) with (col + 1 + Z.of_nat j) by lia.
    rewrite IH by (cbn in Hj; lia). rewrite sumZ_cons. destruct (r <? nth j rest 0); lia.
Qed.

(* ---------------------------------------------------------------- column-first: the grid *)
Lemma nth_map_seq {A} (f : nat -> A) k c d : (c < k)%nat -> nth c (map f (seq 0 k)) d = f c.
Proof.
  intros H. rewrite (nth_indep _ d (f 0%nat)) by (rewrite map_length, seq_length; exact H).
  rewrite map_nth, seq_nth by exact H. reflexivity.
Qed.

Lemma column_of_map {X} (row : X -> list Z) c (l : list X) :
  column_of c (map row l) = map (fun r => nth c (row r) (-1)) l.
Proof. induction l as [|x l IH]; [reflexivity|]. cbn [map column_of]. f_equal. exact IH. Qed.

Lemma nonblank_flat_map {X} (f : X -> list Z) l : nonblank (flat_map f l) = flat_map (fun x => nonblank (f x)) l.
Proof. induction l as [|x l IH]; [reflexivity|]. cbn [flat_map]. rewrite nonblank_app, IH. reflexivity. Qed.

Lemma map_const {X} (f : X -> Z) a l : (forall x, In x l -> f x = a) -> map f l = repeat a (length l).
Proof.
  induction l as [|x l IH]; intros H; [reflexivity|]. cbn [map length repeat]. f_equal; [apply H; left; reflexivity|].
  apply IH. intros y Hy. apply H. right. exact Hy.
Qed.

Lemma nb_col R L S : 0 <= S -> 0 <= L <= Z.of_nat R ->
  nonblank (map (fun r => if Z.of_nat r <? L then S + Z.of_nat r else -1) (seq 0 R)) = iota (Z.to_nat L) S.
Proof.
  intros HS HL. set (l := Z.to_nat L). replace R with (l + (R - l))%nat by lia.
  rewrite seq_app, map_app, nonblank_app. cbn [Nat.add].
  rewrite (map_ext_in _ (fun r => S + Z.of_nat r) (seq 0 l)).
  2:{ intros r Hr. apply in_seq in Hr. replace (Z.of_nat r <? L) with true by lia. reflexivity. }
  rewrite (map_const _ (-1) (seq l (R - l))).
  2:{ intros r Hr. apply in_seq in Hr. replace (Z.of_nat r <? L) with false by lia. reflexivity. }
  rewrite nonblank_blanks, app_nil_r.
  assert (G : forall k s from, map (fun r => from + Z.of_nat r) (seq s k) = iota k (from + Z.of_nat s)).
  { induction k as [|k IH]; intros s from; [reflexivity|]. cbn [seq map iota]. f_equal. rewrite IH. f_equal. lia. }
  rewrite G. replace (S + Z.of_nat 0) with S by lia. apply nonblank_id. apply iota_nonneg. exact HS.
Qed.

Lemma flat_map_map {X Y Z0} (g : X -> Y) (f : Y -> list Z0) l : flat_map f (map g l) = flat_map (fun x => f (g x)) l.
Proof. induction l as [|x l IH]; [reflexivity|]. cbn [map flat_map]. rewrite IH. reflexivity. Qed.

Lemma cols_iota : forall lens start, Forall (fun y => 0 <= y) lens ->
  flat_map (fun c => iota (Z.to_nat (nth c lens 0)) (start + sumZ (firstn c lens))) (seq 0 (length lens))
  = iota (Z.to_nat (sumZ lens)) start.
Proof.
  induction lens as [|c0 rest IH]; intros start HF; [reflexivity|].
  inversion HF as [|? ? H0 Hr]; subst. cbn [length]. rewrite <- cons_seq, <- seq_shift. cbn [flat_map].
  rewrite flat_map_map. cbn [nth firstn]. change (sumZ []) with 0. replace (start + 0) with start by lia.
  rewrite (flat_map_ext _ (fun c => iota (Z.to_nat (nth c rest 0)) (start + c0 + sumZ (firstn c rest)))).
  2:{ intros c. rewrite sumZ_cons. f_equal. lia. }
  rewrite IH by exact Hr. rewrite sumZ_cons. pose proof (sum_nonneg rest Hr).
  replace (Z.to_nat (c0 + sumZ rest)) with (Z.to_nat c0 + Z.to_nat (sumZ rest))%nat by lia.
  rewrite iota_app. f_equal. f_equal. lia.
Qed.

Lemma in_firstn_in {X} k : forall (l : list X) x, In x (firstn k l) -> In x l.
Proof.
  induction k as [|k IH]; intros l x H; [destruct H|]. destruct l as [|y l]; [destruct H|].
  cbn [firstn] in H. destruct H as [->|H]; [left; reflexivity|right; apply IH; exact H].
Qed.

Lemma flat_map_ext_in {X Y} (f g : X -> list Y) l : (forall x, In x l -> f x = g x) -> flat_map f l = flat_map g l.
Proof.
  induction l as [|x l IH]; intros H; [reflexivity|]. cbn [flat_map]. rewrite H by (left; reflexivity).
  f_equal. apply IH. intros y Hy. apply H. right. exact Hy.
Qed.

Theorem columns_column_first : forall n cc rtl, 0 <= n -> 1 <= cc -> grid_ok n cc true rtl = true.
Proof.
  intros n cc rtl Hn Hc. unfold grid_ok, grid_of, iter_items.
  destruct (cc =? 0) eqn:E0; [lia|]. rewrite cf_positions_eq by assumption. cbn [bind].
  rewrite div_up by assumption.
  pose proof (Z.div_mod n cc ltac:(lia)) as E. pose proof (Z.mod_pos_bound n cc ltac:(lia)) as B.
  assert (Hq : 0 <= n / cc) by (apply Z.div_pos; lia).
  set (lens := column_lengths n cc). set (q := n / cc) in *. set (m := n mod cc) in *.
  set (ccn := Z.to_nat cc). set (qn := Z.to_nat q). set (mn := Z.to_nat m).
  assert (Llen : length lens = ccn) by (unfold lens; rewrite column_lengths_eq, map_length, seq_length; reflexivity).
  assert (Lnth : forall c, (c < ccn)%nat -> nth c lens 0 = clen q m c).
  { intros c Hcn. unfold lens. rewrite column_lengths_eq. apply nth_map_seq. exact Hcn. }
  assert (Lnn : Forall (fun y => 0 <= y) lens).
  { unfold lens. rewrite column_lengths_eq. apply Forall_forall. intros x Hx. apply in_map_iff in Hx as [c [<- _]].
    unfold clen. fold q m. destruct (Z.of_nat c <? m); lia. }
  assert (Lsum : sumZ lens = n).
  { unfold lens. rewrite column_lengths_eq. fold q m. rewrite sum_clen by lia. nia. }
  (* the cell values *)
  set (cv := fun (r c : nat) => cspec lens 0 0 (Z.of_nat r) (Z.of_nat c)).
  assert (Ecell : forall r c, cell_at (all_ents 0 0 lens) (Z.of_nat r) (Z.of_nat c) = cv r c).
  { intros r c. unfold cv. apply cell_all_ents; [lia|exact Lnn]. }
  assert (Ecv : forall r c, (c < ccn)%nat ->
            cv r c = if Z.of_nat r <? clen q m c then sumZ (firstn c lens) + Z.of_nat r else -1).
  { intros r c Hcn. unfold cv. replace (Z.of_nat c) with (0 + Z.of_nat c) by lia.
    rewrite cspec_nth by (rewrite Llen; exact Hcn). rewrite Lnth by exact Hcn. reflexivity. }
  assert (Spos : forall c, 0 <= sumZ (firstn c lens)).
  { intros c. apply sum_nonneg. apply Forall_forall. intros x Hx. rewrite Forall_forall in Lnn. apply Lnn.
    apply (in_firstn_in c lens x). exact Hx. }
  set (Rn := Z.to_nat (q + (if m =? 0 then 0 else 1))).
  set (rowsL := map (fun r => map (fun c => cv r c) (seq 0 ccn)) (seq 0 Rn)).
  (* the row-major list before the break at the first blank is rowsL flattened *)
  assert (ERM : flat_map (fun r => map (fun c => cell_at (all_ents 0 0 lens) (Z.of_nat r) (Z.of_nat c)) (seq 0 ccn)) (seq 0 Rn)
                = concat rowsL).
  { unfold rowsL. rewrite flat_map_concat_map. f_equal. apply map_ext. intros r. apply map_ext. intros c. apply Ecell. }
  rewrite ERM.
  (* split it into the n items and the trailing blanks *)
  set (A := flat_map (fun r => map (fun c => cv r c) (seq 0 ccn)) (seq 0 qn)
            ++ (if m =? 0 then [] else map (fun c => cv qn c) (seq 0 mn))).
  set (Bl := if m =? 0 then @nil Z else repeat (-1) (ccn - mn)).
  assert (Esplit : concat rowsL = A ++ Bl).
  { unfold rowsL, A, Bl, Rn. rewrite <- flat_map_concat_map. destruct (m =? 0) eqn:Em.
    - replace (Z.to_nat (q + 0)) with qn by (unfold qn; lia). rewrite !app_nil_r. reflexivity.
    - replace (Z.to_nat (q + 1)) with (qn + 1)%nat by (unfold qn; lia). rewrite seq_app, flat_map_app. cbn [Nat.add seq flat_map].
      rewrite app_nil_r. rewrite <- app_assoc. f_equal.
      replace ccn with (mn + (ccn - mn))%nat at 1 by (unfold mn, ccn; lia). rewrite seq_app, map_app. cbn [Nat.add]. f_equal.
      rewrite (map_const _ (-1)); [rewrite seq_length; reflexivity|].
      intros c Hcin. apply in_seq in Hcin. rewrite Ecv by lia. unfold clen.
      replace (Z.of_nat c <? m) with false by (unfold mn in Hcin; lia).
      replace (Z.of_nat qn <? q + 0) with false by (unfold qn; lia). reflexivity. }
  assert (HA : Forall (fun x => x <> -1) A).
  { unfold A. apply Forall_app. split.
    - apply Forall_forall. intros x Hx. apply in_flat_map in Hx as [r [Hr Hx]]. apply in_seq in Hr.
      apply in_map_iff in Hx as [c [<- Hcin]]. apply in_seq in Hcin. rewrite Ecv by lia. unfold clen.
      replace (Z.of_nat r <? q + (if Z.of_nat c <? m then 1 else 0)) with true
        by (unfold qn in Hr; destruct (Z.of_nat c <? m); lia).
      pose proof (Spos c). lia.
    - destruct (m =? 0) eqn:Em; [constructor|]. apply Forall_forall. intros x Hx.
      apply in_map_iff in Hx as [c [<- Hcin]]. apply in_seq in Hcin.
      rewrite Ecv by (unfold mn, ccn in *; lia). unfold clen.
      replace (Z.of_nat c <? m) with true by (unfold mn in Hcin; lia).
      replace (Z.of_nat qn <? q + 1) with true by (unfold qn; lia). pose proof (Spos c). lia. }
  assert (LA : length A = Z.to_nat n).
  { unfold A. rewrite app_length.
    assert (G : forall k, length (flat_map (fun r => map (fun c => cv r c) (seq 0 ccn)) (seq 0 k)) = (k * ccn)%nat).
    { induction k as [|k IH]; [reflexivity|]. rewrite seq_S, flat_map_app, app_length, IH. cbn [flat_map].
      rewrite app_nil_r, map_length, seq_length. lia. }
    rewrite G. destruct (m =? 0) eqn:Em; [cbn [length]|rewrite map_length, seq_length]; unfold qn, ccn, mn; nia. }
  rewrite Esplit. rewrite take_until_blank_app.
  2: exact HA.
  2:{ unfold Bl. destruct (m =? 0) eqn:Em; [exact Logic.I|].
      destruct (ccn - mn)%nat eqn:Ek; [unfold ccn, mn in Ek; lia|reflexivity]. }
  replace (if m =? 0 then [] else repeat (-1) (Z.to_nat (cc - m))) with Bl
    by (unfold Bl; destruct (m =? 0); [reflexivity|f_equal; unfold ccn, mn; lia]).
  rewrite <- Esplit.
  rewrite checker_rows.
  assert (Frows : Forall (fun r => length r = ccn) rowsL).
  { unfold rowsL. apply Forall_forall. intros x Hx. apply in_map_iff in Hx as [r [<- _]].
    rewrite map_length, seq_length. reflexivity. }
  assert (Lrows : length rowsL = Rn) by (unfold rowsL; rewrite map_length, seq_length; reflexivity).
  rewrite chunks_concat with (k := ccn); [|unfold ccn; lia|exact Frows|].
  2:{ rewrite Lrows, Esplit, app_length, LA.
      assert (q <= cc * q) by nia.
      assert (Z.of_nat Rn <= n) by (unfold Rn; destruct (m =? 0) eqn:Em; lia). lia. }
  unfold columns_once_b. fold ccn.
  (* (1) row lengths *)
  replace (forallb (fun row => (length row =? ccn)%nat) rowsL) with true.
  2:{ symmetry. apply forallb_forall. intros x Hx. rewrite Forall_forall in Frows. rewrite (Frows x Hx). apply Nat.eqb_refl. }
  (* (2) reading down the columns gives 0 .. n-1 *)
  assert (Ecols : nonblank (flat_map (fun c => column_of c rowsL) (seq 0 ccn)) = iota (Z.to_nat n) 0).
  { rewrite nonblank_flat_map.
    rewrite (flat_map_ext_in _ (fun c => iota (Z.to_nat (nth c lens 0)) (0 + sumZ (firstn c lens)))).
    - rewrite <- Llen. rewrite cols_iota by exact Lnn. rewrite Lsum. reflexivity.
    - intros c Hcin. apply in_seq in Hcin. unfold rowsL. rewrite column_of_map.
      rewrite (map_ext_in _ (fun r => if Z.of_nat r <? clen q m c then sumZ (firstn c lens) + Z.of_nat r else -1)).
      2:{ intros r _. rewrite nth_map_seq by lia. apply Ecv. lia. }
      rewrite nb_col; [rewrite Lnth by lia; reflexivity|apply Spos|].
      unfold clen, Rn. destruct (Z.of_nat c <? m) eqn:E1, (m =? 0) eqn:E2; lia. }
  rewrite Ecols, zlist_eqb_refl.
  (* (3) the first n cells in row-major order are items, (4) there are at least n cells *)
  rewrite Esplit, firstn_app, LA, Nat.sub_diag, <- LA, firstn_all. cbn [firstn]. rewrite app_nil_r.
  rewrite (nonblank_id A HA), zlist_eqb_refl. cbn [andb]. apply Nat.leb_le. rewrite app_length. lia.
Qed.

(* Columns: for EVERY item count and EVERY column count, each of the four fill orders places every item
   exactly once, in the documented order, blanks only after the last item *)
Theorem columns_each_once : forall n cc cf rtl, 0 <= n -> 1 <= cc -> grid_ok n cc cf rtl = true.
Proof. intros n cc [|] rtl Hn Hc; [apply columns_column_first|apply columns_row_first]; assumption. Qed.

(* ... and this is what Columns.__rich_console__ (repaired code) hands to the table: whatever the widths,
   padding, `equal`, `width`, whenever it yields a grid with at least one column *)
Theorem columns_grid_once : forall ws cwidth pl pr equal cf rtl W cc g,
  ws <> [] -> columns_grid_fixed ws cwidth pl pr equal cf rtl W = Ok (cc, g) -> 1 <= cc ->
  columns_once_b cf rtl (length ws) cc g = true.
Proof.
  intros ws cwidth pl pr equal cf rtl W cc g Hne H Hc. unfold columns_grid_fixed in H.
  assert (Hn : 0 < zlen ws) by (destruct ws; [congruence|unfold zlen; cbn [length]; lia]).
  destruct (zlen ws =? 0) eqn:E0; [lia|].
  match type of H with bind ?X _ = _ => destruct X as [cc'| |] end; cbn [bind] in H; try discriminate.
  destruct (iter_items (zlen ws) cc' cf) as [items| |] eqn:EI; cbn [bind] in H; try discriminate.
  inversion H; subst cc' g.
  pose proof (columns_each_once (zlen ws) cc cf rtl ltac:(lia) Hc) as G.
  unfold grid_ok, grid_of in G. rewrite EI in G. unfold zlen in G. rewrite Nat2Z.id in G. exact G.
Qed.
