(* C05 proofs, part 7: histories over a store of named Text values -- frame property and refinement
   of a store of independent reference values. *)
From RichModel Require Import Prelude Cells TextOps SpecTextOps.
From RichProofs Require Import TextOpsP TextOpsP2 TextOpsP3 TextOpsP4 TextOpsP5.
From Coq Require Import ZifyBool Lia.

Lemma nth_error_sset_other {A} (st : list A) i v k t :
  nth_error st k = Some t -> k <> i -> nth_error (sset st i v) k = Some t.
Proof.
  revert i k. induction st as [|x st IH]; intros i k H Hk; [destruct k; discriminate|].
  destruct i as [|i]; destruct k as [|k]; simpl in *; try congruence. apply IH; congruence.
Qed.
Lemma map_sset {A B} (f : A -> B) st i v : map f (sset st i v) = sset (map f st) i (f v).
Proof.
  revert i. induction st as [|x st IH]; intros i; [reflexivity|]. destruct i; simpl; [reflexivity|]. now rewrite IH.
Qed.
Lemma Forall_sset {A} (P : A -> Prop) st i v : Forall P st -> P v -> Forall P (sset st i v).
Proof.
  revert i. induction st as [|x st IH]; intros i H Hv; [constructor; auto|]. inversion H; subst.
  destruct i; simpl; constructor; auto.
Qed.
Lemma sgets_map {A B} (f : A -> B) st idx : sgets (map f st) idx = option_map (map f) (sgets st idx).
Proof.
  induction idx as [|i idx IH]; [reflexivity|]. simpl. rewrite nth_error_map, IH.
  destruct (nth_error st i); simpl; [|reflexivity]. destruct (sgets st idx); reflexivity.
Qed.
Lemma sgets_Forall {A} (P : A -> Prop) st idx l : Forall P st -> sgets st idx = Some l -> Forall P l.
Proof.
  intros H. revert l. induction idx as [|i idx IH]; intros l E; simpl in E.
  - inversion E. constructor.
  - destruct (nth_error st i) eqn:En; [|discriminate]. destruct (sgets st idx) eqn:Eg; [|discriminate].
    inversion E; subst. constructor; [|now apply IH]. rewrite Forall_forall in H. apply H.
    eapply nth_error_In. exact En.
Qed.

(* ---------- frame: a step changes at most the slot it names; every other live value is untouched ---------- *)
Definition starget (s : sop) : option nat :=
  match s with
  | SApply y _ _ | SJoin y _ _ | SAssemble y _ _ => Some y
  | SAppendText x _ | SAppendTextFast x _ | SCopyStyles x _ => Some x
  | SLines _ _ => None
  end.

Lemma nth_error_app_keep {A} (st l : list A) k t : nth_error st k = Some t -> nth_error (st ++ l) k = Some t.
Proof. intros H. rewrite nth_error_app1; [exact H|]. apply nth_error_Some. congruence. Qed.

Theorem sstep_frame fx st s k t :
  nth_error st k = Some t -> starget s <> Some k -> nth_error (sstep fx st s) k = Some t.
Proof.
  intros H Hk. unfold sstep. destruct (sapply fx s st) as [st'| |] eqn:E; try exact H.
  assert (forall i v, starget s = Some i -> nth_error (sset st i v) k = Some t) as K.
  { intros i v Hi. apply nth_error_sset_other; [exact H|]. intros ->. now apply Hk. }
  destruct s; simpl in E, K; unfold bind in E;
    repeat match type of E with
           | context [match ?x with _ => _ end] => destruct x eqn:?; try discriminate
           end;
    inversion E; subst; try (apply K; reflexivity); try (now apply nth_error_app_keep).
Qed.

Corollary srun_frame fx sops : forall st k t,
  nth_error st k = Some t -> Forall (fun s => starget s <> Some k) sops -> nth_error (srun fx sops st) k = Some t.
Proof.
  induction sops as [|s sops IH]; intros st k t H Hs; [exact H|]. inversion Hs; subst.
  unfold srun. simpl. apply IH; [|assumption]. now apply sstep_frame.
Qed.

(* ---------- refinement of the store of independent reference values ---------- *)
Definition ssim (a : res (list text)) (b : res (list ref)) : Prop :=
  match a, b with
  | Ok st', Ok rs' => map abs st' = rs' /\ Forall Consistent st'
  | Crash k, Crash k' => k = k'
  | Doc e, Doc e' => e = e'
  | _, _ => False
  end.

Definition proved_sop (s : sop) : bool :=
  match s with SApply _ _ o => proved_op o | SLines _ _ => false | _ => true end.

Lemma sim_sop s st : proved_sop s = true -> Forall Consistent st -> sop_ok s (map abs st) = true ->
  ssim (sapply FIXED s st) (r_sapply s (map abs st)).
Proof.
  intros Hp Hc Hok.
  assert (forall i t, nth_error st i = Some t -> Consistent t) as C.
  { intros i t E. rewrite Forall_forall in Hc. apply Hc. eapply nth_error_In. exact E. }
  destruct s; simpl in Hp; try discriminate; simpl sapply; simpl r_sapply; simpl in Hok;
    rewrite ?nth_error_map, ?sgets_map in *.
  - (* SApply *)
    destruct (nth_error st x) as [t|] eqn:Ex; simpl in *; [|reflexivity].
    destruct (inplace o && negb (Nat.eqb y x)); [reflexivity|].
    pose proof (sim_op o t Hp (C _ _ Ex) Hok) as S.
    destruct (apply FIXED o t) as [t'| |]; destruct (r_apply o (abs t)) as [r'| |]; simpl in S; try contradiction; simpl; auto.
    destruct S as [S1 S2]. split; [now rewrite map_sset, S1|now apply Forall_sset].
  - (* append(Text) *)
    destruct (nth_error st x) as [t|] eqn:Ex; simpl; [|reflexivity].
    destruct (nth_error st z) as [o|] eqn:Ez; simpl; [|reflexivity].
    destruct (Nat.eqb x z); [reflexivity|].
    pose proof (sim_append_text_obj t o (C _ _ Ex) (C _ _ Ez)) as S.
    destruct (append_text_obj t o) as [t'| |]; simpl in S; try contradiction. destruct S as [S1 S2]. simpl.
    split; [now rewrite map_sset, S1|now apply Forall_sset].
  - (* append_text *)
    destruct (nth_error st x) as [t|] eqn:Ex; simpl; [|reflexivity].
    destruct (nth_error st z) as [o|] eqn:Ez; simpl; [|reflexivity].
    destruct (Nat.eqb x z); [reflexivity|].
    pose proof (sim_append_text t o (C _ _ Ex) (C _ _ Ez)) as S.
    destruct (append_text t o) as [t'| |]; simpl in S; try contradiction. destruct S as [S1 S2]. simpl.
    split; [now rewrite map_sset, S1|now apply Forall_sset].
  - (* copy_styles *)
    destruct (nth_error st x) as [t|] eqn:Ex; simpl in *; [|reflexivity].
    destruct (nth_error st z) as [o|] eqn:Ez; simpl in *; [|reflexivity].
    destruct (Nat.eqb x z); [reflexivity|].
    unfold abs_chars in Hok. rewrite !zlen_abs_from in Hok.
    destruct (sim_copy_styles t o (C _ _ Ex) (C _ _ Ez)) as [S1 S2]; [lia|]. simpl.
    split; [now rewrite map_sset, S1|now apply Forall_sset].
  - (* join *)
    destruct (nth_error st sep) as [sp|] eqn:Es; simpl; [|reflexivity].
    destruct (sgets st lines) as [ls|] eqn:El; simpl; [|reflexivity].
    pose proof (sim_join sp ls (C _ _ Es) (sgets_Forall _ _ _ _ Hc El)) as S.
    destruct (join FIXED sp ls) as [r| |]; simpl in S; try contradiction. destruct S as [S1 S2]. simpl.
    split; [now rewrite map_sset, S1|now apply Forall_sset].
  - (* assemble *)
    destruct (sgets st parts) as [ps|] eqn:El; simpl; [|reflexivity].
    assert (Forall part_ok (map PText ps)) as Hps.
    { rewrite Forall_map. exact (sgets_Forall _ _ _ _ Hc El). }
    pose proof (sim_assemble (default_meta b) (map PText ps) Hps) as S.
    rewrite map_map in S. simpl in S. rewrite <- (map_map abs RText) in S.
    destruct (assemble FIXED (default_meta b) (map PText ps)) as [r| |]; simpl in S; try contradiction.
    destruct S as [S1 S2]. simpl. split; [now rewrite map_sset, S1|now apply Forall_sset].
Qed.

Theorem store_refine_proved : forall sops st,
  Forall Consistent st -> forallb proved_sop sops = true -> in_sdomain sops (map abs st) = true ->
  map abs (srun FIXED sops st) = srun_ref sops (map abs st) /\ Forall Consistent (srun FIXED sops st).
Proof.
  induction sops as [|s sops IH]; intros st Hc Hp Hd; [split; [reflexivity|exact Hc]|].
  simpl in Hp, Hd. apply andb_prop in Hp. destruct Hp as [Hp1 Hp2]. apply andb_prop in Hd. destruct Hd as [Hd1 Hd2].
  pose proof (sim_sop s st Hp1 Hc Hd1) as S.
  assert (map abs (sstep FIXED st s) = r_sstep (map abs st) s /\ Forall Consistent (sstep FIXED st s)) as [S1 S2].
  { unfold sstep, r_sstep. destruct (sapply FIXED s st); destruct (r_sapply s (map abs st)); simpl in S;
      try contradiction; auto. }
  unfold srun, srun_ref. simpl fold_left. rewrite <- S1. apply IH; auto. rewrite S1. exact Hd2.
Qed.
