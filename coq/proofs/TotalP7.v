(* C14: Console.print(s, markup=False) never fails -- every string, every width, every emoji oracle,
   every highlighter whose spans lie within the text. *)
From RichModel Require Import Prelude Total SpecTotal.
From RichModel Require TextOps Wrap.
From RichProofs Require Import TotalP4 TotalP5 TotalP6.
From Coq Require Import ZifyBool.

Lemma in_range_okT p sps : in_range_b (zlen p) sps = true -> okT Z (Wrap.mkText p sps 0).
Proof.
  intros H. unfold okT, Wrap.tlen. cbn [Wrap.plain Wrap.spans]. unfold in_range_b in H.
  rewrite forallb_forall in H. apply Forall_forall. intros sp Hsp. specialize (H sp Hsp).
  destruct sp as [[s e] st]. unfold span_in_b in H. unfold ok_sp, Wrap.sp_start, Wrap.sp_end. cbn [fst snd]. lia.
Qed.

Lemma okT_line_ok l : okT Z l -> line_ok l.
Proof.
  unfold okT, line_ok, Wrap.tlen. intros H. eapply Forall_impl; [|exact H].
  intros sp Hsp. exact Hsp.
Qed.

Theorem wrapped_lines_ok p sps W : in_range_b (zlen p) sps = true -> 1 <= W -> Forall line_ok (wrapped p sps W).
Proof.
  intros H HW. unfold wrapped.
  assert (R := wrap_range Z Z.eqb 0 (fun _ b => b) Wrap.repaired (Wrap.mkText p sps 0) W eq_refl (in_range_okT p sps H) HW).
  eapply Forall_impl; [|exact R]. intros l Hl. apply okT_line_ok. exact Hl.
Qed.

Theorem render_text_total_full p sps W : in_range_b (zlen p) sps = true -> exists r, render_text p sps W = Ok r.
Proof.
  intros H. destruct (W <? 1) eqn:E.
  - unfold render_text. rewrite E. eexists. reflexivity.
  - apply render_text_total. apply wrapped_lines_ok; [exact H|lia].
Qed.

Theorem print_no_markup_total hl E s W :
  (forall p, in_range_b (zlen p) (hl p) = true) -> exists r, print_no_markup hl E s W = Ok r.
Proof. intros H. unfold print_no_markup. apply render_text_total_full. apply H. Qed.

Theorem print_no_markup_documented hl E s W :
  (forall p, in_range_b (zlen p) (hl p) = true) -> documented_b OP_print (code_of (print_no_markup hl E s W)) = true.
Proof. intros H. destruct (print_no_markup_total hl E s W H) as [r Hr]. rewrite Hr. reflexivity. Qed.
