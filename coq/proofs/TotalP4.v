(* C14: Text.render's enter/leave sweep (TextOps.render) never fails on a text whose spans lie within
   it (0 <= start <= end <= len): every leave finds its id on the stack and the stack is never empty
   when a segment is emitted.  Used for Console.print(s, markup=False). *)
From RichModel Require Import Prelude.
From RichModel Require Import TextOps.
From Coq Require Import ZifyBool Permutation Sorting.Sorted.

Definition is_enter (id : Z) (e : event) : bool := negb (snd (fst e)) && (snd e =? id).
Definition is_leave (id : Z) (e : event) : bool := snd (fst e) && (snd e =? id).
Definition cnt (id : Z) (l : list Z) : Z := zlen (filter (Z.eqb id) l).
Definition ce (id : Z) (a : list event) : Z := zlen (filter (is_enter id) a).
Definition cl (id : Z) (a : list event) : Z := zlen (filter (is_leave id) a).

Lemma zlen_cons {A} (x : A) l : zlen (x :: l) = 1 + zlen l.
Proof. unfold zlen. cbn [length]. lia. Qed.
Lemma zlen_nonneg {A} (l : list A) : 0 <= zlen l. Proof. unfold zlen. lia. Qed.
Lemma zlen_app {A} (a b : list A) : zlen (a ++ b) = zlen a + zlen b.
Proof. unfold zlen. rewrite app_length. lia. Qed.

Lemma cnt_app id a b : cnt id (a ++ b) = cnt id a + cnt id b.
Proof. unfold cnt. rewrite filter_app, zlen_app. reflexivity. Qed.

Lemma remove_first_cnt id : forall stack, 1 <= cnt id stack ->
  exists s', remove_first id stack = Some s' /\ forall j, cnt j s' = cnt j stack - (if j =? id then 1 else 0).
Proof.
  induction stack as [|y r IH]; intros H.
  - cbn in H. lia.
  - cbn [remove_first]. destruct (id =? y) eqn:E.
    + exists r. split; [reflexivity|]. intros j. unfold cnt. cbn [filter].
      assert (y = id) by lia. subst y. destruct (j =? id) eqn:Ej; [rewrite zlen_cons|]; lia.
    + assert (H' : 1 <= cnt id r). { unfold cnt in *. cbn [filter] in H. rewrite E in H. exact H. }
      destruct (IH H') as [s' [Hs Hc]]. rewrite Hs. exists (y :: s'). split; [reflexivity|].
      intros j. specialize (Hc j). unfold cnt in *. cbn [filter]. destruct (j =? y); [rewrite !zlen_cons|]; lia.
Qed.

(* the ballot condition: in every prefix of the events still to come, an id is left no more often than
   it is on the stack or entered *)
Definition bal (stack : list Z) (rest : list event) : Prop :=
  forall a b, rest = a ++ b -> forall id, cl id a <= cnt id stack + ce id a.

Definition no_leave0 (l : list event) : Prop := Forall (fun e => is_leave 0 e = false) l.

Lemma render_go_cons p styles off lv id e2 rest stack :
  render_go p styles ((off, lv, id) :: e2 :: rest) stack =
  (do stack' <- (if lv then match remove_first id stack with Some s => Ok s | None => Crash K_ValueError end
                 else Ok (stack ++ [id]));
   do tail <- render_go p styles (e2 :: rest) stack';
   if off <? fst (fst e2) then
     match stack' with [] => Crash K_Other | _ =>
       let sty := map (fun i => nth (Z.to_nat i) styles 0) (sort_stable (fun i => i) stack') in
       Ok (map (fun c => (c, sty)) (py_slice p off (fst (fst e2))) ++ tail) end
   else Ok tail).
Proof. destruct e2 as [[next lv2] id2]. reflexivity. Qed.

Lemma render_go_total p styles : forall evs stack,
  bal stack evs ->
  (1 <= cnt 0 stack \/ exists off rest, evs = (off, false, 0) :: rest) ->
  no_leave0 (removelast evs) ->
  exists r, render_go p styles evs stack = Ok r.
Proof.
  induction evs as [|e evs IH]; intros stack Hb H0 Hn; [eexists; reflexivity|].
  destruct evs as [|e2 rest]; [destruct e as [[off lv] id]; eexists; reflexivity|].
  destruct e as [[off lv] id].
  rewrite render_go_cons.
  assert (Hn' : no_leave0 (removelast (e2 :: rest)) /\ is_leave 0 (off, lv, id) = false).
  { change (removelast ((off, lv, id) :: e2 :: rest))
      with ((off, lv, id) :: removelast (e2 :: rest)) in Hn.
    inversion Hn; subst. split; assumption. }
  destruct Hn' as [Hn' Hl0].
  assert (Hstack : exists stack',
            (if lv then match remove_first id stack with Some s => Ok s | None => Crash K_ValueError end
             else Ok (stack ++ [id])) = Ok stack'
            /\ bal stack' (e2 :: rest) /\ 1 <= cnt 0 stack').
  { destruct lv.
    - (* leaving *)
      assert (H1 : 1 <= cnt id stack).
      { specialize (Hb [(off, true, id)] (e2 :: rest) eq_refl id).
        unfold cl, ce, is_leave, is_enter in Hb. cbn [filter fst snd negb andb] in Hb.
        rewrite Z.eqb_refl in Hb. cbn in Hb. lia. }
      destruct (remove_first_cnt id stack H1) as [s' [Hs Hc]]. rewrite Hs. exists s'.
      split; [reflexivity|]. split.
      + intros a b Hab j. assert (Hab' : (off, true, id) :: e2 :: rest = ((off, true, id) :: a) ++ b) by (cbn [app]; f_equal; exact Hab).
        specialize (Hb ((off, true, id) :: a) b Hab' j).
        unfold cl, ce in *. cbn [filter] in Hb. unfold is_leave at 1 in Hb. unfold is_enter at 1 in Hb.
        cbn [fst snd negb andb] in Hb. rewrite (Hc j).
        destruct (id =? j) eqn:E.
        * assert (Ej : j =? id = true) by lia. rewrite Ej. rewrite zlen_cons in Hb. lia.
        * assert (Ej : j =? id = false) by lia. rewrite Ej. lia.
      + rewrite (Hc 0). unfold is_leave in Hl0. cbn [fst snd andb] in Hl0.
        assert (E : 0 =? id = false) by lia. rewrite E.
        destruct H0 as [H0|[o [r H0]]]; [lia|inversion H0].
    - (* entering *)
      exists (stack ++ [id]). split; [reflexivity|]. split.
      + intros a b Hab j. assert (Hab' : (off, false, id) :: e2 :: rest = ((off, false, id) :: a) ++ b) by (cbn [app]; f_equal; exact Hab).
        specialize (Hb ((off, false, id) :: a) b Hab' j).
        unfold cl, ce in *. cbn [filter] in Hb. unfold is_leave at 1 in Hb. unfold is_enter at 1 in Hb.
        cbn [fst snd negb andb] in Hb. rewrite cnt_app. unfold cnt at 2. cbn [filter].
        destruct (id =? j) eqn:E.
        * assert (Ej : j =? id = true) by lia. rewrite Ej. rewrite zlen_cons in Hb. cbn. lia.
        * assert (Ej : j =? id = false) by lia. rewrite Ej. cbn. lia.
      + rewrite cnt_app. unfold cnt at 2. cbn [filter].
        destruct H0 as [H0|[o [r H0]]].
        * assert (Hz := zlen_nonneg (if 0 =? id then [id] else [])). destruct (0 =? id); lia.
        * inversion H0; subst. cbn. assert (Hz := zlen_nonneg (filter (Z.eqb 0) stack)). unfold cnt. lia. }
  destruct Hstack as [stack' [Hs [Hb' H0']]]. rewrite Hs. cbn [bind].
  destruct (IH stack' Hb' (or_introl H0') Hn') as [tail Ht].
  match goal with |- exists r, bind ?X ?F = Ok r => assert (HX : X = Ok tail) by exact Ht; rewrite HX end. cbn [bind].
  destruct (off <? fst (fst e2)); [|eexists; reflexivity].
  destruct stack' as [|x s]; [cbn in H0'; lia|]. eexists. reflexivity.
Qed.

(* ------------------------------------------------------------------ the stable insertion sort *)
Section SortK.
  Variable key : event -> Z.
  Definition leK (a b : event) : Prop := key a <= key b.

  Lemma ins_after_perm x : forall l, Permutation (ins_after key x l) (x :: l).
  Proof.
    induction l as [|y r IH]; cbn [ins_after]; [reflexivity|].
    destruct (key x <? key y); [reflexivity|]. rewrite IH. apply perm_swap.
  Qed.

  Lemma ins_after_sorted x : forall l, StronglySorted leK l -> StronglySorted leK (ins_after key x l).
  Proof.
    induction l as [|y r IH]; intros Hs; cbn [ins_after].
    - constructor; constructor.
    - destruct (key x <? key y) eqn:E.
      + constructor; [exact Hs|]. inversion Hs; subst. constructor; [unfold leK; lia|].
        eapply Forall_impl; [|eassumption]. intros a Ha. unfold leK in *. lia.
      + inversion Hs; subst. constructor; [apply IH; assumption|].
        assert (P := ins_after_perm x r). apply Permutation_sym in P.
        eapply Permutation_Forall; [exact P|]. constructor; [unfold leK; lia|assumption].
  Qed.

  Lemma fold_ins_spec : forall l acc, StronglySorted leK acc ->
    StronglySorted leK (fold_left (fun a x => ins_after key x a) l acc)
    /\ Permutation (fold_left (fun a x => ins_after key x a) l acc) (acc ++ l).
  Proof.
    induction l as [|x l IH]; intros acc Hs; cbn [fold_left].
    - rewrite app_nil_r. split; [exact Hs|reflexivity].
    - destruct (IH (ins_after key x acc) (ins_after_sorted x acc Hs)) as [S P]. split; [exact S|].
      rewrite P. rewrite (ins_after_perm x acc). cbn [app]. apply Permutation_middle.
  Qed.

  Lemma sort_stable_sorted l : StronglySorted leK (sort_stable key l).
  Proof. apply (fold_ins_spec l []). constructor. Qed.
  Lemma sort_stable_perm l : Permutation (sort_stable key l) l.
  Proof. apply (fold_ins_spec l []). constructor. Qed.

  Lemma sorted_split : forall a b, StronglySorted leK (a ++ b) -> forall x y, In x a -> In y b -> key x <= key y.
  Proof.
    induction a as [|h a IH]; intros b Hs x y Hx Hy; [destruct Hx|].
    cbn [app] in Hs. inversion Hs; subst. destruct Hx as [Hx|Hx].
    - subst h. rewrite Forall_forall in H2. apply H2. apply in_or_app. right. exact Hy.
    - eapply IH; eassumption.
  Qed.

  (* a minimal first element stays first *)
  Lemma ins_after_head x h t : key h <= key x -> ins_after key x (h :: t) = h :: ins_after key x t.
  Proof. intros H. cbn [ins_after]. assert (E : key x <? key h = false) by lia. rewrite E. reflexivity. Qed.

  Lemma fold_ins_head : forall l h t, (forall x, In x l -> key h <= key x) ->
    exists t', fold_left (fun a x => ins_after key x a) l (h :: t) = h :: t'.
  Proof.
    induction l as [|x l IH]; intros h t H; cbn [fold_left]; [eexists; reflexivity|].
    rewrite ins_after_head by (apply H; left; reflexivity).
    apply IH. intros y Hy. apply H. right. exact Hy.
  Qed.

  (* a maximal element inserted last ends up last *)
  Lemma ins_after_last x : forall l, (forall y, In y l -> key y <= key x) -> ins_after key x l = l ++ [x].
  Proof.
    induction l as [|y r IH]; intros H; cbn [ins_after app]; [reflexivity|].
    assert (E : key x <? key y = false) by (specialize (H y (or_introl eq_refl)); lia). rewrite E.
    rewrite IH; [reflexivity|]. intros z Hz. apply H. right. exact Hz.
  Qed.

  Lemma sort_stable_snoc l x : sort_stable key (l ++ [x]) = ins_after key x (sort_stable key l).
  Proof. unfold sort_stable. rewrite fold_left_app. reflexivity. Qed.
End SortK.

(* ------------------------------------------------------------------ the events of a well-formed text *)
Definition good_span (n : Z) (sp : span) : Prop := 0 <= sp_start sp /\ sp_start sp <= sp_end sp /\ sp_end sp <= n.
Definition Good (t : text) : Prop := Forall (good_span (zlen (plain t))) (spans t).

Lemma index_from_ids {A} : forall (l : list A) k x, In x (index_from k l) -> k <= fst x.
Proof.
  induction l as [|a l IH]; intros k x H; cbn [index_from] in H; [destruct H|].
  destruct H as [H|H]; [subst x; cbn; lia|]. specialize (IH _ _ H). lia.
Qed.

Lemma index_from_snd {A} : forall (l : list A) k x, In x (index_from k l) -> In (snd x) l.
Proof.
  induction l as [|a l IH]; intros k x H; cbn [index_from] in H; [destruct H|].
  destruct H as [H|H]; [subst x; left; reflexivity|right; eapply IH; exact H].
Qed.

Lemma index_from_count {A} (f : Z * A -> event) (sel : Z -> event -> bool) :
  (forall id x, sel id (f x) = (fst x =? id)) ->
  forall (l : list A) k id, zlen (filter (sel id) (map f (index_from k l))) <= 1
                            /\ (id < k -> zlen (filter (sel id) (map f (index_from k l))) = 0).
Proof.
  intros Hsel. induction l as [|a l IH]; intros k id; cbn [index_from map filter].
  - cbn. lia.
  - rewrite Hsel. cbn [fst]. destruct (IH (k + 1) id) as [I1 I2].
    destruct (k =? id) eqn:E.
    + rewrite zlen_cons. rewrite I2 by lia. lia.
    + split; [exact I1|]. intros. apply I2. lia.
Qed.

Lemma filter_cons_eq {A} (f : A -> bool) x l : filter f (x :: l) = if f x then x :: filter f l else filter f l.
Proof. reflexivity. Qed.

Lemma cl_events_le1 (sps : list span) (n id : Z) :
  cl id ((0, false, 0) :: (map (fun x : Z * span => (sp_start (snd x), false, fst x)) (index_from 1 sps)
                           ++ map (fun x : Z * span => (sp_end (snd x), true, fst x)) (index_from 1 sps)
                           ++ [(n, true, 0)])) <= 1.
Proof.
  unfold cl. rewrite filter_cons_eq.
  assert (F0 : is_leave id (0, false, 0) = false) by reflexivity. rewrite F0.
  rewrite !filter_app, !zlen_app.
  assert (E : forall l : list (Z * span),
             zlen (filter (is_leave id) (map (fun x : Z * span => (sp_start (snd x), false, fst x)) l)) = 0).
  { induction l as [|x l IH]; [reflexivity|]. cbn [map]. rewrite filter_cons_eq.
    assert (F2 : is_leave id (sp_start (snd x), false, fst x) = false) by reflexivity. rewrite F2. exact IH. }
  rewrite E.
  destruct (index_from_count (fun x : Z * span => (sp_end (snd x), true, fst x)) is_leave
              ltac:(intros i x; unfold is_leave; reflexivity) sps 1 id) as [I1 I2].
  match goal with |- context [@zlen ?T (@filter ?T2 (is_leave id) (@map ?A ?B ?f (index_from 1 sps)))] =>
    set (X := @zlen T (@filter T2 (is_leave id) (@map A B f (index_from 1 sps)))) end.
  assert (I1' : X <= 1) by exact I1. assert (I2' : id < 1 -> X = 0) by exact I2.
  rewrite filter_cons_eq.
  assert (F1 : is_leave id (n, true, 0) = (0 =? id)) by reflexivity. rewrite F1.
  destruct (0 =? id) eqn:E0; cbn [filter]; unfold zlen at 1; cbn [length]; lia.
Qed.

Section Events.
  Variable t : text.
  Hypothesis HG : Good t.
  Let n := zlen (plain t).
  Let isp := index_from 1 (spans t).
  Let enters := map (fun x : Z * span => (sp_start (snd x), false, fst x)) isp.
  Let leaves := map (fun x : Z * span => (sp_end (snd x), true, fst x)) isp.
  Let mid := (0, false, 0) :: enters ++ leaves.
  Let lastev : event := (n, true, 0).
  Let evs0 := mid ++ [lastev].
  Let L := sort_stable ev_key evs0.

  Lemma isp_good x : In x isp -> 1 <= fst x /\ good_span n (snd x).
  Proof.
    intros H. split; [exact (index_from_ids _ _ _ H)|].
    unfold Good in HG. rewrite Forall_forall in HG. apply HG. exact (index_from_snd _ _ _ H).
  Qed.

  Lemma mid_keys e : In e mid -> 0 <= ev_key e <= 2 * n + 1 /\ is_leave 0 e = false.
  Proof.
    assert (Hn : 0 <= n) by apply zlen_nonneg.
    intros [H|H]; [subst e; unfold ev_key, is_leave; cbn [fst snd andb]; split; [lia|reflexivity]|].
    apply in_app_or in H as [H|H]; apply in_map_iff in H as [x [Hx Hin]]; subst e;
      destruct (isp_good x Hin) as [Hid [G1 [G2 G3]]]; unfold ev_key, is_leave; cbn [fst snd andb]; split; try lia; try reflexivity.
  Qed.

  Lemma evs0_shape : evs0 = (0, false, 0) :: (enters ++ leaves ++ [lastev]).
  Proof. unfold evs0, mid. cbn [app]. rewrite <- app_assoc. reflexivity. Qed.

  Lemma L_last : exists M, L = M ++ [lastev] /\ Permutation M mid.
  Proof.
    unfold L, evs0. rewrite sort_stable_snoc. exists (sort_stable ev_key mid).
    assert (P := sort_stable_perm ev_key mid). split; [|exact P].
    apply ins_after_last. intros y Hy. apply (Permutation_in _ P) in Hy.
    destruct (mid_keys y Hy) as [K _]. unfold lastev, ev_key in *. cbn [fst snd]. lia.
  Qed.

  Lemma L_head : exists T, L = (0, false, 0) :: T.
  Proof.
    unfold L, sort_stable, evs0, mid. cbn [app fold_left ins_after].
    apply fold_ins_head. intros x Hx.
    assert (Hx' : In x mid \/ x = lastev).
    { rewrite <- app_assoc in Hx. apply in_app_or in Hx as [Hx|Hx]; [left; right; apply in_or_app; left; exact Hx|].
      apply in_app_or in Hx as [Hx|Hx]; [left; right; apply in_or_app; right; exact Hx|].
      destruct Hx as [Hx|[]]. right. symmetry. exact Hx. }
    destruct Hx' as [Hx'|Hx']; [destruct (mid_keys x Hx') as [K _]; unfold ev_key in *; cbn [fst snd]; lia|].
    subst x. unfold lastev, ev_key. cbn [fst snd]. assert (0 <= n) by apply zlen_nonneg. lia.
  Qed.

  (* every leave event of the input has an enter event of the same id with a strictly smaller key,
     and each id is left at most once *)
  Lemma leave_has_enter y id : In y evs0 -> is_leave id y = true ->
    exists x, In x evs0 /\ is_enter id x = true /\ ev_key x < ev_key y.
  Proof.
    assert (Hn : 0 <= n) by apply zlen_nonneg.
    intros Hy Hl. unfold evs0 in Hy. apply in_app_or in Hy as [Hy|Hy].
    - destruct Hy as [Hy|Hy]; [subst y; cbn in Hl; discriminate|].
      apply in_app_or in Hy as [Hy|Hy]; apply in_map_iff in Hy as [x [Hx Hin]]; subst y.
      + cbn in Hl. discriminate.
      + unfold is_leave in Hl. cbn [fst snd andb] in Hl.
        exists (sp_start (snd x), false, fst x). split.
        * unfold evs0, mid. apply in_or_app. left. right. apply in_or_app. left.
          apply in_map_iff. exists x. split; [reflexivity|exact Hin].
        * destruct (isp_good x Hin) as [_ [G1 [G2 G3]]]. unfold is_enter, ev_key. cbn [fst snd negb andb]. split; lia.
    - destruct Hy as [Hy|[]]. subst y. unfold lastev, is_leave in Hl. cbn [fst snd andb] in Hl.
      exists (0, false, 0). split; [unfold evs0, mid; left; reflexivity|].
      unfold is_enter, ev_key, lastev. cbn [fst snd negb andb]. split; lia.
  Qed.

  Lemma cl_evs0_le1 id : cl id evs0 <= 1.
  Proof. rewrite evs0_shape. apply cl_events_le1. Qed.

  Lemma filter_len_perm (f : event -> bool) a b : Permutation a b -> zlen (filter f a) = zlen (filter f b).
  Proof.
    induction 1 as [|x a b P IH|x y a|a b c P1 IH1 P2 IH2]; cbn [filter].
    - reflexivity.
    - destruct (f x); [rewrite !zlen_cons|]; lia.
    - destruct (f x); destruct (f y); rewrite ?zlen_cons; lia.
    - lia.
  Qed.

  Lemma filter_pos_in (f : event -> bool) a : 1 <= zlen (filter f a) -> exists y, In y a /\ f y = true.
  Proof.
    induction a as [|x a IH]; cbn [filter]; intros H; [cbn in H; lia|].
    destruct (f x) eqn:E; [exists x; split; [left; reflexivity|exact E]|].
    destruct (IH H) as [y [Hy Hf]]. exists y. split; [right; exact Hy|exact Hf].
  Qed.

  Lemma in_filter_pos (f : event -> bool) a y : In y a -> f y = true -> 1 <= zlen (filter f a).
  Proof.
    induction a as [|x a IH]; intros Hin Hf; [destruct Hin|]. cbn [filter].
    destruct Hin as [Hin|Hin].
    - subst x. rewrite Hf, zlen_cons. assert (Z := zlen_nonneg (filter f a)). lia.
    - specialize (IH Hin Hf). destruct (f x); [rewrite zlen_cons|]; lia.
  Qed.

  Lemma L_bal : bal [] L.
  Proof.
    intros a b Hab id. unfold cnt. cbn [filter]. change (zlen (@nil Z)) with 0.
    assert (P : Permutation L evs0) by apply sort_stable_perm.
    assert (C1 : cl id a + cl id b <= 1).
    { assert (H := cl_evs0_le1 id). unfold cl in *. rewrite <- (filter_len_perm _ _ _ P) in H.
      rewrite Hab, filter_app, zlen_app in H. exact H. }
    assert (Hb0 := zlen_nonneg (filter (is_leave id) b)). assert (Ha0 := zlen_nonneg (filter (is_enter id) a)).
    unfold cl, ce in *.
    destruct (Z_lt_le_dec (zlen (filter (is_leave id) a)) 1) as [Hlt|Hge]; [lia|].
    destruct (filter_pos_in _ _ Hge) as [y [Hy Hl]].
    assert (HyL : In y evs0). { apply (Permutation_in _ P). rewrite Hab. apply in_or_app. left. exact Hy. }
    destruct (leave_has_enter y id HyL Hl) as [x [Hx [He Hk]]].
    assert (HxL : In x L) by (apply (Permutation_in _ (Permutation_sym P)); exact Hx).
    rewrite Hab in HxL. apply in_app_or in HxL as [HxL|HxL].
    - assert (H1 := in_filter_pos _ _ _ HxL He). lia.
    - exfalso. assert (S : StronglySorted (leK ev_key) (a ++ b)) by (rewrite <- Hab; apply sort_stable_sorted).
      assert (K := sorted_split ev_key a b S y x Hy HxL). lia.
  Qed.

  Theorem render_good_total : exists r, render t = Ok r.
  Proof.
    unfold render. fold isp. fold n.
    change ((0, false, 0) :: map (fun x : Z * span => (sp_start (snd x), false, fst x)) isp
             ++ map (fun x : Z * span => (sp_end (snd x), true, fst x)) isp ++ [(n, true, 0)])
      with ((0, false, 0) :: (enters ++ leaves ++ [lastev])).
    rewrite <- evs0_shape. fold L.
    apply render_go_total.
    - exact L_bal.
    - right. destruct L_head as [T HT]. exists 0, T. exact HT.
    - destruct L_last as [M [HM PM]]. rewrite HM. rewrite removelast_last.
      unfold no_leave0. apply Forall_forall. intros e He. apply (Permutation_in _ PM) in He.
      apply (mid_keys e He).
  Qed.
End Events.
