(* wire glue for the T2 tie (gen/T2_ProgressBar.v): runs functions REGENERATED from the Python source
   so that the translator itself is validated against rich on generated inputs.
   Styles are tokens: style 1, complete_style 2, finished_style 3; console.get_style is the identity. *)
From RichModel Require Import Prelude Ratio T2Lib.
From RichGen Require Import T2_ProgressBar.

Definition ofSeg3 (g : str * option Z * bool) : tree :=
  let '(tx, st, c) := g in L [ofStr tx; ofOpt I st; ofB c].

Definition ops : list (string * (tree -> tree)) := [
  ("t2.pbar_console", fun t =>   (* [width?, total, completed, max_width, legacy_windows, ascii_only, no_color, has_color] *)
      ofRes (ofList ofSeg3)
        (pbar_console_gen (fun _ _ => []) (fun k => Some k) (tOpt tZ (tNth t 0)) false (tZ (tNth t 1)) (tZ (tNth t 2))
                          1 2 3 (tZ (tNth t 3)) (tB (tNth t 4)) (tB (tNth t 5)) (tB (tNth t 6))
                          (if tB (tNth t 7) then Some tt else None)))
].
