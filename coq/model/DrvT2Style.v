(* wire glue for the T2 tie (gen/T2_Style.v): runs functions REGENERATED from the Python source
   so that the translator itself is validated against rich on generated inputs.
   A Style travels as [color?, bgcolor?, attributes, set_attributes, link?, link_id, null]; colours are tokens. *)
From RichModel Require Import Prelude Ratio T2Lib.
From RichGen Require Import T2_Style.

Definition sty7 := (option Z * option Z * Z * Z * option str * str * bool)%type.
Definition tSty (t : tree) : sty7 :=
  (tOpt tZ (tNth t 0), tOpt tZ (tNth t 1), tZ (tNth t 2), tZ (tNth t 3), tOpt tStr (tNth t 4), tStr (tNth t 5), tB (tNth t 6)).
Definition ofSty (s : sty7) : tree :=
  let '(c, b, a, sa, l, lid, n) := s in L [ofOpt I c; ofOpt I b; I a; I sa; ofOpt ofStr l; ofStr lid; ofB n].

Definition ops : list (string * (tree -> tree)) := [
  ("t2.style_add", fun t => ofRes ofSty (style_add_gen Z (tSty (tNth t 0)) (tOpt tSty (tNth t 1))))
].
