(* wire glue for the concurrency layer (C11) *)
From RichModel Require Import Prelude Conc SpecConc.

Definition tNat (t : tree) : nat := Z.to_nat (tZ t).
Definition tItem (t : tree) : item :=
  match tZ (tNth t 0) with
  | 0 => Txt (tNat (tNth t 1)) (tZ (tNth t 2))
  | 1 => Erase (tNat (tNth t 1))
  | 2 => Frame (tZ (tNth t 1)) (tNat (tNth t 2))
  | _ => Ctl (tZ (tNth t 1))
  end.
Definition ofItem (i : item) : tree :=
  match i with
  | Txt t id => L [I 0; ofNat t; I id]
  | Erase n => L [I 1; ofNat n]
  | Frame f h => L [I 2; I f; ofNat h]
  | Ctl c => L [I 3; I c]
  end.
Definition tOp (t : tree) : op :=
  match tZ (tNth t 0) with
  | 0 | 1 => Print (tZ (tNth t 1))     (* print / log: same event program (ConcP.log_same_events) *)
  | 2 => BeginBlock | 3 => EndBlock | 4 => BeginCap | 5 => EndCap
  | 6 => Update (tZ (tNth t 1)) (tNat (tNth t 2)) (tB (tNth t 3))
  | 7 => Refresh | 8 => Tick | 9 => Start | 10 => Stop
  | 11 => StopAuto (tNat (tNth t 1)) | _ => RefreshLoop
  end.
Definition tLock (t : tree) : lockid :=
  match tZ t with 0 => LLive | 1 => LConsole | _ => LRecord end.
Definition tVev (t : tree) : tid * vev :=
  (tNat (tNth t 0),
   match tZ (tNth t 1) with
   | 0 => VAcq (tLock (tNth t 2)) | 1 => VRel (tLock (tNth t 2))
   | 2 => VWrite (tList tItem (tNth t 2)) | 3 => VHooksRd | 4 => VHooksWr
   | 5 => VSetDone | 6 => VWait (tB (tNth t 2)) | _ => VJoin
   end).
Definition tRow (t : tree) : row :=
  match tZ (tNth t 0) with
  | 0 => RTxt (tNat (tNth t 1)) (tZ (tNth t 2))
  | 1 => RFrame (tZ (tNth t 1)) (tNat (tNth t 2))
  | 2 => RBlank
  | _ => RMix
  end.
Definition ofRow (r : row) : tree :=
  match r with RTxt t id => L [I 0; ofNat t; I id] | RFrame f k => L [I 1; I f; ofNat k] | RBlank => L [I 2] | RMix => L [I 3] end.
Definition tProgs := tList (tList tOp).
Definition tWrites (t : tree) : list (tid * list item) :=
  tList (fun w => (tNat (tNth w 0), tList tItem (tNth w 1))) t.
Definition ofWrites (f : list (tid * list item)) : tree :=
  ofList (fun w => L [ofNat (fst w); ofList ofItem (snd w)]) f.
Definition tRecord (t : tree) : list (tid * bool * list item) :=
  tList (fun w => (tNat (tNth w 0), tB (tNth w 1), tList tItem (tNth w 2))) t.
Definition tCaps := tList (tList (tList tItem)).
(* init = [live, shape?, fid, h] *)
Definition tInit (t : tree) (progs : list (list op)) : state :=
  init_state (tB (tNth t 0)) (tOpt tNat (tNth t 1)) (tZ (tNth t 2), tNat (tNth t 3)) (progs_of progs).

Definition observe (st : state) (n : nat) : tree :=
  L [ofWrites (file (sh st));
     ofList (ofList (ofList ofItem)) (caps_of st n);
     ofList (fun p => L [ofNat (fst p); I (snd p)]) (flat_ids (written_part (record (sh st))));
     ofList ofRow (screen_of (file (sh st)));
     ofB (finished st n)].

Fixpoint replay_count (rep : bool) (st : state) (tr : list (tid * vev)) (k : Z) : Z :=
  match tr with
  | [] => -1
  | te :: r => match replay1 rep st te with Some st' => replay_count rep st' r (k + 1) | None => k end
  end.

Definition ops : list (string * (tree -> tree)) := [
  (* debugging aid: index of the first trace event the model cannot follow (-1: all followed) *)
  ("dbg.replay", fun t =>
      let progs := tProgs (tNth t 2) in
      let n := length progs in
      I (replay_count (tB (tNth t 0)) (fold_left (advance 200 (tB (tNth t 0))) (seq 0 n) (tInit (tNth t 1) progs))
           (tList tVev (tNth t 3)) 0));
  (* [rep, init, progs, vsched] -> [writes, captures, written record ids, screen rows, finished] *)
  ("vis", fun t =>
      let progs := tProgs (tNth t 2) in
      observe (run_vis (tB (tNth t 0)) (tInit (tNth t 1) progs) (length progs) (tList tNat (tNth t 3)))
              (length progs));
  (* same at instruction granularity: [rep, init, progs, sched] *)
  ("run", fun t =>
      let progs := tProgs (tNth t 2) in
      observe (run (tB (tNth t 0)) (tList tNat (tNth t 3)) (tInit (tNth t 1) progs)) (length progs));
  ("spec.no_deadlock", fun t => ofB (tB (tNth t 0)));
  (* [final #hooks, max #hooks, rows of the first frame row on screen]: start() ran once *)
  ("spec.started_once", fun t =>
      ofB ((tZ (tNth t 0) =? 1) && (tZ (tNth t 1) <=? 1) && (tZ (tNth t 2) <=? 1)));
  ("spec.writes_atomic", fun t => ofB (writes_atomic_b (tProgs (tNth t 0)) (tWrites (tNth t 1))));
  ("spec.captures_isolated", fun t => ofB (captures_isolated_b (tProgs (tNth t 0)) (tCaps (tNth t 1))));
  ("spec.record_order", fun t => ofB (record_order_b (tWrites (tNth t 0)) (tRecord (tNth t 1))));
  ("spec.screen_rows", fun t => ofB (screen_rows_b (tWrites (tNth t 0)) (tList tRow (tNth t 1))));
  (* [rep, init, progs, trace, caps] *)
  ("spec.trace_ok", fun t =>
      let i := tNth t 1 in
      ofB (trace_ok_b (tB (tNth t 0)) (tB (tNth i 0)) (tOpt tNat (tNth i 1)) (tZ (tNth i 2), tNat (tNth i 3))
             (tProgs (tNth t 2)) (tList tVev (tNth t 3)) (tCaps (tNth t 4))));
  (* [init, progs, trace, rows] *)
  ("spec.live_screen", fun t =>
      let i := tNth t 0 in
      ofB (live_screen_b (tB (tNth i 0)) (tOpt tNat (tNth i 1)) (tZ (tNth i 2), tNat (tNth i 3))
             (tProgs (tNth t 1)) (tList tVev (tNth t 2)) (tList tRow (tNth t 3))))
].
