(* Spec-level checkers of C19 (used in the theorems and, through the driver, on the
   implementation's outputs).  Definitions only. *)
From RichModel Require Import Prelude Color Style AnsiDecode FileProxy.

(* ------------------------------------------------------------------ what is visible of a style *)
(* a colour by (kind, value), not by name *)
Definition ckey : Type := (Z * option Z * option (Z * Z * Z))%type.
Definition ckey_of (c : color) : ckey :=
  (ColorType_int (c_type c), c_number c, option_map triplet_tuple (c_triplet c)).
Definition ckey_eqb (a b : ckey) : bool :=
  let '(ta, na, pa) := a in
  let '(tb, nb, pb) := b in
  (ta =? tb) && optZ_eqb na nb
  && match pa, pb with
     | None, None => true
     | Some (r, g, b), Some (r', g', b') => (r =? r') && (g =? g') && (b =? b')
     | _, _ => false
     end.
Definition opt_ckey_eqb (a b : option ckey) : bool :=
  match a, b with None, None => true | Some x, Some y => ckey_eqb x y | _, _ => false end.

Definition ATTR_MASK : Z := 8191.    (* 13 attributes; pinned against StyleTables.N_ATTRS in the proofs *)

Record vis : Type := mkVis {
  v_on : Z;                 (* attributes that are set AND true (off and unset coincide on screen) *)
  v_fg : option ckey;
  v_bg : option ckey;
  v_link : option str }.    (* a falsy link ("" / None) is no link *)

Definition vis_of (s : style) : vis :=
  mkVis (Z.land (Z.land (s_attributes s) (s_set_attributes s)) ATTR_MASK)
        (option_map ckey_of (s_color s)) (option_map ckey_of (s_bgcolor s))
        (if str_truthy (s_link s) then s_link s else None).
Definition vis_none : vis := mkVis 0 None None None.
Definition vis_opt (o : option style) : vis := match o with Some s => vis_of s | None => vis_none end.

Definition vis_eqb (a b : vis) : bool :=
  (v_on a =? v_on b) && opt_ckey_eqb (v_fg a) (v_fg b) && opt_ckey_eqb (v_bg a) (v_bg b)
  && opt_str_eqb (v_link a) (v_link b).

(* per character: (code point, what is visible of its style) *)
Definition vchar : Type := (Z * vis)%type.
Definition vchars (ps : list piece) : list vchar :=
  flat_map (fun p => map (fun c => (c, vis_opt (snd p))) (fst p)) ps.
Fixpoint vchars_eqb (a b : list vchar) : bool :=
  match a, b with
  | [], [] => true
  | (c, v) :: a', (d, w) :: b' => (c =? d) && vis_eqb v w && vchars_eqb a' b'
  | _, _ => false
  end.
Fixpoint lines_eqb (a b : list (list vchar)) : bool :=
  match a, b with
  | [], [] => true
  | x :: a', y :: b' => vchars_eqb x y && lines_eqb a' b'
  | _, _ => false
  end.

(* ------------------------------------------------------------------ round trip *)
(* a styled text: lines of (text, style) runs, as printed through a console *)
Definition run : Type := (str * option style)%type.
(* round trip: the decoded lines carry the same characters with the same visible styles *)
Definition roundtrip_b (t : list (list run)) (decoded : list (list piece)) : bool :=
  lines_eqb (map vchars t) (map vchars decoded).

(* the encoder side of the round trip: what Console._render_buffer writes for the segments of one
   line in truecolor (`style.render(text, color_system=TRUECOLOR, legacy_windows=False)` for a
   segment with a truthy style, the bare text otherwise), each line ended by "\n" *)
Definition encode_run (link_id : str) (r : run) : res str :=
  match snd r with
  | Some s => if style_bool s then style_render s (fst r) (Some CS_TRUECOLOR) false link_id else Ok (fst r)
  | None => Ok (fst r)
  end.
Fixpoint encode_line (link_id : str) (l : list run) : res str :=
  match l with
  | [] => Ok []
  | r :: rest => do a <- encode_run link_id r; do b <- encode_line link_id rest; Ok (a ++ b)
  end.
Fixpoint encode_lines (link_id : str) (t : list (list run)) : res str :=
  match t with
  | [] => Ok []
  | l :: rest => do a <- encode_line link_id l; do b <- encode_lines link_id rest; Ok (a ++ [10] ++ b)
  end.

(* ------------------------------------------------------------------ the proxy, specified on strings *)
(* complete lines of s and the remainder after the last "\n" *)
Fixpoint split_nl (s cur : str) : list str * str :=
  match s with
  | [] => ([], rev cur)
  | c :: r =>
      if c =? 10 then let '(ls, rest) := split_nl r [] in (rev cur :: ls, rest)
      else split_nl r (c :: cur)
  end.

Record sstate : Type := mkS { sp_pend : str; sp_style : style }.
Definition s_init : sstate := mkS [] style_null.

(* expected console.print calls: the decoded lines of each call (always a Text, always with
   markup = emoji = highlight = False) *)
Definition spec_step (st : sstate) (o : op) : sstate * list (list (list piece)) :=
  match o with
  | Write text =>
      let '(lines, rest) := split_nl (sp_pend st ++ text) [] in
      match lines with
      | [] => (mkS rest (sp_style st), [])
      | _ =>
          match decode_lines true (sp_style st) lines with
          | (sty, Ok pss) => (mkS rest sty, [pss])
          | (sty, _) => (mkS rest sty, [])          (* unreachable: decoder_total *)
          end
      end
  | Flush =>
      match sp_pend st with
      | [] => (st, [])
      | p =>
          match decode_line true (sp_style st) p with
          | (sty, Ok ps) => (mkS [] sty, [[ps]])
          | (sty, _) => (mkS [] sty, [])
          end
      end
  end.
Fixpoint spec_run (st : sstate) (h : list op) : sstate * list (list (list piece)) :=
  match h with
  | [] => (st, [])
  | o :: r =>
      let '(st1, e1) := spec_step st o in
      let '(st2, e2) := spec_run st1 r in
      (st2, e1 ++ e2)
  end.

Definition kw_eqb (a b : list (option bool)) : bool :=
  (length a =? length b)%nat
  && forallb (fun p => match p with
                       | (None, None) => true
                       | (Some x, Some y) => Bool.eqb x y
                       | _ => false
                       end) (combine a b).

(* one observed console.print call against one expected *)
Definition event_ok_b (expected : list (list piece)) (o : out) : bool :=
  match o with
  | OEvent e =>
      kw_eqb (ev_kw e) kw_off
      && match ev_obj e with
         | PText pss => lines_eqb (map vchars expected) (map vchars pss)
         | PStr _ => false
         end
  | OCrash _ _ => false
  end.
Fixpoint events_ok_b (expected : list (list (list piece))) (outs : list out) : bool :=
  match expected, outs with
  | [], [] => true
  | x :: xs, o :: os => event_ok_b x o && events_ok_b xs os
  | _, _ => false
  end.

(* the property on an observed run: every "\n"-terminated line is printed exactly once, in order,
   complete and ANSI-decoded with the decoder state carried along; a flush prints the pending
   partial line the same way; what is left is exactly the unterminated tail *)
Definition proxy_ok_b (h : list op) (outs : list out) (pend : str) : bool :=
  let '(st, expected) := spec_run s_init h in
  events_ok_b expected outs && str_eqb pend (sp_pend st).
