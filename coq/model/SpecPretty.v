(* Spec-level definitions and checkers for C16.  They are written against the VALUE (not against
   rich's Node tree) wherever the property text allows it, are used in the theorem statements of
   props/C16.v and, through DrvPretty, are evaluated on the implementation's output strings. *)
From RichModel Require Import Prelude Wire Cells Pretty.

(* ---------- what the three brace strings must be for the text to evaluate back ---------- *)
Definition braces_spec_s (k : skind) (attr : str) : str * str * str :=
  match k with
  | KList => (lit "[", lit "]", lit "[]")
  | KTuple => (lit "(", lit ")", lit "()")
  | KSet => (lit "{", lit "}", lit "set()")
  | KFrozenset => (lit "frozenset({", lit "})", lit "frozenset()")
  | KDeque => (lit "deque([", lit "])", lit "deque()")
  | KArray => (lit "array(" ++ attr ++ lit ", [", lit "])", lit "array(" ++ attr ++ lit ")")
  end.
Definition braces_spec_m (k : mkind) (attr : str) : str * str * str :=
  match k with
  | KDict => (lit "{", lit "}", lit "{}")
  | KCounter => (lit "Counter({", lit "})", lit "Counter()")
  | KDefaultdict => (lit "defaultdict(" ++ attr ++ lit ", {", lit "})", lit "defaultdict(" ++ attr ++ lit ", {})")
  | KEnviron => (lit "environ({", lit "})", lit "environ({})")
  end.

(* the same, as a function of the type name (the shape `traverse` consumes) *)
Definition bf_spec (name attr : str) : str * str * str :=
  if str_eqb name (lit "list") then braces_spec_s KList attr
  else if str_eqb name (lit "tuple") then braces_spec_s KTuple attr
  else if str_eqb name (lit "set") then braces_spec_s KSet attr
  else if str_eqb name (lit "frozenset") then braces_spec_s KFrozenset attr
  else if str_eqb name (lit "deque") then braces_spec_s KDeque attr
  else if str_eqb name (lit "array") then braces_spec_s KArray attr
  else if str_eqb name (lit "dict") then braces_spec_m KDict attr
  else if str_eqb name (lit "Counter") then braces_spec_m KCounter attr
  else if str_eqb name (lit "defaultdict") then braces_spec_m KDefaultdict attr
  else if str_eqb name (lit "os._Environ") then braces_spec_m KEnviron attr
  else ([], [], []).

(* ---------- the canonical (one-line) token stream of a value ---------- *)
Inductive tok : Type :=
| TOpen (s : str) | TClose (s : str) | TAtom (s : str)
| TColon          (* between a key and its value *)
| TSep            (* between two items *)
| TTup.           (* the comma that makes a one-element tuple a tuple *)

Definition tok_str (t : tok) : str :=
  match t with
  | TOpen s | TClose s | TAtom s => s
  | TColon => lit ": " | TSep => lit ", " | TTup => lit ","
  end.

Fixpoint join_sep (items : list (list tok)) : list tok :=
  match items with
  | [] => []
  | [x] => x
  | x :: r => x ++ TSep :: join_sep r
  end.

(* `key: ` in front of a mapping item (repr() never returns the empty string; rich prints nothing
   for an empty key_repr, and so does the stream) *)
Definition keytoks (key : str) : list tok := if nonempty key then [TAtom key; TColon] else [].

Section Canon.
  Variable max_length : option Z.
  Variable max_string : option Z.

  (* the "... +k" item: k = number of items not shown *)
  Definition marker (num_items : Z) : list (list tok) :=
    match max_length with
    | Some m => if num_items >? m then [[TAtom (lit "... +" ++ print_Z (num_items - m))]] else []
    | None => []
    end.

  Definition body (tup : bool) (items : list (list tok)) : list tok :=
    match items with
    | [x] => if tup then x ++ [TTup] else x
    | _ => join_sep items
    end.

  Fixpoint canon (v : V) : list tok :=
    match v with
    | Leaf d => [TAtom (to_repr max_string d)]
    | Cycle => [TAtom (lit "...")]
    | Seq k attr xs =>
        match xs with
        | [] => [TAtom (snd (braces_spec_s k attr))]
        | _ =>
            TOpen (fst (fst (braces_spec_s k attr)))
              :: body (is_tup k) (gomap max_length (fun x _ => canon x) xs 0 ++ marker (zlen xs))
              ++ [TClose (snd (fst (braces_spec_s k attr)))]
        end
    | Map k attr kvs =>
        match kvs with
        | [] => [TAtom (snd (braces_spec_m k attr))]
        | _ =>
            TOpen (fst (fst (braces_spec_m k attr)))
              :: body false (gomap max_length
                               (fun kv _ => keytoks (to_repr max_string (fst kv)) ++ canon (snd kv)) kvs 0
                             ++ marker (zlen kvs))
              ++ [TClose (snd (fst (braces_spec_m k attr)))]
        end
    end.

  Definition canon_str (v : V) : str := concat (map tok_str (canon v)).
End Canon.

(* ---------- canonical_b: the output is the canonical stream up to layout ----------
   Between two tokens the output may contain spaces and newlines (inside brackets Python's
   grammar ignores them) and, directly before a closing brace, one extra comma -- unless the
   previous token already was a comma.  The 1-tuple comma TTup is a token like any other and must
   be present. *)
Fixpoint strip (p s : str) : option str :=
  match p with
  | [] => Some s
  | a :: p' => match s with
               | b :: s' => if a =? b then strip p' s' else None
               | [] => None
               end
  end.

Definition tok_pat (t : tok) : str :=
  match t with
  | TOpen s | TClose s | TAtom s => s
  | TColon => lit ":" | TSep => lit "," | TTup => lit ","
  end.
Definition is_close (t : tok) : bool := match t with TClose _ => true | _ => false end.
Definition no_comma_after (t : tok) : bool :=   (* tokens after which an extra comma would be a syntax error *)
  match t with TSep | TTup | TOpen _ | TColon => true | _ => false end.

(* a token at the head of the output; the blank after ", " and ": " belongs to the token *)
Definition eat (t : tok) (out : str) : option str :=
  match strip (tok_pat t) out with
  | Some o' => match t, o' with
               | (TSep | TColon), c :: o'' => if c =? SP then Some o'' else Some o'
               | _, _ => Some o'
               end
  | None => None
  end.

Fixpoint mt (toks : list tok) : bool -> str -> bool :=
  fix go (prevc : bool) (out : str) {struct out} : bool :=
    match toks with
    | [] => match out with [] => true | _ => false end
    | t :: rest =>
        (match out with
         | c :: o' =>
             if (c =? SP) || (c =? NL) then go prevc o'
             else if (c =? 44) && is_close t && negb prevc then go true o'
             else false
         | [] => false
         end)
        || match eat t out with
           | Some o' => mt rest (no_comma_after t) o'
           | None => false
           end
    end.

Definition match_stream (toks : list tok) (out : str) : bool :=
  match toks with
  | [] => match out with [] => true | _ => false end
  | t :: rest => match eat t out with
                 | Some o' => mt rest (no_comma_after t) o'
                 | None => false
                 end
  end.

Definition canonical_b (max_length max_string : option Z) (v : V) (out : str) : bool :=
  match_stream (canon max_length max_string v) out.

(* ---------- one_line_b: the whole value on one line whenever that fits ---------- *)
Definition one_line_b (max_width : Z) (expand_all : bool) (max_length max_string : option Z) (v : V) (out : str) : bool :=
  if negb expand_all && (cell_len (canon_str max_length max_string v) <=? max_width)
  then str_eqb out (canon_str max_length max_string v) else true.

(* ---------- Python's repr() of list / tuple / dict / set / frozenset over leaves ---------- *)
Fixpoint join_str (sep : str) (items : list str) : str :=
  match items with
  | [] => []
  | [x] => x
  | x :: r => x ++ sep ++ join_str sep r
  end.

Fixpoint all_some {A} (l : list (option A)) : option (list A) :=
  match l with
  | [] => Some []
  | Some x :: r => match all_some r with Some r' => Some (x :: r') | None => None end
  | None :: _ => None
  end.

Fixpoint py_repr (v : V) : option str :=
  match v with
  | Leaf d => Some (fst d)
  | Cycle => None
  | Seq k attr xs =>
      match all_some (map py_repr xs) with
      | None => None
      | Some rs =>
          let inner := join_str (lit ", ") rs in
          match k with
          | KList => Some (lit "[" ++ inner ++ lit "]")
          | KTuple => match rs with
                      | [x] => Some (lit "(" ++ x ++ lit ",)")
                      | _ => Some (lit "(" ++ inner ++ lit ")")
                      end
          | KSet => match rs with [] => Some (lit "set()") | _ => Some (lit "{" ++ inner ++ lit "}") end
          | KFrozenset => match rs with
                          | [] => Some (lit "frozenset()")
                          | _ => Some (lit "frozenset({" ++ inner ++ lit "})")
                          end
          (* deque without maxlen; repr(deque()) is "deque([])" while rich prints "deque()": by design, see notes *)
          | KDeque => match rs with [] => None | _ => Some (lit "deque([" ++ inner ++ lit "])") end
          | KArray => match rs with
                      | [] => Some (lit "array(" ++ attr ++ lit ")")
                      | _ => Some (lit "array(" ++ attr ++ lit ", [" ++ inner ++ lit "])")
                      end
          end
      end
  | Map k attr kvs =>
      match all_some (map (fun kv => match py_repr (snd kv) with
                                     | Some r => Some (fst (fst kv) ++ lit ": " ++ r)
                                     | None => None
                                     end) kvs) with
      | Some rs =>
          let inner := join_str (lit ", ") rs in
          match k with
          | KDict => Some (lit "{" ++ inner ++ lit "}")
          | KDefaultdict => Some (lit "defaultdict(" ++ attr ++ lit ", {" ++ inner ++ lit "})")
          (* Counter.__repr__ lists items by decreasing count, rich in insertion order: only the empty one is
             the same text ("Counter()"); environ is not in the property's scope *)
          | KCounter => match rs with [] => Some (lit "Counter()") | _ => None end
          | KEnviron => None
          end
      | None => None
      end
  end.

Definition repr_b (v : V) (real_repr : str) : bool :=
  match py_repr v with Some r => str_eqb r real_repr | None => false end.

(* ---------- layout_b: one item per line, indentation = depth * indent_size, a non-empty
   container stays on one line only if that line fits (and is expanded only if it does not) ---------- *)
Fixpoint split_nl_go (s cur : str) : list str :=
  match s with
  | [] => [rev cur]
  | c :: r => if c =? NL then rev cur :: split_nl_go r [] else split_nl_go r (c :: cur)
  end.
Definition split_nl (s : str) : list str := split_nl_go s [].

Section Layout.
  Variable max_width indent_size : Z.
  Variable expand_all : bool.

  (* `lines` starts with the rendering of node n at indentation ws and with suffix `suffix`;
     returns the lines after it, or None if the layout rules are broken *)
  Fixpoint walk (n : node) (ws : Z) (suffix : str) (lines : list str) : option (list str) :=
    match lines with
    | [] => None
    | l :: rest =>
        let one := py_repeat SP ws ++ node_str n ++ suffix in
        match n_children n with
        | Some (c0 :: cs) =>
            let fits := negb expand_all && (cell_len one <=? max_width) in
            if fits then (if str_eqb l one then Some rest else None)     (* fits: must be kept on one line *)
            else if str_eqb l (py_repeat SP ws ++ key_open n) then       (* does not fit: must be expanded *)
              let tuple1 := n_tuple n && single (c0 :: cs) in
              match (fix go (children : list node) (lines : list str) : option (list str) :=
                       match children with
                       | [] => Some lines
                       | c :: r =>
                           match walk c (ws + Z.max indent_size 0) (child_suffix tuple1 c) lines with
                           | Some lines' => go r lines'
                           | None => None
                           end
                       end) (c0 :: cs) rest with
              | Some (cl :: rest') =>
                  let base := py_repeat SP ws ++ n_close n in
                  if str_eqb cl (base ++ suffix) || str_eqb cl (base ++ lit ",") || str_eqb cl base
                  then Some rest' else None
              | _ => None
              end
            else None
        | _ => if str_eqb l one then Some rest else None
        end
    end.

  Definition layout_node_b (n : node) (out : str) : bool :=
    match walk n 0 [] (split_nl out) with Some [] => true | _ => false end.
End Layout.

Definition layout_b (max_width indent_size : Z) (expand_all : bool) (max_length max_string : option Z)
           (v : V) (out : str) : bool :=
  layout_node_b max_width indent_size expand_all (traverse bf_spec max_length max_string v) out.

(* ---------- side conditions ---------- *)
Definition str_ok (s : str) : bool := nonempty s && forallb (fun c => negb (c =? NL)) s.
Definition leafd_ok (d : leafd) : bool :=
  str_ok (fst d) && match snd d with Some (_, rt) => forallb (fun c => negb (c =? NL)) rt | None => true end.

Fixpoint leaves_ok (v : V) : bool :=
  match v with
  | Leaf d => leafd_ok d
  | Cycle => true
  | Seq _ attr xs => forallb (fun c => negb (c =? NL)) attr && forallb leaves_ok xs
  | Map _ attr kvs => forallb (fun c => negb (c =? NL)) attr
                      && forallb (fun kv => leafd_ok (fst kv) && leaves_ok (snd kv)) kvs
  end.

(* the two side conditions the theorems actually use *)
Definition no_nl (s : str) : bool := forallb (fun c => negb (c =? NL)) s.
Definition leafd_nl_free (d : leafd) : bool :=
  no_nl (fst d) && match snd d with Some (_, rt) => no_nl rt | None => true end.
(* no repr contains a raw newline (repr() of str/bytes/numbers escapes it) *)
Fixpoint nl_free (v : V) : bool :=
  match v with
  | Leaf d => leafd_nl_free d
  | Cycle => true
  | Seq _ attr xs => no_nl attr && forallb nl_free xs
  | Map _ attr kvs => no_nl attr && forallb (fun kv => leafd_nl_free (fst kv) && nl_free (snd kv)) kvs
  end.
(* the repr of every mapping key is non-empty *)
Fixpoint keys_nonempty (v : V) : bool :=
  match v with
  | Leaf _ | Cycle => true
  | Seq _ _ xs => forallb keys_nonempty xs
  | Map _ _ kvs => forallb (fun kv => nonempty (fst (fst kv)) && keys_nonempty (snd kv)) kvs
  end.

(* values whose pretty repr is a Python expression at all (no cycle marker, a factory that has a
   literal repr, no environ); the harness evaluates the implementation's output back for these *)
Fixpoint evaluable (v : V) : bool :=
  match v with
  | Leaf _ => true
  | Cycle => false
  | Seq _ _ xs => forallb evaluable xs
  | Map k attr kvs =>
      match k with
      | KEnviron => false
      | KDefaultdict => str_eqb attr (lit "None")
      | _ => true
      end && forallb (fun kv => evaluable (snd kv)) kvs
  end.
