(* wire glue for the wrap layer (C02).  Styles on the wire are lists of integer tokens: the FREE
   "later overrides earlier" algebra -- a style is the list of the tokens it was combined from, with
   only the last occurrence of each token kept; [] is the null style. *)
From RichModel Require Import Prelude Cells Wrap SpecWrap.

Definition sty := list Z.
Definition sty_eqb (a b : sty) : bool := str_eqb a b.
Fixpoint tok_keep_last (l : list Z) : list Z :=
  match l with
  | [] => []
  | x :: r => if existsb (Z.eqb x) r then tok_keep_last r else x :: tok_keep_last r
  end.
Definition sty_add (a b : sty) : sty := tok_keep_last (a ++ b).
Definition sty_null : sty := [].

Definition tSpan (t : tree) : span sty := (tZ (tNth t 0), tZ (tNth t 1), tStr (tNth t 2)).
Definition ofSpan (sp : span sty) : tree := L [I (sp_start sty sp); I (sp_end sty sp); ofStr (sp_style sty sp)].
Definition tText (t : tree) : text sty := mkText (tStr (tNth t 0)) (tList tSpan (tNth t 1)) (tStr (tNth t 2)).
Definition ofText (t : text sty) : tree := L [ofStr (plain t); ofList ofSpan (spans t); ofStr (base t)].

(* per character: the tokens that apply, canonical *)
Definition char_tokens (t : text sty) (i : Z) : list Z := tok_keep_last (concat (eff sty t i)).
Definition ofStyledLine (t : text sty) : tree :=
  L [ofStr (plain t); ofList (fun ic => ofStr (char_tokens t (fst ic))) (index_from 0 (plain t))].

(* styled characters as the spec checkers see them: every token a singleton style *)
Definition tSchars (t : tree) : list (schar sty) :=
  map (fun ct => (fst ct, map (fun k => [k]) (snd ct)))
      (combine (tStr (tNth t 0)) (tList tStr (tNth t 1))).
Definition schars_of_text (t : text sty) : list (schar sty) := styled sty sty_eqb sty_null t.

Definition tFix (a b : tree) : fixes := mkFixes (tB a) (tB b).

Definition do_wrap (t : tree) : list (text sty) :=
  (* [fix_order, fix_pad, text, width, justify, overflow, tab_size, no_wrap] *)
  wrap sty sty_eqb sty_null sty_add (tFix (tNth t 0) (tNth t 1)) (tText (tNth t 2))
       (tZ (tNth t 3)) (tZ (tNth t 4)) (tZ (tNth t 5)) (tZ (tNth t 6)) (tB (tNth t 7)).

(* Text.wrap must not mutate its receiver (aliasing tie: the functional model cannot exhibit sharing, so the
   harness wraps the SAME object several times and compares the receiver with the unchanged model text) *)
Definition span_tok_eqb (a b : span sty) : bool := span_eqb sty sty_eqb a b.
Fixpoint spans_eqb (a b : list (span sty)) : bool :=
  match a, b with
  | [], [] => true
  | x :: a', y :: b' => span_tok_eqb x y && spans_eqb a' b'
  | _, _ => false
  end.
Definition text_unchanged_b (a b : text sty) : bool :=
  str_eqb (plain a) (plain b) && spans_eqb (spans a) (spans b) && sty_eqb (base a) (base b).

Definition ops : list (string * (tree -> tree)) := [
  ("is_space_range", fun t =>
      let lo := tZ (tNth t 0) in
      let n := Z.to_nat (tZ (tNth t 1) - lo) in
      ofList (fun i => ofB (is_space (lo + Z.of_nat i))) (seq 0 n));
  ("words", fun t => ofList (fun w => L [I (fst (fst w)); I (snd (fst w))]) (words (tStr t)));
  ("rstrip", fun t => ofStr (rstrip (tStr t)));
  ("divide_line", fun t => ofList I (divide_line (tStr (tNth t 0)) (tZ (tNth t 1)) (tB (tNth t 2))));
  ("divide", fun t =>   (* [fix_order, text, offsets] *)
      ofList ofText (divide sty sty_eqb (tFix (tNth t 0) (I 1)) (tText (tNth t 1)) (tList tZ (tNth t 2))));
  ("split", fun t =>   (* [fix_order, text, sep, include_separator, allow_blank] *)
      ofList ofText (split sty sty_eqb (tFix (tNth t 0) (I 1)) (tText (tNth t 1)) (tZ (tNth t 2))
                       (tB (tNth t 3)) (tB (tNth t 4))));
  ("expand_tabs", fun t =>   (* [fix_order, text, tab_size] *)
      ofText (expand_tabs sty sty_eqb (tFix (tNth t 0) (I 1)) (tText (tNth t 1)) (tZ (tNth t 2))));
  ("truncate", fun t =>   (* [text, width, overflow, pad] *)
      ofText (truncate sty (tZ (tNth t 1)) (tZ (tNth t 2)) (tB (tNth t 3)) (tText (tNth t 0))));
  ("rstrip_end", fun t => ofText (rstrip_end sty (tZ (tNth t 1)) (tText (tNth t 0))));
  ("wrap", fun t => ofList ofStyledLine (do_wrap t));
  ("wrap_raw", fun t => ofList ofText (do_wrap t));
  ("wrap_seq", fun t =>   (* [fix_order, fix_pad, text, [[width, justify, overflow, tab_size, no_wrap] ...]] *)
      ofList (fun c => L [ofList ofStyledLine
                            (do_wrap (L [tNth t 0; tNth t 1; tNth t 2; tNth c 0; tNth c 1; tNth c 2; tNth c 3; tNth c 4]));
                          ofText (tText (tNth t 2))])
             (tL (tNth t 3)));
  ("spec.receiver_unchanged", fun t => ofB (text_unchanged_b (tText (tNth t 0)) (tText (tNth t 1))));
  (* ---- spec-level checkers on (implementation) outputs ---- *)
  ("spec.same_nonspace", fun t =>   (* [src plain, [out plain ...]] *)
      ofB (same_nonspace_b (tStr (tNth t 0)) (tList tStr (tNth t 1))));
  ("spec.all_fit", fun t => ofB (all_fit_b (tZ (tNth t 0)) (tList tStr (tNth t 1))));
  ("spec.styles_kept", fun t =>   (* [overflow, src text, [styled line ...]] *)
      ofB (styles_kept_b sty sty_eqb (tZ (tNth t 0)) (schars_of_text (tText (tNth t 1)))
             (tList tSchars (tNth t 2))));
  ("spec.breaks_only_long", fun t =>   (* [width, tab_size, src text, [out plain ...]] *)
      ofB (breaks_only_long_b (tZ (tNth t 0))
             (map plain (expanded_lines sty sty_eqb repaired (tText (tNth t 2)) (tZ (tNth t 1))))
             (tList tStr (tNth t 3))))
].
