(* wire glue for the totality layer (C14) *)
From RichModel Require Import Prelude Color Style Total SpecTotal.
From RichModel Require Markup Frames Layout DrvLayout.

Definition id_str (s : str) : str := s.

(* one string entry point; x = extras: [flag] (markup: as-is span order; decode: fix_d8) or
   [default] (get_style with default=) *)
Definition run_str (op : Z) (x : tree) (s : str) : Z :=
  if op =? OP_color then code_of (color_parse s)
  else if op =? OP_style then code_of (style_parse s)
  else if op =? OP_normalize then code_of (style_normalize s)
  else if op =? OP_markup then code_of (markup_render id_str (tB (tNth x 0)) s)
  else if op =? OP_get_style then code_of (get_style DEFAULT_THEME_NAMES s None)
  else if op =? OP_get_style_d then code_of (get_style DEFAULT_THEME_NAMES s (Some (tStr (tNth x 0))))
  else if op =? OP_decode then code_of (decode (tB (tNth x 0)) s)
  else if op =? OP_text then code_of (text_ctor s)
  else -1.

(* all strings prefix ++ t1 ++ ... ++ tn with the ti from the alphabet, first token most significant *)
Fixpoint enum (n : nat) (alpha : list str) (prefix : str) (f : str -> Z) : list Z :=
  match n with
  | O => [f prefix]
  | S n' => flat_map (fun tk => enum n' alpha (prefix ++ tk) f) alpha
  end.

Definition tSpan3 (t : tree) : Z * Z * Z := (tZ (tNth t 0), tZ (tNth t 1), tZ (tNth t 2)).

Definition ops : list (string * (tree -> tree)) := [
  (* [op, extras, s] -> outcome code *)
  ("t.one", fun t => I (run_str (tZ (tNth t 0)) (tNth t 1) (tStr (tNth t 2))));
  (* [op, extras, alphabet, prefix, n, suffix?] -> outcome codes of every string of the block *)
  ("t.block", fun t =>
      let suffix := tStr (tNth t 5) in
      L (map I (enum (Z.to_nat (tZ (tNth t 4))) (tList tStr (tNth t 2)) (tStr (tNth t 3))
                     (fun s => run_str (tZ (tNth t 0)) (tNth t 1) (s ++ suffix)))));
  (* [markup, asis, s, W, E s, highlighter spans] -> outcome code of Console.print *)
  ("t.print", fun t =>
      let s := tStr (tNth t 2) in
      let W := tZ (tNth t 3) in
      let Es := tStr (tNth t 4) in
      let sps := tList tSpan3 (tNth t 5) in
      I (if tB (tNth t 0)
         then code_of (print_markup (fun _ => sps) id_str (tB (tNth t 1)) s W)
         else code_of (print_no_markup (fun _ => sps) (fun _ => Es) s W)));
  (* [fix_d10, n, cwid, pl, pr, column_first, W] -> outcome code of Columns(n items, width=cwid) *)
  ("t.columns", fun t =>
      I (code_of (columns_fixed_width (tB (tNth t 0)) (tZ (tNth t 1)) (tZ (tNth t 2)) (tZ (tNth t 3))
                                      (tZ (tNth t 4)) (tB (tNth t 5)) (tZ (tNth t 6)))));
  (* [cfg, R, W] *)
  ("t.render", fun t => I (code_of (render (DrvLayout.tCfg (tNth t 0)) (DrvLayout.tRR (tNth t 1)) (tZ (tNth t 2)))));
  ("t.measure", fun t => I (code_of (measure (DrvLayout.tCfg (tNth t 0)) (DrvLayout.tRR (tNth t 1)) (tZ (tNth t 2)))));
  (* [cfg, R, lo, hi] -> render and measure codes for every width lo..hi-1 *)
  ("t.tree_widths", fun t =>
      let cf := DrvLayout.tCfg (tNth t 0) in
      let r := DrvLayout.tRR (tNth t 1) in
      let lo := tZ (tNth t 2) in
      let n := Z.to_nat (tZ (tNth t 3) - lo) in
      L (map (fun i => let W := lo + Z.of_nat i in
                       L [I (code_of (render (Layout.mkCfg W (Layout.fix_d20 cf)) r W));
                          I (code_of (measure (Layout.mkCfg W (Layout.fix_d20 cf)) r W))]) (seq 0 n)));
  (* ---- spec-level checkers on the implementation's outcome classes *)
  ("spec.documented", fun t => ofB (all_documented_b (tZ (tNth t 0)) (tList tZ (tNth t 1))));
  (* [len, spans]: the highlighter hypothesis *)
  ("spec.in_range", fun t => ofB (in_range_b (tZ (tNth t 0)) (tList tSpan3 (tNth t 1))));
  (* [[len, spans] ...]: the lines of the real Text.wrap keep their spans inside themselves *)
  ("spec.lines_in_range", fun t =>
      ofB (forallb (fun l => in_range_b (tZ (tNth l 0)) (tList tSpan3 (tNth l 1))) (tL t)))
].
