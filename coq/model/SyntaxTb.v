(* C17: rich/traceback.py -- Traceback.extract (frames as data) and Traceback._render_stack (what is
   shown for every frame).  Definitions only.
   Inputs: the entries of the traceback object as `walk_tb` yields them (co_filename, tb_lineno,
   co_name) -- data of the interpreter, not of rich; `read : path -> option str`, the content of a
   file AT RENDER TIME (None = open/read raised), an oracle evaluated per render; `lexsel`, what
   _guess_lexer + get_lexer_by_name make of (filename, code): None = _guess_lexer raised, else
   (found, lexer).  `code_cache` is the dict local to one _render_stack call, as coded: it starts
   empty for every render.  show_locals is out of scope (frame.locals = None).  rich 9.10.0 has no
   max_frames elision and does not use linecache. *)
From RichModel Require Import Prelude Cells Syntax.

Record tb_entry := mkEntry { te_file : str; te_lineno : Z; te_name : str }.
Record frame := mkFrame { fr_file : str; fr_lineno : Z; fr_name : str }.

Definition starts_lt (s : str) : bool := match s with c :: _ => c =? 60 | [] => false end.   (* "<" *)
Definition isabs (s : str) : bool := match s with c :: _ => c =? 47 | [] => false end.       (* posix *)
Definition ends_slash (s : str) : bool := match rev s with c :: _ => c =? 47 | [] => false end.
(* os.path.join(a, b) for a relative b *)
Definition path_join (a b : str) : str :=
  match a with [] => b | _ => if ends_slash a then a ++ b else a ++ 47 :: b end.

(* the loop body of Traceback.extract: relative file names are joined to rich._IMPORT_CWD; the line
   number is the traceback entry's, not the frame object's *)
Definition extract_frame (cwd : str) (e : tb_entry) : frame :=
  let f := te_file e in
  let f := match f with
           | [] => f
           | _ => if negb (starts_lt f) && negb (isabs f) then path_join cwd f else f
           end in
  mkFrame (match f with [] => [63] | _ => f end) (te_lineno e) (te_name e).
Definition extract (cwd : str) (stacks : list (list tb_entry)) : list (list frame) :=
  map (map (extract_frame cwd)) stacks.

Inductive block : Type :=
| BSkipped                      (* filename starts with "<": header only *)
| BError                        (* reading the file / guessing the lexer raised: the error text *)
| BCode (lines : list str).     (* the Syntax block *)

Definition code_cache := list (str * str).
Fixpoint cc_get (c : code_cache) (k : str) : option str :=
  match c with
  | [] => None
  | (k', v) :: c' => if str_eqb k k' then Some v else cc_get c' k
  end.

Section Stack.
Variable read : str -> option str.
Variable lexsel : str -> str -> option (bool * (str -> list (Z * str))).
Variable F : facts.
Variable wrapf : str -> Z -> bool -> list str.
Variables (extra : Z) (ww transparent guides : bool) (W : Z).

(* read_code: `code = code_cache.get(filename); if code is None: read and store` *)
Definition read_code (c : code_cache) (f : str) : option str * code_cache :=
  match cc_get c f with
  | Some x => (Some x, c)
  | None => match read f with
            | Some x => (Some x, c ++ [(f, x)])
            | None => (None, c)
            end
  end.

Fixpoint render_frames (frames : list frame) (c : code_cache) : res (list (frame * block)) :=
  match frames with
  | [] => Ok []
  | fr :: rest =>
      if starts_lt (fr_file fr) then
        do r <- render_frames rest c; Ok ((fr, BSkipped) :: r)
      else
        let '(oc, c') := read_code c (fr_file fr) in
        match oc with
        | None => do r <- render_frames rest c'; Ok ((fr, BError) :: r)
        | Some code =>
            match lexsel (fr_file fr) code with
            | None => do r <- render_frames rest c'; Ok ((fr, BError) :: r)
            | Some (found, lex) =>
                (* the Syntax objects are rendered after the generator ran; an exception there escapes *)
                do out <- render_frame_f lex F wrapf found code (fr_lineno fr) extra ww transparent guides W;
                do r <- render_frames rest c'; Ok ((fr, BCode out) :: r)
            end
        end
  end.

(* one _render_stack call: a fresh code_cache *)
Definition render_stack (frames : list frame) : res (list (frame * block)) := render_frames frames [].
End Stack.
