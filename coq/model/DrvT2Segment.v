(* wire glue for the T2 tie (gen/T2_Segment.v): runs functions REGENERATED from the Python source
   so that the translator itself is validated against rich on generated inputs. *)
From RichModel Require Import Prelude Cells Ratio T2Lib.
From RichGen Require Import CellWidthTable T2_Cells T2_Segment.

Definition tSeg3 (t : tree) : str * option Z * bool := (tStr (tNth t 0), tOpt tZ (tNth t 1), tB (tNth t 2)).
Definition ofSeg3 (g : str * option Z * bool) : tree :=
  let '(tx, st, c) := g in L [ofStr tx; ofOpt I st; ofB c].
Definition line_fuel (l : list (str * option Z * bool)) : nat :=
  S (fold_left (fun m g => Nat.max m (length (fst (fst g)))) l (length CELL_WIDTHS)).

Definition ops : list (string * (tree -> tree)) := [
  ("t2.adjust_line_length", fun t =>   (* [line, length, style?, pad] *)
      let line := tList tSeg3 (tNth t 0) in
      ofRes (ofList ofSeg3)
        (adjust_line_length_gen (line_fuel line) cell_len line (tZ (tNth t 1)) (tOpt tZ (tNth t 2)) (tB (tNth t 3))));
  ("t2.cell_length", fun t => I (cell_length_gen cell_len (tSeg3 t)))
].
