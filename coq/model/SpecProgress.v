(* Spec-level checkers for C12: boolean statements of the property on concrete observations.
   They are written against the property text, not against the model: a "sequential reference task"
   (last explicitly set value + list of advances since) and the clamp written out by cases.
   Used in the theorem statements (props/C12.v) and, through the driver, on the observations made
   on the real Progress object after every operation. *)
From RichModel Require Import Prelude Progress.
From Coq Require Import QArith Qround Qabs.
Open Scope Q_scope.

(* completed = last explicitly set value + sum of the advances since *)
Definition completed_ok_b (base : Q) (advs : list Q) (c : Q) : bool := Qeq_bool c (base + sumQ advs).

(* percentage = completed/total*100 clamped to 0..100, and 0 when total = 0 (tol = 0 in theorems;
   the harness allows 1e-9 for the two float roundings of the implementation) *)
Definition clamp_pct (c t : Q) : Q :=
  let x := c / t * 100 in
  if Qle_bool x 0 then 0 else if Qle_bool 100 x then 100 else x.
Definition pct_ok_b (tol c t p : Q) : bool :=
  if Qeq_bool t 0 then Qle_bool (Qabs p) tol else Qle_bool (Qabs (p - clamp_pct c t)) tol.

(* a started task whose completed >= total after an advance/update reports finished *)
Definition finish_ok_b (is_started : bool) (c t : Q) (is_finished : bool) : bool :=
  if is_started && Qle_bool t c then is_finished else true.
(* a recorded finish time stays what it was *)
Definition latch_ok_b (before after : option Q) : bool :=
  match before with
  | None => true
  | Some f => match after with Some g => Qeq_bool f g | None => false end
  end.
Definition speed_ok_b (sp : option Q) : bool := match sp with None => true | Some v => Qle_bool 0 v end.
Definition tr_ok_b (tr : option Z) : bool := match tr with None => true | Some v => (0 <=? v)%Z end.

(* ---------------------------------------------------------------- observations of one task *)
Record obs := mkObs {
  o_id : Z; o_completed : Q; o_total : Q; o_started : bool; o_pct : Q;
  o_fin : option Q;       (* finished_time; finished <-> Some *)
  o_speed : option Q; o_tr : option Z
}.
Definition observe (t : task) : obs :=
  mkObs (t_id t) (t_completed t) (t_total t) (started t) (percentage t) (t_fin t) (speed t) (time_remaining t).
Definition observe_all (p : progress) : list obs := map observe (p_tasks p).

(* ---------------------------------------------------------------- the reference, per task *)
Record ref := mkRef { r_id : Z; r_base : Q; r_advs : list Q }.
Record cstate := mkC { c_refs : list ref; c_next : Z; c_nn : bool }.

Fixpoint ref_upd (id : Z) (f : ref -> ref) (l : list ref) : list ref :=
  match l with
  | [] => []
  | r :: l' => if (r_id r =? id)%Z then f r :: l' else r :: ref_upd id f l'
  end.
Fixpoint ref_del (id : Z) (l : list ref) : list ref :=
  match l with
  | [] => []
  | r :: l' => if (r_id r =? id)%Z then l' else r :: ref_del id l'
  end.

Definition ref_step (c : cstate) (o : op) : cstate :=
  match o with
  | AddTask _ _ completed _ =>
      mkC (c_refs c ++ [mkRef (c_next c) completed []]) (c_next c + 1)%Z (c_nn c)
  | Update id _ (Some v) _ _ => mkC (ref_upd id (fun r => mkRef (r_id r) v []) (c_refs c)) (c_next c) (c_nn c)
  | Update id _ None (Some a) _ =>
      mkC (ref_upd id (fun r => mkRef (r_id r) (r_base r) (a :: r_advs r)) (c_refs c)) (c_next c) (c_nn c)
  | Reset id _ _ v _ => mkC (ref_upd id (fun r => mkRef (r_id r) v []) (c_refs c)) (c_next c) (c_nn c)
  | Advance id a =>
      mkC (ref_upd id (fun r => mkRef (r_id r) (r_base r) (a :: r_advs r)) (c_refs c)) (c_next c)
          (c_nn c && Qle_bool 0 a)
  | Remove id => mkC (ref_del id (c_refs c)) (c_next c) (c_nn c)
  | _ => c
  end.

(* does the operation change the total of task id, or reset it? *)
Definition resets (o : op) (id : Z) : bool :=
  match o with
  | Update id' (Some _) _ _ _ => (id' =? id)%Z
  | Reset id' _ _ _ _ => (id' =? id)%Z
  | _ => false
  end.
Definition advances (o : op) (id : Z) : bool :=
  match o with
  | Update id' _ _ _ _ => (id' =? id)%Z
  | Advance id' _ => (id' =? id)%Z
  | _ => false
  end.

Fixpoint find_obs (id : Z) (l : list obs) : option obs :=
  match l with [] => None | x :: r => if (o_id x =? id)%Z then Some x else find_obs id r end.

Definition obs_ok_b (tol : Q) (nn : bool) (o : op) (prev : list obs) (r : ref) (x : obs) : bool :=
  (o_id x =? r_id r)%Z
  && completed_ok_b (r_base r) (r_advs r) (o_completed x)
  && pct_ok_b tol (o_completed x) (o_total x) (o_pct x)
  && (if nn then speed_ok_b (o_speed x) else true)
  && (match find_obs (o_id x) prev with
      | Some pv => if resets o (o_id x) then true else latch_ok_b (o_fin pv) (o_fin x)
      | None => true
      end)
  && (if advances o (o_id x)
      then finish_ok_b (o_started x) (o_completed x) (o_total x) (is_some (o_fin x))
           && (if nn && o_started x then tr_ok_b (o_tr x) else true)
      else true).

Fixpoint zip_ok (f : ref -> obs -> bool) (rs : list ref) (xs : list obs) : bool :=
  match rs, xs with
  | [], [] => true
  | r :: rs', x :: xs' => f r x && zip_ok f rs' xs'
  | _, _ => false
  end.

(* the whole property on a history and the observations made after each of its operations *)
Fixpoint accounting_from (tol : Q) (c : cstate) (prev : list obs) (h : list hop) (obss : list (list obs)) : bool :=
  match h, obss with
  | [], [] => true
  | (o, _, _) :: h', cur :: obss' =>
      let c' := ref_step c o in
      zip_ok (obs_ok_b tol (c_nn c') o prev) (c_refs c') cur && accounting_from tol c' cur h' obss'
  | _, _ => false
  end.
Definition accounting_ok_b (tol : Q) (h : list hop) (obss : list (list obs)) : bool :=
  accounting_from tol (mkC [] 0%Z true) [] h obss.

(* ---------------------------------------------------------------- track() *)
Fixpoint list_eqbZ (a b : list Z) : bool :=
  match a, b with
  | [], [] => true
  | x :: a', y :: b' => (x =? y)%Z && list_eqbZ a' b'
  | _, _ => false
  end.
(* every element once, in order, and the fresh task's completed count is their number *)
Definition track_ok_b (xs yielded : list Z) (final_completed : Q) : bool :=
  list_eqbZ xs yielded && Qeq_bool final_completed (qZ (zlen xs)).

(* ---------------------------------------------------------------- concurrent part *)
Definition no_lost_update_b (initial : Z) (advs : list Z) (final : Z) : bool :=
  (final =? initial + sumZ advs)%Z.

(* ---------------------------------------------------------------- float amounts *)
(* With float amounts every `+=` rounds.  The accounting identity then holds in this sense: each
   observed value is the correctly rounded sum of the previous observed value and the amount
   (relative error at most u = 2^-53 for binary64 round-to-nearest), an explicit set is exact; the
   theorem float_accounting (proofs) turns these local conditions into the bound on the distance to
   "last set value + sum of advances since".  Checked on the real object after every operation. *)
Inductive fwr : Type := FSet (v : Q) | FAdd (a : Q).
Definition rounded_sum_b (u prev a next : Q) : bool := Qle_bool (Qabs (next - (prev + a))) (u * Qabs (prev + a)).
Definition fwr_ok_b (u prev : Q) (w : fwr) (next : Q) : bool :=
  match w with FSet v => Qeq_bool next v | FAdd a => rounded_sum_b u prev a next end.
(* a chain of writes and the value observed after each *)
Fixpoint chain_ok_b (u prev : Q) (l : list (fwr * Q)) : bool :=
  match l with
  | [] => true
  | (w, next) :: r => fwr_ok_b u prev w next && chain_ok_b u next r
  end.
(* exact reference and the accumulated error allowance *)
Fixpoint chain_exact (c : Q) (l : list (fwr * Q)) : Q :=
  match l with [] => c | (FSet v, _) :: r => chain_exact v r | (FAdd a, _) :: r => chain_exact (c + a) r end.
Fixpoint chain_last (c : Q) (l : list (fwr * Q)) : Q :=
  match l with [] => c | (_, next) :: r => chain_last next r end.
(* error allowance: u * |exact input of the rounding| for every += (an explicit set in between makes the
   value exact again, so this over-approximates after a set) *)
Fixpoint adds_bound (u prev : Q) (l : list (fwr * Q)) : Q :=
  match l with
  | [] => 0
  | (FSet _, next) :: r => adds_bound u next r
  | (FAdd a, next) :: r => u * Qabs (prev + a) + adds_bound u next r
  end.

(* what an operation writes to the completed count of task id *)
Definition fwrite_of (o : op) (id : Z) : option fwr :=
  match o with
  | Advance id' a => if (id' =? id)%Z then Some (FAdd a) else None
  | Update id' _ (Some v) _ _ => if (id' =? id)%Z then Some (FSet v) else None
  | Update id' _ None (Some a) _ => if (id' =? id)%Z then Some (FAdd a) else None
  | Reset id' _ _ v _ => if (id' =? id)%Z then Some (FSet v) else None
  | _ => None
  end.
Fixpoint find_c (id : Z) (l : list (Z * Q)) : option Q :=
  match l with [] => None | (i, c) :: r => if (i =? id)%Z then Some c else find_c id r end.
(* observations: (task id, completed) for every task, after every operation *)
Definition fobs_ok_b (u : Q) (o : op) (prev : list (Z * Q)) (x : Z * Q) : bool :=
  match find_c (fst x) prev with
  | None => match o with AddTask _ _ c _ => Qeq_bool (snd x) c | _ => false end
  | Some p => match fwrite_of o (fst x) with
              | None => Qeq_bool (snd x) p
              | Some w => fwr_ok_b u p w (snd x)
              end
  end.
Fixpoint float_accounting_from (u : Q) (prev : list (Z * Q)) (h : list hop) (obss : list (list (Z * Q))) : bool :=
  match h, obss with
  | [], [] => true
  | (o, _, _) :: h', cur :: obss' => forallb (fobs_ok_b u o prev) cur && float_accounting_from u cur h' obss'
  | _, _ => false
  end.
Definition float_accounting_ok_b (u : Q) (h : list hop) (obss : list (list (Z * Q))) : bool :=
  float_accounting_from u [] h obss.
Definition u_binary64 : Q := 1 # 9007199254740992.   (* 2^-53 *)
