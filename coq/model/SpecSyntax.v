(* Spec-level checkers of C17: boolean functions on a rendered output (list of plain lines, as
   printed by Console(color_system=None)) and the SOURCE.  They are used in the theorem statements
   (props/C17.v) and, through the driver, on the implementation's real output.  The gutter is split
   off by position; its width is computed here from the source, not taken from the output. *)
From RichModel Require Import Prelude Cells Syntax.
From RichModel Require Wrap.

(* non-whitespace characters in the sense of Text.wrap (Python's \s / str.isspace class, C02) *)
Definition uns (s : str) : str := Wrap.nonspace s.

Definition blank (s : str) : bool := forallb is_sp s.

(* the lines the property speaks of: the tab-expanded source split at "\n" *)
Definition source_lines (o : opts) (code : str) : list str :=
  split_nl (expandtabs (o_tab_size o) code).
(* line_range (a, e), 1-based inclusive, clipped to the lines that exist *)
Definition range_clip (o : opts) (L : list str) : list str :=
  match o_range o with
  | Some (a, e) => skipn (Z.to_nat (Z.max 0 (a - 1))) (firstn (Z.to_nat e) L)
  | None => L
  end.
Definition first_number (o : opts) : Z := o_start_line o + line_offset_of o.

(* gutter = 2 marker columns, the right-justified number, one space *)
Definition spec_gutter_width (o : opts) (code : str) : Z :=
  if o_line_numbers o then zlen (show_Z (o_start_line o + count_nl code)) + 3 else 0.
Definition spec_code_width (o : opts) (code : str) (W : Z) : Z :=
  match o_code_width o with
  | Some w => w
  | None => if o_line_numbers o then W - spec_gutter_width o code else W - 1   (* rich keeps one column free *)
  end.

(* a displayed line b shows the source line e in w cells without wrapping: equal up to trailing
   spaces when e fits, otherwise a prefix of e that fills the width up to one cell (a double-width
   character is never split) *)
Definition crop_ok_b (e : str) (w : Z) (b : str) : bool :=
  if cell_len e <=? w then str_eqb (rstrip_sp b) (rstrip_sp e)
  else existsb (fun k => let p := firstn k e in
                         (w - 1 <=? cell_len p) && (cell_len p <=? w)
                         && str_eqb (rstrip_sp b) (rstrip_sp p))
               (seq 0 (S (length e))).
(* Indent guides.  "Highlighting never changes the characters of the code": a guide character may
   stand only where the source line has an ASCII space of its leading indentation; every other
   character of the line -- any other whitespace (U+00A0, U+2003, the wide U+3000 ...) included --
   must be displayed as it is.  A source line that is blank (ASCII spaces only, or empty) carries no
   character of the code: there the guides may be continued, nothing else may appear. *)
Fixpoint unguide (e b : str) : str :=
  match e, b with
  | ce :: e', cb :: b' =>
      if is_sp ce && (is_sp cb || (cb =? GUIDE)) then SP :: unguide e' b' else b
  | _, _ => b
  end.
Definition guide_chars_only (b : str) : bool := forallb (fun c => is_sp c || (c =? GUIDE)) b.
Definition guide_line_ok_b (e : str) (w : Z) (b : str) : bool :=
  if blank e then guide_chars_only b else crop_ok_b e w (unguide e b).

(* the contract of Text.wrap (property C02) as far as C17 needs it: the non-space characters of
   the produced lines are those of the source line, in order, and every produced line fits *)
Definition wrap_ok_b (e : str) (w : Z) (bs : list str) : bool :=
  str_eqb (uns (concat bs)) (uns e)
  && forallb (fun b => cell_len (rstrip_sp b) <=? w) bs
  && negb (match bs with [] => true | _ => false end).
Definition body_ok_b (ww guides : bool) (e : str) (w : Z) (bs : list str) : bool :=
  if guides then
    if ww then   (* a narrow code width may wrap inside the guides: compare with guide characters removed *)
      let ng := filter (fun c => negb (c =? GUIDE)) in
      str_eqb (uns (ng (concat bs))) (uns (ng e))
      && forallb (fun b => cell_len (rstrip_sp b) <=? w) bs
      && negb (match bs with [] => true | _ => false end)
    else match bs with [b] => guide_line_ok_b e w b | _ => false end
  else if ww then wrap_ok_b e w bs else match bs with [b] => crop_ok_b e w b | _ => false end.

Section Check.
Variable o : opts.
Variables gw cw : Z.
Variables chk_num chk_mark chk_body : bool.

(* output lines arrive with trailing spaces removed, so a line may be shorter than the gutter *)
Definition gut (l : str) : str := firstn (Z.to_nat gw) (l ++ repeat SP (Z.to_nat gw)).
Definition body (l : str) : str := skipn (Z.to_nat gw) l.
Definition is_cont (l : str) : bool := blank (gut l).

Fixpoint span_cont (out : list str) : list str * list str :=
  match out with
  | l :: r => if is_cont l then let '(a, b) := span_cont r in (l :: a, b) else ([], out)
  | [] => ([], [])
  end.

Definition num_field (k : Z) : str := rjust (show_Z k) (gw - 3) ++ [SP].
Definition mark_field (k : Z) : str := if mem_Z k (o_highlight o) then POINTER else [SP; SP].
Definition gutter_ok (k : Z) (g : str) : bool :=
  (negb chk_num || str_eqb (skipn 2 g) (num_field k))
  && (negb chk_mark || str_eqb (firstn 2 g) (mark_field k)).

(* the numbered lines of `out` are, one for one and in order, the lines `exp` numbered from k;
   continuation lines (blank gutter) only when wrapping; expected lines that are not displayed
   are blank lines at the very end *)
Fixpoint check_lines (exp : list str) (k : Z) (out : list str) : bool :=
  match exp with
  | [] => match out with [] => true | _ => false end
  | e :: exp' =>
      match out with
      | [] => forallb blank exp
      | l :: out' =>
          let '(conts, rest) := span_cont out' in
          negb (is_cont l) && gutter_ok k (gut l)
          && (o_word_wrap o || match conts with [] => true | _ => false end)
          && (negb chk_body || body_ok_b (o_word_wrap o) (o_indent_guides o) e cw (body l :: map body conts))
          && check_lines exp' (k + 1) rest
      end
  end.

(* without a gutter and without wrapping: line for line; with a line_range (not applied by rich when
   no numbers are shown) at least the lines up to the range end *)
Fixpoint check_plain (exp out : list str) (i : Z) (lim : option Z) : bool :=
  match exp, out with
  | [], [] => true
  | [], _ :: _ => false
  | _ :: _, [] => forallb blank exp || match lim with Some e => e <=? i | None => false end
  | e :: exp', l :: out' => crop_ok_b e cw l && check_plain exp' out' (i + 1) lim
  end.
End Check.

Fixpoint is_prefix (a b : str) : bool :=
  match a, b with
  | [], _ => true
  | x :: a', y :: b' => (x =? y) && is_prefix a' b'
  | _ :: _, [] => false
  end.

Definition check_render (n m b : bool) (o : opts) (code : str) (W : Z) (out : list str) : bool :=
  let L := source_lines o code in
  let gw := spec_gutter_width o code in
  let cw := spec_code_width o code W in
  if o_line_numbers o then check_lines o gw cw n m b (range_clip o L) (first_number o) out
  else if negb b then true
  else if o_word_wrap o then
    (match o_range o with
     | None => str_eqb (uns (concat out)) (uns (concat L))
     | Some _ => is_prefix (uns (concat out)) (uns (concat L))
     end) && forallb (fun l => cell_len (rstrip_sp l) <=? cw) out
  else check_plain cw L out 0 (match o_range o with Some (_, e) => Some e | None => None end).

(* C17, clause by clause *)
Definition lines_match_b := check_render false false true.   (* de-guttered lines = source lines *)
Definition numbers_ok_b := check_render true false false.    (* each number = index from start_line *)
Definition range_ok_b := check_render true false true.       (* exactly the lines of the range, clipped *)
Definition marks_ok_b := check_render false true false.      (* the pointer marks exactly highlight_lines *)
Definition render_ok_b := check_render true true true.

(* Highlighting never changes a character: up to the one final newline that Syntax removes anyway,
   the highlighted text is the code, or (with a line_range) a prefix of it that ends at a line end *)
Definition highlight_ok_b (code plain_highlighted : str) (ranged : bool) : bool :=
  let a := remove_suffix_nl plain_highlighted in
  let b := remove_suffix_nl code in
  if ranged then is_prefix a b && (str_eqb a b || ends_nl plain_highlighted)
  else str_eqb a b.

(* one traceback frame (a code block inside a panel whose inner width is `avail` cells): exactly
   one line carries the pointer; it shows the number `lineno` and the source line `lineno` *)
Definition failing_line_b (code : str) (lineno avail : Z) (guides : bool) (out : list str) : bool :=
  let o := tb_opts lineno 0 false true false in
  let gw := spec_gutter_width o code in
  let w := Z.min SyntaxFacts.tb_code_width (avail - gw) in
  match nth_error (source_lines o code) (Z.to_nat (lineno - 1)) with
  | None => false
  | Some e =>
      (1 <=? lineno) &&
      match filter (fun l => str_eqb (firstn 2 (gut gw l)) POINTER) out with
      | [l] => str_eqb (skipn 2 (gut gw l)) (num_field gw lineno)
               && (if guides then guide_line_ok_b e w (body gw l) else crop_ok_b e w (body gw l))
      | _ => false
      end
  end.

(* what Traceback._render_stack must show for one frame, given the file content AT RENDER TIME
   (None = unreadable): nothing for "<...>" pseudo files, the error text for an unreadable file, else a
   code block in which -- when line `lineno` exists in that content and is not blank -- exactly that
   line carries the pointer under its number.  kind: 0 code block, 1 header only, 2 error text *)
Definition starts_lt_b (s : str) : bool := match s with c :: _ => c =? 60 | [] => false end.
Definition block_ok_b (file : str) (content : option str) (lineno avail : Z) (guides : bool)
           (kind : Z) (lines : list str) : bool :=
  if starts_lt_b file then kind =? 1
  else match content with
       | None => kind =? 2
       | Some code =>
           (kind =? 0) &&
           match nth_error (source_lines (tb_opts lineno 0 false true false) code) (Z.to_nat (lineno - 1)) with
           | Some e => blank e || negb (1 <=? lineno) || failing_line_b code lineno avail guides lines
           | None => true
           end
       end.

(* LexOk on one sample: the token texts concatenate to the lexer's normalisation of the input *)
Definition lex_ok_b (lo : lexopts) (code : str) (toks : list str) : bool :=
  str_eqb (concat toks) (lex_norm lo code).
