(* L3 ANSI output: Console._render_buffer (rich/console.py), Segment.remove_color
   (rich/segment.py) and the part of Style.render / Style._make_ansi_codes that depends on the
   history of the style OBJECT (the `_ansi` memo).               Definitions only, no proofs.

   A buffered segment is (text, style, is_control).  Besides these the model record carries two
   pieces of per-object state that decide the bytes written:
     a_lid   the style's `_link_id` (f"{time()}-{randint(0, 999999)}", fixed when the style object is
             created; an input here);
     a_memo  the state of the style's `_ansi` slot when the buffer is rendered: None = never
             rendered, Some (sys0, a) = `_make_ansi_codes(sys0)` ran before and stored a.  rich
             9.10.0 stores only a (the system is ghost state); the repaired code stores the pair.

   Two repairs are parameters of the model ([false] = rich 9.10.0 as found):
     fix_d16  `_make_ansi_codes` reuses the memo only when it was computed for the same colour
              system (DESIGN D16);
     fix_ctl  `_render_buffer` drops EVERY control segment when the console is not a terminal; as
              found a control segment whose style is truthy takes the `if style:` branch first and
              is written (Segment.control(text, style) / Segment.make_control keep styles).

   Not modelled: Console.record (copy of the buffer, C15), the WINDOWS per-line write loop
   (WINDOWS = False; `legacy_windows` only suppresses hyperlinks, as coded), Jupyter.
   Segment.remove_color keeps a dict {style: style.without_color}; two segments whose styles are
   equal (and hash equally) share one colourless object.  `remove_color_cached` (end of this file)
   models that as coded; AnsiP4.remove_color_dict_transparent proves that it renders exactly like
   each segment's own `without_color` (link ids equal), so render_buffer uses the simpler
   `map remove_color_seg`.  The generator repeats equal styles inside one buffer. *)
From RichModel Require Import Prelude Color Style.
From RichGen Require Import StyleTables AnsiFacts.

Record cfg : Type := mkCfg {
  k_system : option ColorSystem;     (* Console._color_system *)
  k_no_color : bool;                 (* Console.no_color *)
  k_terminal : bool;                 (* Console.is_terminal *)
  k_legacy : bool;                   (* Console.legacy_windows *)
  k_fix_d16 : bool;
  k_fix_ctl : bool
}.

Definition memo := option (ColorSystem * str).

Record aseg : Type := mkASeg {
  a_text : str;
  a_style : option style;
  a_lid : str;
  a_memo : memo;
  a_ctl : bool
}.

(* ------------------------------------------------------------------ Style._make_ansi_codes *)
Definition ansi_codes (fix_d16 : bool) (s : style) (m : memo) (sys : ColorSystem) : res str :=
  match m with
  | Some (sys0, a) =>
      if fix_d16 && negb (ColorSystem_eqb sys0 sys) then make_ansi_codes s sys else Ok a
  | None => make_ansi_codes s sys
  end.
(* the memo after the call *)
Definition memo_after (fix_d16 : bool) (s : style) (m : memo) (sys : ColorSystem) : res memo :=
  match m with
  | Some (sys0, a) =>
      if fix_d16 && negb (ColorSystem_eqb sys0 sys)
      then do a' <- make_ansi_codes s sys; Ok (Some (sys, a'))
      else Ok m
  | None => do a' <- make_ansi_codes s sys; Ok (Some (sys, a'))
  end.

(* Style.render(text, color_system=, legacy_windows=) on an object whose memo is m *)
Definition render_styled (fix_d16 : bool) (s : style) (m : memo) (text : str)
                         (system : option ColorSystem) (legacy_windows : bool) (link_id : str) : res str :=
  match text, system with
  | [], _ => Ok text
  | _, None => Ok text
  | _, Some cs =>
      do attrs <- ansi_codes fix_d16 s m cs;
      let rendered := sgr_wrap attrs text in
      match s_link s with
      | Some ((_ :: _) as link) =>
          if legacy_windows then Ok rendered else Ok (link_wrap link_id link rendered)
      | _ => Ok rendered
      end
  end.

(* one style object rendered by consoles of the given colour systems, one after the other
   (Style.parse is lru_cached, so `console.print(.., style="#ff0000")` on two consoles does this) *)
Fixpoint render_history (fix_d16 : bool) (s : style) (m : memo) (text : str) (link_id : str)
                        (systems : list ColorSystem) : res (list str) :=
  match systems with
  | [] => Ok []
  | sys :: r =>
      do out <- render_styled fix_d16 s m text (Some sys) false link_id;
      do m' <- (match text with [] => Ok m | _ => memo_after fix_d16 s m sys end);
      do outs <- render_history fix_d16 s m' text link_id r;
      Ok (out :: outs)
  end.

(* ------------------------------------------------------------------ Segment.remove_color *)
Definition remove_color_seg (g : aseg) : aseg :=
  match a_style g with
  | Some s =>
      if style_bool s
      then mkASeg (a_text g) (Some (style_without_color s)) (a_lid g) None (a_ctl g)
      else mkASeg (a_text g) None (a_lid g) None (a_ctl g)
  | None => g
  end.

(* ------------------------------------------------------------------ Console._render_buffer *)
Definition style_truthy (o : option style) : option style :=
  match o with Some s => if style_bool s then Some s else None | None => None end.

Definition render_seg (k : cfg) (g : aseg) : res str :=
  if k_fix_ctl k && negb (k_terminal k) && a_ctl g then Ok []
  else match style_truthy (a_style g) with
  | Some s => render_styled (k_fix_d16 k) s (a_memo g) (a_text g) (k_system k) (k_legacy k) (a_lid g)
  | None => if negb (k_terminal k) && a_ctl g then Ok [] else Ok (a_text g)
  end.

Fixpoint render_segs (k : cfg) (segs : list aseg) : res str :=
  match segs with
  | [] => Ok []
  | g :: r => do a <- render_seg k g; do b <- render_segs k r; Ok (a ++ b)
  end.

Definition strip_color (k : cfg) (segs : list aseg) : list aseg :=
  match k_system k with
  | Some _ => if k_no_color k then map remove_color_seg segs else segs
  | None => segs
  end.

Definition render_buffer (k : cfg) (segs : list aseg) : res str :=
  render_segs k (strip_color k segs).

(* ------------------------------------------------------------------ histories of one style object *)
(* An object = (fields, state of its `_ansi` slot).  A history renders the current object on
   consoles of arbitrary configuration and replaces it by styles derived from it.  Which
   derivation carries the memo over is part of the code (pinned by gen/AnsiFacts.v):
     copy(), update_link()      `style._ansi = self._ansi`   carried (same attributes and colours)
     without_color              `style._ansi = None`         reset  (the colours change!)
     a + b (general branch)     `new_style._ansi = None`     reset;  a + null = a, null + b = b (same objects)
   The null style is never rendered by _render_buffer (`if style:`), so its slot stays empty here.
   Link ids: one parameter [lid] stands for every f"{time()}-{randint()}" (pinned by the harness). *)
Definition obj : Type := (style * memo)%type.

Inductive hop : Type :=
| HRender (k : cfg) (text : str)      (* a console with facts k writes Segment(text, current) *)
| HWithoutColor                        (* current := current.without_color *)
| HCopy                                (* current := current.copy() *)
| HUpdateLink (l : option str)         (* current := current.update_link(l) *)
| HAddRight (b : style)                (* current := current + b      (b freshly constructed) *)
| HAddLeft (b : style).                (* current := b + current *)

Definition obj_without_color (o : obj) : obj := (style_without_color (fst o), None).
Definition obj_copy (o : obj) : obj :=
  if s_null (fst o) then (style_null, None) else (style_copy (fst o), snd o).
Definition obj_update_link (l : option str) (o : obj) : obj := (style_update_link true (fst o) l, snd o).
Definition obj_add (a b : obj) : obj :=
  if s_null (fst b) then a else if s_null (fst a) then b else (style_merge (fst a) (fst b), None).

Definition hist_seg (o : obj) (text lid : str) : aseg := mkASeg text (Some (fst o)) lid (snd o) false.

(* the object's own slot after a console wrote it: filled only when the console rendered THIS
   object (truthy style, colour system, non-empty text, colours not stripped: NO_COLOR renders the
   colourless copy) *)
Definition memo_next (k : cfg) (o : obj) (text : str) : obj :=
  match k_system k, text with
  | Some sys, _ :: _ =>
      if style_bool (fst o) && negb (k_no_color k)
      then match memo_after (k_fix_d16 k) (fst o) (snd o) sys with
           | Ok m' => (fst o, m')
           | _ => o            (* unreachable after a successful render *)
           end
      else o
  | _, _ => o
  end.

(* [memoful = false]: every object is treated as never rendered (the reference behaviour) *)
Definition forget (memoful : bool) (o : obj) : obj := if memoful then o else (fst o, None).

Fixpoint run_hist (memoful : bool) (lid : str) (o : obj) (ops : list hop) : res (list str) :=
  match ops with
  | [] => Ok []
  | HRender k text :: r =>
      do out <- render_buffer k [hist_seg o text lid];
      do outs <- run_hist memoful lid (forget memoful (memo_next k o text)) r;
      Ok (out :: outs)
  | HWithoutColor :: r => run_hist memoful lid (forget memoful (obj_without_color o)) r
  | HCopy :: r => run_hist memoful lid (forget memoful (obj_copy o)) r
  | HUpdateLink l :: r => run_hist memoful lid (forget memoful (obj_update_link l o)) r
  | HAddRight b :: r => run_hist memoful lid (forget memoful (obj_add o (b, None))) r
  | HAddLeft b :: r => run_hist memoful lid (forget memoful (obj_add (b, None) o)) r
  end.

(* ------------------------------------------------------------------ Segment.remove_color as coded *)
(* `cache: Dict[Style, Style]`: the colourless copy made for the first of several equal styles is
   reused for the later ones (same object: same `_link_id`, and its `_ansi` slot is whatever the
   earlier render of this very buffer left in it).  [same k s]: "dict key k matches s" (equal hash
   and __eq__); [reuse_memo]: the slot of a reused copy.  proofs/AnsiP4.v shows that this function
   renders exactly like `map remove_color_seg` -- which is why render_buffer uses the latter. *)
Fixpoint remove_color_cached (same : style -> style -> bool) (reuse_memo : style -> memo)
                             (cache : list (style * (style * str))) (segs : list aseg) : list aseg :=
  match segs with
  | [] => []
  | g :: r =>
      match a_style g with
      | Some s =>
          if style_bool s then
            match find (fun kv => same (fst kv) s) cache with
            | Some (_, (cs, clid)) =>
                mkASeg (a_text g) (Some cs) clid (reuse_memo cs) (a_ctl g)
                :: remove_color_cached same reuse_memo cache r
            | None =>
                let cs := style_without_color s in
                mkASeg (a_text g) (Some cs) (a_lid g) None (a_ctl g)
                :: remove_color_cached same reuse_memo ((s, (cs, a_lid g)) :: cache) r
            end
          else mkASeg (a_text g) None (a_lid g) None (a_ctl g) :: remove_color_cached same reuse_memo cache r
      | None => g :: remove_color_cached same reuse_memo cache r
      end
  end.

(* ------------------------------------------------------------------ Console.__init__: facts from the environment *)
(* POSIX (WINDOWS = False, not Jupyter).  Keywords: force_terminal (None = ask file.isatty()),
   color_system (None | "auto" | a name of COLOR_SYSTEMS), no_color (None = look at the
   environment), legacy_windows (None = detect_legacy_windows() = False here).
   Environment: the values of NO_COLOR, COLORTERM, TERM when present. *)
Inductive cs_arg : Type := CSA_none | CSA_auto | CSA_name (sys : ColorSystem).
Record envv : Type := mkEnv { e_no_color : option str; e_colorterm : option str; e_term : option str }.

Definition env_get (o : option str) : str := match o with Some v => v | None => [] end.   (* .get(name, "") *)
Definition mem_str (s : str) (l : list str) : bool := existsb (str_eqb s) l.
(* term.partition("-")[2] *)
Fixpoint after_hyphen (s : str) : str :=
  match s with [] => [] | c :: r => if c =? 45 then r else after_hyphen r end.

Definition is_dumb_terminal (is_terminal : bool) (e : envv) : bool :=
  is_terminal && mem_str (py_lower (env_get (e_term e))) DUMB_TERMS.

Definition detect_color_system (is_terminal : bool) (e : envv) : option ColorSystem :=
  if negb is_terminal || is_dumb_terminal is_terminal e then None
  else if mem_str (py_lower (py_strip (env_get (e_colorterm e)))) COLORTERM_TRUECOLOR then Some CS_TRUECOLOR
  else match assoc_str (after_hyphen (py_lower (py_strip (env_get (e_term e))))) TERM_COLORS with
       | Some n => ColorSystem_of_int n
       | None => Some CS_STANDARD
       end.

(* self.no_color: the keyword if given, else the PRESENCE of NO_COLOR (whatever its value) *)
Definition no_color_of (arg : option bool) (e : envv) : bool :=
  match arg with Some b => b | None => match e_no_color e with Some _ => true | None => false end end.

Definition cfg_of_env (force_terminal : option bool) (isatty : bool) (cs : cs_arg) (no_color legacy : option bool)
                      (e : envv) (fix_d16 fix_ctl : bool) : cfg :=
  let term := match force_terminal with Some b => b | None => isatty end in
  mkCfg (match cs with CSA_none => None | CSA_auto => detect_color_system term e | CSA_name sys => Some sys end)
        (no_color_of no_color e) term (match legacy with Some b => b | None => false end) fix_d16 fix_ctl.
