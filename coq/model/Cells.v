(* L0: rich/cells.py, rich/_lru_cache.py.  The width table itself is regenerated from
   /repo/rich/_cell_widths.py on every run (gen/CellWidthTable.v). *)
From RichModel Require Import Prelude.
From RichGen Require Import CellWidthTable.

(* Python list indexing, negative indices included *)
Definition py_nth {A} (l : list A) (i : Z) : option A :=
  if 0 <=? i then nth_error l (Z.to_nat i)
  else let n := zlen l in
       if - n <=? i then nth_error l (Z.to_nat (n + i)) else None.

(* _get_codepoint_cell_size: the `while True` binary search, on explicit fuel *)
Fixpoint bsearch (fuel : nat) (T : list (Z * Z * Z)) (cp lo hi idx : Z) : res Z :=
  match fuel with
  | O => Crash K_OutOfFuel
  | S f =>
      match py_nth T idx with
      | None => Crash K_IndexError
      | Some (s, e, w) =>
          if cp <? s then
            let hi' := idx - 1 in
            if hi' <? lo then Ok 1 else bsearch f T cp lo hi' ((lo + hi') / 2)
          else if e <? cp then
            let lo' := idx + 1 in
            if hi <? lo' then Ok 1 else bsearch f T cp lo' hi ((lo' + hi) / 2)
          else Ok (if w =? -1 then 0 else w)
      end
  end.

Definition codepoint_cell_size_T (T : list (Z * Z * Z)) (cp : Z) : res Z :=
  let hi := zlen T - 1 in
  bsearch (S (length T)) T cp 0 hi ((0 + hi) / 2).

Definition codepoint_cell_size (cp : Z) : res Z := codepoint_cell_size_T CELL_WIDTHS cp.

(* the specification the property names: a linear scan of the table *)
Fixpoint lookup_linear (T : list (Z * Z * Z)) (cp : Z) : Z :=
  match T with
  | [] => 1
  | (s, e, w) :: T' =>
      if (s <=? cp) && (cp <=? e) then (if w =? -1 then 0 else w) else lookup_linear T' cp
  end.

Fixpoint sorted_disjoint_from (prev : Z) (T : list (Z * Z * Z)) : bool :=
  match T with
  | [] => true
  | (s, e, w) :: T' => (prev <? s) && (s <=? e) && sorted_disjoint_from e T'
  end.
Definition sorted_disjoint (T : list (Z * Z * Z)) : bool := sorted_disjoint_from (-1) T.

Definition widths_ok (T : list (Z * Z * Z)) : bool :=
  forallb (fun '(s, e, w) => (w =? -1) || (w =? 0) || (w =? 1) || (w =? 2)) T.

(* cw: width of a code point.  Downstream models use the linear-scan form; proofs/Cells.v
   shows  codepoint_cell_size cp = Ok (cw cp)  for every cp. *)
Definition cw (cp : Z) : Z := lookup_linear CELL_WIDTHS cp.

(* get_character_cell_size: ASCII shortcut, then the table *)
Definition char_size (cp : Z) : Z :=
  if (31 <? cp) && (cp <? 127) then 1 else cw cp.
Definition char_size_res (cp : Z) : res Z :=
  if (31 <? cp) && (cp <? 127) then Ok 1 else codepoint_cell_size cp.

Definition cell_len (s : str) : Z := sumZ (map char_size s).

(* ---- LRUCache(OrderedDict) as used by cell_len: association list, oldest first ---- *)
Definition cache := list (str * Z).

Fixpoint cache_get (c : cache) (k : str) : option Z :=
  match c with
  | [] => None
  | (k', v) :: c' => if str_eqb k k' then Some v else cache_get c' k
  end.

Fixpoint cache_update (c : cache) (k : str) (v : Z) : cache :=
  match c with
  | [] => []
  | (k', v') :: c' => if str_eqb k k' then (k', v) :: c' else (k', v') :: cache_update c' k v
  end.

(* LRUCache.__setitem__ *)
Definition cache_set (cap : nat) (c : cache) (k : str) (v : Z) : cache :=
  match cache_get c k with
  | Some _ => cache_update c k v
  | None => (if (cap <=? length c)%nat then tl c else c) ++ [(k, v)]
  end.

(* cell_len with its _cache argument threaded through *)
Definition cell_len_cached (cap : nat) (c : cache) (s : str) : Z * cache :=
  match cache_get c s with
  | Some v => (v, c)
  | None =>
      let t := cell_len s in
      if (length s <=? 64)%nat then (t, cache_set cap c s t) else (t, c)
  end.

Fixpoint run_cached (cap : nat) (c : cache) (calls : list str) : list Z * cache :=
  match calls with
  | [] => ([], c)
  | s :: rest =>
      let '(v, c') := cell_len_cached cap c s in
      let '(vs, c'') := run_cached cap c' rest in
      (v :: vs, c'')
  end.

(* ---- set_cell_size ---- *)
Fixpoint pop_loop (rsizes : list Z) (excess : Z) : list Z * Z :=
  if 0 <? excess then
    match rsizes with
    | [] => (rsizes, excess)
    | x :: r => pop_loop r (excess - x)
    end
  else (rsizes, excess).

Definition set_cell_size (s : str) (total : Z) : str :=
  let cs := cell_len s in
  if cs =? total then s
  else if cs <? total then s ++ py_repeat SP (total - cs)
  else
    let '(kept, excess) := pop_loop (rev (map char_size s)) (cs - total) in
    let text := firstn (length kept) s in
    if excess =? -1 then text ++ [SP] else text.

(* ---- chop_cells ---- *)
(* lines kept reversed, current line reversed *)
Fixpoint chop_go (chars : str) (max_size total : Z) (cur : str) (done : list str) : list str :=
  match chars with
  | [] => rev (rev cur :: done)
  | c :: rest =>
      let size := char_size c in
      if max_size <? total + size
      then chop_go rest max_size size [c] (rev cur :: done)
      else chop_go rest max_size (total + size) (c :: cur) done
  end.

Definition chop_cells (s : str) (max_size position : Z) : list str :=
  chop_go s max_size position [] [].

(* keep `simpl` from unfolding the 450-entry table *)
Arguments cw : simpl never.
Arguments char_size : simpl never.
Arguments codepoint_cell_size : simpl never.
