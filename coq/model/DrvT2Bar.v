(* wire glue for the T2 tie (gen/T2_Bar.v): runs functions REGENERATED from the Python source
   so that the translator itself is validated against rich on generated inputs. *)
From RichModel Require Import Prelude Ratio T2Lib.
From RichGen Require Import FrameBoxes T2_Bar.

Definition ofSeg3 (g : str * option Z * bool) : tree :=
  let '(tx, st, c) := g in L [ofStr tx; ofOpt I st; ofB c].

Definition ops : list (string * (tree -> tree)) := [
  ("t2.bar_console", fun t =>   (* [width?, begin, end, size, style?, max_width]; begin/end clamped as Bar.__init__ does *)
      let size := tZ (tNth t 3) in
      ofRes (ofList ofSeg3)
        (bar_console_gen (tOpt tZ (tNth t 0)) (Z.max (tZ (tNth t 1)) 0) (Z.min (tZ (tNth t 2)) size) size
                         (tOpt tZ (tNth t 4)) (tZ (tNth t 5))))
].
