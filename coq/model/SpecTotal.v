(* Spec-level checkers of C14: which outcome classes each entry point may show.  Used in the
   theorem statements and, through the driver, on the IMPLEMENTATION's outcome class of every case.
   Outcome codes (Total.code_of): 0 returned, 10 + e documented error e, 100 + k undocumented escape k. *)
From RichModel Require Import Prelude Total.

(* entry points *)
Definition OP_color := 0.         (* Color.parse(s) *)
Definition OP_style := 1.         (* Style.parse(s) *)
Definition OP_normalize := 2.     (* Style.normalize(s) *)
Definition OP_markup := 3.        (* markup.render(s) *)
Definition OP_get_style := 4.     (* console.get_style(s) *)
Definition OP_get_style_d := 5.   (* console.get_style(s, default=d) *)
Definition OP_decode := 6.        (* list(AnsiDecoder().decode(s)) *)
Definition OP_text := 7.          (* len(Text(s)) *)
Definition OP_print := 8.         (* console.print(s, markup=False) *)
Definition OP_print_markup := 9.  (* console.print(s, markup=True) *)
Definition OP_render := 10.       (* console.render(tree) at width W >= 1 *)
Definition OP_measure := 11.      (* Measurement.get(console, tree, W) *)
Definition OP_columns := 12.      (* Columns(items, width=cw) at width W >= 1 *)

Definition C_OK := 0.
Definition c_doc (e : Z) := 10 + e.

(* the documented outcomes of each entry point (property text of C14) *)
Definition documented_b (op : Z) (code : Z) : bool :=
  (code =? C_OK) ||
  (if op =? OP_color then code =? c_doc E_ColorParseError
   else if op =? OP_style then code =? c_doc E_StyleSyntaxError
   else if op =? OP_markup then code =? c_doc E_MarkupError
   else if op =? OP_get_style then code =? c_doc E_MissingStyle
   else if op =? OP_get_style_d then code =? c_doc E_MissingStyle
   else if op =? OP_print_markup then code =? c_doc E_MarkupError
   else false).

Definition all_documented_b (op : Z) (codes : list Z) : bool := forallb (documented_b op) codes.

(* the hypothesis on the highlighter oracle: its spans lie within the text, start <= end *)
Definition span_in_b (n : Z) (sp : Z * Z * Z) : bool :=
  let '(s, e, _) := sp in (0 <=? s) && (s <=? e) && (e <=? n).
Definition in_range_b (n : Z) (sps : list (Z * Z * Z)) : bool := forallb (span_in_b n) sps.
