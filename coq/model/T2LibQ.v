(* T2LibQ: run-time library of the T2 translator for Python floats read as exact rationals
   (the abstraction model/Progress.v already makes: amounts and clock readings are Q).
   Definitions only. *)
From RichModel Require Import Prelude.
From Coq Require Import QArith Qround Qminmax.

Definition q_zero : Q := Qmake 0 1.
(* a / b on floats (or ints: true division) *)
Definition py_qdiv (a b : Q) : res Q :=
  if Qeq_bool b q_zero then Crash K_ZeroDivisionError else Ok (Qdiv a b).
Definition qltb (a b : Q) : bool := negb (Qle_bool b a).
