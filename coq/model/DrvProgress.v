(* wire glue for C12 (layer `progress`) *)
From RichModel Require Import Prelude Progress SpecProgress.
From RichGen Require Import ProgressLock.
From Coq Require Import QArith Qround Qabs.

(* ---- rationals on the wire: [num, den] *)
Definition tQ (t : tree) : Q :=
  let d := tZ (tNth t 1) in
  Qmake (tZ (tNth t 0)) (if (d <=? 0)%Z then 1%positive else Z.to_pos d).
Definition ofQ (q : Q) : tree := let r := Qred q in L [I (Qnum r); I (Zpos (Qden r))].
Definition tOB (t : tree) : option bool := tOpt tB t.

Definition tOp (t : tree) : hop :=
  let a := fun n => tNth t n in
  let k := tZ (a 0%nat) in
  let n := length (tL t) in
  let t1 := tQ (a (n - 2)%nat) in
  let t2 := tQ (a (n - 1)%nat) in
  let o :=
    if (k =? 0)%Z then AddTask (tB (a 1%nat)) (tQ (a 2%nat)) (tQ (a 3%nat)) (tB (a 4%nat))
    else if (k =? 1)%Z then StartTask (tZ (a 1%nat))
    else if (k =? 2)%Z then StopTask (tZ (a 1%nat))
    else if (k =? 3)%Z then Update (tZ (a 1%nat)) (tOpt tQ (a 2%nat)) (tOpt tQ (a 3%nat)) (tOpt tQ (a 4%nat)) (tOB (a 5%nat))
    else if (k =? 4)%Z then Reset (tZ (a 1%nat)) (tB (a 2%nat)) (tOpt tQ (a 3%nat)) (tQ (a 4%nat)) (tOB (a 5%nat))
    else if (k =? 5)%Z then Advance (tZ (a 1%nat)) (tQ (a 2%nat))
    else Remove (tZ (a 1%nat)) in
  (o, t1, t2).
Definition tHist (t : tree) : Q * list hop := (tQ (tNth t 0), tList tOp (tNth t 1)).

Definition cls (q : option Q) : Z :=
  match q with
  | None => 0
  | Some v => if Qeq_bool v 0 then 1 else if Qle_bool 0 v then 2 else 3
  end%Z.
Definition clsZ (z : option Z) : Z :=
  match z with None => 0 | Some v => if v =? 0 then 1 else if 0 <? v then 2 else 3 end%Z.

Definition digest (l : list sample) : tree :=
  match l with
  | [] => L []
  | s0 :: rest => L [ofNat (length l); ofQ (s_ts s0); ofQ (s_ts (last rest s0)); ofQ (sumQ (map s_delta rest))]
  end.
Definition ofTask (t : task) : tree :=
  L [I (t_id t); ofQ (t_completed t); ofQ (t_total t); ofOpt ofQ (t_start t); ofOpt ofQ (t_stop t);
     ofOpt ofQ (t_fin t); ofB (t_visible t); digest (t_samples t); I (cls (speed t)); ofB (is_some (time_remaining t))].
Definition ofSamples (t : task) : tree := ofList (fun s => L [ofQ (s_ts s); ofQ (s_delta s)]) (t_samples t).

Fixpoint trace_out (p : progress) (h : list hop) : list tree * progress :=
  match h with
  | [] => ([], p)
  | (o, t1, t2) :: r =>
      let code := match step p o t1 t2 with Ok _ => 0 | Doc e => 100 + e | Crash k => k end%Z in
      let p' := step_total p o t1 t2 in
      let '(rest, pf) := trace_out p' r in
      (L [I code; ofList ofTask (p_tasks p')] :: rest, pf)
  end.

(* observations as the spec checkers take them: [id, completed, total, started, pct, fin?, speed?, tr?] *)
Definition tObs (t : tree) : obs :=
  mkObs (tZ (tNth t 0)) (tQ (tNth t 1)) (tQ (tNth t 2)) (tB (tNth t 3)) (tQ (tNth t 4))
        (tOpt tQ (tNth t 5)) (tOpt tQ (tNth t 6)) (tOpt tZ (tNth t 7)).
Definition ofObs (x : obs) : tree :=
  L [I (o_id x); ofQ (o_completed x); ofQ (o_total x); ofB (o_started x); ofQ (o_pct x);
     ofOpt ofQ (o_fin x); ofOpt ofQ (o_speed x); ofOpt I (o_tr x)].

(* |a - b| <= tol * max(1, |a|) *)
Definition close_b (tol a b : Q) : bool :=
  Qle_bool (Qabs (a - b)) (tol * (if Qle_bool 1 (Qabs a) then Qabs a else 1)).
Definition close_opt (tol : Q) (a b : option Q) : bool :=
  match a, b with
  | None, None => true
  | Some x, Some y => close_b tol x y
  | _, _ => false
  end.
(* ceil of the float quotient may be off by one next to an integer; exact = Fractions *)
Definition close_tr (exact : bool) (tol : Q) (a b : option Z) : bool :=
  match a, b with
  | None, None => true
  | Some x, Some y =>
      if exact then (x =? y)%Z
      else Qle_bool (Qabs (inject_Z x - inject_Z y)) (1 + tol * Qabs (inject_Z x))
  | _, _ => false
  end.
Definition derived_close_b (exact : bool) (tol : Q) (m i : obs) : bool :=
  (o_id m =? o_id i)%Z && Qeq_bool (o_completed m) (o_completed i) && Qeq_bool (o_total m) (o_total i)
  && Bool.eqb (o_started m) (o_started i)
  && close_b tol (o_pct m) (o_pct i)
  && close_opt 0 (o_fin m) (o_fin i)
  && close_opt (if exact then 0 else tol) (o_speed m) (o_speed i)
  && close_tr exact tol (o_tr m) (o_tr i).
Fixpoint all2 {A B} (f : A -> B -> bool) (a : list A) (b : list B) : bool :=
  match a, b with
  | [], [] => true
  | x :: a', y :: b' => f x y && all2 f a' b'
  | _, _ => false
  end.

Definition tol9 : Q := 1 # 1000000000.

(* ---- track *)
Definition tTrackTask (t : tree) (total : Q) : progress * option Z :=
  (* [] = fresh task; [c0] = an existing task 0 with completed c0 (and total 5) *)
  match tOpt tQ t with
  | None => (empty_progress 30, None)
  | Some c0 => (step_total (empty_progress 30) (AddTask true 5 c0 true) 0 0, Some 0%Z)
  end.
Fixpoint nat_clock (n : nat) (from : Z) : list Q :=
  match n with O => [] | S n' => qZ from :: nat_clock n' (from + 1) end.
Definition track_result (p0 : progress) (id : Z) (evs : list (tev Z)) : tree :=
  let os := calls evs in
  let p := run p0 (with_clock os (nat_clock (2 * length os) 1)) in
  match find_task id (p_tasks p) with
  | None => L []
  | Some t => L [ofList I (yields evs); ofQ (t_completed t); ofQ (t_total t); ofB (finished t)]
  end.

(* ---- Mix: [0, a] advance | [1, tot?, comp?, adv?] update | [2, comp] reset *)
Definition tMop (t : tree) : Mix.mop :=
  let k := tZ (tNth t 0) in
  if (k =? 0)%Z then Mix.MAdv (tZ (tNth t 1))
  else if (k =? 1)%Z then Mix.MUpd (tOpt tZ (tNth t 1)) (tOpt tZ (tNth t 2)) (tOpt tZ (tNth t 3))
  else Mix.MRst (tZ (tNth t 1)).

(* ---- Conc *)
Definition tProgs (t : tree) : list (list Z) := tList (tList tZ) t.
Definition tConcInit (t : tree) : Conc.state :=
  Conc.init_state (tZ (tNth t 0)) (tZ (tNth t 1)) (tOpt tZ (tNth t 2)) (tZ (tNth t 3)) (tProgs (tNth t 4)).
Definition ofConcFinal (s : Conc.shared) : tree :=
  L [I (Conc.completed s); ofList (fun '(a, b) => L [I a; I b]) (Conc.samples s);
     ofOpt I (Conc.fin_time s); I (Conc.clock s)].
Fixpoint tree_eqb (a b : tree) : bool :=
  match a, b with
  | I x, I y => (x =? y)%Z
  | L l, L m =>
      (fix go (l m : list tree) : bool :=
         match l, m with
         | [], [] => true
         | x :: l', y :: m' => tree_eqb x y && go l' m'
         | _, _ => false
         end) l m
  | _, _ => false
  end.

Definition ops : list (string * (tree -> tree)) := [
  ("hist", fun t =>
      let '(period, h) := tHist t in
      let '(steps, pf) := trace_out (empty_progress period) h in
      L [L steps; ofList ofSamples (p_tasks pf)]);
  ("histf", fun _ => L []);          (* spec-only on the harness side *)
  ("model_obs", fun t =>             (* the model's own observations, in the spec checkers' format *)
      let '(period, h) := tHist t in
      ofList (fun p => ofList ofObs (observe_all p)) (run_trace (empty_progress period) h));
  ("track_direct", fun t =>          (* [existing?, xs, total?] *)
      let xs := tList tZ (tNth t 1) in
      let total := match tOpt tQ (tNth t 2) with Some q => q | None => qZ (zlen xs) end in
      let '(p0, tid) := tTrackTask (tNth t 0) total in
      let id := match tid with Some i => i | None => p_next p0 end in
      track_result p0 id (track_direct tid (p_next p0) total xs));
  ("track_thread", fun t =>          (* [existing?, xs, total?, sched] *)
      let xs := tList tZ (tNth t 1) in
      let total := match tOpt tQ (tNth t 2) with Some q => q | None => qZ (zlen xs) end in
      let '(p0, tid) := tTrackTask (tNth t 0) total in
      let id := match tid with Some i => i | None => p_next p0 end in
      track_result p0 id (track_thread tid (p_next p0) total xs (tList tB (tNth t 3))));
  ("track_abandon", fun t =>         (* [existing?, xs, total?, k, path] *)
      let xs := tList tZ (tNth t 1) in
      let total := match tOpt tQ (tNth t 2) with Some q => q | None => qZ (zlen xs) end in
      let '(p0, tid) := tTrackTask (tNth t 0) total in
      let id := match tid with Some i => i | None => p_next p0 end in
      let k := Z.to_nat (tZ (tNth t 3)) in
      track_result p0 id (if tB (tNth t 4) then track_thread_abandoned tid (p_next p0) total xs k
                          else track_direct_abandoned tid (p_next p0) total xs k));
  ("conc_run", fun t =>              (* [c0,total,start?,period,progs, variant, schedule] model-only *)
      let evs := if tB (tNth t 5) then Conc.advance_events_asis else advance_events in
      let st := Conc.srun evs (tConcInit t) (map Z.to_nat (tList tZ (tNth t 6))) in
      L [ofB (Conc.all_done st); ofConcFinal (fst st);
         I (cls (speed (Conc.task_of (fst st)))); I (clsZ (time_remaining (Conc.task_of (fst st))))]);
  ("fhist", fun _ => L []);          (* spec-only on the harness side *)
  ("float_witness", fun _ =>         (* 1e16, advance(1.0) twice: value reached, and is it the exact sum? *)
      let l := [(FAdd 1, 10000000000000000 # 1); (FAdd 1, 10000000000000000 # 1)] in
      L [ofQ (chain_last (10000000000000000 # 1) l);
         ofB (Qeq_bool (chain_last (10000000000000000 # 1) l) (chain_exact (10000000000000000 # 1) l));
         ofB (chain_ok_b u_binary64 (10000000000000000 # 1) l)]);
  ("sched_mix", fun _ => L []);      (* spec-only on the harness side *)
  ("sched", fun _ => L []);          (* spec-only on the harness side *)
  (* ---- facts about the regenerated event lists, reported with every run *)
  ("lock_facts", fun _ =>
      L [ofB (Conc.wf_b advance_events); ofB (Conc.clock_inside_b advance_events);
         ofB (Conc.guarded update_events); ofB (Conc.clock_inside_b update_events);
         ofB (Conc.guarded reset_events); ofB (Conc.clock_inside_b reset_events);
         ofB (Conc.guarded start_task_events); ofB (Conc.guarded stop_task_events);
         ofB (Conc.guarded remove_task_events); ofB (Conc.guarded add_task_events)]);
  (* ---- spec-level checkers on the implementation's observations *)
  ("spec.accounting_ok", fun t =>    (* [hist, obss] *)
      let '(_, h) := tHist (tNth t 0) in
      ofB (accounting_ok_b tol9 h (tList (tList tObs) (tNth t 1))));
  ("spec.derived_close", fun t =>    (* [exact, hist, obss] : model's derived values vs the observed ones *)
      let '(period, h) := tHist (tNth t 1) in
      let m := map observe_all (run_trace (empty_progress period) h) in
      ofB (all2 (all2 (derived_close_b (tB (tNth t 0)) tol9)) m (tList (tList tObs) (tNth t 2))));
  ("spec.track_ok", fun t =>         (* [xs, yielded, final completed] *)
      ofB (track_ok_b (tList tZ (tNth t 0)) (tList tZ (tNth t 1)) (tQ (tNth t 2))));
  ("spec.no_lost_update", fun t =>   (* [c0, progs, final completed] *)
      ofB (no_lost_update_b (tZ (tNth t 0)) (concat (tProgs (tNth t 1))) (tZ (tNth t 2))));
  ("spec.conc_derived_ok", fun t =>  (* [speed?, tr?] of the real task after the run *)
      ofB (speed_ok_b (tOpt tQ (tNth t 0)) && tr_ok_b (tOpt tZ (tNth t 1))));
  ("spec.float_accounting_ok", fun t =>   (* [hist, obss] with obss = per step [[id, completed], ...] *)
      let '(_, h) := tHist (tNth t 0) in
      ofB (float_accounting_ok_b u_binary64 h
             (tList (tList (fun x => (tZ (tNth x 0), tQ (tNth x 1)))) (tNth t 1))));
  ("spec.mixed_ok", fun t =>         (* [c0, calls in lock-acquisition order, final completed] *)
      ofB (Mix.eval_log (tZ (tNth t 0)) (concat (map Mix.spec_writes (tList tMop (tNth t 1)))) =? tZ (tNth t 2))%Z);
  ("spec.mix_replay_ok", fun t =>    (* [c0, progs, trace, values written, final completed] *)
      let trace := tList (fun x => (Z.to_nat (tZ (tNth x 0)), tZ (tNth x 1))) (tNth t 2) in
      let c0 := tZ (tNth t 0) in
      match MixReplay.replay advance_xevents update_xevents reset_xevents trace
              (Mix.init_state c0 (tList (tList tMop) (tNth t 1))) with
      | None => I 0
      | Some st =>
          ofB (forallb MixReplay.thread_idle (snd st)
               && (Mix.completed (fst st) =? tZ (tNth t 4))%Z
               && list_eqbZ (MixReplay.scan_log c0 (Mix.wlog (fst st))) (tList tZ (tNth t 3)))
      end);
  ("spec.replay_ok", fun t =>        (* [init..., trace, final] : observed event order is admissible
                                        for the model and leads to the observed final state *)
      let trace := tList (fun x => (Z.to_nat (tZ (tNth x 0)), tZ (tNth x 1))) (tNth t 5) in
      match Conc.replay advance_events trace (tConcInit t) with
      | None => I 0
      | Some st => ofB (Conc.all_done st && tree_eqb (ofConcFinal (fst st)) (tNth t 6))
      end)
].
