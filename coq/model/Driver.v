(* Dispatcher of the correspondence driver: op name -> model function on wire trees.
   Each layer contributes a table  list (string * (tree -> tree)). *)
From RichModel Require Import Prelude Wire.
From RichModel Require DrvCells.

Definition all_ops : list (string * (tree -> tree)) :=
  DrvCells.ops.

Fixpoint find_op (name : str) (ops : list (string * (tree -> tree))) : option (tree -> tree) :=
  match ops with
  | [] => None
  | (n, f) :: rest => if str_eqb name (lit n) then Some f else find_op name rest
  end.

(* one request line in, one answer line out *)
Definition run_line (line : str) : str :=
  let '(op, arg) := split_sp line in
  match find_op op all_ops with
  | None => lit "NOOP"
  | Some f => print_tree (f (parse_tree arg))
  end.
