(* L2 (C02): rich/_wrap.py (words, divide_line) and the part of rich/text.py + rich/containers.py
   that Text.wrap runs: split, expand_tabs, divide, Span.split, rstrip_end, right_crop, rstrip,
   truncate, pad_left/pad_right, Lines.justify (default/left/center/right/full), join,
   get_style_at_offset.  Definitions only.

   Styles are abstract: a type S with a decidable equality `seqb` (Style.__eq__ / dict-key equality of
   Span tuples), the null style `null` (the str "" that Text() and Text.join use as base style) and
   `add` (Style.__add__, used only by get_style_at_offset inside justify="full").

   Two behaviours of rich 9.10.0 are kept expressible by boolean parameters (record `fixes`):
     fix_order = false : Text.divide keeps the precedence of clipped spans in a dict keyed by the span
                         VALUE (start,end,style)  (DESIGN D15);   true: precedence travels with the span.
     fix_pad   = false : pad_left/pad shift the spans even for a negative count (justify center/right
                         with overflow="ignore" on a line wider than the width);  true: `if count > 0`.
   Domain notes: the plain string never contains the four characters Text.__init__ strips
   (STRIP_CONTROL_CODES, C05's business), so len(plain) = Text._length throughout; offsets are >= 0. *)
From RichModel Require Import Prelude Cells.
From RichGen Require Import UnicodeSpace WrapFacts.

(* ---------------------------------------------------------------- whitespace (interpreter fact) *)
Definition is_space (c : Z) : bool :=
  existsb (fun ab => (fst ab <=? c) && (c <=? snd ab)) SPACE_RANGES.
Arguments is_space : simpl never.

Fixpoint drop_space (s : str) : str :=
  match s with [] => [] | c :: r => if is_space c then drop_space r else s end.
Fixpoint take_space (s : str) : str :=
  match s with [] => [] | c :: r => if is_space c then c :: take_space r else [] end.
Fixpoint drop_word (s : str) : str :=
  match s with [] => [] | c :: r => if is_space c then s else drop_word r end.
Fixpoint take_word (s : str) : str :=
  match s with [] => [] | c :: r => if is_space c then [] else c :: take_word r end.

(* str.rstrip() *)
Definition rstrip (s : str) : str := rev (drop_space (rev s)).
Definition nonspace (s : str) : str := filter (fun c => negb (is_space c)) s.

(* ---------------------------------------------------------------- _wrap.words *)
(* re_word = \s*\S+\s*  matched at the start of `rest`.  \s* is greedy and \S+ cannot start on a
   whitespace character, so no backtracking can turn a failure into a success: the match is
   (all leading whitespace)(all following non-whitespace, at least one)(all following whitespace). *)
Definition match_word (rest : str) : option (str * str) :=
  let r1 := drop_space rest in
  match take_word r1 with
  | [] => None
  | b => let r2 := drop_word r1 in
         Some (take_space rest ++ b ++ take_space r2, drop_space r2)
  end.

Fixpoint words_go (fuel : nat) (rest : str) (pos : Z) : list (Z * Z * str) :=
  match fuel with
  | O => []
  | S f =>
      match match_word rest with
      | None => []
      | Some (w, rest') => let e := pos + zlen w in (pos, e, w) :: words_go f rest' e
      end
  end.
(* every word is non-empty, so length+1 iterations are enough (WrapP.words_go_fuel) *)
Definition words (s : str) : list (Z * Z * str) := words_go (S (length s)) s 0.

(* ---------------------------------------------------------------- _wrap.divide_line *)
(* the loop_last loop over chop_cells(word, width, position=line_position); divs is reversed *)
Fixpoint chop_offsets (pieces : list str) (start : Z) (divs : list Z) (lp : Z) : Z * list Z :=
  match pieces with
  | [] => (lp, divs)
  | [last] => (cell_len last, divs)
  | p :: rest => let start' := start + zlen p in chop_offsets rest start' (start' :: divs) lp
  end.

Definition dl_step (width : Z) (fold : bool) (st : Z * list Z) (w : Z * Z * str) : Z * list Z :=
  let '(lp, divs) := st in
  let '(start, _, word) := w in
  let wl := cell_len (rstrip word) in
  if width <? lp + wl then
    if width <? wl then
      if fold then chop_offsets (chop_cells word width lp) start divs lp
      else (cell_len word, if start =? 0 then divs else start :: divs)
    else if negb (lp =? 0) && negb (start =? 0) then (cell_len word, start :: divs)
    else (lp, divs)
  else (lp + cell_len word, divs).

Definition divide_line (text : str) (width : Z) (fold : bool) : list Z :=
  rev (snd (fold_left (dl_step width fold) (words text) (0, []))).

(* ---------------------------------------------------------------- Text *)
Record fixes := mkFixes { fix_order : bool; fix_pad : bool }.
Definition asis := mkFixes false false.
Definition repaired := mkFixes true true.

Section WrapText.
Variable S : Type.
Variable seqb : S -> S -> bool.
Variable null : S.
Variable add : S -> S -> S.
Variable fx : fixes.

Definition span := (Z * Z * S)%type.
Definition sp_start (sp : span) : Z := fst (fst sp).
Definition sp_end (sp : span) : Z := snd (fst sp).
Definition sp_style (sp : span) : S := snd sp.
Definition span_eqb (a b : span) : bool :=
  (sp_start a =? sp_start b) && (sp_end a =? sp_end b) && seqb (sp_style a) (sp_style b).
Definition span_nonempty (sp : span) : bool := sp_start sp <? sp_end sp.   (* Span.__bool__ *)
Definition covers (i : Z) (sp : span) : bool := (sp_start sp <=? i) && (i <? sp_end sp).

Record text := mkText { plain : str; spans : list span; base : S }.
Definition tlen (t : text) : Z := zlen (plain t).

(* text[a:b] for 0 <= a *)
Definition zslice (s : str) (a b : Z) : str := firstn (Z.to_nat (b - a)) (skipn (Z.to_nat a) s).

(* Span.split *)
Definition span_split (sp : span) (offset : Z) : span * option span :=
  let '(s, e, st) := sp in
  if offset <? s then (sp, None)
  else if e <=? offset then (sp, None)
  else let e1 := Z.min e offset in ((s, e1, st), Some (e1, e, st)).

(* Text._trim_spans / the span part of right_crop, with max_offset given *)
Definition trim_spans (mx : Z) (l : list span) : list span :=
  map (fun sp => if sp_end sp <? mx then sp else (sp_start sp, Z.min mx (sp_end sp), sp_style sp))
      (filter (fun sp => sp_start sp <? mx) l).

(* the `plain` setter *)
Definition set_plain (t : text) (s : str) : text :=
  if str_eqb s (plain t) then t
  else if zlen s <? tlen t then mkText s (trim_spans (zlen s) (spans t)) (base t)
  else mkText s (spans t) (base t).

(* right_crop(amount), amount >= 1 *)
Definition right_crop (t : text) (amount : Z) : text :=
  let mx := tlen t - amount in
  mkText (firstn (Z.to_nat mx) (plain t)) (trim_spans mx (spans t)) (base t).

(* rstrip_end(size): _re_whitespace = \s+$ finds the whole trailing whitespace run *)
Definition rstrip_end (size : Z) (t : text) : text :=
  if size <? tlen t then
    let excess := tlen t - size in
    let ws := zlen (plain t) - zlen (rstrip (plain t)) in
    if 0 <? ws then right_crop t (Z.min ws excess) else t
  else t.

Definition text_rstrip (t : text) : text := set_plain t (rstrip (plain t)).

Definition shift_spans (d : Z) (l : list span) : list span :=
  map (fun sp => (sp_start sp + d, sp_end sp + d, sp_style sp)) l.

(* pad_left(count) with " " *)
Definition pad_left (t : text) (count : Z) : text :=
  if (if fix_pad fx then 0 <? count else negb (count =? 0)) then
    let t' := set_plain t (py_repeat SP count ++ plain t) in
    mkText (plain t') (shift_spans count (spans t')) (base t')
  else t.

Definition pad_right (t : text) (count : Z) : text :=
  if negb (count =? 0) then set_plain t (plain t ++ py_repeat SP count) else t.

(* truncate(max_width, overflow=ov, pad=pad);  ov: 0 fold, 1 crop, 2 ellipsis, 3 ignore *)
Definition OV_FOLD := 0.
Definition OV_CROP := 1.
Definition OV_ELLIPSIS := 2.
Definition OV_IGNORE := 3.
Definition truncate (max_width ov : Z) (pad : bool) (t : text) : text :=
  if ov =? OV_IGNORE then t
  else
    let length := cell_len (plain t) in
    let t1 :=
      if max_width <? length then
        if ov =? OV_ELLIPSIS then set_plain t (set_cell_size (plain t) (max_width - 1) ++ [ELLIPSIS])
        else set_plain t (set_cell_size (plain t) max_width)
      else t in
    if pad && (length <? max_width)
    then mkText (plain t1 ++ py_repeat SP (max_width - length)) (spans t1) (base t1)
    else t1.

(* ---------------------------------------------------------------- Text.divide *)
(* the `order` dict keyed by span value: association list, overwrite on insert *)
Definition odict := list (span * Z).
Fixpoint od_get (d : odict) (k : span) : Z :=
  match d with
  | [] => 0   (* unreachable: every key looked up was inserted before (WrapP.od_get_present) *)
  | (k', v) :: d' => if span_eqb k k' then v else od_get d' k
  end.
Fixpoint od_set (d : odict) (k : span) (v : Z) : odict :=
  match d with
  | [] => [(k, v)]
  | (k', v') :: d' => if span_eqb k k' then (k', v) :: d' else (k', v') :: od_set d' k v
  end.

(* stable insertion sort, ascending by key *)
Fixpoint ins_by {A} (key : A -> Z) (x : A) (l : list A) : list A :=
  match l with
  | [] => [x]
  | y :: r => if key x <=? key y then x :: y :: r else y :: ins_by key x r
  end.
Definition sort_by {A} (key : A -> Z) (l : list A) : list A := fold_right (ins_by key) [] l.

(* a span travelling with the index of the original span it was cut from (the index is used only
   when fix_order = true) *)
Definition elt := (Z * span)%type.

Fixpoint index_from {A} (n : Z) (l : list A) : list (Z * A) :=
  match l with [] => [] | x :: r => (n, x) :: index_from (n + 1) r end.

(* the `while span_stack[position].start < end` loop of one line.  `stack` has the TOP of Python's
   span_stack first; `pushed` are the remainders pushed during this line (latest first). *)
Fixpoint line_loop (start end_ : Z) (stack pushed : list elt) (od : odict) (acc : list elt)
  : list elt * odict * list elt :=
  match stack with
  | [] => (pushed, od, rev acc)
  | (k, sp) :: below =>
      if sp_start sp <? end_ then
        let '(addsp, rem) := span_split sp end_ in
        let '(pushed', od1) :=
          match rem with
          | Some r => if span_nonempty r then ((k, r) :: pushed, od_set od r (od_get od sp)) else (pushed, od)
          | None => (pushed, od)
          end in
        let ls := (sp_start addsp - start, sp_end addsp - start, sp_style addsp) in
        line_loop start end_ below pushed' (od_set od1 ls (od_get od1 sp)) ((k, ls) :: acc)
      else (pushed ++ stack, od, rev acc)
  end.

Fixpoint divide_spans (ranges : list (Z * Z)) (stack : list elt) (od : odict) : list (list span) :=
  match ranges with
  | [] => []
  | (s, e) :: rs =>
      match stack with
      | [] => map (fun _ => []) ranges       (* `if not span_stack: break` *)
      | _ =>
          let '(stack', od', ls) := line_loop s e stack [] od [] in
          let sorted := if fix_order fx then sort_by fst ls
                        else sort_by (fun x => od_get od' (snd x)) ls in
          map snd sorted :: divide_spans rs stack' od'
      end
  end.

Fixpoint zip_ranges (l : list Z) : list (Z * Z) :=
  match l with
  | a :: ((b :: _) as r) => (a, b) :: zip_ranges r
  | _ => []
  end.

Definition divide (t : text) (offsets : list Z) : list text :=
  match offsets with
  | [] => [t]
  | _ =>
      let ranges := zip_ranges (0 :: offsets ++ [tlen t]) in
      let pieces := map (fun r => zslice (plain t) (fst r) (snd r)) ranges in
      let sps :=
        match spans t with
        | [] => map (fun _ => []) ranges
        | _ =>
            let indexed := index_from 0 (spans t) in
            let od := fold_left (fun d x => od_set d (snd x) (fst x)) indexed [] in
            (* sorted(spans, key=start, reverse=True) is stable; its reverse (top first) is the
               stable ascending sort of the reversed list *)
            divide_spans ranges (sort_by (fun x => sp_start (snd x)) (rev indexed)) od
        end in
      map (fun ps => mkText (fst ps) (snd ps) (base t)) (combine pieces sps)
  end.

(* ---------------------------------------------------------------- Text.split (one-character separator) *)
Fixpoint sep_positions (sep : Z) (s : str) (i : Z) : list Z :=
  match s with
  | [] => []
  | c :: r => if c =? sep then i :: sep_positions sep r (i + 1) else sep_positions sep r (i + 1)
  end.

Definition ends_with (s : str) (c : Z) : bool :=
  match rev s with x :: _ => x =? c | [] => false end.

Definition split (t : text) (sep : Z) (include_separator allow_blank : bool) : list text :=
  match sep_positions sep (plain t) 0 with
  | [] => [t]
  | ps =>
      let lines :=
        if include_separator then divide t (map (fun p => p + 1) ps)
        else filter (fun l => negb (str_eqb (plain l) [sep]))
                    (divide t (concat (map (fun p => [p; p + 1]) ps))) in
      if negb allow_blank && ends_with (plain t) sep then removelast lines else lines
  end.

(* ---------------------------------------------------------------- append / join / expand_tabs *)
(* Text.append(Text) and append_text *)
Definition append_text (t other : text) : text :=
  if tlen other =? 0 then t
  else
    let n := tlen t in
    mkText (plain t ++ plain other)
           (spans t ++ (n, n + tlen other, base other) :: shift_spans n (spans other)) (base t).
(* Text.append(str, style) with style not None *)
Definition append_str (t : text) (s : str) (st : S) : text :=
  if zlen s =? 0 then t
  else mkText (plain t ++ s) (spans t ++ [(tlen t, tlen t + zlen s, st)]) (base t).

Definition TAB : Z := 9.
Definition replace_last (s : str) (c : Z) : str := removelast s ++ [c].

Definition expand_part (tab_size : Z) (st : text * Z) (part : text) : text * Z :=
  let '(result, pos) := st in
  if ends_with (plain part) TAB then
    let part' := mkText (replace_last (plain part) SP) (spans part) (base part) in
    let result := append_text result part' in
    let pos := pos + tlen part' in
    let spaces := tab_size - ((pos - 1) mod tab_size) - 1 in
    if negb (spaces =? 0) then (append_str result (py_repeat SP spaces) (base result), pos + spaces)
    else (result, pos)
  else (append_text result part, pos).

(* expand_tabs(tab_size), tab_size >= 1 *)
Definition expand_tabs (t : text) (tab_size : Z) : text :=
  if existsb (fun c => c =? TAB) (plain t) then
    let lines := split t NL true false in
    let parts := concat (map (fun l => split l TAB true false) lines) in
    let '(result, _) := fold_left (expand_part tab_size) parts (mkText [] [] (base t), 0) in
    mkText (plain result) (spans result) (base t)
  else t.

(* Text("").join(tokens) *)
Definition join_empty (tokens : list text) : text :=
  fold_left (fun acc tk =>
               let n := tlen acc in
               mkText (plain acc ++ plain tk)
                      (spans acc ++ (n, n + tlen tk, base tk) :: shift_spans n (spans tk)) null)
            tokens (mkText [] [] null).

Definition style_at (t : text) (offset : Z) : S :=
  let offset := if offset <? 0 then tlen t + offset else offset in
  fold_left add (map sp_style (filter (covers offset) (spans t))) (base t).

(* ---------------------------------------------------------------- Lines.justify *)
Definition J_DEFAULT := 0.
Definition J_LEFT := 1.
Definition J_CENTER := 2.
Definition J_RIGHT := 3.
Definition J_FULL := 4.

Fixpoint bump {A} (f : A -> A) (n : nat) (l : list A) : list A :=
  match l with
  | [] => []
  | x :: r => match n with O => f x :: r | Datatypes.S n' => x :: bump f n' r end
  end.

(* the `while words_size + num_spaces < width` loop, run for exactly the number of missing cells *)
Fixpoint spread (iters : nat) (spaces : list Z) (index : nat) : list Z :=
  match iters with
  | O => spaces
  | Datatypes.S it =>
      spread it (bump (fun x => x + 1) (length spaces - index - 1)%nat spaces)
             (Nat.modulo (index + 1) (length spaces))
  end.

Fixpoint full_tokens (line : text) (ws : list text) (spaces : list Z) : list text :=
  match ws with
  | [] => []
  | w :: rest =>
      match spaces, rest with
      | n :: spaces', nxt :: _ =>
          let st := style_at w (-1) in
          let nst := style_at nxt 0 in
          let sst := if seqb st nst then st else base line in
          w :: mkText (py_repeat SP n) [] sst :: full_tokens line rest spaces'
      | _, _ => w :: full_tokens line rest spaces
      end
  end.

Definition justify_full_line (width : Z) (line : text) : text :=
  let ws := split line SP false false in
  let words_size := sumZ (map (fun w => cell_len (plain w)) ws) in
  let num_spaces := (length ws - 1)%nat in
  let spaces := repeat 1 num_spaces in
  let spaces :=
    match spaces with
    | [] => spaces
    | _ => spread (Z.to_nat (width - (words_size + Z.of_nat num_spaces))) spaces 0%nat
    end in
  join_empty (full_tokens line ws spaces).

Fixpoint map_but_last {A} (f : A -> A) (l : list A) : list A :=
  match l with
  | [] => []
  | [x] => [x]
  | x :: r => f x :: map_but_last f r
  end.

Definition justify_lines (width justify ov : Z) (lines : list text) : list text :=
  if justify =? J_LEFT then map (truncate width ov true) lines
  else if justify =? J_CENTER then
    map (fun l =>
           let l := truncate width ov false (text_rstrip l) in
           let l := pad_left l ((width - cell_len (plain l)) / 2) in
           pad_right l (width - cell_len (plain l))) lines
  else if justify =? J_RIGHT then
    map (fun l =>
           let l := truncate width ov false (text_rstrip l) in
           pad_left l (width - cell_len (plain l))) lines
  else if justify =? J_FULL then map_but_last (justify_full_line width) lines
  else lines.

(* ---------------------------------------------------------------- Text.wrap *)
Definition wrap_line (width justify ov tab_size : Z) (no_wrap : bool) (line : text) : list text :=
  let line := if existsb (fun c => c =? TAB) (plain line) then expand_tabs line tab_size else line in
  let new_lines :=
    if no_wrap then [line]
    else divide line (divide_line (plain line) width (ov =? OV_FOLD)) in
  let new_lines := map (rstrip_end width) new_lines in
  let new_lines := justify_lines width justify ov new_lines in
  map (truncate width ov false) new_lines.

Definition wrap (t : text) (width justify ov tab_size : Z) (no_wrap : bool) : list text :=
  let no_wrap := no_wrap || (ov =? OV_IGNORE) in
  concat (map (wrap_line width justify ov tab_size no_wrap) (split t NL false true)).

(* the tab-expanded source, line by line (what the wrapped lines are compared with) *)
Definition expanded_lines (t : text) (tab_size : Z) : list text :=
  map (fun line => if existsb (fun c => c =? TAB) (plain line) then expand_tabs line tab_size else line)
      (split t NL false true).

End WrapText.

Arguments mkText {S}.
Arguments plain {S}.
Arguments spans {S}.
Arguments base {S}.
