(* wire glue for the T2 tie (gen/T2_Progress.v): runs functions REGENERATED from the Python source
   so that the translator itself is validated against rich on generated inputs.
   Rationals travel as [numerator, denominator] (denominator > 0), answers are reduced. *)
From RichModel Require Import Prelude Ratio T2Lib T2LibQ.
From RichGen Require Import T2_Progress.
From Coq Require Import QArith Qround Qminmax.

Definition tQ (t : tree) : Q := Qmake (tZ (tNth t 0)) (Z.to_pos (tZ (tNth t 1))).
Definition ofQ (q : Q) : tree := let r := Qred q in L [I (Qnum r); I (Zpos (Qden r))].

Definition ops : list (string * (tree -> tree)) := [
  ("t2.task_remaining", fun t => ofQ (remaining_gen (tQ (tNth t 0)) (tQ (tNth t 1))));
  ("t2.task_elapsed", fun t =>      (* [now, start?, stop?] *)
      ofOpt ofQ (elapsed_gen (tQ (tNth t 0)) (tOpt tQ (tNth t 1)) (tOpt tQ (tNth t 2))));
  ("t2.task_finished", fun t => ofB (finished_gen (tOpt tQ t)));
  ("t2.task_percentage", fun t => ofRes ofQ (percentage_gen (tQ (tNth t 0)) (tQ (tNth t 1))));
  ("t2.task_time_remaining", fun t =>   (* [finished, [[C, T]]?, total, completed]: speed = C / T *)
      let speed := match tOpt (fun p => (tQ (tNth p 0), tQ (tNth p 1))) (tNth t 1) with
                   | None => None
                   | Some (c, d) => Some (Qdiv c d)
                   end in
      ofRes (ofOpt ofQ)
        (time_remaining_gen (tB (tNth t 0)) speed (Qminus (tQ (tNth t 2)) (tQ (tNth t 3)))))
].
