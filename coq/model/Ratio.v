(* Arithmetic kernels shared by C01/C07/C09: rich/_ratio.py (ratio_reduce, ratio_distribute) and
   Table._collapse_widths, exactly as coded.  Nothing table-specific lives here.

   True division + round/ceil/int on ints (DESIGN section 3): `round(a / b)`, `ceil(a / b)`,
   `int(a / b)` are modelled as exact rational rounding on Z.  This is bit-exact w.r.t. CPython's
   binary64 arithmetic when |a|, |b| < 2^52 and b > 0, which holds when every ratio, total and
   width is `bounded26`; theorems carry that side condition.  The code only ever divides under a
   guard `total_ratio > 0`, so the divisor is positive wherever these are called. *)
From RichModel Require Import Prelude.

Definition bounded26 (z : Z) : Prop := - 2 ^ 26 < z < 2 ^ 26.
Definition bounded26_b (z : Z) : bool := (- 2 ^ 26 <? z) && (z <? 2 ^ 26).

(* round(n / d), d > 0: nearest integer, ties to even (Python 3 round on a float) *)
Definition round_div (n d : Z) : Z :=
  let q := n / d in
  let r := n mod d in
  if 2 * r <? d then q
  else if d <? 2 * r then q + 1
  else if Z.even q then q else q + 1.

(* math.ceil(n / d), d > 0 *)
Definition ceil_div (n d : Z) : Z := - ((- n) / d).

(* int(n / d), d > 0: truncation toward zero *)
Definition trunc_div (n d : Z) : Z := Z.quot n d.

(* [ratio if _m else 0 for ratio, _m in zip(ratios, ms)]  -- zip truncates *)
Fixpoint zip_mask (ratios ms : list Z) : list Z :=
  match ratios, ms with
  | r :: rs, m :: ms' => (if m =? 0 then 0 else r) :: zip_mask rs ms'
  | _, _ => []
  end.

(* ---------------------------------------------------------------- ratio_reduce *)
(* the `for ratio, maximum, value in zip(ratios, maximums, values)` loop *)
Fixpoint reduce_loop (ratios maximums values : list Z) (rem tr : Z) : list Z :=
  match ratios, maximums, values with
  | r :: rs, m :: ms, v :: vs =>
      if negb (r =? 0) && (0 <? tr) then
        let d := Z.min m (round_div (r * rem) tr) in
        (v - d) :: reduce_loop rs ms vs (rem - d) (tr - r)
      else v :: reduce_loop rs ms vs rem tr
  | _, _, _ => []
  end.

Definition ratio_reduce (total : Z) (ratios maximums values : list Z) : list Z :=
  let ratios := zip_mask ratios maximums in
  let tr := sumZ ratios in
  if tr =? 0 then values                      (* `if not total_ratio: return values[:]` *)
  else reduce_loop ratios maximums values total tr.

(* ---------------------------------------------------------------- ratio_distribute *)
Fixpoint distribute_loop (ratios mins : list Z) (rem tr : Z) : list Z :=
  match ratios, mins with
  | r :: rs, m :: ms =>
      let d := if 0 <? tr then Z.max m (ceil_div (r * rem) tr) else rem in
      d :: distribute_loop rs ms (rem - d) (tr - r)
  | _, _ => []
  end.

(* minimums: None = the default argument; `if minimums:` is false for None and for [] *)
Definition ratio_distribute (total : Z) (ratios : list Z) (minimums : option (list Z))
  : res (list Z) :=
  let ratios := match minimums with
                | Some (m :: ms) => zip_mask ratios (m :: ms)
                | _ => ratios
                end in
  let tr := sumZ ratios in
  if tr <=? 0 then Crash K_AssertionError      (* assert total_ratio > 0 *)
  else
    let mins := match minimums with
                | None => repeat 0 (length ratios)
                | Some ms => ms
                end in
    Ok (distribute_loop ratios mins total tr).

(* ---------------------------------------------------------------- Table._collapse_widths *)
(* Python max() over a non-empty sequence; None = ValueError on an empty one *)
Definition max_list (l : list Z) : option Z :=
  match l with
  | [] => None
  | x :: r => Some (fold_left Z.max r x)
  end.

(* zip(widths, wrapable) *)
Definition zipw (widths : list Z) (wrapable : list bool) : list (Z * bool) := combine widths wrapable.

Definition sel_wrapable (widths : list Z) (wrapable : list bool) : list Z :=
  map fst (filter snd (zipw widths wrapable)).

Definition second_cands (widths : list Z) (wrapable : list bool) (max_column : Z) : list Z :=
  map (fun '(w, a) => if a && negb (w =? max_column) then w else 0) (zipw widths wrapable).

Definition max_ratios (widths : list Z) (wrapable : list bool) (max_column : Z) : list Z :=
  map (fun '(w, a) => if (w =? max_column) && a then 1 else 0) (zipw widths wrapable).

Definition any_nonzero (l : list Z) : bool := existsb (fun z => negb (z =? 0)) l.

(* one pass of the `while total_width and excess_width > 0` body:
   None = `break`, Some widths' = continue with the reduced widths *)
Definition collapse_step (widths : list Z) (wrapable : list bool) (excess : Z)
  : res (option (list Z)) :=
  match max_list (sel_wrapable widths wrapable) with
  | None => Crash K_ValueError
  | Some max_column =>
      match max_list (second_cands widths wrapable max_column) with
      | None => Crash K_ValueError
      | Some second_max =>
          let diff := max_column - second_max in
          let ratios := max_ratios widths wrapable max_column in
          if negb (any_nonzero ratios) || (diff =? 0) then Ok None
          else
            let max_reduce := repeat (Z.min excess diff) (length widths) in
            Ok (Some (ratio_reduce excess ratios max_reduce widths))
      end
  end.

Fixpoint collapse_loop (fuel : nat) (widths : list Z) (wrapable : list bool) (max_width : Z)
  : res (list Z) :=
  match fuel with
  | O => Crash K_OutOfFuel
  | S f =>
      let total_width := sumZ widths in
      let excess := total_width - max_width in
      if negb (total_width =? 0) && (0 <? excess) then
        match collapse_step widths wrapable excess with
        | Ok None => Ok widths
        | Ok (Some widths') => collapse_loop f widths' wrapable max_width
        | Doc e => Doc e
        | Crash k => Crash k
        end
      else Ok widths
  end.

(* fuel supplied by the model itself: one more than the initial excess (RatioP.collapse_fuel_enough
   proves this never runs out: every pass removes at least one cell of excess) *)
Definition collapse_fuel (widths : list Z) (max_width : Z) : nat :=
  S (Z.to_nat (sumZ widths - max_width)).

Definition collapse_widths_fuel (fuel : nat) (widths : list Z) (wrapable : list bool) (max_width : Z)
  : res (list Z) :=
  if existsb (fun b => b) wrapable then collapse_loop fuel widths wrapable max_width
  else Ok widths.

Definition collapse_widths (widths : list Z) (wrapable : list bool) (max_width : Z) : res (list Z) :=
  collapse_widths_fuel (collapse_fuel widths max_width) widths wrapable max_width.
