(* wire glue for the decode layer (C19) *)
From RichModel Require Import Prelude Color Style AnsiDecode FileProxy SpecDecode.
From RichModel Require DrvColor.
From RichGen Require FileProxyFacts.

(* style = [color?, bgcolor?, attributes, set_attributes, link?]  (the fields __eq__ compares) *)
Definition ofSty (s : style) : tree :=
  L [ofOpt DrvColor.ofColor (s_color s); ofOpt DrvColor.ofColor (s_bgcolor s);
     I (s_attributes s); I (s_set_attributes s); ofOpt ofStr (s_link s)].
Definition tSty (t : tree) : style :=
  let c := tOpt DrvColor.tColor (tNth t 0) in
  let b := tOpt DrvColor.tColor (tNth t 1) in
  let a := tZ (tNth t 2) in
  let sa := tZ (tNth t 3) in
  let l := tOpt tStr (tNth t 4) in
  mkStyle c b a sa l
          ((sa =? 0) && (match c with None => true | _ => false end)
           && (match b with None => true | _ => false end) && negb (str_truthy l))
          (mkHKey c b (Some a) (Some sa) l) None None.

(* Text = [plain, [[start, end, style], ...]] *)
Definition ofText (ps : list piece) : tree :=
  L [ofStr (plain_of ps);
     ofList (fun sp => let '(a, b, s) := sp in L [I a; I b; ofSty s]) (spans_of ps 0)].
(* generic (plain, spans) -> one piece per character: the styles of the spans covering it,
   combined in span order (Style.combine), None when no span covers it *)
Definition tText (t : tree) : list piece :=
  let plain := tStr (tNth t 0) in
  let spans := map (fun sp => (tZ (tNth sp 0), tZ (tNth sp 1), tSty (tNth sp 2))) (tL (tNth t 1)) in
  map (fun ic : nat * Z =>
         let i := Z.of_nat (fst ic) in
         let cov := filter (fun sp => let '(a, b, _) := sp in (a <=? i) && (i <? b)) spans in
         ([snd ic],
          match cov with
          | [] => None
          | _ => Some (fold_left (fun acc sp => style_add acc (snd sp)) cov style_null)
          end))
      (combine (seq 0 (length plain)) plain).

Definition tRun (t : tree) : run := (tStr (tNth t 0), tOpt tSty (tNth t 1)).
Definition tRuns (t : tree) : list (list run) := tList (tList tRun) t.

Definition ofTok (t : token) : tree :=
  match t with
  | TPlain p => L [I 0; ofStr p]
  | TSgr g => L [I 1; ofStr g]
  | TOsc g => L [I 2; ofStr g]
  end.

Definition tOp (t : tree) : op :=
  if tZ (tNth t 0) =? 0 then Write (tStr (tNth t 1)) else Flush.
Definition ofKw (l : list (option bool)) : tree :=
  ofList (fun o => match o with None => I (-1) | Some false => I 0 | Some true => I 1 end) l.
Definition tKw (t : tree) : list (option bool) :=
  tList (fun x => let z := tZ x in if z <? 0 then None else Some (negb (z =? 0))) t.
(* console.print call = [0, kind, payload, kw]   kind 0: Text -> list of line Texts; 1: str
   raised          = [1, doc?, class] *)
Definition ofOut (o : out) : tree :=
  match o with
  | OEvent e =>
      match ev_obj e with
      | PText pss => L [I 0; I 0; ofList ofText pss; ofKw (ev_kw e)]
      | PStr s => L [I 0; I 1; ofStr s; ofKw (ev_kw e)]
      end
  | OCrash d k => L [I 1; ofB d; I k]
  end.
Definition tOut (t : tree) : out :=
  if tZ (tNth t 0) =? 0 then
    OEvent (mkEvent [] true
              (if tZ (tNth t 1) =? 0 then PText (tList tText (tNth t 2)) else PStr (tStr (tNth t 2)))
              (tKw (tNth t 3)))
  else OCrash (tB (tNth t 1)) (tZ (tNth t 2)).

(* successive decode_line calls on one decoder, going on after an exception *)
Fixpoint seq_lines (fix_d8 : bool) (st : style) (lines : list str) : list tree :=
  match lines with
  | [] => []
  | l :: r => let '(st', rr) := decode_line fix_d8 st l in ofRes ofText rr :: seq_lines fix_d8 st' r
  end.

(* two proxies (sys.stdout, sys.stderr) on one console, as installed by _enable_redirect_io:
   history items [0, k, text] | [1, k]; -> per operation the console.print calls it made.
   b0 / b1: stream k is redirected (otherwise the call goes to the raw stream: nothing is printed) *)
Fixpoint live_run (fix_d8 b0 b1 : bool) (s0 s1 : pstate) (h : list tree) : list tree * pstate * pstate :=
  match h with
  | [] => ([], s0, s1)
  | t :: r =>
      let k := tZ (tNth t 1) in
      let o := if tZ (tNth t 0) =? 0 then Write (tStr (tNth t 2)) else Flush in
      let red := if k =? 0 then b0 else b1 in
      let '(st', outs) := if red then proxy_step fix_d8 facts_gen (if k =? 0 then s0 else s1) o
                          else (if k =? 0 then s0 else s1, []) in
      let '(rest, a, b) := live_run fix_d8 b0 b1 (if k =? 0 then st' else s0) (if k =? 0 then s1 else st') r in
      (ofList ofOut outs :: rest, a, b)
  end.

Definition rf_of (l : list (bool * bool)) (k : nat) : rfacts :=
  let p := nth k l (false, true) in mkRF (fst p) (snd p).
(* start / history / stop, repeated on ONE display object *)
Fixpoint live_runs (fix_d8 : bool) (rf0 rf1 : rfacts) (r0 r1 : rstate) (runs : list tree) : list tree :=
  match runs with
  | [] => []
  | h :: rest =>
      let a1 := r_enable rf0 r0 in let b1 := r_enable rf1 r1 in
      let a2 := r_disable rf0 a1 in let b2 := r_disable rf1 b1 in
      let red0 := fresh_proxy r0 a1 in let red1 := fresh_proxy r1 b1 in
      let '(outs, pa, pb) := live_run fix_d8 red0 red1 p_init p_init (tL h) in
      L [L [ofB red0; ofB red1; ofB (is_raw (r_cur a2)); ofB (is_raw (r_cur b2))];
         L outs; ofStr (pending pa); ofStr (pending pb)]
      :: live_runs fix_d8 rf0 rf1 a2 b2 rest
  end.

Definition LINK_ID : str := [48].

Definition ops : list (string * (tree -> tree)) := [
  ("decode.tokbatch", fun t => ofList (fun s => ofList ofTok (tokenize (tStr s))) (tL t));
  ("decode.csibatch", fun t => ofList (fun s => ofStr (remove_csi (tStr s))) (tL t));
  (* [fix_d8, [line...]] -> AnsiDecoder().decode_line(line) for each, a fresh decoder each time *)
  ("decode.batch", fun t =>
     ofList (fun s => ofRes ofText (snd (decode_line (tB (tNth t 0)) style_null (tStr s)))) (tL (tNth t 1)));
  ("decode.splitlines", fun t => ofList ofStr (splitlines (tStr t)));
  (* [fix_d8, text] -> list(AnsiDecoder().decode(text)) *)
  ("decode.lines", fun t => ofRes (ofList ofText) (snd (decode (tB (tNth t 0)) style_null (tStr (tNth t 1)))));
  (* [fix_d8, [line...]] -> outcome of each decode_line call on one decoder *)
  ("decode.seq", fun t => L (seq_lines (tB (tNth t 0)) style_null (tList tStr (tNth t 1))));
  (* lines of runs -> [encoded, decoded]: Console (truecolor) output, then AnsiDecoder().decode *)
  ("decode.roundtrip", fun t =>
     ofRes (fun x => x)
       (do e <- encode_lines LINK_ID (tRuns t);
        Ok (L [ofStr e; ofRes (ofList ofText) (snd (decode true style_null e))])));
  (* [fix_d8, history] -> [console.print calls / exceptions, pending] with the call-site facts of
     the tree under test (gen/FileProxyFacts.v) *)
  ("proxy.run", fun t =>
     let '(st, outs) := proxy_run (tB (tNth t 0)) facts_gen p_init (tList tOp (tNth t 1)) in
     L [ofList ofOut outs; ofStr (pending st)]);
  (* [fix_d8, kind, [history per run]]  kind 0 Live, 1 Status (wraps a Live), 2 Progress *)
  ("proxy.live", fun t =>
     let facts := if tZ (tNth t 1) =? 2 then FileProxyFacts.PROGRESS_REDIRECT else FileProxyFacts.LIVE_REDIRECT in
     L (live_runs (tB (tNth t 0)) (rf_of facts 0) (rf_of facts 1) r_init r_init (tL (tNth t 2))));
  ("proxy.facts", fun _ =>
     L [ofB (f_write_decodes facts_gen); ofKw (f_write_kw facts_gen);
        ofB (f_flush_decodes facts_gen); ofKw (f_flush_kw facts_gen)]);
  (* spec-level checkers, applied by the harness to the implementation's outputs *)
  ("spec.decode.roundtrip_ok", fun t =>     (* [lines of runs, decoded line Texts] *)
     ofB (roundtrip_b (tRuns (tNth t 0)) (tList tText (tNth t 1))));
  ("spec.decode.no_crash", fun t => ofB (negb (tZ (tNth t 0) =? 2)));
  ("spec.proxy.flags", fun t => ofB (forallb tB (tL t)));   (* redirected / restored flags of a run *)
  ("spec.proxy.ok", fun t =>                (* [history, outs, pending] *)
     ofB (proxy_ok_b (tList tOp (tNth t 0)) (tList tOut (tNth t 1)) (tStr (tNth t 2))))
].
