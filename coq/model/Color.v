(* L3 colour: rich/color.py, rich/palette.py, rich/_palettes.py, rich/color_triplet.py,
   DEFAULT_TERMINAL_THEME of rich/terminal_theme.py.            Definitions only, no proofs.

   Integer-only and extractable.  The one place where rich computes with floats
   (truecolor -> 256: R/255.0, colorsys.rgb_to_hls, round(l*25.0), round(c*5.0)) is present
   here as the integer characterisation [downgrade_8bit_int]; the bit-exact PrimFloat rendering
   of the same Python code lives in ColorFloat.v (not extracted) and proofs/ColorP.v proves the
   two equal for every triplet with channels in 0..255 (ColorP.downgrade_8bit_float_eq_int).

   Assumptions recorded here (see notes/C18.md):
   * Color.parse, Color.get_ansi_codes, Color.downgrade and Palette.match are functools.lru_cache'd
     in Python; lru_cache is assumed a pure memo table, so they are modelled as plain functions.
   * Palette.match takes the minimum of sqrt(d) over the palette; the model takes the minimum of
     the integer radicand d (math.sqrt is strictly increasing on the integers 0..2^20 that occur),
     and a negative radicand is the ValueError ("math domain error") that sqrt raises.
   * str.lower is modelled exactly on ASCII and on the non-ASCII characters listed in
     gen/ColorRegex.LOWER_INTO_PARSABLE (today: KELVIN SIGN -> k); every other non-ASCII cased
     character is left unchanged.  The translator checks that those are exactly the characters
     whose lower() could make a string parsable, so the approximation can only change the text of
     a name that is rejected anyway (outcome class and every accepted value are exact). *)
From RichModel Require Import Prelude.
From RichGen Require Import Palettes ColorNames ColorRegex.
From Coq Require Decimal.

(* ------------------------------------------------------------------ enums and records *)
Inductive ColorSystem : Type := CS_STANDARD | CS_EIGHT_BIT | CS_TRUECOLOR | CS_WINDOWS.
Inductive ColorType : Type := CT_DEFAULT | CT_STANDARD | CT_EIGHT_BIT | CT_TRUECOLOR | CT_WINDOWS.

(* IntEnum values; pinned against gen/ColorNames.v in proofs/ColorP.v *)
Definition ColorSystem_int (s : ColorSystem) : Z :=
  match s with CS_STANDARD => 1 | CS_EIGHT_BIT => 2 | CS_TRUECOLOR => 3 | CS_WINDOWS => 4 end.
Definition ColorType_int (t : ColorType) : Z :=
  match t with CT_DEFAULT => 0 | CT_STANDARD => 1 | CT_EIGHT_BIT => 2 | CT_TRUECOLOR => 3 | CT_WINDOWS => 4 end.
Definition ColorSystem_of_int (z : Z) : option ColorSystem :=
  if z =? 1 then Some CS_STANDARD else if z =? 2 then Some CS_EIGHT_BIT
  else if z =? 3 then Some CS_TRUECOLOR else if z =? 4 then Some CS_WINDOWS else None.
Definition ColorType_of_int (z : Z) : option ColorType :=
  if z =? 0 then Some CT_DEFAULT else if z =? 1 then Some CT_STANDARD else if z =? 2 then Some CT_EIGHT_BIT
  else if z =? 3 then Some CT_TRUECOLOR else if z =? 4 then Some CT_WINDOWS else None.

Definition ColorType_eqb (a b : ColorType) : bool := ColorType_int a =? ColorType_int b.
Definition ColorSystem_eqb (a b : ColorSystem) : bool := ColorSystem_int a =? ColorSystem_int b.

Record ColorTriplet : Type := mkTriplet { t_red : Z; t_green : Z; t_blue : Z }.

Record color : Type := mkColor {
  c_name : str;                       (* typically the input of Color.parse *)
  c_type : ColorType;
  c_number : option Z;
  c_triplet : option ColorTriplet
}.

Definition triplet_of (p : Z * Z * Z) : ColorTriplet := let '(r, g, b) := p in mkTriplet r g b.
Definition triplet_tuple (t : ColorTriplet) : Z * Z * Z := (t_red t, t_green t, t_blue t).

Definition triplet_eqb (a b : ColorTriplet) : bool :=
  (t_red a =? t_red b) && (t_green a =? t_green b) && (t_blue a =? t_blue b).
Definition optZ_eqb (a b : option Z) : bool :=
  match a, b with None, None => true | Some x, Some y => x =? y | _, _ => false end.
Definition opt_triplet_eqb (a b : option ColorTriplet) : bool :=
  match a, b with None, None => true | Some x, Some y => triplet_eqb x y | _, _ => false end.
(* NamedTuple equality: all four fields *)
Definition color_eqb (a b : color) : bool :=
  str_eqb (c_name a) (c_name b) && ColorType_eqb (c_type a) (c_type b)
  && optZ_eqb (c_number a) (c_number b) && opt_triplet_eqb (c_triplet a) (c_triplet b).

(* ------------------------------------------------------------------ small Python primitives *)
(* str(int) *)
Fixpoint uint_digits (u : Decimal.uint) : str :=
  match u with
  | Decimal.Nil => []
  | Decimal.D0 u => 48 :: uint_digits u | Decimal.D1 u => 49 :: uint_digits u
  | Decimal.D2 u => 50 :: uint_digits u | Decimal.D3 u => 51 :: uint_digits u
  | Decimal.D4 u => 52 :: uint_digits u | Decimal.D5 u => 53 :: uint_digits u
  | Decimal.D6 u => 54 :: uint_digits u | Decimal.D7 u => 55 :: uint_digits u
  | Decimal.D8 u => 56 :: uint_digits u | Decimal.D9 u => 57 :: uint_digits u
  end.
Definition str_of_Z (z : Z) : str :=
  match z with
  | Z0 => [48]
  | Zpos p => uint_digits (Pos.to_uint p)
  | Zneg p => 45 :: uint_digits (Pos.to_uint p)
  end.

(* format(v, "02x") *)
Definition hex_digit (d : Z) : Z := if d <? 10 then 48 + d else 87 + d.
Fixpoint hex_pos (fuel : nat) (v : Z) (acc : str) : str :=
  match fuel with
  | O => acc
  | S f => if v <? 16 then hex_digit v :: acc else hex_pos f (v / 16) (hex_digit (v mod 16) :: acc)
  end.
Definition hex_of_nonneg (v : Z) : str := hex_pos (S (Z.to_nat (Z.log2 v))) v [].
Definition format_02x (v : Z) : str :=
  if v <? 0 then 45 :: hex_of_nonneg (- v)
  else if v <? 16 then 48 :: hex_of_nonneg v else hex_of_nonneg v.

(* sequence[index] with Python's negative indices; None = IndexError *)
Definition py_index {A} (l : list A) (i : Z) : option A :=
  if 0 <=? i then nth_error l (Z.to_nat i)
  else let n := zlen l in
       if - n <=? i then nth_error l (Z.to_nat (n + i)) else None.

Definition mem_Z (c : Z) (l : list Z) : bool := existsb (Z.eqb c) l.
Definition is_uni_space (c : Z) : bool := mem_Z c UNI_SPACES.     (* str.isspace, re \s, str.strip *)
Definition is_int_space (c : Z) : bool := mem_Z c INT_SPACES.     (* what int() strips *)
(* value of a decimal digit (category Nd; re \d; accepted by int()) *)
Definition digit_val (c : Z) : option Z :=
  match find (fun z => (z <=? c) && (c <=? z + 9)) UNI_DIGIT_ZEROS with
  | Some z => Some (c - z)
  | None => None
  end.
Definition is_uni_digit (c : Z) : bool := match digit_val c with Some _ => true | None => false end.
Definition is_ascii_digit (c : Z) : bool := (48 <=? c) && (c <=? 57).
Definition is_hex_lower (c : Z) : bool := is_ascii_digit c || ((97 <=? c) && (c <=? 102)).
Definition hex_val (c : Z) : Z := if is_ascii_digit c then c - 48 else c - 87.

Fixpoint assoc_Z {B} (c : Z) (l : list (Z * B)) : option B :=
  match l with [] => None | (k, v) :: r => if k =? c then Some v else assoc_Z c r end.
Fixpoint assoc_str {B} (s : str) (l : list (str * B)) : option B :=
  match l with [] => None | (k, v) :: r => if str_eqb k s then Some v else assoc_str s r end.

(* str.lower, see the header for the approximation outside ASCII *)
Definition lower_char (c : Z) : str :=
  if (65 <=? c) && (c <=? 90) then [c + 32]
  else match assoc_Z c LOWER_INTO_PARSABLE with Some l => l | None => [c] end.
Definition py_lower (s : str) : str := flat_map lower_char s.

Fixpoint drop_while (p : Z -> bool) (s : str) : str :=
  match s with [] => [] | c :: r => if p c then drop_while p r else s end.
Definition strip_with (p : Z -> bool) (s : str) : str := rev (drop_while p (rev (drop_while p s))).
Definition py_strip (s : str) : str := strip_with is_uni_space s.

(* str.split(sep) for a one-character separator: always at least one piece *)
Fixpoint split_on (sep : Z) (s : str) : list str :=
  match s with
  | [] => [[]]
  | c :: r =>
      if c =? sep then [] :: split_on sep r
      else match split_on sep r with
           | p :: ps => (c :: p) :: ps
           | [] => [[c]]
           end
  end.

(* int(s) for a string made of decimal digits and whitespace only (what RE_COLOR's third group
   can contain): None = ValueError.  Surrounding int()-whitespace is stripped, what remains must be
   a non-empty run of digits no longer than sys.get_int_max_str_digits() (0 = no limit). *)
Fixpoint digits_value (s : str) (acc : Z) : option Z :=
  match s with
  | [] => Some acc
  | c :: r => match digit_val c with Some d => digits_value r (acc * 10 + d) | None => None end
  end.
Definition py_int_digits (s : str) : option Z :=
  let t := strip_with is_int_space s in
  match t with
  | [] => None
  | _ => if (0 <? INT_MAX_STR_DIGITS) && (INT_MAX_STR_DIGITS <? zlen t) then None else digits_value t 0
  end.

(* ------------------------------------------------------------------ ColorTriplet, Palette *)
Definition triplet_hex (t : ColorTriplet) : str :=
  35 :: format_02x (t_red t) ++ format_02x (t_green t) ++ format_02x (t_blue t).
Definition triplet_rgb (t : ColorTriplet) : str :=
  lit "rgb(" ++ str_of_Z (t_red t) ++ [44] ++ str_of_Z (t_green t) ++ [44] ++ str_of_Z (t_blue t) ++ [41].

(* Palette.__getitem__ *)
Definition palette_get (pal : list (Z * Z * Z)) (n : Z) : res ColorTriplet :=
  match py_index pal n with Some p => Ok (triplet_of p) | None => Crash K_IndexError end.

(* the radicand of get_color_distance (the sqrt is dropped, see header) *)
Definition color_dist2 (t : ColorTriplet) (p : Z * Z * Z) : Z :=
  let '(red2, green2, blue2) := p in
  let red_mean := (t_red t + red2) / 2 in
  let red := t_red t - red2 in
  let green := t_green t - green2 in
  let blue := t_blue t - blue2 in
  Z.shiftr ((512 + red_mean) * red * red) 8 + 4 * green * green + Z.shiftr ((767 - red_mean) * blue * blue) 8.

(* min(range(len(ds)), key=ds.__getitem__): the first index of a minimal element *)
Fixpoint argmin_go (ds : list Z) (i bi : nat) (bd : Z) : nat :=
  match ds with
  | [] => bi
  | d :: r => if d <? bd then argmin_go r (S i) i d else argmin_go r (S i) bi bd
  end.
Definition argmin (ds : list Z) : option nat :=
  match ds with [] => None | d :: r => Some (argmin_go r 1 0 d) end.

(* Palette.match *)
Definition palette_match (pal : list (Z * Z * Z)) (t : ColorTriplet) : res Z :=
  let ds := map (color_dist2 t) pal in
  if existsb (fun d => d <? 0) ds then Crash K_ValueError      (* math.sqrt of a negative *)
  else match argmin ds with
       | None => Crash K_ValueError                               (* min() of an empty sequence *)
       | Some k => Ok (Z.of_nat k)
       end.

(* ------------------------------------------------------------------ terminal theme *)
Record theme : Type := mkTheme { th_background : ColorTriplet; th_foreground : ColorTriplet;
                                 th_ansi : list (Z * Z * Z) }.
Definition DEFAULT_TERMINAL_THEME : theme :=
  mkTheme (triplet_of DEFAULT_THEME_BACKGROUND) (triplet_of DEFAULT_THEME_FOREGROUND) DEFAULT_THEME_ANSI.

(* ------------------------------------------------------------------ Color *)
Definition color_system (c : color) : ColorSystem :=
  match c_type c with
  | CT_DEFAULT => CS_STANDARD
  | CT_STANDARD => CS_STANDARD
  | CT_EIGHT_BIT => CS_EIGHT_BIT
  | CT_TRUECOLOR => CS_TRUECOLOR
  | CT_WINDOWS => CS_WINDOWS
  end.
Definition is_system_defined (c : color) : bool :=
  match color_system c with CS_EIGHT_BIT | CS_TRUECOLOR => false | _ => true end.
Definition is_default (c : color) : bool := ColorType_eqb (c_type c) CT_DEFAULT.

Definition assert_some {A} (o : option A) : res A :=
  match o with Some a => Ok a | None => Crash K_AssertionError end.

Definition get_truecolor (c : color) (th : theme) (foreground : bool) : res ColorTriplet :=
  match c_type c with
  | CT_TRUECOLOR => assert_some (c_triplet c)
  | CT_EIGHT_BIT => do n <- assert_some (c_number c); palette_get EIGHT_BIT_PALETTE n
  | CT_STANDARD => do n <- assert_some (c_number c); palette_get (th_ansi th) n
  | CT_WINDOWS => do n <- assert_some (c_number c); palette_get WINDOWS_PALETTE n
  | CT_DEFAULT =>
      match c_number c with
      | Some _ => Crash K_AssertionError
      | None => Ok (if foreground then th_foreground th else th_background th)
      end
  end.

Definition from_ansi (number : Z) : color :=
  mkColor (lit "color(" ++ str_of_Z number ++ [41])
          (if number <? 16 then CT_STANDARD else CT_EIGHT_BIT) (Some number) None.
Definition from_triplet (t : ColorTriplet) : color := mkColor (triplet_hex t) CT_TRUECOLOR None (Some t).
(* from_rgb(red, green, blue) applies int() to each component; integers are modelled *)
Definition from_rgb (r g b : Z) : color := from_triplet (mkTriplet r g b).
Definition color_default : color := mkColor (lit "default") CT_DEFAULT None None.

(* --- RE_COLOR as a deterministic scanner.
     ^\#([0-9a-f]{6})$ | color\(([0-9]{1,3})\)$ | rgb\(([\d\s,]+)\)$      (re.VERBOSE, .match)
   The three alternatives start with different literal characters, so at most one can apply and
   no backtracking between them is observable.  Inside each, the only repetition is followed by a
   literal that is not in the repeated class (`)` or the end), so greedy matching is forced:
   the group is everything between the literal prefix and the final `)` (or the end for the hex
   form).  `$` (no MULTILINE) matches at the end and also before one final newline.
   Result: which group matched and its text. *)
Inductive re_color_groups : Type :=
| G_hex (g : str) | G_num (g : str) | G_rgb (g : str).

Fixpoint strip_prefix_str (p s : str) : option str :=
  match p with
  | [] => Some s
  | a :: p' => match s with
               | b :: s' => if a =? b then strip_prefix_str p' s' else None
               | [] => None
               end
  end.
(* s = init ++ [last] *)
Definition split_last (s : str) : option (str * Z) :=
  match rev s with [] => None | c :: r => Some (rev r, c) end.
Definition chomp_nl (s : str) : str :=
  match split_last s with Some (i, c) => if c =? 10 then i else s | None => s end.

Definition re_color_exact (s : str) : option re_color_groups :=
  match s with
  | 35 :: h => if (length h =? 6)%nat && forallb is_hex_lower h then Some (G_hex h) else None
  | _ =>
    match strip_prefix_str (lit "color(") s with
    | Some rest =>
        match split_last rest with
        | Some (g, c) =>
            if (c =? 41) && (1 <=? length g)%nat && (length g <=? 3)%nat && forallb is_ascii_digit g
            then Some (G_num g) else None
        | None => None
        end
    | None =>
      match strip_prefix_str (lit "rgb(") s with
      | Some rest =>
          match split_last rest with
          | Some (g, c) =>
              if (c =? 41) && (1 <=? length g)%nat
                 && forallb (fun x => is_uni_digit x || is_uni_space x || (x =? 44)) g
              then Some (G_rgb g) else None
          | None => None
          end
      | None => None
      end
    end
  end.
Definition re_color_match (s : str) : option re_color_groups := re_color_exact (chomp_nl s).

Definition hex_pair (a b : Z) : Z := 16 * hex_val a + hex_val b.

(* Color.parse.  [fix_d9 = false] is rich 9.10.0 as found: int() of a component that is empty or
   has inner whitespace (or > 4300 digits) raises ValueError, which escapes (DESIGN D9);
   [fix_d9 = true] is the proposed repair (that ValueError becomes ColorParseError). *)
Definition parse (fix_d9 : bool) (original : str) : res color :=
  let s := py_strip (py_lower original) in
  if str_eqb s (lit "default") then Ok (mkColor s CT_DEFAULT None None)
  else match assoc_str s ANSI_COLOR_NAMES with
  | Some n => Ok (mkColor s (if n <? 16 then CT_STANDARD else CT_EIGHT_BIT) (Some n) None)
  | None =>
    match re_color_match s with
    | None => Doc E_ColorParseError
    | Some (G_hex h) =>
        match h with
        | [a; b; c; d; e; f] =>
            Ok (mkColor s CT_TRUECOLOR None (Some (mkTriplet (hex_pair a b) (hex_pair c d) (hex_pair e f))))
        | _ => Doc E_ColorParseError   (* unreachable: the scanner returns six characters *)
        end
    | Some (G_num g) =>
        match py_int_digits g with
        | None => Crash K_ValueError   (* unreachable: one to three ASCII digits *)
        | Some n =>
            if 255 <? n then Doc E_ColorParseError
            else Ok (mkColor s (if n <? 16 then CT_STANDARD else CT_EIGHT_BIT) (Some n) None)
        end
    | Some (G_rgb g) =>
        match split_on 44 g with
        | [r; g'; b] =>
            match py_int_digits r, py_int_digits g', py_int_digits b with
            | Some r, Some g', Some b =>
                if (r <=? 255) && (g' <=? 255) && (b <=? 255)
                then Ok (mkColor s CT_TRUECOLOR None (Some (mkTriplet r g' b)))
                else Doc E_ColorParseError
            | _, _, _ => if fix_d9 then Doc E_ColorParseError else Crash K_ValueError
            end
        | _ => Doc E_ColorParseError
        end
    end
  end.

(* Color.get_ansi_codes *)
Definition get_ansi_codes (c : color) (foreground : bool) : res (list str) :=
  match c_type c with
  | CT_DEFAULT => Ok [lit (if foreground then "39" else "49")]
  | CT_WINDOWS | CT_STANDARD =>
      do n <- assert_some (c_number c);
      let '(fore, back) := if n <? 8 then (30, 40) else (82, 92) in
      Ok [str_of_Z (if foreground then fore + n else back + n)]
  | CT_EIGHT_BIT =>
      do n <- assert_some (c_number c);
      Ok [lit (if foreground then "38" else "48"); lit "5"; str_of_Z n]
  | CT_TRUECOLOR =>
      do t <- assert_some (c_triplet c);
      Ok [lit (if foreground then "38" else "48"); lit "2";
          str_of_Z (t_red t); str_of_Z (t_green t); str_of_Z (t_blue t)]
  end.

(* --- truecolor -> 256, integer characterisation of the float code (proved equal to
   ColorFloat.downgrade_8bit_float for channels in 0..255, ColorP.downgrade_8bit_float_eq_int) *)

(* round(n / d) for n >= 0, d > 0 with Python's round-half-to-even *)
Definition round_half_even_div (n d : Z) : Z :=
  let q := n / d in
  let r := n mod d in
  if 2 * r <? d then q else if d <? 2 * r then q + 1 else if Z.even q then q else q + 1.

(* round(c / 255.0 * 5.0): c/51 is never half-way *)
Definition cube_idx (c : Z) : Z := (c + 25) / 51.

(* (max, min) pairs whose exact saturation is 1/10 but whose binary64 value is below the
   binary64 0.1 -- found and proved complete by the 65 536-pair sweep in ColorP.v *)
Definition GREY_S_BOUNDARY : list (Z * Z) :=
  [(55, 45); (77, 63); (110, 90); (121, 99); (147, 123); (174, 156); (201, 189); (210, 200); (246, 244)].

(* s < 0.1 where  s = (max-min)/(max+min) if l <= 0.5 else (max-min)/(2-max-min)  on c/255 *)
Definition is_grey_int (mx mn : Z) : bool :=
  if mx =? mn then true
  else
    let sum := mx + mn in
    let den := if sum <=? 255 then sum else 510 - sum in
    (10 * (mx - mn) <? den)
    || ((10 * (mx - mn) =? den) && existsb (fun p => (fst p =? mx) && (snd p =? mn)) GREY_S_BOUNDARY).

(* round(l * 25.0) with l = (max+min)/510 *)
Definition grey_level_int (mx mn : Z) : Z := round_half_even_div ((mx + mn) * 5) 102.

Definition max3 (r g b : Z) : Z := Z.max (Z.max r g) b.
Definition min3 (r g b : Z) : Z := Z.min (Z.min r g) b.

Definition downgrade_8bit_int (r g b : Z) : Z :=
  let mx := max3 r g b in
  let mn := min3 r g b in
  if is_grey_int mx mn then
    let gray := grey_level_int mx mn in
    if gray =? 0 then 16 else if gray =? 25 then 231 else 231 + gray
  else 16 + 36 * cube_idx r + 6 * cube_idx g + cube_idx b.

Definition triplet_in_range (t : ColorTriplet) : bool :=
  (0 <=? t_red t) && (t_red t <=? 255) && (0 <=? t_green t) && (t_green t <=? 255)
  && (0 <=? t_blue t) && (t_blue t <=? 255).

(* Color.downgrade *)
Definition downgrade (c : color) (system : ColorSystem) : res color :=
  if ColorType_eqb (c_type c) CT_DEFAULT || (ColorType_int (c_type c) =? ColorSystem_int system) then Ok c
  else match system with
  | CS_EIGHT_BIT =>
      match color_system c with
      | CS_TRUECOLOR =>
          do t <- assert_some (c_triplet c);
          if triplet_in_range t
          then Ok (mkColor (c_name c) CT_EIGHT_BIT (Some (downgrade_8bit_int (t_red t) (t_green t) (t_blue t))) None)
          else Crash K_Other   (* OUTSIDE THE MODEL: rich computes some number with floats; the integer
                                  characterisation is established for channels 0..255 only *)
      | _ => Ok c
      end
  | CS_STANDARD =>
      do t <- match color_system c with
              | CS_TRUECOLOR => assert_some (c_triplet c)
              | _ => do n <- assert_some (c_number c); palette_get EIGHT_BIT_PALETTE n
              end;
      do k <- palette_match STANDARD_PALETTE t;
      Ok (mkColor (c_name c) CT_STANDARD (Some k) None)
  | CS_WINDOWS =>
      match color_system c with
      | CS_TRUECOLOR =>
          do t <- assert_some (c_triplet c);
          do k <- palette_match WINDOWS_PALETTE t;
          Ok (mkColor (c_name c) CT_WINDOWS (Some k) None)
      | _ =>
          do n <- assert_some (c_number c);
          if n <? 16 then Ok (mkColor (c_name c) CT_WINDOWS (Some n) None)
          else
            do t <- palette_get EIGHT_BIT_PALETTE n;
            do k <- palette_match WINDOWS_PALETTE t;
            Ok (mkColor (c_name c) CT_WINDOWS (Some k) None)
      end
  | CS_TRUECOLOR => Ok c
  end.
