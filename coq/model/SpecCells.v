(* Spec-level checkers for C13 (DESIGN appendix C): boolean functions used both in the
   theorem statements (props/C13.v) and, through the driver, on the implementation's output. *)
From RichModel Require Import Prelude Cells Segments.

Definition all_spaces (s : str) : bool := forallb (fun c => c =? SP) s.

(* r = firstn k s ++ spaces, for some k *)
Fixpoint prefix_then_spaces (s r : str) : bool :=
  match r with
  | [] => true
  | c :: r' =>
      match s with
      | c' :: s' => if c =? c' then prefix_then_spaces s' r' || all_spaces r else all_spaces r
      | [] => all_spaces r
      end
  end.

Definition width_ok_b (cp w : Z) : bool :=
  (w =? (if (31 <? cp) && (cp <? 127) then 1 else cw cp)) && (0 <=? w) && (w <=? 2).

Definition resize_ok_b (s : str) (n : Z) (r : str) : bool :=
  (cell_len r =? n) && prefix_then_spaces s r.

Definition list_eqb {A} (eqb : A -> A -> bool) : list A -> list A -> bool :=
  fix go a b := match a, b with
                | [], [] => true
                | x :: a', y :: b' => eqb x y && go a' b'
                | _, _ => false
                end.

Definition chop_ok_b (s : str) (w : Z) (pieces : list str) : bool :=
  str_eqb (concat pieces) s && forallb (fun p => cell_len p <=? w) pieces.

(* characters of a line with their styles; control segments contribute nothing *)
Definition opt_eqb (a b : option Z) : bool :=
  match a, b with
  | None, None => true
  | Some x, Some y => x =? y
  | _, _ => false
  end.
Definition flat (l : list (seg Z)) : list (Z * option Z) :=
  concat (map (fun g => if ctl g then [] else map (fun c => (c, sty g)) (txt g)) l).
Definition cs_eqb (a b : Z * option Z) : bool := (fst a =? fst b) && opt_eqb (snd a) (snd b).

(* out = firstn k inp ++ tail ; returns the tail for the maximal k *)
Fixpoint strip_prefix (inp out : list (Z * option Z)) : list (Z * option Z) :=
  match out with
  | [] => []
  | o :: out' =>
      match inp with
      | i :: inp' => if cs_eqb i o then strip_prefix inp' out' else out
      | [] => out
      end
  end.

(* Segment.adjust_line_length contract: requested cell length; characters and styles are a
   prefix of the input's; what follows is padding: spaces in the requested style when the line
   was short, at most one space (half of a cropped double-width character) when it was long. *)
Definition adjust_ok_b (line : list (seg Z)) (n : Z) (style : option Z) (pad : bool)
           (out : list (seg Z)) : bool :=
  let ll := line_len line in
  let tail := strip_prefix (flat line) (flat out) in
  (if pad || (n <=? ll) then line_len out =? n else line_len out =? ll)
  && forallb (fun cs => fst cs =? SP) tail
  && (if ll <? n then forallb (fun cs => opt_eqb (snd cs) style) tail
      else (length tail <=? 1)%nat).

Definition is_nl_seg (g : seg Z) : bool :=
  str_eqb (txt g) [NL] && negb (ctl g).
Definition drop_nl (l : list (seg Z)) : list (seg Z) :=
  match rev l with
  | g :: r => if is_nl_seg g then rev r else l
  | [] => l
  end.

(* every produced line is an adjust_line_length-correct image of the corresponding input line;
   when newline segments are included a line may carry one trailing "\n" segment *)
Definition line_ok_b (n : Z) (style : option Z) (pad incl : bool)
           (i o : list (seg Z)) : bool :=
  adjust_ok_b i n style pad o || (incl && adjust_ok_b i n style pad (drop_nl o)).

Fixpoint all2 {A B} (f : A -> B -> bool) (la : list A) (lb : list B) : bool :=
  match la, lb with
  | [], [] => true
  | a :: la', b :: lb' => f a b && all2 f la' lb'
  | _, _ => false
  end.

Definition shape_ok_b (n : Z) (style : option Z) (pad incl : bool)
           (lines_in lines_out : list (list (seg Z))) : bool :=
  all2 (line_ok_b n style pad incl) lines_in lines_out.
