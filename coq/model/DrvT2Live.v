(* wire glue for the T2 tie (gen/T2_Live.v): runs functions REGENERATED from the Python source
   so that the translator itself is validated against rich on generated inputs. *)
From RichModel Require Import Prelude Ratio T2Lib.
From RichGen Require Import T2_Live.

Definition tPair (t : tree) : Z * Z := (tZ (tNth t 0), tZ (tNth t 1)).

Definition ops : list (string * (tree -> tree)) := [
  ("t2.position_cursor", fun t => ofStr (position_cursor_gen (tOpt tPair t)));
  ("t2.restore_cursor", fun t => ofStr (restore_cursor_gen (tOpt tPair t)))
].
