(* wire glue for the pretty-printer layer (C16) *)
From RichModel Require Import Prelude Wire Cells Pretty SpecPretty.
From RichGen Require Import PrettyBraces.

Definition tSl (t : tree) : option (Z * str) :=
  match t with
  | L [I n; rt] => Some (n, tStr rt)
  | _ => None
  end.
Definition tLeafd (t : tree) : leafd :=
  match t with
  | L [r; sl] => (tStr r, tSl sl)
  | _ => ([], None)
  end.
Definition skind_of (k : Z) : skind :=
  if k =? 0 then KList else if k =? 1 then KTuple else if k =? 2 then KSet
  else if k =? 3 then KFrozenset else if k =? 4 then KDeque else KArray.
Definition mkind_of (k : Z) : mkind :=
  if k =? 0 then KDict else if k =? 1 then KCounter else if k =? 2 then KDefaultdict else KEnviron.

(* V ::= [0, repr, sl] | [1, kind, attr, [V..]] | [2, kind, attr, [[[repr, sl], V]..]] | [3] *)
Fixpoint tV (t : tree) : V :=
  match t with
  | L [I 0; r; sl] => Leaf (tStr r, tSl sl)
  | L [I 1; I k; a; L xs] => Seq (skind_of k) (tStr a) (map tV xs)
  | L [I 2; I k; a; L kvs] =>
      Map (mkind_of k) (tStr a)
          (map (fun kv => match kv with
                          | L [kd; x] => (tLeafd kd, tV x)
                          | _ => (([], None), Cycle)
                          end) kvs)
  | _ => Cycle
  end.

Definition tOZ := tOpt tZ.

Definition ops : list (string * (tree -> tree)) := [
  (* [asis, V, max_width, indent_size, expand_all, max_length?, max_string?] -> res [string, evaluable?1:2] *)
  ("pretty_repr", fun t =>
      let v := tV (tNth t 1) in
      let r := (if tB (tNth t 0) then pretty_repr_asis else pretty_repr)
                 v (tZ (tNth t 2)) (tZ (tNth t 3)) (tOZ (tNth t 5)) (tOZ (tNth t 6)) (tB (tNth t 4)) in
      let ev := match tOZ (tNth t 5), tOZ (tNth t 6) with
                | None, None => if evaluable v then 1 else 2
                | _, _ => 2
                end in
      ofRes (fun s => L [ofStr s; I ev]) r);
  ("bad_input", fun _ => L [I 0; L [L []; I (-1)]]);
  (* one-line form: str(traverse(obj)) *)
  ("node_str", fun t =>   (* [V, max_length?, max_string?] *)
      ofRes ofStr (Ok (node_str (traverse (bf_of BRACES) (tOZ (tNth t 1)) (tOZ (tNth t 2)) (tV (tNth t 0))))));
  (* spec-level checkers on the implementation's output *)
  ("spec.canonical", fun t =>   (* [V, max_length?, max_string?, out] *)
      ofB (canonical_b (tOZ (tNth t 1)) (tOZ (tNth t 2)) (tV (tNth t 0)) (tStr (tNth t 3))));
  ("spec.one_line", fun t =>    (* [V, max_width, expand_all, max_length?, max_string?, out] *)
      ofB (one_line_b (tZ (tNth t 1)) (tB (tNth t 2)) (tOZ (tNth t 3)) (tOZ (tNth t 4))
                      (tV (tNth t 0)) (tStr (tNth t 5))));
  ("spec.layout", fun t =>      (* [V, max_width, indent_size, expand_all, max_length?, max_string?, out] *)
      ofB (layout_b (tZ (tNth t 1)) (tZ (tNth t 2)) (tB (tNth t 3)) (tOZ (tNth t 4)) (tOZ (tNth t 5))
                    (tV (tNth t 0)) (tStr (tNth t 6))));
  ("spec.repr", fun t => ofB (repr_b (tV (tNth t 0)) (tStr (tNth t 1))));
  ("spec.leaves_ok", fun t => ofB (leaves_ok (tV t)));
  ("spec.evalback", fun t => ofB (negb (tZ t =? 0)))
].
