(* L4 frames (C08): rich/padding.py, panel.py, align.py, constrain.py, styled.py, rule.py, bar.py,
   progress_bar.py, columns.py (placement), tree.py, box.py (substitute/get_top/get_bottom).
   Children are abstract: a child is what it measures and the segment stream it renders at a width.
   Styles are abstract tokens (option Z, None = null style, `+` right-biased).
   Definitions only.  Box data, tree guides and bar characters come from gen/FrameBoxes.v. *)
From RichModel Require Import Prelude Cells Segments.
From RichGen Require Import FrameBoxes FrameFacts.

Definition segZ := seg Z.
Definition line := list segZ.
Definition style := option Z.

(* Style.__add__ on tokens: the right operand wins when it is not null *)
Definition sadd (a b : style) : style := match b with Some _ => b | None => a end.

(* Segment.apply_style(segments, style): style + segment.style; control segments lose their style *)
Definition apply_style (st : style) (l : list segZ) : list segZ :=
  map (fun g => mkSeg (txt g) (if ctl g then None else sadd st (sty g)) (ctl g)) l.

Definition nlseg : segZ := mkSeg [NL] None false.
Definition spaces (n : Z) : str := py_repeat SP n.

(* ---------------------------------------------------------------- abstract children *)
Record child := mkChild {
  cmeasure : Z -> Z * Z;          (* __rich_measure__(console, max_width) *)
  crender : Z -> list segZ        (* console.render(child, options.update(width=w)), w >= 1 *)
}.

(* Measurement.normalize / with_maximum / get *)
Definition m_normalize (m : Z * Z) : Z * Z :=
  let '(mn, mx) := m in
  let mn := Z.min (Z.max 0 mn) mx in
  (Z.max 0 mn, Z.max 0 (Z.max mn mx)).
Definition m_with_maximum (w : Z) (m : Z * Z) : Z * Z := (Z.min (fst m) w, Z.min (snd m) w).
Definition measurement_get (c : child) (w : Z) : Z * Z :=
  if w <? 1 then (0, 0)
  else let m := m_with_maximum w (m_normalize (cmeasure c w)) in
       if snd m <? 1 then (0, 0) else m_normalize m.

(* Console.render: nothing at all below width 1 *)
Definition render_at (c : child) (w : Z) : list segZ := if w <? 1 then [] else crender c w.

(* Console.render_lines(child, options.update(width=w), style=st, pad=pad) *)
Definition render_lines (c : child) (w : Z) (st : option style) (pad : bool) : list line :=
  let segs := render_at c w in
  let segs := match st with Some s => apply_style s segs | None => segs end in
  split_and_crop_lines false segs w None pad false.

(* the same for a renderable whose stream is already known as newline-terminated lines *)
Definition stream_of (lines : list line) : list segZ := flat_map (fun l => l ++ [nlseg]) lines.

(* ---------------------------------------------------------------- Padding *)
Definition unpack (pad : list Z) : res (Z * Z * Z * Z) :=
  match pad with
  | [p] => Ok (p, p, p, p)
  | [t; r] => Ok (t, r, t, r)
  | [t; r; b; l] => Ok (t, r, b, l)
  | _ => Crash K_ValueError
  end.

Definition padding_width (c : child) (r l : Z) (expand : bool) (W : Z) : Z :=
  if expand then W else Z.min (snd (measurement_get c W) + l + r) W.

(* the lines Padding.__rich_console__ yields (each followed by a newline) *)
Definition padding_lines (c : child) (t r b l : Z) (st : style) (expand : bool) (W : Z) : list line :=
  let width := padding_width c r l expand W in
  let cw := width - l - r in
  let lines := render_lines c cw (Some st) false in
  let lines := set_shape lines cw None st in
  let blank := [mkSeg (spaces width) st false] in
  let left := if l =? 0 then [] else [mkSeg (spaces l) st false] in
  let right := if r =? 0 then [] else [mkSeg (spaces r) st false] in
  repeat blank (Z.to_nat t) ++ map (fun ln => left ++ ln ++ right) lines ++ repeat blank (Z.to_nat b).

Definition padding_measure (c : child) (r l : Z) (mw : Z) : Z * Z :=
  let extra := l + r in
  if mw - extra <? 1 then (mw, mw)
  else let '(mn, mx) := measurement_get c (Z.max 0 (mw - extra)) in
       m_with_maximum mw (mn + extra, mx + extra).

(* Padding(child, pad, style, expand) as a renderable again (Panel wraps its child in one) *)
Definition padding_child (c : child) (t r b l : Z) (st : style) (expand : bool) : child :=
  mkChild (padding_measure c r l) (fun w => stream_of (padding_lines c t r b l st expand w)).

(* ---------------------------------------------------------------- boxes *)
Definition nthZ {A} (l : list A) (i : Z) (d : A) : A := if i <? 0 then d else nth (Z.to_nat i) l d.
Definition box_char (b : Z) (ln col : nat) : Z := nth col (nth ln (nthZ BOXES b []) []) 63.
Fixpoint assocZ (l : list (Z * Z)) (k : Z) : option Z :=
  match l with [] => None | (a, b) :: r => if a =? k then Some b else assocZ r k end.

(* Box.substitute *)
Definition box_substitute (b : Z) (legacy safe ascii_only : bool) : Z :=
  let b := if legacy && safe then match assocZ LEGACY_WINDOWS_SUBST b with Some b' => b' | None => b end else b in
  if ascii_only && negb (nthZ BOX_ASCII b false) then BOX_ASCII_INDEX else b.

Definition box_top (b : Z) (w : Z) : str := box_char b 0 0 :: py_repeat (box_char b 0 1) w ++ [box_char b 0 3].
Definition box_bottom (b : Z) (w : Z) : str := box_char b 7 0 :: py_repeat (box_char b 7 1) w ++ [box_char b 7 3].

(* ---------------------------------------------------------------- plain-text helpers (rich/text.py) *)
(* str.isspace / regex \s on str *)
Definition is_ws (c : Z) : bool :=
  ((9 <=? c) && (c <=? 13)) || ((28 <=? c) && (c <=? 32)) || (c =? 133) || (c =? 160) || (c =? 5760)
  || ((8192 <=? c) && (c <=? 8202)) || (c =? 8232) || (c =? 8233) || (c =? 8239) || (c =? 8287) || (c =? 12288).

Fixpoint count_while {A} (f : A -> bool) (l : list A) : nat :=
  match l with [] => O | x :: r => if f x then S (count_while f r) else O end.

(* Text.rstrip_end(size): compares the number of CHARACTERS with the size (as written) *)
Definition rstrip_end (s : str) (size : Z) : str :=
  let n := zlen s in
  if size <? n then
    let ws := count_while is_ws (rev s) in
    firstn (length s - Nat.min ws (Z.to_nat (n - size))) s
  else s.

(* Text.truncate(max_width) with overflow fold/crop, and with overflow="ellipsis" *)
Definition truncate_fold (s : str) (w : Z) : str := if w <? cell_len s then set_cell_size s w else s.
Definition ELLIPSIS : Z := 8230.
Definition truncate_ellipsis (s : str) (w : Z) : str :=
  if w <? cell_len s then set_cell_size s (w - 1) ++ [ELLIPSIS] else s.

(* Text.align(align, width, character): 0 = left, 1 = center, 2 = right *)
Definition text_align (s : str) (how : Z) (w : Z) (ch : Z) : str :=
  let s := truncate_fold s w in
  let excess := w - cell_len s in
  if excess =? 0 then s
  else if how =? 0 then s ++ py_repeat ch excess
  else if how =? 1 then let left := excess / 2 in py_repeat ch left ++ s ++ py_repeat ch (excess - left)
  else py_repeat ch excess ++ s.

(* rendering a one-line no-wrap / fitting Text at console width cw: rstrip_end, then truncate.
   `strip` selects the as-written rstrip_end (true = rich 9.10.0). *)
Definition text_line (strip : bool) (s : str) (cw : Z) : str :=
  truncate_fold (if strip then rstrip_end s cw else s) cw.

Definition nl_to_sp (s : str) : str := map (fun c => if c =? NL then SP else c) s.

(* ---------------------------------------------------------------- Panel *)
Record panel_opts := mkPanel {
  p_box : Z; p_safe : bool; p_legacy : bool; p_ascii : bool;
  p_title : str;                 (* [] = no title; no tabs *)
  p_title_align : Z;
  p_expand : bool;
  p_width : option Z;
  p_pad : Z * Z * Z * Z;         (* already unpacked: top right bottom left *)
  p_style : style;
  p_border : style               (* style + border_style *)
}.

(* Panel._title: replace newlines, pad(1) *)
Definition panel_title (s : str) : str := SP :: nl_to_sp s ++ [SP].

Definition panel_inner (c : child) (o : panel_opts) : child :=
  let '(t, r, b, l) := p_pad o in
  if (t =? 0) && (r =? 0) && (b =? 0) && (l =? 0) then c else padding_child c t r b l None true.

Definition panel_child_width (c : child) (o : panel_opts) (W : Z) : Z :=
  let width := match p_width o with None => W | Some pw => Z.min W pw end in
  let cwid := if p_expand o then width - 2 else snd (measurement_get (panel_inner c o) (width - 2)) in
  match p_title o with
  | [] => cwid
  | _ => Z.min (W - 2) (Z.max cwid (cell_len (panel_title (p_title o)) + 2))
  end.

(* W = options.max_width, cW = console.width (the title is rendered with the console's own options) *)
Definition panel_lines (strip : bool) (c : child) (o : panel_opts) (W cW : Z) : list line :=
  let rc := panel_inner c o in
  let box := box_substitute (p_box o) (p_legacy o) (p_safe o) (p_ascii o) in
  let cwid := panel_child_width c o W in
  let width := cwid + 2 in
  let lines := render_lines rc cwid (Some (p_style o)) true in
  let bs := p_border o in
  let top :=
    match p_title o with
    | [] => [mkSeg (box_top box (width - 2)) bs false]
    | _ =>
        let t := text_align (panel_title (p_title o)) (p_title_align o) (width - 4) (box_char box 0 1) in
        [mkSeg [box_char box 0 0; box_char box 0 1] bs false;
         mkSeg (text_line strip t cW) bs false;
         mkSeg [box_char box 0 1; box_char box 0 3] bs false]
    end in
  let ls := mkSeg [box_char box 3 0] bs false in
  let le := mkSeg [box_char box 3 3] bs false in
  top :: map (fun ln => ls :: ln ++ [le]) lines ++ [[mkSeg (box_bottom box (width - 2)) bs false]].

(* ---------------------------------------------------------------- Align, Constrain, Styled *)
(* Constrain(child, width).__rich_console__ under Console.render at options width W *)
Definition constrain_render (c : child) (cwidth : option Z) (W : Z) : list segZ :=
  if W <? 1 then []
  else match cwidth with None => render_at c W | Some cw => render_at c (Z.min cw W) end.

Definition styled_render (c : child) (st : style) (W : Z) : list segZ :=
  if W <? 1 then [] else apply_style st (render_at c W).

(* how: 0 left, 1 center, 2 right; ast = None when Align.style is None *)
Definition align_lines (c : child) (how : Z) (pad : bool) (awidth : option Z) (ast : option style)
           (W cW : Z) : list line :=
  let width := snd (measurement_get c cW) in
  let rendered := constrain_render c (Some (match awidth with None => width | Some aw => Z.min width aw end)) W in
  let lines := split_lines rendered in
  let '(w, h) := get_shape lines in
  let lines := set_shape lines w (Some h) None in
  let excess := W - w in
  let st : style := match ast with Some s => s | None => None end in
  let out :=
    if excess <=? 0 then lines
    else if how =? 0 then
      map (fun ln => if pad then ln ++ [mkSeg (spaces excess) st false] else ln) lines
    else if how =? 1 then
      let left := excess / 2 in
      map (fun ln => (if left =? 0 then [] else [mkSeg (spaces left) st false]) ++ ln ++
                     (if pad then [mkSeg (spaces (excess - left)) st false] else [])) lines
    else map (fun ln => mkSeg (spaces excess) st false :: ln) lines in
  match ast with Some s => map (apply_style s) out | None => out end.

(* ---------------------------------------------------------------- Rule (plain text of the line) *)
Definition str_repeat (s : str) (n : Z) : str := concat (repeat s (Z.to_nat n)).
Definition is_ascii (s : str) : bool := forallb (fun c => c <? 128) s.

(* the plain text of rule_text before it is rendered *)
Definition rule_text (title chars : str) (how : Z) (ascii_only : bool) (W : Z) : str :=
  let chars := if ascii_only && negb (is_ascii chars) then [45] else chars in
  let cl := cell_len chars in
  match title with
  | [] => set_cell_size (truncate_fold (str_repeat chars (W / cl + 1)) W) W
  | _ =>
      let title := nl_to_sp title in
      let body :=
        if how =? 1 then
          let tt := truncate_ellipsis title (W - 4) in
          let side := (W - cell_len tt) / 2 in
          let left := truncate_fold (str_repeat chars (side / cl + 1)) (side - 1) in
          let right_length := W - cell_len left - cell_len tt in
          let right := truncate_fold (str_repeat chars (side / cl + 1)) right_length in
          (left ++ [SP]) ++ tt ++ (SP :: right)
        else if how =? 0 then
          let tt := truncate_ellipsis title (W - 2) in
          let pre := tt ++ [SP] in
          pre ++ str_repeat chars (W - cell_len pre)
        else
          let tt := truncate_ellipsis title (W - 2) in
          str_repeat chars (W - cell_len tt - 1) ++ [SP] ++ tt in
      set_cell_size body W
  end.

(* the rendered lines (texts): nothing below width 1, else the one line after Text.wrap *)
Definition rule_lines (strip : bool) (title chars : str) (how : Z) (ascii_only : bool) (W : Z) : list str :=
  if W <? 1 then [] else [text_line strip (rule_text title chars how ascii_only W) W].

(* ---------------------------------------------------------------- Bar / ProgressBar (plain text) *)
(* `self.width or options.max_width` *)
Definition width_or (w : option Z) (W : Z) : Z :=
  match w with Some x => if x =? 0 then W else x | None => W end.

Definition bar_text (size begin_ end_ : Z) (bwidth : option Z) (W : Z) : str :=
  let begin_ := Z.max begin_ 0 in
  let end_ := Z.min end_ size in
  let width := Z.min (width_or bwidth W) W in
  if end_ <=? begin_ then spaces width
  else
    let pce := Z.quot (width * 8 * begin_) size in
    let pbc := pce / 8 in
    let pec := pce mod 8 in
    let bce := Z.quot (width * 8 * end_) size in
    let bbc := bce / 8 in
    let bec := bce mod 8 in
    let prefix := spaces pbc ++ (if pec =? 0 then [] else nthZ BEGIN_BLOCK_ELEMENTS pec []) in
    let body := str_repeat FULL_BLOCK bbc ++ (if bec =? 0 then [] else nthZ END_BLOCK_ELEMENTS bec []) in
    let suffix := spaces (width - zlen body) in
    prefix ++ skipn (length prefix) body ++ suffix.

(* has_color = console.color_system is not None; t = animation_time (an integer) *)
Definition pbar_text (total completed : Z) (pwidth : option Z) (pulse : bool) (t : Z)
           (ascii has_color no_color : bool) (W : Z) : str :=
  let width := Z.min (width_or pwidth W) W in
  if pulse then
    let bar := if ascii then PULSE_BAR_ASCII else PULSE_BAR in
    let half := PULSE_SIZE / 2 in
    let segs :=
      if negb has_color || no_color
      then repeat bar (Z.to_nat half) ++ repeat (if no_color then [SP] else bar) (Z.to_nat (PULSE_SIZE - half))
      else repeat bar (Z.to_nat PULSE_SIZE) in
    let count := zlen segs in
    let all := concat (repeat segs (Z.to_nat (Z.quot width count + 2))) in
    let offset := (- t * 15) mod count in
    concat (firstn (Z.to_nat width) (skipn (Z.to_nat offset) all))   (* segments[offset : offset + width], width >= 0 *)
  else
    let completed := Z.min total (Z.max 0 completed) in
    let bar := if ascii then PBAR_BAR_ASCII else PBAR_BAR in
    let hr := if ascii then PBAR_HALF_RIGHT_ASCII else PBAR_HALF_RIGHT in
    let hl := if ascii then PBAR_HALF_LEFT_ASCII else PBAR_HALF_LEFT in
    let halves := if total =? 0 then width * 2 else Z.quot (width * 2 * completed) total in
    let bc := halves / 2 in
    let hc := halves mod 2 in
    let done := str_repeat bar bc ++ str_repeat hr hc in
    if no_color then done
    else
      let remaining := width - bc - hc in
      if negb (remaining =? 0) && has_color then
        let lead := (hc =? 0) && negb (bc =? 0) in
        let remaining' := if lead then remaining - 1 else remaining in
        done ++ (if lead then hl else []) ++ str_repeat bar remaining'
      else done.

(* ---------------------------------------------------------------- Columns: placement *)
(* column-first fill: (row, col, index) triples in index order; `lens` = column_lengths[col:] *)
Fixpoint cf_go (k : nat) (idx row col : Z) (lens : list Z) (acc : list (Z * Z * Z)) : res (list (Z * Z * Z)) :=
  match k with
  | O => Ok (rev acc)
  | S k' =>
      match lens with
      | [] => Crash K_IndexError
      | cur :: rest =>
          let acc' := (row, col, idx) :: acc in
          if cur - 1 =? 0 then cf_go k' (idx + 1) 0 (col + 1) rest acc'
          else cf_go k' (idx + 1) (row + 1) col ((cur - 1) :: rest) acc'
      end
  end.

Definition column_lengths (n cc : Z) : list Z :=
  map (fun c => n / cc + (if Z.of_nat c <? n mod cc then 1 else 0)) (seq 0 (Z.to_nat cc)).

Definition cf_positions (n cc : Z) : res (list (Z * Z * Z)) :=
  cf_go (Z.to_nat n) 0 0 0 (column_lengths n cc) [].

Fixpoint cell_at (pos : list (Z * Z * Z)) (r c : Z) : Z :=
  match pos with
  | [] => -1
  | (r', c', i) :: rest => if (r' =? r) && (c' =? c) then i else cell_at rest r c
  end.

Fixpoint take_until_blank (l : list Z) : list Z :=
  match l with [] => [] | x :: r => if x =? -1 then [] else x :: take_until_blank r end.

(* iter_renderables(column_count): item indices in yield order, -1 for the trailing blanks *)
Definition iter_items (n cc : Z) (column_first : bool) : res (list Z) :=
  if cc =? 0 then Crash K_ZeroDivisionError
  else
    do items <-
      (if column_first then
         do pos <- cf_positions n cc;
         let rows := (n + cc - 1) / cc in
         Ok (take_until_blank
               (flat_map (fun r => map (fun c => cell_at pos (Z.of_nat r) (Z.of_nat c)) (seq 0 (Z.to_nat cc)))
                         (seq 0 (Z.to_nat rows))))
       else Ok (map Z.of_nat (seq 0 (Z.to_nat n))));
    Ok (items ++ (if n mod cc =? 0 then [] else repeat (-1) (Z.to_nat (cc - n mod cc)))).

(* one pass of the `for ... else` over iter_renderables inside `while column_count > 1`:
   Some new_count when the running total exceeded max_width, None when the pass completed.
   `widths` is the defaultdict as a list indexed by column number (touched prefix). *)
Fixpoint set_nth (l : list Z) (i : nat) (v : Z) : list Z :=
  match l, i with
  | [], O => [v]
  | [], S i' => 0 :: set_nth [] i' v
  | x :: r, O => v :: r
  | x :: r, S i' => x :: set_nth r i' v
  end.

Fixpoint width_pass (items : list Z) (ws : list Z) (cc wpad maxw : Z) (col : Z) (widths : list Z)
  : option Z :=
  match items with
  | [] => None
  | i :: rest =>
      let rw := if i =? -1 then 0 else nthZ ws i 0 in
      let widths := set_nth widths (Z.to_nat col) (Z.max (nthZ widths col 0) rw) in
      let total := sumZ widths + wpad * (zlen widths - 1) in
      if maxw <? total then Some (zlen widths - 1)
      else width_pass rest ws cc wpad maxw ((col + 1) mod cc) widths
  end.

Fixpoint width_loop (fuel : nat) (n : Z) (ws : list Z) (cc wpad maxw : Z) (cf : bool) : res Z :=
  match fuel with
  | O => Crash K_OutOfFuel
  | S f =>
      if cc <=? 1 then Ok cc
      else
        do items <- iter_items n cc cf;
        match width_pass items ws cc wpad maxw 0 [] with
        | Some cc' => width_loop f n ws cc' wpad maxw cf
        | None => Ok cc
        end
  end.

Fixpoint chunks {A} (fuel : nat) (l : list A) (k : nat) : list (list A) :=
  match fuel with
  | O => []
  | S f => match l with [] => [] | _ => firstn k l :: chunks f (skipn k l) k end
  end.

(* rich 9.10.0 as found (Columns(width=w) wider than the console divides by zero, D10 / C14);
   ws = the items' measured maxima (Measurement.get(item, max_width).maximum); result: the column
   count and the table rows as item indices (-1 = blank cell) *)
Definition columns_grid (ws : list Z) (cwidth : option Z) (pl pr : Z) (equal cf rtl : bool) (W : Z)
  : res (Z * list (list Z)) :=
  let n := zlen ws in
  if n =? 0 then Ok (0, [])
  else
    let wpad := Z.max pl pr in
    let ws := if equal then map (fun _ => fold_right Z.max 0 ws) ws else ws in
    do cc <-
      match cwidth with
      | Some cwid => if cwid + wpad =? 0 then Crash K_ZeroDivisionError else Ok (W / (cwid + wpad))
      | None => width_loop (S (Z.to_nat n)) n ws n wpad W cf
      end;
    do items <- iter_items n cc cf;
    Ok (cc, map (fun row => if rtl then rev row else row) (chunks (S (length items)) items (Z.to_nat cc))).

(* the repaired code (/repo fix ef09520: column_count = max(1, ...) with an explicit width);
   ws = the items' measured maxima (Measurement.get(item, max_width).maximum); result: the column
   count and the table rows as item indices (-1 = blank cell) *)
Definition columns_grid_fixed (ws : list Z) (cwidth : option Z) (pl pr : Z) (equal cf rtl : bool) (W : Z)
  : res (Z * list (list Z)) :=
  let n := zlen ws in
  if n =? 0 then Ok (0, [])
  else
    let wpad := Z.max pl pr in
    let ws := if equal then map (fun _ => fold_right Z.max 0 ws) ws else ws in
    do cc <-
      match cwidth with
      | Some cwid => if cwid + wpad =? 0 then Crash K_ZeroDivisionError else Ok (Z.max 1 (W / (cwid + wpad)))
      | None => width_loop (S (Z.to_nat n)) n ws n wpad W cf
      end;
    do items <- iter_items n cc cf;
    Ok (cc, map (fun row => if rtl then rev row else row) (chunks (S (length items)) items (Z.to_nat cc))).

(* ---------------------------------------------------------------- Tree *)
Definition gsty := (option bool * option bool)%type.    (* (bold, underline2) of a guide style *)
Definition oadd {A} (a b : option A) : option A := match b with Some _ => b | None => a end.
Definition gadd (a b : gsty) : gsty := (oadd (fst a) (fst b), oadd (snd a) (snd b)).

Inductive tnode := TNode (label : child) (gs : gsty) (expanded : bool) (kids : list tnode).

Definition G_SPACE := 0. Definition G_CONTINUE := 1. Definition G_FORK := 2. Definition G_END := 3.
Definition guide := (Z * gsty)%type.

Definition guide_text (ascii legacy : bool) (g : guide) : str :=
  let '(idx, (b, u)) := g in
  if ascii then nthZ ASCII_GUIDES idx []
  else
    let k := match b with Some true => 1 | _ => match u with Some true => 2 | _ => 0 end end in
    nthZ (nthZ TREE_GUIDES (if legacy then 0 else k) []) idx [].

(* loop_last(children) as a list of (last?, node) *)
Fixpoint loop_last (l : list tnode) : list (bool * tnode) :=
  match l with
  | [] => []
  | [x] => [(true, x)]
  | x :: r => (false, x) :: loop_last r
  end.

Definition set_last_guide (levels : list guide) (idx : Z) : list guide :=   (* levels kept reversed *)
  match levels with [] => [] | (_, st) :: r => (idx, st) :: r end.

Definition line_text (l : line) : str := concat (map (fun g => if ctl g then [] else txt g) l).

(* the lines of one node: prefix guides (root level excluded) before each label line; after the first
   line the innermost guide becomes SPACE / CONTINUE *)
Definition node_lines (ascii legacy : bool) (prefix_rev : list guide) (last : bool) (lab : list str) : list str :=
  let ptext (p : list guide) := concat (map (guide_text ascii legacy) (rev p)) in
  match lab with
  | [] => []
  | l0 :: rest =>
      let p2 := set_last_guide prefix_rev (if last then G_SPACE else G_CONTINUE) in
      (ptext prefix_rev ++ l0) :: map (fun l => ptext p2 ++ l) rest
  end.

Definition prefix_cells (ascii legacy : bool) (p : list guide) : Z :=
  sumZ (map (fun g => cell_len (guide_text ascii legacy g)) p).

(* Tree.__rich_console__: the explicit-stack loop.  stack: iterators (top first); levels: reversed;
   gstack: guide_style_stack (top first). *)
Fixpoint tree_go (fuel : nat) (ascii legacy : bool) (W : Z)
         (stack : list (list (bool * tnode))) (levels : list guide) (gstack : list gsty)
         (out : list str) : res (list str) :=
  match fuel with
  | O => Crash K_OutOfFuel
  | S f =>
      match stack with
      | [] => Ok (rev out)
      | [] :: stack' =>                    (* StopIteration *)
          let levels := tl levels in
          match levels with
          | [] => tree_go f ascii legacy W stack' levels gstack out
          | _ => tree_go f ascii legacy W stack' (set_last_guide levels G_FORK) (tl gstack) out
          end
      | ((last, TNode lab gs ex kids) :: it) :: stack' =>
          let levels := if last then set_last_guide levels G_END else levels in
          let gcur := match gstack with g :: _ => g | [] => (None, None) end in
          let gstyle := gadd gcur gs in
          let prefix_rev := removelast levels in       (* levels[1:] *)
          let w := W - prefix_cells ascii legacy prefix_rev in
          let lines := map line_text (render_lines lab w (Some None) true) in
          let out := rev (node_lines ascii legacy prefix_rev last lines) ++ out in
          match ex, kids with
          | true, _ :: _ =>
              let levels := set_last_guide levels (if last then G_SPACE else G_CONTINUE) in
              let levels := ((match kids with [_] => G_END | _ => G_FORK end), gstyle) :: levels in
              tree_go f ascii legacy W (loop_last kids :: it :: stack') levels (gadd gcur gs :: gstack) out
          | _, _ => tree_go f ascii legacy W (it :: stack') levels gstack out
          end
      end
  end.

Fixpoint tsize (t : tnode) : nat :=
  match t with TNode _ _ _ kids => S (fold_right (fun k a => tsize k + a)%nat O kids) end.

Definition tree_render (ascii legacy : bool) (t : tnode) (W : Z) : res (list str) :=
  let '(TNode _ gs _ _) := t in
  tree_go (2 * tsize t + 3) ascii legacy W [loop_last [t]] [(G_CONTINUE, gs)] [gs] [].

(* the documented order: depth-first, (depth, label lines at W - 4*depth) *)
Fixpoint tree_preorder (W : Z) (d : Z) (t : tnode) : list (Z * list str) :=
  match t with
  | TNode lab _ ex kids =>
      (d, map line_text (render_lines lab (W - 4 * d) (Some None) true))
      :: (if ex then flat_map (tree_preorder W (d + 1)) kids else [])
  end.

(* ---------------------------------------------------------------- Console.print(r, width=N) *)
(* render_options = self.options.update(width = min(width, self.width) if width else None): the width the
   renderable is laid out at.  The rule itself is a T3 fact regenerated from /repo (gen/FrameFacts.v); when the
   source no longer has that shape the model falls back to handing `width` through unchanged. *)
Definition print_render_width (width : option Z) (W : Z) : Z :=
  match width with
  | None => W
  | Some n =>
      if PRINT_WIDTH_IS_MIN_OR_NONE then (if n =? 0 then W else Z.min n W)
      else n
  end.

(* what reaches the buffer: the segments rendered at that width, split and cropped at the console width *)
Definition print_lines (W : Z) (segs : list segZ) : list line :=
  if PRINT_CROPS_AT_CONSOLE_WIDTH then split_and_crop_lines false segs W None false false else split_lines segs.

Arguments box_char : simpl never.
