(* wire glue for the ANSI layer (C03) *)
From RichModel Require Import Prelude Color Style TermSgr Ansi SpecAnsi.
From RichModel Require DrvColor.

Definition tSysOpt (t : tree) : option ColorSystem := ColorSystem_of_int (tZ t).     (* 0 = None *)
(* [system, no_color, terminal, legacy, fix_d16, fix_ctl] *)
Definition tCfg (t : tree) : cfg :=
  mkCfg (tSysOpt (tNth t 0)) (tB (tNth t 1)) (tB (tNth t 2)) (tB (tNth t 3)) (tB (tNth t 4)) (tB (tNth t 5)).

Definition tFlag (t : tree) : option bool :=
  let z := tZ t in if z <? 0 then None else Some (negb (z =? 0)).
(* Style(color=, bgcolor=, <13 flags>, link=):  [color?, bgcolor?, [f0..f12], link?] *)
Definition tStyle (t : tree) : style :=
  style_make (tOpt DrvColor.tColor (tNth t 0)) (tOpt DrvColor.tColor (tNth t 1))
             (tList tFlag (tNth t 2)) (tOpt tStr (tNth t 3)).
(* memo on the wire: [] = never rendered, [sys0] = _make_ansi_codes(sys0) ran before *)
Definition tMemo (s : option style) (t : tree) : memo :=
  match s, tL t with
  | Some s, z :: _ =>
      match ColorSystem_of_int (tZ z) with
      | Some sys0 => match make_ansi_codes s sys0 with Ok a => Some (sys0, a) | _ => None end
      | None => None
      end
  | _, _ => None
  end.
(* [text, style?, link_id, memo, is_control] *)
Definition tASeg (t : tree) : aseg :=
  let s := tOpt tStyle (tNth t 1) in
  mkASeg (tStr (tNth t 0)) s (tStr (tNth t 2)) (tMemo s (tNth t 3)) (tB (tNth t 4)).

Definition ofTColor (c : tcolor) : tree :=
  match c with TDefault => L [] | TIdx n => L [I n] | TRgb r g b => L [I r; I g; I b] end.
Fixpoint flag_bits (l : list bool) (w : Z) : Z :=
  match l with [] => 0 | b :: r => (if b then w else 0) + flag_bits r (2 * w) end.
Definition ofCell (c : cell) : tree :=
  L [I (ch c); I (flag_bits (ch_flags c) 1); ofTColor (ch_fg c); ofTColor (ch_bg c); ofOpt ofStr (ch_link c)].
Definition ofTState (st : tstate) : tree :=
  L [I (flag_bits (t_flags st) 1); ofTColor (t_fg st); ofTColor (t_bg st); ofOpt ofStr (t_link st)].

(* history steps: [0, cfg, text] render | [1] without_color | [2] copy | [3, link?] update_link
   | [4, style] current + style | [5, style] style + current *)
Definition tHop (t : tree) : hop :=
  let tag := tZ (tNth t 0) in
  if tag =? 0 then HRender (tCfg (tNth t 1)) (tStr (tNth t 2))
  else if tag =? 1 then HWithoutColor
  else if tag =? 2 then HCopy
  else if tag =? 3 then HUpdateLink (tOpt tStr (tNth t 1))
  else if tag =? 4 then HAddRight (tStyle (tNth t 1))
  else HAddLeft (tStyle (tNth t 1)).

Definition tOptB (t : tree) : option bool := let z := tZ t in if z <? 0 then None else Some (negb (z =? 0)).
Definition tCsArg (t : tree) : cs_arg :=
  let z := tZ t in if z =? 0 then CSA_none else if z =? 5 then CSA_auto else CSA_name (DrvColor.tSys t).
(* [NO_COLOR?, COLORTERM?, TERM?] *)
Definition tEnv (t : tree) : envv := mkEnv (tOpt tStr (tNth t 0)) (tOpt tStr (tNth t 1)) (tOpt tStr (tNth t 2)).
(* [force_terminal, color_system, no_color, legacy_windows, env] (+ fix flags); the file is a StringIO: isatty() = False *)
Definition tEnvCfg (t : tree) (fx fc : bool) : cfg :=
  cfg_of_env (tOptB (tNth t 0)) false (tCsArg (tNth t 1)) (tOptB (tNth t 2)) (tOptB (tNth t 3)) (tEnv (tNth t 4)) fx fc.
Definition ofSysOpt (o : option ColorSystem) : tree := match o with None => I 0 | Some s => I (ColorSystem_int s) end.

Definition ops : list (string * (tree -> tree)) := [
  ("ansi.cfg_of_env", fun t =>
      let k := tEnvCfg t true true in
      L [ofSysOpt (k_system k); ofB (k_no_color k); ofB (k_terminal k); ofB (k_legacy k)]);
  (* [ctor, [fix_d16, fix_ctl], segs] *)
  ("ansi.env_render", fun t =>
      ofRes ofStr (render_buffer (tEnvCfg (tNth t 0) (tB (tNth (tNth t 1) 0)) (tB (tNth (tNth t 1) 1)))
                                 (tList tASeg (tNth t 2))));
  ("spec.ansi.no_color_convention", fun t =>    (* [no_color keyword, NO_COLOR present, console.no_color] *)
      ofB (no_color_convention_b (tOptB (tNth t 0)) (tB (tNth t 1)) (tB (tNth t 2))));
  (* the oracle itself: str -> [cells, in ground state?, final rendition, SGR parameters, #other controls] *)
  ("sgr.interp", fun t =>
      let '(m, st, ev) := run PGround t_reset (tStr t) in
      L [ofList ofCell (cells_of ev); ofB (is_ground m); ofTState st;
         ofList I (sgr_params_of ev); ofNat (others_of ev)]);
  ("ansi.render", fun t => ofRes ofStr (render_buffer (tCfg (tNth t 0)) (tList tASeg (tNth t 1))));
  (* [fix_d16, style, text, link_id, [sys1, sys2, ...]] -> the strings the consoles write, in order *)
  ("ansi.history", fun t =>
      ofRes (ofList ofStr)
        (render_history (tB (tNth t 0)) (tStyle (tNth t 1)) None (tStr (tNth t 2)) (tStr (tNth t 3))
                        (tList DrvColor.tSys (tNth t 4))));
  (* the same through Style.parse (lru_cached: the parsed object is shared by every console) *)
  ("ansi.parse_history", fun t =>
      ofRes (ofList ofStr)
        (do s <- style_parse (tStr (tNth t 1));
         render_history (tB (tNth t 0)) s None (tStr (tNth t 2)) (tStr (tNth t 3))
                        (tList DrvColor.tSys (tNth t 4))));
  (* [link_id, style, [step...]] -> what each console wrote, in order *)
  ("ansi.hist", fun t =>
      ofRes (ofList ofStr)
        (run_hist true (tStr (tNth t 0)) (tStyle (tNth t 1), None) (tList tHop (tNth t 2))));
  ("spec.ansi.hist_ok", fun t =>     (* [link_id, style, steps, outs] *)
      ofB (hist_ok_b (tStr (tNth t 0)) (tStyle (tNth t 1)) (tList tHop (tNth t 2)) (tList tStr (tNth t 3))));
  ("ansi.expected", fun t => ofList ofCell (expected (tCfg (tNth t 0)) (tList tASeg (tNth t 1))));
  ("ansi.segs_ok", fun t => ofB (segs_ok (tCfg (tNth t 0)) (tList tASeg (tNth t 1))));
  (* spec-level checkers, applied by the harness to the bytes the implementation wrote *)
  ("spec.ansi.stream_means", fun t =>     (* [cfg, segs, bytes] *)
      ofB (stream_means_b (tCfg (tNth t 0)) (tList tASeg (tNth t 1)) (tStr (tNth t 2))));
  ("spec.ansi.no_escape", fun t => ofB (no_escape_b (tStr t)));
  ("spec.ansi.no_color_params", fun t => ofB (no_color_params_b (tStr t)));
  ("spec.ansi.no_controls", fun t => ofB (no_controls_b (tStr t)));
  (* [fix-independent] the history spec: every later render equals a fresh style's render:
     [style, text, link_id, [sys...], [bytes...]] *)
  ("spec.ansi.history_fresh", fun t =>
      let s := tStyle (tNth t 0) in
      let text := tStr (tNth t 1) in
      let lid := tStr (tNth t 2) in
      let syss := tList DrvColor.tSys (tNth t 3) in
      let outs := tList tStr (tNth t 4) in
      ofB ((length syss =? length outs)%nat &&
           forallb (fun '(sys, out) =>
                      match render_styled true s None text (Some sys) false lid with
                      | Ok b => str_eqb b out
                      | _ => false
                      end) (combine syss outs)))
].
