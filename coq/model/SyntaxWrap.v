(* C17 x C02: the word-wrapping function of Syntax's word_wrap path, as C02's model of Text.wrap.
   console.render_lines(line, options(width=w), style, pad) = Text.__rich_console__ -> Text.wrap(w,
   justify = the Text's justify ("left" when the theme has a background, i.e. pad, else "default"),
   overflow="fold", no_wrap=False) -> "\n".join -> Segment.split_and_crop_lines(w, pad): every wrapped
   line shaped by adjust_line_length.  The line carries no span that matters for characters. *)
From RichModel Require Import Prelude Cells Segments Syntax.
From RichModel Require Wrap.

Definition line_text (line : str) : Wrap.text unit := Wrap.mkText line [] tt.
Definition wrap_texts (line : str) (w : Z) (pad : bool) : list (Wrap.text unit) :=
  Wrap.wrap unit (fun _ _ => true) tt (fun a _ => a) Wrap.repaired (line_text line) w
            (if pad then Wrap.J_LEFT else Wrap.J_DEFAULT) Wrap.OV_FOLD 8 false.
Definition wrapf_text (line : str) (w : Z) (pad : bool) : list str :=
  map (fun t => crop_line (Wrap.plain t) w pad) (wrap_texts line w pad).
