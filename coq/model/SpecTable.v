(* Spec-level checkers for C07 and for the arithmetic kernels (DESIGN appendix C).  Boolean
   functions on concrete outputs: used in the theorem statements (props/C07.v) and, through the
   driver, on what the implementation printed. *)
From RichModel Require Import Prelude Cells Ratio.

(* ---------------------------------------------------------------- kernels *)
Fixpoint forall2b {A B} (f : A -> B -> bool) (a : list A) (b : list B) : bool :=
  match a, b with
  | [], [] => true
  | x :: a', y :: b' => f x y && forall2b f a' b'
  | _, _ => false
  end.

(* ratio_distribute: parts sum to the total *)
Definition distribute_sum_b (total : Z) (out : list Z) : bool := sumZ out =? total.
(* ... and no part is below its minimum *)
Definition distribute_min_b (mins out : list Z) : bool := forall2b (fun m d => m <=? d) mins out.

(* ratio_reduce: every value is reduced by between 0 and its maximum, by at most `total` overall *)
Fixpoint reduce_amounts (values out : list Z) : list Z :=
  match values, out with
  | v :: vs, r :: rs => (v - r) :: reduce_amounts vs rs
  | _, _ => []
  end.
Definition reduce_bound_b (total : Z) (maximums values out : list Z) : bool :=
  (length out =? length values)%nat
  && forall2b (fun m d => (0 <=? d) && (d <=? m)) maximums (reduce_amounts values out)
  && (sumZ (reduce_amounts values out) <=? total).
Definition reduce_sum_b (total : Z) (values out : list Z) : bool :=
  sumZ (reduce_amounts values out) =? total.

(* _collapse_widths: same length, nothing grows, nothing goes negative, non-wrapable columns are
   untouched, never reduced below max_width in total; when every column may wrap the total is
   exactly max_width *)
Definition collapse_ok_b (widths : list Z) (wrapable : list bool) (max_width : Z) (out : list Z) : bool :=
  (length out =? length widths)%nat
  && forall2b (fun w r => (0 <=? r) && (r <=? w)) widths out
  && forall2b (fun '(w, a) r => a || (r =? w)) (combine widths wrapable) out
  && (Z.min max_width (sumZ widths) <=? sumZ out)
  && (if forallb (fun a => a) wrapable && (0 <=? max_width) && (max_width <? sumZ widths)
      then sumZ out =? max_width else true).

(* ---------------------------------------------------------------- rendered tables *)
(* every line of the body has the same cell width *)
Definition rect_b (lines : list str) : bool :=
  match map cell_len lines with
  | [] => true
  | w :: rest => forallb (fun x => x =? w) rest
  end.

(* ... namely exactly w *)
Definition expand_exact_b (w : Z) (lines : list str) : bool :=
  forallb (fun l => cell_len l =? w) lines.

Definition is_ws (c : Z) : bool :=
  (c =? 32) || ((9 <=? c) && (c <=? 13)) || ((28 <=? c) && (c <=? 31)) || (c =? 133) || (c =? 160)
  || (c =? 5760) || ((8192 <=? c) && (c <=? 8202)) || (c =? 8232) || (c =? 8233) || (c =? 8239)
  || (c =? 8287) || (c =? 12288).

Definition memZ (c : Z) (l : list Z) : bool := existsb (fun x => x =? c) l.

(* rows in insertion order, each on lines of its own: classes = for every shown row (header, rows,
   footer) the code points that occur only in that row.  Every output line carries characters of
   at most one row, the rows met from top to bottom never go back, and (when require_all) every
   row that has characters is met. *)
Fixpoint class_of (classes : list (list Z)) (i : nat) (c : Z) : option nat :=
  match classes with
  | [] => None
  | cl :: rest => if memZ c cl then Some i else class_of rest (S i) c
  end.

Fixpoint line_class (classes : list (list Z)) (l : str) : option (option nat) :=
  (* None = characters of two different rows on this line; Some None = no row characters *)
  match l with
  | [] => Some None
  | c :: r =>
      match line_class classes r with
      | None => None
      | Some k =>
          match class_of classes 0 c, k with
          | None, _ => Some k
          | Some i, None => Some (Some i)
          | Some i, Some j => if (i =? j)%nat then Some (Some i) else None
          end
      end
  end.

Fixpoint ordered_from (classes : list (list Z)) (cur : nat) (lines : list str) : option (list nat) :=
  (* the rows met, in order, or None on a violation *)
  match lines with
  | [] => Some []
  | l :: rest =>
      match line_class classes l with
      | None => None
      | Some None => ordered_from classes cur rest
      | Some (Some i) =>
          if (cur <=? i)%nat then
            match ordered_from classes i rest with
            | Some seen => Some (i :: seen)
            | None => None
            end
          else None
      end
  end.

Definition rows_ordered_b (classes : list (list Z)) (require_all : bool) (lines : list str) : bool :=
  match ordered_from classes 0 lines with
  | None => false
  | Some seen =>
      negb require_all
      || forallb (fun '(i, cl) => match cl with [] => true | _ => existsb (Nat.eqb i) seen end)
                 (combine (seq 0 (length classes)) classes)
  end.

(* ---- every cell in its own column ---- *)
(* column spans in cell offsets, from the width vector *)
Fixpoint spans_from (widths : list Z) (start gap : Z) : list (Z * Z) :=
  match widths with
  | [] => []
  | w :: rest => (start, start + w) :: spans_from rest (start + w + gap) gap
  end.
Definition col_spans (widths : list Z) (box edge : bool) : list (Z * Z) :=
  spans_from widths (if box && edge then 1 else 0) (if box then 1 else 0).

(* the width vector recomputed from a box line of the OUTPUT ("+----+---+"): strip the corner
   characters, split at the divider character, measure the runs *)
Fixpoint split_on (d : Z) (s : str) (cur : str) : list str :=
  match s with
  | [] => [rev cur]
  | c :: r => if c =? d then rev cur :: split_on d r [] else split_on d r (c :: cur)
  end.
Definition widths_from_box_line (d : Z) (edge : bool) (l : str) : list Z :=
  let inner := if edge then removelast (tl l) else l in
  map cell_len (split_on d inner []).

(* the content characters (not whitespace, not box characters) of a line with their cell spans *)
Fixpoint content_at (skip : list Z) (l : str) (off : Z) : list (Z * Z * Z) :=
  match l with
  | [] => []
  | c :: r =>
      let w := char_size c in
      if is_ws c || memZ c skip then content_at skip r (off + w)
      else (c, off, off + w) :: content_at skip r (off + w)
  end.

Definition in_span (sp : Z * Z) (x : Z * Z * Z) : bool :=
  let '(_, a, b) := x in (fst sp <=? a) && (b <=? snd sp).

Definition span_text (skip : list Z) (lines : list str) (sp : Z * Z) : str :=
  concat (map (fun l => map (fun x => fst (fst x)) (filter (in_span sp) (content_at skip l 0))) lines).

Definition stray (skip : list Z) (spans : list (Z * Z)) (lines : list str) : bool :=
  existsb (fun l => existsb (fun x => negb (existsb (fun sp => in_span sp x) spans)) (content_at skip l 0)) lines.

Fixpoint subseq_b (a b : str) : bool :=   (* a is a subsequence of b *)
  match b with
  | [] => match a with [] => true | _ => false end
  | y :: b' =>
      match a with
      | [] => true
      | x :: a' => if x =? y then subseq_b a' b' else subseq_b a b'
      end
  end.

Definition ELLIPSIS : Z := 8230.

(* cols: for every column (fold?, the non-whitespace characters of its cells in row order).
   Inside a fold column's span exactly those characters appear, in order; inside any other
   column's span a subsequence of them (plus the ellipsis); no content character lies outside
   the spans or across a span boundary. *)
Definition cells_in_columns_b (widths : list Z) (box edge : bool) (skip : list Z)
           (cols : list (bool * str)) (lines : list str) : bool :=
  let spans := col_spans widths box edge in
  (length spans =? length cols)%nat
  && negb (stray skip spans lines)
  && forall2b (fun (sp : Z * Z) (fe : bool * str) =>
                 let '(fold, expected) := fe in
                 let got := span_text skip lines sp in
                 if fold then str_eqb got expected
                 else subseq_b (filter (fun c => negb (c =? ELLIPSIS)) got) expected)
              spans cols.
