(* Wire format of the correspondence driver, entirely in Gallina so that the OCaml
   side is a dumb line pump: a line is  <opname> <tree>  with tree ::= int | [tree,...]. *)
From RichModel Require Import Prelude.
From Coq Require Decimal.

(* ---------- parsing: one left-to-right fold, no fuel ---------- *)
Record pstate := {
  stack : list (list tree);      (* reversed item lists, innermost first *)
  num : option (bool * Z)        (* pending number: (negative?, magnitude) *)
}.

Definition flush_num (st : pstate) : pstate :=
  match num st with
  | None => st
  | Some (neg, m) =>
      let v := I (if neg then - m else m) in
      match stack st with
      | top :: rest => {| stack := (v :: top) :: rest; num := None |}
      | [] => {| stack := [[v]]; num := None |}
      end
  end.

Definition pstep (st : pstate) (c : Z) : pstate :=
  if c =? 91 (* [ *) then {| stack := [] :: stack st; num := None |}
  else if c =? 93 (* ] *) then
    let st := flush_num st in
    match stack st with
    | top :: next :: rest => {| stack := (L (rev_append top []) :: next) :: rest; num := None |}
    | _ => st
    end
  else if c =? 44 (* , *) then flush_num st
  else if c =? 45 (* - *) then {| stack := stack st; num := Some (true, 0) |}
  else if (48 <=? c) && (c <=? 57) then
    match num st with
    | None => {| stack := stack st; num := Some (false, c - 48) |}
    | Some (neg, m) => {| stack := stack st; num := Some (neg, m * 10 + (c - 48)) |}
    end
  else st.

Definition parse_tree (s : str) : tree :=
  let st := flush_num (fold_left pstep s {| stack := [[]]; num := None |}) in
  match stack st with
  | (t :: _) :: _ => t
  | _ => L []
  end.

(* ---------- printing ---------- *)
Fixpoint uint_digits (u : Decimal.uint) : str :=
  match u with
  | Decimal.Nil => []
  | Decimal.D0 u => 48 :: uint_digits u | Decimal.D1 u => 49 :: uint_digits u
  | Decimal.D2 u => 50 :: uint_digits u | Decimal.D3 u => 51 :: uint_digits u
  | Decimal.D4 u => 52 :: uint_digits u | Decimal.D5 u => 53 :: uint_digits u
  | Decimal.D6 u => 54 :: uint_digits u | Decimal.D7 u => 55 :: uint_digits u
  | Decimal.D8 u => 56 :: uint_digits u | Decimal.D9 u => 57 :: uint_digits u
  end.

Definition print_Z (z : Z) : str :=
  match z with
  | Z0 => [48]
  | Zpos p => uint_digits (Pos.to_uint p)
  | Zneg p => 45 :: uint_digits (Pos.to_uint p)
  end.

Fixpoint print_tree (t : tree) : str :=
  match t with
  | I z => print_Z z
  | L l =>
      let fix items (l : list tree) : str :=
        match l with
        | [] => []
        | [x] => print_tree x
        | x :: rest => print_tree x ++ 44 :: items rest
        end in
      91 :: items l ++ [93]
  end.

(* split "<op> <tree>" at the first space *)
Fixpoint split_sp (s : str) : str * str :=
  match s with
  | [] => ([], [])
  | c :: r => if c =? 32 then ([], r) else let '(a, b) := split_sp r in (c :: a, b)
  end.
