(* wire glue for the frames layer (C08) *)
From RichModel Require Import Prelude Cells Segments SpecCells Frames SpecFrames.

Definition tSeg (t : tree) : seg Z :=
  mkSeg (tStr (tNth t 0)) (tOpt tZ (tNth t 1)) (tB (tNth t 2)).
Definition tLine := tList tSeg.
Definition tStyle (t : tree) : style := tOpt tZ t.
Definition tOZ (t : tree) : option Z := tOpt tZ t.

(* a line as the harness canonicalises it: [[code point, [style token]?], ...] *)
Definition ofFl (l : fl) : tree := ofList (fun cs => L [I (fst cs); ofOpt I (snd cs)]) l.
Definition tFl (t : tree) : fl := tList (fun e => (tZ (tNth e 0), tOpt tZ (tNth e 1))) t.
Definition ofLines (ls : list line) : tree := ofList (fun l => ofFl (flat l)) ls.
Definition ofStrs (ls : list str) : tree := ofList ofStr ls.
Definition fls_eqb (a b : list fl) : bool := list_eqb (list_eqb cs_eqb) a b.
Definition strs_eqb (a b : list str) : bool := list_eqb str_eqb a b.

(* an abstract child from the oracle tables recorded by the harness:
   [[ [w, min, max], ... ], [ [w, segments], ... ]] *)
Definition MISSING : list segZ := [mkSeg (lit "?MISSING") None false].
Definition tChild (t : tree) : child :=
  let mt := tL (tNth t 0) in
  let rt := tL (tNth t 1) in
  mkChild
    (fun w => match find (fun e => tZ (tNth e 0) =? w) mt with
              | Some e => (tZ (tNth e 1), tZ (tNth e 2))
              | None => (-7, -7)
              end)
    (fun w => match find (fun e => tZ (tNth e 0) =? w) rt with
              | Some e => tLine (tNth e 1)
              | None => MISSING
              end).

(* observation: Segment.split_lines(console.render(frame, options)) -- no crop, so that an over-wide
   line cannot be masked; the line-level models already are newline-terminated lines *)
Definition observe (W : Z) (ls : list line) : list line := ls.
Definition observe_stream (W : Z) (segs : list segZ) : list line := split_lines segs.

Definition t4 (t : tree) : Z * Z * Z * Z := (tZ (tNth t 0), tZ (tNth t 1), tZ (tNth t 2), tZ (tNth t 3)).

(* [child, W, [t,r,b,l], style, expand] *)
Definition padding_of (t : tree) : list line :=
  let '(pt, pr, pb, pl) := t4 (tNth t 2) in
  observe (tZ (tNth t 1))
    (padding_lines (tChild (tNth t 0)) pt pr pb pl (tStyle (tNth t 3)) (tB (tNth t 4)) (tZ (tNth t 1))).

(* [child, W, cW, [box, safe, legacy, ascii], title, talign, expand, width?, [t,r,b,l], style, border, strip] *)
Definition panel_opts_of (t : tree) : panel_opts :=
  let b := tNth t 3 in
  mkPanel (tZ (tNth b 0)) (tB (tNth b 1)) (tB (tNth b 2)) (tB (tNth b 3))
          (tStr (tNth t 4)) (tZ (tNth t 5)) (tB (tNth t 6)) (tOZ (tNth t 7)) (t4 (tNth t 8))
          (tStyle (tNth t 9)) (tStyle (tNth t 10)).
Definition panel_of (t : tree) : list line :=
  observe (tZ (tNth t 1))
    (panel_lines (tB (tNth t 11)) (tChild (tNth t 0)) (panel_opts_of t) (tZ (tNth t 1)) (tZ (tNth t 2))).

(* [child, W, cW, how, pad, width?, style??]   style?? = [] | [[]] | [[k]] *)
Definition align_of (t : tree) : list line :=
  observe (tZ (tNth t 1))
    (align_lines (tChild (tNth t 0)) (tZ (tNth t 3)) (tB (tNth t 4)) (tOZ (tNth t 5))
                 (tOpt tStyle (tNth t 6)) (tZ (tNth t 1)) (tZ (tNth t 2))).

Definition constrain_of (t : tree) : list line :=
  observe_stream (tZ (tNth t 1)) (constrain_render (tChild (tNth t 0)) (tOZ (tNth t 2)) (tZ (tNth t 1))).
Definition styled_of (t : tree) : list line :=
  observe_stream (tZ (tNth t 1)) (styled_render (tChild (tNth t 0)) (tStyle (tNth t 2)) (tZ (tNth t 1))).

Definition tGs (t : tree) : gsty :=
  let f z := if z =? 1 then Some true else if z =? 2 then Some false else None in
  (f (tZ (tNth t 0)), f (tZ (tNth t 1))).
Fixpoint tNode (t : tree) : tnode :=
  match t with
  | L [c; gs; ex; L kids] => TNode (tChild c) (tGs gs) (tB ex) (map tNode kids)
  | _ => TNode (mkChild (fun _ => (0, 0)) (fun _ => [])) (None, None) false []
  end.

Definition tFls := tList tFl.
Definition tStrs := tList tStr.
Definition tOStrs (t : tree) : option (list str) := tOpt tStrs t.

Definition ops : list (string * (tree -> tree)) := [
  ("padding", fun t => ofLines (padding_of t));
  ("panel", fun t => ofLines (panel_of t));
  ("align", fun t => ofLines (align_of t));
  ("constrain", fun t => ofLines (constrain_of t));
  ("styled", fun t => ofLines (styled_of t));
  (* [title, chars, how, ascii_only, W, strip] *)
  ("rule", fun t => ofStrs (rule_lines (tB (tNth t 5)) (tStr (tNth t 0)) (tStr (tNth t 1)) (tZ (tNth t 2))
                                       (tB (tNth t 3)) (tZ (tNth t 4))));
  (* [size, begin, end, width?, W] *)
  ("bar", fun t => ofStr (bar_text (tZ (tNth t 0)) (tZ (tNth t 1)) (tZ (tNth t 2)) (tOZ (tNth t 3)) (tZ (tNth t 4))));
  (* [total, completed, width?, pulse, t, ascii, has_color, no_color, W] *)
  ("pbar", fun t => ofStr (pbar_text (tZ (tNth t 0)) (tZ (tNth t 1)) (tOZ (tNth t 2)) (tB (tNth t 3)) (tZ (tNth t 4))
                                     (tB (tNth t 5)) (tB (tNth t 6)) (tB (tNth t 7)) (tZ (tNth t 8))));
  (* [ws, width?, pl, pr, equal, cf, rtl, W] *)
  ("columns", fun t =>
      ofRes (fun r => L [I (fst r); ofList (ofList I) (snd r)])
            (columns_grid_fixed (tList tZ (tNth t 0)) (tOZ (tNth t 1)) (tZ (tNth t 2)) (tZ (tNth t 3))
                          (tB (tNth t 4)) (tB (tNth t 5)) (tB (tNth t 6)) (tZ (tNth t 7))));
  (* [ascii, legacy, W, node] *)
  ("tree", fun t => ofRes ofStrs (tree_render (tB (tNth t 0)) (tB (tNth t 1)) (tNode (tNth t 3)) (tZ (tNth t 2))));
  ("tree_preorder", fun t =>
      ofList (fun e => L [I (fst e); ofStrs (snd e)]) (tree_preorder (tZ (tNth t 2)) 0 (tNode (tNth t 3))));

  (* ---- correspondence through the recorded oracle tables: model lines = implementation lines *)
  ("spec.corr_padding", fun t => ofB (fls_eqb (map flat (padding_of (tNth t 0))) (tFls (tNth t 1))));
  ("spec.corr_panel", fun t => ofB (fls_eqb (map flat (panel_of (tNth t 0))) (tFls (tNth t 1))));
  ("spec.corr_align", fun t => ofB (fls_eqb (map flat (align_of (tNth t 0))) (tFls (tNth t 1))));
  ("spec.corr_constrain", fun t => ofB (fls_eqb (map flat (constrain_of (tNth t 0))) (tFls (tNth t 1))));
  ("spec.corr_styled", fun t => ofB (fls_eqb (map flat (styled_of (tNth t 0))) (tFls (tNth t 1))));
  ("spec.corr_tree", fun t =>
      let a := tNth t 0 in
      ofB (match tree_render (tB (tNth a 0)) (tB (tNth a 1)) (tNode (tNth a 3)) (tZ (tNth a 2)) with
           | Ok ls => strs_eqb ls (tStrs (tNth t 1))
           | _ => false
           end));

  (* ---- spec-level checkers on the implementation's lines *)
  (* [expect_w?, nt, nb, lstr, rstr, tops?, bots?, child_lines, lines] *)
  ("spec.frame_ok", fun t =>
      ofB (frame_ok_b (tOZ (tNth t 0)) (Z.to_nat (tZ (tNth t 1))) (Z.to_nat (tZ (tNth t 2)))
                      (tStr (tNth t 3)) (tStr (tNth t 4)) (tOStrs (tNth t 5)) (tOStrs (tNth t 6))
                      (tFls (tNth t 7)) (tFls (tNth t 8))));
  ("spec.same_chars", fun t => ofB (same_chars_b (tFls (tNth t 0)) (tFls (tNth t 1))));
  ("spec.rule_exact", fun t => ofB (rule_lines_b (tZ (tNth t 0)) (tStrs (tNth t 1))));
  ("spec.bar_within", fun t => ofB (bar_within_b (tZ (tNth t 0)) (tB (tNth t 1)) (tStr (tNth t 2))));
  (* [cf, rtl, n, cc, grid] *)
  ("spec.columns_once", fun t =>
      ofB (columns_once_b (tB (tNth t 0)) (tB (tNth t 1)) (Z.to_nat (tZ (tNth t 2))) (tZ (tNth t 3))
                          (tList (tList tZ) (tNth t 4))));
  (* [N?, W] -> the width a printed renderable is laid out at *)
  ("print_width", fun t => I (print_render_width (tOZ (tNth t 0)) (tZ (tNth t 1))));
  (* [N?, W, exact, [[w, lines], ...] (the frame rendered directly at candidate widths), printed lines] *)
  ("spec.print_ok", fun t =>
      let W := tZ (tNth t 1) in
      let E := print_render_width (tOZ (tNth t 0)) W in
      ofB (match find (fun e => tZ (tNth e 0) =? E) (tL (tNth t 3)) with
           | Some e => print_ok_b E W (tB (tNth t 2)) (tStrs (tNth e 1)) (tStrs (tNth t 4))
           | None => false
           end));
  ("spec.same_render", fun t => ofB (same_render_b (tStrs (tNth t 0)) (tStrs (tNth t 1))));
  ("spec.same_grid", fun t => ofB (same_grid_b (tList (tList tZ) (tNth t 0)) (tList (tList tZ) (tNth t 1))));
  (* [[ [depth, label lines], ... ], lines] *)
  ("spec.tree_dfs", fun t =>
      ofB (tree_dfs_b (tList (fun e => (tZ (tNth e 0), tStrs (tNth e 1))) (tNth t 0)) (tStrs (tNth t 1))))
].
