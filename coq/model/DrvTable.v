(* wire glue for the table layer (C07) *)
From RichModel Require Import Prelude Cells Segments Ratio Table SpecTable.
From RichGen Require Import BoxChars.

Definition tBools (t : tree) : list bool := tList tB t.
Definition tZs (t : tree) : list Z := tList tZ t.

(* [box, edge, header, footer, lines, leading, [pt,pr,pb,pl], collapse, pad_edge, expand, width?, minw?] *)
Definition tOpts (t : tree) : topts :=
  let p := tNth t 6 in
  mkOpts (tB (tNth t 0)) (tB (tNth t 1)) (tB (tNth t 2)) (tB (tNth t 3)) (tB (tNth t 4)) (tZ (tNth t 5))
         (tZ (tNth p 0), tZ (tNth p 1), tZ (tNth p 2), tZ (tNth p 3))
         (tB (tNth t 7)) (tB (tNth t 8)) (tB (tNth t 9)) (tOpt tZ (tNth t 10)) (tOpt tZ (tNth t 11)).

(* [width?, minw?, maxw?, ratio?, nowrap, [[tmin, tmax], ...]]: a column of text cells *)
Definition tCol (o : topts) (ncols : nat) (it : nat * tree) : tcol :=
  let '(idx, t) := it in
  mkCol (tOpt tZ (tNth t 0)) (tOpt tZ (tNth t 1)) (tOpt tZ (tNth t 2)) (tOpt tZ (tNth t 3)) (tB (tNth t 4))
        (text_cells o ncols idx (tList (fun c => (tZ (tNth c 0), tZ (tNth c 1))) (tNth t 5))).
Definition tCols (o : topts) (t : tree) : list tcol :=
  map (tCol o (length (tL t))) (indexed 0 (tL t)).

(* [[stale, capmin], opts, cols, avail]; the flexible-minimum variant follows the T3 fact regenerated
   from /repo (gen/BoxChars.FLEXMIN_MEASURED), so the model is the as-found solver on rich as it is
   and the repaired one once fixes/C07_ratio_column_minimum.diff is in *)
Definition widths_of_desc (t : tree) : res (list Z) :=
  let o := tOpts (tNth t 1) in
  table_widths_x FLEXMIN_MEASURED (tB (tNth (tNth t 0) 0)) (tB (tNth (tNth t 0) 1)) o (tCols o (tNth t 2)) (tZ (tNth t 3)).

Definition tBox (t : tree) : option boxc :=
  match tOpt tZ t with Some i => nth_box (Z.to_nat i) | None => None end.

(* a cell given by the lines it rendered to (constant in the width): [[text, style?] ...] per line *)
Definition tCellLines (t : tree) : cell :=
  let ls := tList (fun l => tList (fun g => mkSeg (tStr (tNth g 0)) (tOpt tZ (tNth g 1)) false) l) t in
  fun _ => ls.
(* [cells, end_section] *)
Definition tRow (t : tree) : trow :=
  mkRow (tList tCellLines (tNth t 0)) (tB (tNth t 1)) None.

Definition ofLinesText (r : res (list (list (seg Z)))) : tree :=
  ofRes (ofList (fun l => ofStr (line_text l))) r.

Definition lines_eqb (a b : list str) : bool := forall2b str_eqb a b.

Definition ops : list (string * (tree -> tree)) := [
  ("round_div", fun t => I (round_div (tZ (tNth t 0)) (tZ (tNth t 1))));
  ("ceil_div", fun t => I (ceil_div (tZ (tNth t 0)) (tZ (tNth t 1))));
  ("trunc_div", fun t => I (trunc_div (tZ (tNth t 0)) (tZ (tNth t 1))));
  ("ratio_reduce", fun t =>
      ofList I (ratio_reduce (tZ (tNth t 0)) (tZs (tNth t 1)) (tZs (tNth t 2)) (tZs (tNth t 3))));
  ("ratio_distribute", fun t =>
      ofRes (ofList I) (ratio_distribute (tZ (tNth t 0)) (tZs (tNth t 1)) (tOpt tZs (tNth t 2))));
  ("collapse_widths", fun t =>
      ofRes (ofList I) (collapse_widths (tZs (tNth t 0)) (tBools (tNth t 1)) (tZ (tNth t 2))));
  ("padding_width", fun t => I (padding_width (tOpts (tNth t 0)) (Z.to_nat (tZ (tNth t 1)))));
  ("extra_width", fun t => I (extra_width (tOpts (tNth t 0)) (Z.to_nat (tZ (tNth t 1)))));
  ("table_widths", fun t => ofRes (ofList I) (widths_of_desc t));
  ("render_table", fun t =>    (* [lead_mul, opts, box?, widths, rows] *)
      ofLinesText (render_table (tB (tNth t 0)) (tOpts (tNth t 1)) (tBox (tNth t 2)) (tZs (tNth t 3))
                                (tList tRow (tNth t 4))));
  ("box_chars", fun t => match tBox t with Some b => ofStr (box_chars b) | None => L [] end);
  ("leading_multiplied", fun _ => ofB LEADING_MULTIPLIED);
  ("flexmin_measured", fun _ => ofB FLEXMIN_MEASURED);
  (* ---- spec-level checkers ---- *)
  ("spec.distribute_sum", fun t => ofB (distribute_sum_b (tZ (tNth t 0)) (tZs (tNth t 1))));
  ("spec.distribute_min", fun t => ofB (distribute_min_b (tZs (tNth t 0)) (tZs (tNth t 1))));
  ("spec.reduce_bound", fun t =>
      ofB (reduce_bound_b (tZ (tNth t 0)) (tZs (tNth t 1)) (tZs (tNth t 2)) (tZs (tNth t 3))));
  ("spec.reduce_sum", fun t => ofB (reduce_sum_b (tZ (tNth t 0)) (tZs (tNth t 1)) (tZs (tNth t 2))));
  ("spec.collapse_ok", fun t =>
      ofB (collapse_ok_b (tZs (tNth t 0)) (tBools (tNth t 1)) (tZ (tNth t 2)) (tZs (tNth t 3))));
  ("spec.rect", fun t => ofB (rect_b (tList tStr t)));
  ("spec.expand_exact", fun t => ofB (expand_exact_b (tZ (tNth t 0)) (tList tStr (tNth t 1))));
  ("spec.expand_exact_dom", fun t =>   (* [[[stale, capmin], opts, cols, avail], lines]: guard = the theorem's domain *)
      let d := tNth t 0 in
      let o := tOpts (tNth d 1) in
      ofB (if expand_dom_b o (tCols o (tNth d 2)) (tZ (tNth d 3))
           then expand_exact_b (target_width o (tZ (tNth d 3))) (tList tStr (tNth t 1)) else true));
  ("expand_dom", fun t =>
      let o := tOpts (tNth t 1) in ofB (expand_dom_b o (tCols o (tNth t 2)) (tZ (tNth t 3))));
  ("spec.rows_ordered", fun t =>
      ofB (rows_ordered_b (tList tStr (tNth t 0)) (tB (tNth t 1)) (tList tStr (tNth t 2))));
  ("spec.cells_in_columns", fun t =>
      (* [box?, edge, model desc, cols [[fold, need, padw, chars]...], lines]: the widths are
         recomputed from the top border of the output when the box has a distinct divider character
         there, otherwise the model's width vector is used; a fold column is held to the full
         statement when its content width can take one character of its cells (need) *)
      let b := tBox (tNth t 0) in
      let edge := tB (tNth t 1) in
      let lines := tList tStr (tNth t 4) in
      let widths :=
        match b, lines with
        | Some bx, l :: _ =>
            if edge && negb (top_divider bx =? top bx) then widths_from_box_line (top_divider bx) true l
            else match widths_of_desc (tNth t 2) with Ok w => w | _ => [] end
        | _, _ => match widths_of_desc (tNth t 2) with Ok w => w | _ => [] end
        end in
      ofB (cells_in_columns_b widths (match b with Some _ => true | None => false end) edge
             (match b with Some bx => box_chars bx | None => [] end)
             (map (fun '(w, c) => (tB (tNth c 0) && (tZ (tNth c 1) <=? w - tZ (tNth c 2)), tStr (tNth c 3)))
                  (combine widths (tL (tNth t 3)))) lines));
  ("spec.render_eq", fun t =>   (* [lead_mul, opts, box?, widths, rows, lines] *)
      match render_table (tB (tNth t 0)) (tOpts (tNth t 1)) (tBox (tNth t 2)) (tZs (tNth t 3))
                         (tList tRow (tNth t 4)) with
      | Ok ls => ofB (lines_eqb (map line_text ls) (tList tStr (tNth t 5)))
      | _ => ofB false
      end)
].
