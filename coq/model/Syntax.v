(* C17: rich/syntax.py (Syntax.highlight, _numbers_column_width, __rich_console__) and the
   Syntax(...) call of Traceback._render_stack, on plain characters (styles never change a
   character; see highlight below).  Definitions only.

   The Pygments lexer is an ORACLE: a function `lex : str -> list (Z * str)` (token type, text).
   What the model needs of it is stated in `LexOk` (proofs/SyntaxP.v): the concatenation of the
   token texts is `lex_norm o code`, Pygments' Lexer.get_tokens preprocessing under the options
   `o` passed at the call site.  Those options and two other call-site facts are regenerated from
   /repo into gen/SyntaxFacts.v; `facts` carries them so that the behaviour of rich 9.10.0 as found
   (`asis_facts`) and the repaired one (`fixed_facts`) are both expressible.

   Domain notes.  Alphabet of the theorems: no "\r", no BOM, none of the characters Text.append
   strips (see `clean`); the only whitespace inside a line is the space (tabs are expanded first).
   Output lines are modelled up to trailing spaces in the paths that go through Text.wrap
   (Text.rstrip_end only moves trailing whitespace); the numbered non-wrapping path is exact. *)
From RichModel Require Import Prelude Cells Segments.
From RichGen Require SyntaxFacts.

(* ---------------------------------------------------------------- str(int), str.rjust *)
Fixpoint dec_go (f : nat) (n : Z) : str :=
  match f with
  | O => []
  | S f' => if n <? 10 then [48 + n] else dec_go f' (n / 10) ++ [48 + n mod 10]
  end.
Definition dec_fuel (n : Z) : nat := S (Z.to_nat (Z.log2 n)).
Definition show_Z (n : Z) : str :=
  if n <? 0 then 45 :: dec_go (dec_fuel (- n)) (- n) else dec_go (dec_fuel n) n.
Definition rjust (s : str) (w : Z) : str := py_repeat SP (w - zlen s) ++ s.

(* ---------------------------------------------------------------- plain string helpers *)
Fixpoint ends_nl (s : str) : bool :=
  match s with
  | [] => false
  | c :: r => match r with [] => c =? NL | _ => ends_nl r end
  end.
Definition count_nl (s : str) : Z := zlen (filter (fun c => c =? NL) s).

(* str.split("\n"): always at least one piece *)
Fixpoint split_nl (s : str) : list str :=
  match s with
  | [] => [[]]
  | c :: r =>
      if c =? NL then [] :: split_nl r
      else match split_nl r with l :: ls => (c :: l) :: ls | [] => [[c]] end
  end.

(* Text.remove_suffix("\n") *)
Definition remove_suffix_nl (s : str) : str := if ends_nl s then removelast s else s.

(* Text.split("\n") (allow_blank=False): a text that ends with the separator loses the last, empty piece *)
Definition text_split (s : str) : list str :=
  let p := split_nl s in if ends_nl s then removelast p else p.

(* str.expandtabs(ts): the column counts characters and restarts after "\n" and "\r" *)
Fixpoint expandtabs_go (ts col : Z) (s : str) : str :=
  match s with
  | [] => []
  | c :: r =>
      if c =? 9 then
        if 0 <? ts then let n := ts - col mod ts in py_repeat SP n ++ expandtabs_go ts (col + n) r
        else expandtabs_go ts col r
      else if (c =? NL) || (c =? 13) then c :: expandtabs_go ts 0 r
      else c :: expandtabs_go ts (col + 1) r
  end.
Definition expandtabs (ts : Z) (s : str) : str := expandtabs_go ts 0 s.

(* Text.append(str) runs strip_control_codes: BEL BS VT FF CR are deleted *)
Definition is_stripped (c : Z) : bool := (c =? 7) || (c =? 8) || (c =? 11) || (c =? 12) || (c =? 13).
Definition strip_ctl (s : str) : str := filter (fun c => negb (is_stripped c)) s.
(* the alphabet of the theorems *)
Definition clean (s : str) : bool := forallb (fun c => negb (is_stripped c) && negb (c =? 65279)) s.

(* Python list slice l[a:b] with a >= 0 and any b (negative b counts from the end) *)
Definition py_slice {A} (l : list A) (a b : Z) : list A :=
  let b' := if b <? 0 then Z.max 0 (zlen l + b) else b in
  skipn (Z.to_nat a) (firstn (Z.to_nat b') l).

(* ---------------------------------------------------------------- Pygments' Lexer.get_tokens preprocessing *)
Record lexopts := mkLexopts { lo_stripnl : bool; lo_ensurenl : bool }.

(* text.replace("\r\n", "\n").replace("\r", "\n") *)
Fixpoint crlf (s : str) : str :=
  match s with
  | [] => []
  | c :: r =>
      if c =? 13 then
        NL :: match r with
              | d :: r' => if d =? NL then crlf r' else crlf r
              | [] => []
              end
      else c :: crlf r
  end.
Fixpoint lstrip_nl (s : str) : str :=
  match s with [] => [] | c :: r => if c =? NL then lstrip_nl r else s end.
Definition strip_nl (s : str) : str := rev (lstrip_nl (rev (lstrip_nl s))).
Definition strip_bom (s : str) : str :=
  match s with c :: r => if c =? 65279 then r else s | [] => [] end.

Definition lex_norm (o : lexopts) (code : str) : str :=
  let t := crlf (strip_bom code) in
  let t := if lo_stripnl o then strip_nl t else t in
  if lo_ensurenl o && negb (ends_nl t) then t ++ [NL] else t.

(* ---------------------------------------------------------------- call-site facts *)
Record facts := mkFacts { f_lex : lexopts; f_guard : bool; f_guides_guard : bool }.
Definition asis_facts := mkFacts (mkLexopts true true) false false.      (* rich 9.10.0 as found *)
Definition fixed_facts := mkFacts (mkLexopts false true) true true.     (* stripnl=False, guarded skip loop *)
Definition opt_default (d : bool) (o : option bool) : bool := match o with Some b => b | None => d end.
(* what /repo says today; Pygments' defaults are stripnl=True, ensurenl=True *)
Definition current_facts :=
  mkFacts (mkLexopts (opt_default true SyntaxFacts.lexer_kw_stripnl)
                     (opt_default true SyntaxFacts.lexer_kw_ensurenl))
          SyntaxFacts.skip_loop_guarded SyntaxFacts.guides_skip_empty.

(* ---------------------------------------------------------------- Syntax.highlight (characters) *)
(* line_tokenize: `while token: line_token, new_line, token = token.partition("\n")` *)
Fixpoint line_pieces (s : str) : list str :=
  match s with
  | [] => []
  | c :: r =>
      if c =? NL then [c] :: line_pieces r
      else match line_pieces r with p :: ps => (c :: p) :: ps | [] => [[c]] end
  end.

(* the `for token_type, token in tokens:` loop of tokens_to_spans *)
Fixpoint take_until (toks : list str) (line_no line_end : Z) : list str :=
  match toks with
  | [] => []
  | t :: r =>
      if ends_nl t then
        (if line_end <=? line_no + 1 then [t] else t :: take_until r (line_no + 1) line_end)
      else t :: take_until r line_no line_end
  end.

(* the `while line_no < _line_start:` loop followed by the for loop.  next(tokens) on an exhausted
   iterator raises StopIteration inside a generator = RuntimeError (PEP 479) unless guarded. *)
Fixpoint skip_then (guard : bool) (toks : list str) (line_no lstart line_end : Z) : res (list str) :=
  if line_no <? lstart then
    match toks with
    | [] => if guard then Ok [] else Crash K_Other
    | t :: r =>
        do rest <- skip_then guard r (if ends_nl t then line_no + 1 else line_no) lstart line_end;
        Ok (t :: rest)
    end
  else Ok (take_until toks line_no line_end).

Section Lexer.
Variable lex : str -> list (Z * str).
Variable F : facts.

(* the plain text of the Text that highlight returns.  lexer_found=false is the ClassNotFound path *)
Definition highlight (lexer_found : bool) (code : str) (range : option (Z * Z)) : res str :=
  if negb lexer_found then Ok (strip_ctl code)
  else
    let toks := map snd (lex code) in
    match range with
    | Some (line_start, line_end) =>
        do ts <- skip_then (f_guard F) (concat (map line_pieces toks)) 0 (line_start - 1) line_end;
        Ok (concat ts)
    | None => Ok (concat toks)
    end.
End Lexer.

(* ---------------------------------------------------------------- word wrapping (rich/_wrap.py on our alphabet) *)
Definition is_sp (c : Z) : bool := c =? SP.
Fixpoint drop_sp (s : str) : str := match s with [] => [] | c :: r => if is_sp c then drop_sp r else s end.
Fixpoint take_sp (s : str) : str := match s with [] => [] | c :: r => if is_sp c then c :: take_sp r else [] end.
Fixpoint drop_word (s : str) : str := match s with [] => [] | c :: r => if is_sp c then s else drop_word r end.
Fixpoint take_word (s : str) : str := match s with [] => [] | c :: r => if is_sp c then [] else c :: take_word r end.
Definition rstrip_sp (s : str) : str := rev (drop_sp (rev s)).
Definition nonspace (s : str) : str := filter (fun c => negb (is_sp c)) s.

(* re_word = \s*\S+\s* matched at the current position *)
Definition match_word (rest : str) : option (str * str) :=
  let r1 := drop_sp rest in
  match take_word r1 with
  | [] => None
  | b => let r2 := drop_word r1 in Some (take_sp rest ++ b ++ take_sp r2, drop_sp r2)
  end.
Fixpoint words_go (fuel : nat) (rest : str) (pos : Z) : list (Z * str) :=
  match fuel with
  | O => []
  | S f =>
      match match_word rest with
      | None => []
      | Some (w, rest') => (pos, w) :: words_go f rest' (pos + zlen w)
      end
  end.
Definition words (s : str) : list (Z * str) := words_go (S (length s)) s 0.

Fixpoint chop_offsets (pieces : list str) (start : Z) (divs : list Z) (lp : Z) : Z * list Z :=
  match pieces with
  | [] => (lp, divs)
  | p :: rest =>
      match rest with
      | [] => (cell_len p, divs)
      | _ => let start' := start + zlen p in chop_offsets rest start' (start' :: divs) lp
      end
  end.
(* divide_line with fold=True *)
Definition dl_step (width : Z) (st : Z * list Z) (w : Z * str) : Z * list Z :=
  let '(lp, divs) := st in
  let '(start, word) := w in
  let wl := cell_len (rstrip_sp word) in
  if width <? lp + wl then
    if width <? wl then chop_offsets (chop_cells word width lp) start divs lp
    else if negb (lp =? 0) && negb (start =? 0) then (cell_len word, start :: divs)
    else (lp, divs)
  else (lp + cell_len word, divs).
Definition divide_line (text : str) (width : Z) : list Z :=
  rev (snd (fold_left (dl_step width) (words text) (0, []))).
(* Text.divide on characters *)
Fixpoint divide_at (s : str) (pos : Z) (offs : list Z) : list str :=
  match offs with
  | [] => [s]
  | o :: r => firstn (Z.to_nat (o - pos)) s :: divide_at (skipn (Z.to_nat (o - pos)) s) o r
  end.
(* the pieces Text.wrap cuts one line into (before rstrip_end/truncate/pad) *)
Definition wrap_pieces (line : str) (width : Z) : list str :=
  divide_at line 0 (divide_line line width).

(* ---------------------------------------------------------------- Syntax.__rich_console__ *)
Record opts := mkOpts {
  o_lexer_found : bool;           (* get_lexer_by_name did not raise ClassNotFound *)
  o_line_numbers : bool;
  o_start_line : Z;
  o_range : option (Z * Z);
  o_highlight : list Z;           (* highlight_lines *)
  o_word_wrap : bool;
  o_code_width : option Z;
  o_tab_size : Z;
  o_transparent : bool;           (* the theme has no background colour: no padding *)
  o_indent_guides : bool
}.

Definition mem_Z (x : Z) (l : list Z) : bool := existsb (fun y => x =? y) l.

(* _numbers_column_width: counts "\n" of the code as given *)
Definition numbers_column_width (o : opts) (code : str) : Z :=
  if o_line_numbers o then zlen (show_Z (o_start_line o + count_nl code)) + 2 else 0.
Definition code_width_of (o : opts) (code : str) (W : Z) : Z :=
  match o_code_width o with None => W - numbers_column_width o code - 1 | Some w => w end.
Definition line_offset_of (o : opts) : Z :=
  match o_range o with Some (a, _) => Z.max 0 (a - 1) | None => 0 end.

(* one line shaped to the code width: Segment.adjust_line_length on its characters *)
Definition crop_line (line : str) (w : Z) (pad : bool) : str :=
  concat (map txt (adjust_line_length [mkSeg line (@None unit) false] w None pad)).

Definition POINTER : str := [10097; 32].   (* "❱ " (legacy_windows=False) *)
Definition gutter (o : opts) (ncw line_no : Z) : str :=
  (if mem_Z line_no (o_highlight o) then POINTER else [SP; SP])
  ++ rjust (show_Z line_no) (ncw - 2) ++ [SP].
Definition gutter_pad (ncw : Z) : str := py_repeat SP ncw ++ [SP].

(* Text.wrap + truncate + pad of one line as this model computes it (validated against the
   implementation by the correspondence run; its contract is property C02's business) *)
Definition wrap_fit (line : str) (w : Z) (pad : bool) : list str :=
  map (fun p => crop_line p w pad) (wrap_pieces line w).

Section Wrapped.
(* the word-wrapping function: a parameter, so that C17's theorems can be stated against its
   contract (SpecSyntax.wrap_ok_b) instead of its code *)
Variable wrapf : str -> Z -> bool -> list str.

Definition wrapped_lines (o : opts) (cw : Z) (line : str) : list str :=
  let pad := negb (o_transparent o) in
  if o_word_wrap o then wrapf line cw pad else [crop_line line cw pad].

Fixpoint render_numbered (o : opts) (ncw cw : Z) (lines : list str) (line_no : Z) : list str :=
  match lines with
  | [] => []
  | l :: rest =>
      (match wrapped_lines o cw l with
       | [] => []
       | w :: ws => (gutter o ncw line_no ++ w) :: map (fun x => gutter_pad ncw ++ x) ws
       end) ++ render_numbered o ncw cw rest (line_no + 1)
  end.
End Wrapped.

(* ---------------------------------------------------------------- indent guides *)
(* lines = Text("\n").join(lines).with_indent_guides(tab_size).split("\n") on characters.
   Joining and re-splitting loses a final empty line; no lines at all become one empty line. *)
Definition GUIDE : Z := 9474.   (* "│" *)
Definition all_sp (s : str) : bool := forallb is_sp s.
Definition resplit (lines : list str) : list str :=
  match lines with
  | [] => [[]]
  | [_] => lines
  | _ => match last lines [SP] with [] => removelast lines | _ => lines end
  end.
Definition guide_indent (size n : Z) : str :=
  concat (repeat (GUIDE :: py_repeat SP (size - 1)) (Z.to_nat (n / size))) ++ py_repeat SP (n mod size).
(* blank (whitespace-only) lines take the indentation of the next non-blank line *)
Fixpoint guides_go (size : Z) (lines : list str) (blanks : nat) : list str :=
  match lines with
  | [] => repeat [] blanks
  | l :: r =>
      if all_sp l then guides_go size r (S blanks)
      else
        let ni := guide_indent size (zlen (take_sp l)) in
        repeat ni blanks ++ (ni ++ skipn (length (take_sp l)) l) :: guides_go size r 0
  end.
Definition with_guides (size : Z) (lines : list str) : list str :=
  resplit (guides_go size (resplit lines) 0).

(* the lines [off:end] that get numbers *)
Definition shown_lines (o : opts) (text : str) : list str :=
  let lines := text_split text in
  match o_range o with
  | Some (_, e) => py_slice lines (line_offset_of o) e
  | None => lines
  end.

Section Render.
Variable lex : str -> list (Z * str).
Variable F : facts.
Variable wrapf : str -> Z -> bool -> list str.

(* plain output lines of Console.print(Syntax(code, ...)) on a console of width W *)
Definition render (o : opts) (code : str) (W : Z) : res (list str) :=
  let ncw := numbers_column_width o code in
  let cw := code_width_of o code W in
  let code' := expandtabs (o_tab_size o) code in
  do text0 <- highlight lex F (o_lexer_found o) code' (o_range o);
  let text := remove_suffix_nl text0 in
  if negb (o_line_numbers o) then
    Ok (concat (map (wrapped_lines wrapf o cw) (split_nl text)))
  else
    let lines := shown_lines o text in
    if o_indent_guides o && (negb (f_guides_guard F) || match lines with [] => false | _ => true end) then
      (* divmod(len(indent), tab_size) on the first non-blank line *)
      if (o_tab_size o =? 0) && existsb (fun l => negb (all_sp l)) (resplit lines) then Crash K_ZeroDivisionError
      else Ok (render_numbered wrapf o ncw cw (with_guides (o_tab_size o) lines) (o_start_line o + line_offset_of o))
    else
      Ok (render_numbered wrapf o ncw cw lines (o_start_line o + line_offset_of o)).

(* Traceback._render_stack: Syntax(code, lexer, theme=..., line_numbers=True,
   line_range=(lineno - extra, lineno + extra), highlight_lines={lineno}, word_wrap=self.word_wrap,
   code_width=88, dedent=False); the keyword values come from gen/SyntaxFacts.v *)
Definition tb_opts_f (found : bool) (lineno extra : Z) (word_wrap transparent guides : bool) : opts :=
  mkOpts found SyntaxFacts.tb_line_numbers SyntaxFacts.syntax_default_start_line
         (if SyntaxFacts.tb_range_is_lineno_pm_extra then Some (lineno - extra, lineno + extra) else None)
         (if SyntaxFacts.tb_highlight_is_lineno then [lineno] else [])
         word_wrap (Some SyntaxFacts.tb_code_width) SyntaxFacts.syntax_default_tab_size transparent guides.
Definition tb_opts := tb_opts_f true.
(* found = did get_lexer_by_name(lexer_name) succeed for the name _guess_lexer produced *)
Definition render_frame_f (found : bool) (code : str) (lineno extra : Z) (word_wrap transparent guides : bool) (W : Z)
  : res (list str) :=
  render (tb_opts_f found lineno extra word_wrap transparent guides) code W.
Definition render_frame := render_frame_f true.
End Render.
