(* L1: rich/segment.py line shaping.  Styles are an abstract token type S. *)
From RichModel Require Import Prelude Cells.

Section Seg.
Variable S : Type.

Record seg := mkSeg { txt : str; sty : option S; ctl : bool }.

Definition seg_len (g : seg) : Z := if ctl g then 0 else cell_len (txt g).
Definition line_len (l : list seg) : Z := sumZ (map seg_len l).

(* str.partition("\n") *)
Fixpoint partition_nl (s : str) : str * bool * str :=
  match s with
  | [] => ([], false, [])
  | c :: r =>
      if c =? NL then ([], true, r)
      else let '(a, nl, b) := partition_nl r in (c :: a, nl, b)
  end.

Definition has_nl (s : str) : bool := existsb (fun c => c =? NL) s.

(* the `while text:` loop over one newline-bearing segment; fuel = length of text + 1.
   Emits pieces into the current line (reversed) and completed lines (reversed). *)
Fixpoint split_text (fuel : nat) (text : str) (st : option S)
         (line : list seg) (done : list (list seg)) : list seg * list (list seg) :=
  match fuel with
  | O => (line, done)
  | Datatypes.S f =>
      match text with
      | [] => (line, done)
      | _ =>
          let '(a, nl, b) := partition_nl text in
          let line := match a with [] => line | _ => mkSeg a st false :: line end in
          if nl then split_text f b st [] (rev line :: done)
          else split_text f b st line done
      end
  end.

(* Segment.split_lines *)
Fixpoint split_lines_go (segs : list seg) (line : list seg) (done : list (list seg))
  : list (list seg) :=
  match segs with
  | [] => rev (match line with [] => done | _ => rev line :: done end)
  | g :: rest =>
      if has_nl (txt g) && negb (ctl g) then
        let '(line', done') := split_text (Datatypes.S (length (txt g))) (txt g) (sty g) line done in
        split_lines_go rest line' done'
      else split_lines_go rest (g :: line) done
  end.
Definition split_lines (segs : list seg) : list (list seg) := split_lines_go segs [] [].

(* Segment.adjust_line_length *)
Fixpoint crop_go (line : list seg) (length_ cur : Z) : list seg :=
  match line with
  | [] => []
  | g :: rest =>
      let sl := seg_len g in
      if (cur + sl <? length_) || ctl g then g :: crop_go rest length_ (cur + sl)
      else [mkSeg (set_cell_size (txt g) (length_ - cur)) (sty g) false]
  end.

Definition adjust_line_length (line : list seg) (length_ : Z) (style : option S) (pad : bool)
  : list seg :=
  let ll := line_len line in
  if ll <? length_ then
    (if pad then line ++ [mkSeg (py_repeat SP (length_ - ll)) style false] else line)
  else if length_ <? ll then crop_go line length_ 0
  else line.

(* Segment.split_and_crop_lines.  `shadow` selects the as-written behaviour where the loop
   variable `style` of a newline-bearing segment shadows the padding style parameter
   (true = as written in rich 9.10.0). *)
Fixpoint sac_text (fuel : nat) (shadow : bool) (text : str) (st : option S) (length_ : Z)
         (pstyle : option S) (pad incl : bool)
         (line : list seg) (done : list (list seg)) : list seg * list (list seg) :=
  match fuel with
  | O => (line, done)
  | Datatypes.S f =>
      match text with
      | [] => (line, done)
      | _ =>
          let '(a, nl, b) := partition_nl text in
          let line := match a with [] => line | _ => mkSeg a st false :: line end in
          if nl then
            let cropped := adjust_line_length (rev line) length_ pstyle pad in
            let cropped := if incl then cropped ++ [mkSeg [NL] None false] else cropped in
            sac_text f shadow b st length_ pstyle pad incl [] (cropped :: done)
          else sac_text f shadow b st length_ pstyle pad incl line done
      end
  end.

Fixpoint sac_go (shadow : bool) (segs : list seg) (length_ : Z) (pstyle : option S)
         (pad incl : bool) (line : list seg) (done : list (list seg)) : list (list seg) :=
  match segs with
  | [] =>
      rev (match line with
           | [] => done
           | _ => adjust_line_length (rev line) length_ pstyle pad :: done
           end)
  | g :: rest =>
      if has_nl (txt g) && negb (ctl g) then
        let pstyle' := if shadow then sty g else pstyle in
        let '(line', done') :=
          sac_text (Datatypes.S (length (txt g))) shadow (txt g) (sty g) length_ pstyle' pad incl line done in
        sac_go shadow rest length_ pstyle' pad incl line' done'
      else sac_go shadow rest length_ pstyle pad incl (g :: line) done
  end.

Definition split_and_crop_lines (shadow : bool) (segs : list seg) (length_ : Z)
           (pstyle : option S) (pad incl : bool) : list (list seg) :=
  sac_go shadow segs length_ pstyle pad incl [] [].

(* Segment.get_shape *)
Definition get_shape (lines : list (list seg)) : Z * Z :=
  (fold_right Z.max 0 (map line_len lines), zlen lines).

(* Segment.set_shape: zip_longest(lines, range(height)) keeps lines beyond height *)
Fixpoint set_shape_go (lines : list (list seg)) (width : Z) (remaining : nat) (style : option S)
  : list (list seg) :=
  match lines with
  | [] => repeat [mkSeg (py_repeat SP width) style false] remaining
  | l :: rest =>
      adjust_line_length l width style true :: set_shape_go rest width (pred remaining) style
  end.
Definition set_shape (lines : list (list seg)) (width : Z) (height : option Z) (style : option S)
  : list (list seg) :=
  let h := match height with None => length lines | Some h => Z.to_nat h end in
  set_shape_go lines width h style.

End Seg.

Arguments mkSeg {S}.
Arguments txt {S}.
Arguments sty {S}.
Arguments ctl {S}.
Arguments seg_len {S}.
Arguments line_len {S}.
Arguments split_lines {S}.
Arguments adjust_line_length {S}.
Arguments crop_go {S}.
Arguments split_and_crop_lines {S}.
Arguments get_shape {S}.
Arguments set_shape {S}.
