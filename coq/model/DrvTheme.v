(* wire glue for the theme layer (C20).  The oracles of model/Theme.v are instantiated here:
     parse  := a finite table shipped with each case (the harness' claim about Style.parse on the
               strings of that case; the comparison with the implementation validates it)
     show   := likewise a finite table token -> str(style)
     cp     := mini_cp below, a small reading of configparser on the "[styles]" files that
               Theme.config writes; op `cp_hyp` compares it with the real configparser.
   Call-site facts come from gen/ThemeFacts.v (regenerated from /repo on every run). *)
From RichModel Require Import Prelude Theme SpecTheme.
From RichGen Require ThemeFacts.

(* ---------------------------------------------------------------- decoding *)
Definition tPairs (t : tree) : dict := tList (fun p => (tStr (tNth p 0), tZ (tNth p 1))) t.
Definition ofDict (d : dict) : tree := ofList (fun kv => L [ofStr (fst kv); I (snd kv)]) d.
Definition tSval (t : tree) : sval :=
  if tZ (tNth t 0) =? 0 then inl (tZ (tNth t 1)) else inr (tStr (tNth t 1)).
Definition tStrPairs (t : tree) : list (str * str) :=
  tList (fun p => (tStr (tNth p 0), tStr (tNth p 1))) t.

Definition tbl_parse (tbl : dict) : str -> option Z := dget tbl.
Fixpoint tbl_show (tbl : list (Z * str)) (v : Z) : str :=
  match tbl with
  | [] => []
  | (k, s) :: r => if k =? v then s else tbl_show r v
  end.
Definition tShowTbl (t : tree) : list (Z * str) :=
  tList (fun p => (tZ (tNth p 0), tStr (tNth p 1))) t.

(* DEFAULT_STYLES: names from the translator; the value of the i-th name is the token 5000+i *)
Definition defaults : dict :=
  map (fun p => (snd p, 5000 + Z.of_nat (fst p)))
      (combine (seq 0 (length ThemeFacts.default_style_names)) ThemeFacts.default_style_names).

(* a theme on the wire: [[ [name, token] ... ], theme_inherit]  = Theme({name: style}, inherit=...) *)
Definition tTheme (t : tree) : dict :=
  match theme_init (fun _ => None) defaults
          (map (fun kv => (fst kv, inl (snd kv))) (tPairs (tNth t 0))) (tB (tNth t 1)) with
  | Ok d => d
  | _ => []
  end.

Fixpoint tCmd (t : tree) : cmd :=
  match t with
  | I _ => CRaise
  | L l =>
      match l with
      | I 0 :: th :: inh :: _ => CPush (tTheme th) (tB inh)
      | I 1 :: _ => CPop
      | I 2 :: th :: inh :: L body :: _ => CUse (tTheme th) (tB inh) (map tCmd body)
      | I 3 :: L body :: _ => CTry (map tCmd body)
      | I 5 :: n :: d :: _ => CGet (tSval n) (tOpt tSval d)
      | _ => CRaise
      end
  end.

Definition ofObs (o : obs) : tree :=
  match o with
  | OSnap l => L [I 0; ofList (ofRes I) l]
  | OGet r => L [I 1; ofRes I r]
  end.
Definition tRes (t : tree) : res Z :=
  let k := tZ (tNth t 0) in
  let v := tZ (tNth t 1) in
  if k =? 0 then Ok v else if k =? 1 then Doc v else Crash v.
Definition tObs (t : tree) : obs :=
  if tZ (tNth t 0) =? 0 then OSnap (tList tRes (tNth t 1)) else OGet (tRes (tNth t 1)).

(* ---------------------------------------------------------------- a small configparser *)
Fixpoint split_nl (s : str) : list str :=
  match s with
  | [] => [[]]
  | c :: r =>
      match split_nl r with
      | cur :: rest => if c =? NL then [] :: cur :: rest else (c :: cur) :: rest
      | [] => [[c]]
      end
  end.
Definition is_blank (c : Z) : bool := (c =? 32) || (c =? 9).
Fixpoint lstrip (s : str) : str :=
  match s with
  | c :: r => if is_blank c then lstrip r else s
  | [] => []
  end.
Definition strip (s : str) : str := rev (lstrip (rev (lstrip s))).
(* split at the first '=' or ':' *)
Fixpoint split_delim (s : str) : option (str * str) :=
  match s with
  | [] => None
  | c :: r =>
      if (c =? 61) || (c =? 58) then Some ([], r)
      else match split_delim r with Some (a, b) => Some (c :: a, b) | None => None end
  end.
Definition lower_ascii (s : str) : str :=
  map (fun c => if (65 <=? c) && (c <=? 90) then c + 32 else c) s.
(* BasicInterpolation on a value without references: '%%' -> '%', any other '%' is an error *)
Fixpoint interpolate (s : str) : option str :=
  match s with
  | [] => Some []
  | c :: r =>
      if c =? 37 then
        match r with
        | c' :: r' => if c' =? 37 then option_map (cons 37) (interpolate r') else None
        | [] => None
        end
      else option_map (cons c) (interpolate r)
  end.

Fixpoint cp_lines (ls : list str) (acc : list (str * str)) : option (list (str * str)) :=
  match ls with
  | [] => Some acc
  | l :: r =>
      match l with
      | [] => cp_lines r acc
      | c :: _ =>
          if (c =? 35) || (c =? 59) then cp_lines r acc            (* comment *)
          else if is_blank c || (c =? 91) then None                 (* continuation / section *)
          else match split_delim l with
               | None => None
               | Some (a, b) =>
                   let name := lower_ascii (strip a) in
                   match name, interpolate (strip b) with
                   | [], _ => None
                   | _, None => None
                   | _, Some v => if has_key acc name then None else cp_lines r (acc ++ [(name, v)])
                   end
               end
      end
  end.
Definition mini_cp (text : str) : option (list (str * str)) :=
  match split_nl text with
  | hd :: r => if str_eqb hd (lit "[styles]") then cp_lines r [] else None
  | [] => None
  end.

Definition esc_fact := ThemeFacts.config_escapes_percent.
Definition fwd_fact := ThemeFacts.ctx_forwards_inherit.

Definition ofStrPairs (l : list (str * str)) : tree :=
  ofList (fun kv => L [ofStr (fst kv); ofStr (snd kv)]) l.

Definition ops : list (string * (tree -> tree)) := [
  (* [parse_tbl, base_theme, cmds, probes] -> [observations, exception class, #pops to base, snapshot at base, initial snapshot] *)
  ("hist", fun t =>
      let parse := tbl_parse (tPairs (tNth t 0)) in
      let base := tTheme (tNth t 1) in
      let cmds := map tCmd (tL (tNth t 2)) in
      let probes := tList tStr (tNth t 3) in
      let '(s, o, tr) := exec_list parse conc fwd_fact cmds (ts_init base) in
      let '(n, s') := pop_all (ts_depth s) s in
      L [ofList ofObs (map (observe_ev parse conc probes) tr);
         I (match o with None => 0 | Some e => e end);
         I n;
         ofList (ofRes I) (snapshot parse conc probes s');
         ofList (ofRes I) (snapshot parse conc probes (ts_init base))]);
  (* [parse_tbl, [[name, sval]...], inherit] -> res (Theme(...).styles, sorted by name) *)
  ("theme_init", fun t =>
      let parse := tbl_parse (tPairs (tNth t 0)) in
      let styles := tList (fun p => (tStr (tNth p 0), tSval (tNth p 1))) (tNth t 1) in
      ofRes (fun d => ofDict (sort_items d)) (theme_init parse defaults styles (tB (tNth t 2))));
  (* [show_tbl, theme] -> Theme.config *)
  ("config_text", fun t =>
      ofStr (config (tbl_show (tShowTbl (tNth t 0))) esc_fact (tTheme (tNth t 1))));
  (* [show_tbl, parse_tbl, theme, read_inherit] -> res (Theme.from_file(StringIO(theme.config), inherit=..).styles sorted) *)
  ("config_rt", fun t =>
      let show := tbl_show (tShowTbl (tNth t 0)) in
      let parse := tbl_parse (tPairs (tNth t 1)) in
      let d := tTheme (tNth t 2) in
      ofRes (fun d => ofDict (sort_items d))
            (from_file parse mini_cp defaults (config show esc_fact d) (tB (tNth t 3))));
  (* [items] -> [text written for these items, what configparser is assumed to read back] *)
  ("cp_hyp", fun t =>
      let items := tStrPairs t in
      let text := cfg_text (map (fun kv => (fst kv, esc_pct (snd kv))) items) in
      L [ofStr text; ofOpt ofStrPairs (mini_cp text)]);
  ("default_names", fun _ => ofList ofStr ThemeFacts.default_style_names);
  (* a shrunk case that is no longer a case: both sides answer the same *)
  ("ill", fun _ => L []);
  ("ill_res", fun _ => L [I 2; I K_KeyError]);
  (* ---- spec-level checkers on the implementation's output *)
  (* [parse_tbl, base_theme, cmds, probes, observations, exception class] *)
  ("spec.lookup_ok", fun t =>
      let parse := tbl_parse (tPairs (tNth t 0)) in
      ofB (lookup_ok_b parse (tTheme (tNth t 1)) (map tCmd (tL (tNth t 2))) (tList tStr (tNth t 3))
             (tList tObs (tNth t 4), tZ (tNth t 5))));
  ("spec.restored", fun t => ofB (restored_b (tList tRes (tNth t 0)) (tList tRes (tNth t 1))));
  (* [parse_tbl, base_theme, probes, snapshot after popping everything] *)
  ("spec.base_ok", fun t =>
      ofB (base_ok_b (tbl_parse (tPairs (tNth t 0))) (tTheme (tNth t 1)) (tList tStr (tNth t 2))
             (tList tRes (tNth t 3))));
  (* [theme, styles read back] *)
  ("spec.config_rt", fun t => ofB (config_rt_b (tTheme (tNth t 0)) (tPairs (tNth t 1))));
  (* [items] : inside the domain of the configparser hypothesis *)
  ("spec.items_ok", fun t =>
      let items := tStrPairs t in ofB (forallb item_ok items && uniq_keys items));
  (* [names] *)
  ("spec.names_ok", fun t => ofB (forallb name_ok (tList tStr t)));
  ("spec.value_ok", fun t => ofB (value_ok (tStr t)));
  ("spec.is_ok", fun t => ofB (tZ (tNth t 0) =? 0))
].
