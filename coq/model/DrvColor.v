(* wire glue for the colour layer (C18; parse/codes also used by C06/C03/C14) *)
From RichModel Require Import Prelude Color SpecColor.
From RichGen Require Import Palettes ColorRegex.

Definition ofTriplet (t : ColorTriplet) : tree := L [I (t_red t); I (t_green t); I (t_blue t)].
Definition tTriplet (t : tree) : ColorTriplet := mkTriplet (tZ (tNth t 0)) (tZ (tNth t 1)) (tZ (tNth t 2)).
(* colour = [name, type, number?, triplet?] *)
Definition ofColor (c : color) : tree :=
  L [ofStr (c_name c); I (ColorType_int (c_type c)); ofOpt I (c_number c); ofOpt ofTriplet (c_triplet c)].
Definition tColor (t : tree) : color :=
  mkColor (tStr (tNth t 0))
          (match ColorType_of_int (tZ (tNth t 1)) with Some ty => ty | None => CT_DEFAULT end)
          (tOpt tZ (tNth t 2)) (tOpt tTriplet (tNth t 3)).
Definition tSys (t : tree) : ColorSystem :=
  match ColorSystem_of_int (tZ t) with Some s => s | None => CS_TRUECOLOR end.
Definition tPal (t : tree) : list (Z * Z * Z) :=
  let z := tZ t in
  if z =? 0 then STANDARD_PALETTE else if z =? 1 then EIGHT_BIT_PALETTE
  else if z =? 2 then WINDOWS_PALETTE else DEFAULT_THEME_ANSI.

(* run-length coding of long number lists: [v1, n1, v2, n2, ...] *)
Fixpoint rle_go (l : list Z) (cur : Z) (n : Z) : list Z :=
  match l with
  | [] => [cur; n]
  | x :: r => if x =? cur then rle_go r cur (n + 1) else cur :: n :: rle_go r x 1
  end.
Definition rle (l : list Z) : list Z := match l with [] => [] | x :: r => rle_go r x 1 end.
Fixpoint unrle (l : list Z) : list Z :=
  match l with
  | v :: n :: r => repeat v (Z.to_nat n) ++ unrle r
  | _ => []
  end.

Definition range_Z (lo hi : Z) : list Z := map (fun i => lo + Z.of_nat i) (seq 0 (Z.to_nat (hi - lo))).

(* all colours (r, g, b) with g in [g_lo, g_hi), b in 0..255, g-major *)
Definition block_colors (r g_lo g_hi : Z) : list ColorTriplet :=
  flat_map (fun g => map (fun b => mkTriplet r g b) (range_Z 0 256)) (range_Z g_lo g_hi).

Definition expected_type (sys : ColorSystem) : ColorType :=
  match sys with CS_STANDARD => CT_STANDARD | CS_EIGHT_BIT => CT_EIGHT_BIT
               | CS_TRUECOLOR => CT_TRUECOLOR | CS_WINDOWS => CT_WINDOWS end.

(* number of the converted colour; -1 = exception, -2 = not the expected shape *)
Definition block_number (sys : ColorSystem) (t : ColorTriplet) : Z :=
  let c := from_triplet t in
  match downgrade c sys with
  | Ok d =>
      if ColorType_eqb (c_type d) (expected_type sys) && str_eqb (c_name d) (c_name c)
      then match c_number d, c_triplet d with Some n, None => n | _, _ => -2 end
      else -2
  | _ => -1
  end.

Definition block_spec_one (sys : ColorSystem) (t : ColorTriplet) (n : Z) : bool :=
  match sys with
  | CS_EIGHT_BIT => in_range 0 255 n && eight_bit_number_b t n
  | CS_STANDARD => in_range 0 15 n && nearest_b STANDARD_PALETTE t n
  | CS_WINDOWS => in_range 0 15 n && nearest_b WINDOWS_PALETTE t n
  | CS_TRUECOLOR => false
  end.
Fixpoint forallb2 {A B} (f : A -> B -> bool) (a : list A) (b : list B) : bool :=
  match a, b with
  | [], [] => true
  | x :: a', y :: b' => f x y && forallb2 f a' b'
  | _, _ => false
  end.

Definition ofGroups (g : option re_color_groups) : tree :=
  match g with
  | None => L []
  | Some (G_hex s) => L [I 1; ofStr s]
  | Some (G_num s) => L [I 2; ofStr s]
  | Some (G_rgb s) => L [I 3; ofStr s]
  end.

Definition twice (c : color) (sys : ColorSystem) : tree :=
  let r1 := downgrade c sys in
  L [ofRes ofColor r1;
     match r1 with Ok d => ofRes ofColor (downgrade d sys) | _ => L [] end].

Definition ops : list (string * (tree -> tree)) := [
  ("color.parse", fun t => ofRes ofColor (parse (tB (tNth t 0)) (tStr (tNth t 1))));   (* [fix_d9, s] *)
  ("color.re_color", fun t => ofGroups (re_color_match (tStr t)));
  ("color.lower_strip", fun t => ofStr (py_strip (py_lower (tStr t))));
  ("color.int", fun t => ofOpt I (py_int_digits (tStr t)));
  ("color.from_ansi", fun t => ofColor (from_ansi (tZ t)));
  ("color.from_rgb", fun t => ofColor (from_rgb (tZ (tNth t 0)) (tZ (tNth t 1)) (tZ (tNth t 2))));
  ("color.default", fun _ => ofColor color_default);
  ("color.triplet_str", fun t => L [ofStr (triplet_hex (tTriplet t)); ofStr (triplet_rgb (tTriplet t))]);
  ("color.system", fun t => L [I (ColorSystem_int (color_system (tColor t)));
                                ofB (is_system_defined (tColor t)); ofB (is_default (tColor t))]);
  ("color.get_truecolor", fun t =>    (* [color, foreground] with DEFAULT_TERMINAL_THEME *)
      ofRes ofTriplet (get_truecolor (tColor (tNth t 0)) DEFAULT_TERMINAL_THEME (tB (tNth t 1))));
  ("color.codes", fun t => ofRes (ofList ofStr) (get_ansi_codes (tColor (tNth t 0)) (tB (tNth t 1))));
  ("color.palette_get", fun t => ofRes ofTriplet (palette_get (tPal (tNth t 0)) (tZ (tNth t 1))));
  ("color.match", fun t => ofRes I (palette_match (tPal (tNth t 0)) (tTriplet (tNth t 1))));
  ("color.downgrade", fun t => twice (tColor (tNth t 0)) (tSys (tNth t 1)));   (* [color, sys] -> [once, twice] *)
  ("color.dg_block", fun t =>   (* [sys, r, g_lo, g_hi] -> rle of numbers *)
      let sys := tSys (tNth t 0) in
      ofList I (rle (map (block_number sys) (block_colors (tZ (tNth t 1)) (tZ (tNth t 2)) (tZ (tNth t 3))))));
  ("color.dg_pairs", fun t =>     (* mx -> numbers of (mx,mn,mn) (mn,mx,mn) (mn,mn,mx) (mx,mx,mn) -> 256, mn = 0..255 *)
      let mx := tZ t in
      ofList I (flat_map (fun mn => map (block_number CS_EIGHT_BIT)
                  [mkTriplet mx mn mn; mkTriplet mn mx mn; mkTriplet mn mn mx; mkTriplet mx mx mn]) (range_Z 0 256)));
  ("color.kernel_pairs", fun t =>  (* mx -> for mn in 0..255: grey?, gray level *)
      let mx := tZ t in
      L [ofList (fun mn => ofB (is_grey_int (Z.max mx mn) (Z.min mx mn))) (range_Z 0 256);
         ofList (fun mn => I (grey_level_int (Z.max mx mn) (Z.min mx mn))) (range_Z 0 256)]);
  (* validation of the sqrt assumption (Color.v header): the number of n in [lo, hi) with
     not (sqrt n < sqrt (n+1)) on the interpreter; the model's answer is the assumption itself *)
  ("color.sqrt_monotone", fun _ => I 0);
  ("color.kernel_cube", fun _ => ofList (fun c => I (cube_idx c)) (range_Z 0 256));
  (* spec-level checkers, applied by the harness to the implementation's outputs *)
  ("spec.color.wf", fun t => ofB (wf_color_b (tColor t)));
  ("spec.color.conversion_ok", fun t =>    (* [sys, c, once, twice] *)
      ofB (conversion_ok_b (tSys (tNth t 0)) (tColor (tNth t 1)) (tColor (tNth t 2)) (tColor (tNth t 3))));
  ("spec.color.in_gamut", fun t => ofB (in_gamut_b (tSys (tNth t 0)) (tColor (tNth t 1))));
  ("spec.color.nearest", fun t =>          (* [pal, triplet, k] *)
      ofB (nearest_b (tPal (tNth t 0)) (tTriplet (tNth t 1)) (tZ (tNth t 2))));
  ("spec.color.codes_ok", fun t =>         (* [color, fg, codes] *)
      ofB (codes_ok_b (tColor (tNth t 0)) (tB (tNth t 1)) (tList tStr (tNth t 2))));
  ("spec.color.block_ok", fun t =>         (* [sys, r, g_lo, g_hi, rle] *)
      let sys := tSys (tNth t 0) in
      ofB (forallb2 (block_spec_one sys) (block_colors (tZ (tNth t 1)) (tZ (tNth t 2)) (tZ (tNth t 3)))
                    (unrle (tList tZ (tNth t 4)))))
].
