(* L2 (C05): rich/text.py -- Span, Text and its editing operations, as coded in rich 9.10.0.
   Definitions only.  `len` is the cached `_length`, deliberately separate from the characters.
   Every place where the property-relevant behaviour of the unchanged code is a defect carries a
   flag in `fixes`: false = the code as found, true = the code with fixes/C05_*.diff applied. *)
From RichModel Require Import Prelude Cells.
From RichGen Require Import ControlCodes.

Definition span := (Z * Z * Z)%type.          (* start, end, style token *)
Definition sp_start (s : span) : Z := fst (fst s).
Definition sp_end (s : span) : Z := snd (fst s).
Definition sp_style (s : span) : Z := snd s.

(* what the operations copy around besides characters and spans *)
Record meta := mkMeta {
  base : Z;            (* Text.style (a token; never None) *)
  justify : Z;         (* 0 = None *)
  overflow : Z;        (* 0 None, 1 fold, 2 crop, 3 ellipsis, 4 ignore *)
  no_wrap : Z;         (* 0 None, 1 False, 2 True *)
  end_ : str;
  tab : option Z }.

Record text := mkText { plain : str; len : Z; spans : list span; tmeta : meta }.

Record fixes := mkFixes {
  fx_ctor : bool;      (* __init__: _length from the stripped string                    (D1)  *)
  fx_crop : bool;      (* right_crop: slice by max(0, len - amount), length recomputed  (D19) *)
  fx_index : bool;     (* __getitem__(int): negative index normalised, base style kept  (D19) *)
  fx_tokens : bool;    (* append_tokens strips control codes                            (D19) *)
  fx_setter : bool;    (* plain setter strips control codes                                   *)
  fx_stylize : bool;   (* stylize clamps a negative start at 0                                *)
  fx_divide : bool;    (* divide orders line spans by original index, not by a value-keyed dict (D15) *)
  fx_split : bool;     (* split pops the last line when it is blank, not when text.endswith(sep) *)
  fx_pad : bool }.     (* pad / pad_left: `if count > 0` (fixes/C02_pad_negative_count.diff)       *)
Definition FIXED := mkFixes true true true true true true true true true.
Definition ASIS := mkFixes false false false false false false false false false.

Definition default_meta (b : Z) : meta := mkMeta b 0 0 0 [NL] (Some 8).
Definition TAB : Z := 9.
Definition ELLIPSIS : Z := 8230.

(* ---------- strings ---------- *)
Definition is_ctl (c : Z) : bool := existsb (Z.eqb c) STRIP_CONTROL_CODES.
Definition strip (s : str) : str := filter (fun c => negb (is_ctl c)) s.
Definition is_space (c : Z) : bool := existsb (fun '(a, b) => (a <=? c) && (c <=? b)) TEXT_SPACE_RANGES.

(* index normalisation of Python slicing for one bound *)
Definition norm_idx (n i : Z) : Z := if i <? 0 then Z.max 0 (i + n) else Z.min i n.
(* l[a:b] for arbitrary integers *)
Definition py_slice {A} (l : list A) (a b : Z) : list A :=
  let n := zlen l in
  let a' := norm_idx n a in
  let b' := norm_idx n b in
  firstn (Z.to_nat (b' - a')) (skipn (Z.to_nat a') l).

Fixpoint is_prefix (p s : str) : bool :=
  match p, s with
  | [], _ => true
  | x :: p', y :: s' => (x =? y) && is_prefix p' s'
  | _ :: _, [] => false
  end.
Definition ends_with (s suf : str) : bool := is_prefix (rev suf) (rev s).

Fixpoint drop_while {A} (f : A -> bool) (l : list A) : list A :=
  match l with
  | [] => []
  | x :: r => if f x then drop_while f r else l
  end.
Definition rstrip_str (s : str) : str := rev (drop_while is_space (rev s)).
Definition trailing_ws (s : str) : Z := zlen s - zlen (rstrip_str s).

(* non-overlapping leftmost occurrences of a non-empty separator: re.finditer(re.escape(sep), s) *)
Fixpoint find_from (sep s : str) (pos : Z) (skip : nat) : list Z :=
  match s with
  | [] => []
  | _ :: r =>
      match skip with
      | S k => find_from sep r (pos + 1) k
      | O => if is_prefix sep s then pos :: find_from sep r (pos + 1) (length sep - 1)
             else find_from sep r (pos + 1) 0
      end
  end.
Definition find_all (sep s : str) : list Z := find_from sep s 0 0.

(* ---------- Span ---------- *)
Definition span_bool (s : span) : bool := sp_start s <? sp_end s.
Definition span_split (sp : span) (off : Z) : span * option span :=
  let '(s, e, st) := sp in
  if off <? s then (sp, None)
  else if e <=? off then (sp, None)
  else let e1 := Z.min e off in ((s, e1, st), Some (e1, e, st)).
Definition span_move (sp : span) (off : Z) : span :=
  let '(s, e, st) := sp in (s + off, e + off, st).
Definition span_right_crop (sp : span) (off : Z) : span :=
  let '(s, e, st) := sp in if e <=? off then sp else (s, Z.min off e, st).

(* the comprehension shared by _trim_spans and right_crop *)
Definition trim_list (sps : list span) (max_offset : Z) : list span :=
  map (fun sp => if sp_end sp <? max_offset then sp
                 else (sp_start sp, Z.min max_offset (sp_end sp), sp_style sp))
      (filter (fun sp => sp_start sp <? max_offset) sps).

(* ---------- construction ---------- *)
Definition ctor (fx : fixes) (s : str) (m : meta) (sps : list span) : text :=
  let p := strip s in
  mkText p (if fx_ctor fx then zlen p else zlen s) sps m.

(* len(text): CPython raises ValueError when __len__ answers a negative number *)
Definition pylen (t : text) : res Z := if len t <? 0 then Crash K_ValueError else Ok (len t).

Definition with_spans (t : text) (sps : list span) : text := mkText (plain t) (len t) sps (tmeta t).

Definition copy (fx : fixes) (t : text) : text := with_spans (ctor fx (plain t) (tmeta t) []) (spans t).
Definition blank_copy (fx : fixes) (t : text) : text := ctor fx [] (tmeta t) [].

Definition trim_spans (t : text) : text := with_spans t (trim_list (spans t) (zlen (plain t))).

(* plain setter *)
Definition set_plain (fx : fixes) (t : text) (new : str) : text :=
  let new := if fx_setter fx then strip new else new in
  if str_eqb new (plain t) then t
  else let t' := mkText new (zlen new) (spans t) (tmeta t) in
       if zlen new <? len t then trim_spans t' else t'.

Definition right_crop (fx : fixes) (t : text) (amount : Z) : text :=
  if fx_crop fx then
    let max_offset := Z.max 0 (zlen (plain t) - amount) in
    let p := py_slice (plain t) 0 max_offset in
    mkText p (zlen p) (trim_list (spans t) max_offset) (tmeta t)
  else
    let max_offset := zlen (plain t) - amount in
    (* self.plain[:-amount] *)
    mkText (py_slice (plain t) 0 (- amount)) (len t - amount) (trim_list (spans t) max_offset) (tmeta t).

Definition remove_suffix (fx : fixes) (t : text) (suffix : str) : text :=
  if ends_with (plain t) suffix then right_crop fx t (zlen suffix) else t.

Definition stylize (fx : fixes) (t : text) (st a : Z) (b : option Z) : res text :=
  do length <- pylen t;
  let start := if a <? 0 then (if fx_stylize fx then Z.max 0 (length + a) else length + a) else a in
  let e := match b with None => length | Some e => if e <? 0 then length + e else e end in
  if (length <=? start) || (e <=? start) then Ok t
  else Ok (with_spans t (spans t ++ [(start, Z.min length e, st)])).

Definition shift_spans (sps : list span) (n : Z) : list span := map (fun sp => span_move sp n) sps.

Definition pad_right (fx : fixes) (t : text) (n c : Z) : text :=
  if n =? 0 then t else set_plain fx t (plain t ++ py_repeat c n).
Definition pad_skip (fx : fixes) (n : Z) : bool := if fx_pad fx then n <=? 0 else n =? 0.
Definition pad_left (fx : fixes) (t : text) (n c : Z) : text :=
  if pad_skip fx n then t
  else let t' := set_plain fx t (py_repeat c n ++ plain t) in with_spans t' (shift_spans (spans t') n).
Definition pad (fx : fixes) (t : text) (n c : Z) : text :=
  if pad_skip fx n then t
  else let t' := set_plain fx t (py_repeat c n ++ plain t ++ py_repeat c n) in
       with_spans t' (shift_spans (spans t') n).

Definition rstrip (fx : fixes) (t : text) : text := set_plain fx t (rstrip_str (plain t)).

Definition rstrip_end (fx : fixes) (t : text) (size : Z) : res text :=
  do text_length <- pylen t;
  if size <? text_length then
    let ws := trailing_ws (plain t) in
    if 0 <? ws then Ok (right_crop fx t (Z.min ws (text_length - size))) else Ok t
  else Ok t.

Definition set_length (fx : fixes) (t : text) (n : Z) : res text :=
  do length <- pylen t;
  if length =? n then Ok t
  else if length <? n then Ok (pad_right fx t (n - length) SP)
  else Ok (right_crop fx t (length - n)).

Definition truncate (fx : fixes) (t : text) (w ov : Z) (padb : bool) : text :=
  let eff := if negb (ov =? 0) then ov else if negb (overflow (tmeta t) =? 0) then overflow (tmeta t) else 1 in
  if eff =? 4 then t
  else
    let length := cell_len (plain t) in
    let t1 := if w <? length then
                (if eff =? 3 then set_plain fx t (set_cell_size (plain t) (w - 1) ++ [ELLIPSIS])
                 else set_plain fx t (set_cell_size (plain t) w))
              else t in
    if padb && (length <? w) then
      let p := plain t1 ++ py_repeat SP (w - length) in
      mkText p (zlen p) (spans t1) (tmeta t1)
    else t1.

(* align: 0 left, 1 center, otherwise right *)
Definition align (fx : fixes) (t : text) (how w c : Z) : text :=
  let t1 := truncate fx t w 0 false in
  let excess := w - cell_len (plain t1) in
  if excess =? 0 then t1
  else if how =? 0 then pad_right fx t1 excess c
  else if how =? 1 then
    let left := excess / 2 in
    pad_right fx (pad_left fx t1 left c) (excess - left) c
  else pad_left fx t1 excess c.

(* ---------- append family ---------- *)
Definition opt_span (s e : Z) (st : option Z) : list span :=
  match st with None => [] | Some k => [(s, e, k)] end.

Definition append_str (fx : fixes) (t : text) (s : str) (st : option Z) : res text :=
  match s with
  | [] => Ok t
  | _ =>
      let s' := strip s in
      do offset <- pylen t;
      Ok (mkText (plain t ++ s') (len t + zlen s')
                 (spans t ++ opt_span offset (offset + zlen s') st) (tmeta t))
  end.

(* the body shared by append(Text) and append_text *)
Definition append_text_raw (t o : text) (olen : Z) : text :=
  let tl := len t in
  mkText (plain t ++ plain o) (tl + olen)
         (spans t ++ (tl, tl + olen, base (tmeta o)) :: shift_spans (spans o) tl) (tmeta t).

Definition append_text_obj (t o : text) : res text :=
  do olen <- pylen o;
  if olen =? 0 then Ok t else Ok (append_text_raw t o olen).

Definition append_text (t o : text) : res text :=
  do olen <- pylen o; Ok (append_text_raw t o olen).

Fixpoint tokens_go (fx : fixes) (toks : list (str * option Z)) (p : str) (sps : list span) (offset : Z)
  : str * list span * Z :=
  match toks with
  | [] => (p, sps, offset)
  | (content, st) :: r =>
      let content := if fx_tokens fx then strip content else content in
      let n := zlen content in
      tokens_go fx r (p ++ content) (sps ++ opt_span offset (offset + n) st) (offset + n)
  end.
Definition append_tokens (fx : fixes) (t : text) (toks : list (str * option Z)) : res text :=
  do offset <- pylen t;
  let '(p, sps, off) := tokens_go fx toks (plain t) (spans t) offset in
  Ok (mkText p off sps (tmeta t)).

Inductive part := PStr (s : str) | PTup (s : str) (st : option Z) | PText (o : text).

Definition append_part (fx : fixes) (t : text) (p : part) : res text :=
  match p with
  | PStr s => append_str fx t s None
  | PTup s st => append_str fx t s st
  | PText o => append_text_obj t o
  end.
Fixpoint append_parts (fx : fixes) (t : text) (ps : list part) : res text :=
  match ps with
  | [] => Ok t
  | p :: r => do t' <- append_part fx t p; append_parts fx t' r
  end.
Definition assemble (fx : fixes) (m : meta) (ps : list part) : res text :=
  append_parts fx (ctor fx [] m []) ps.

(* ---------- join ---------- *)
Fixpoint intersperse {A} (sep : A) (l : list A) : list A :=
  match l with
  | [] => []
  | [x] => [x]
  | x :: r => x :: sep :: intersperse sep r
  end.

Fixpoint join_go (pieces : list text) (p : str) (sps : list span) (offset : Z) : res (str * list span * Z) :=
  match pieces with
  | [] => Ok (p, sps, offset)
  | x :: r =>
      do n <- pylen x;
      join_go r (p ++ plain x)
              (sps ++ (offset, offset + n, base (tmeta x)) :: shift_spans (spans x) offset) (offset + n)
  end.
Definition join (fx : fixes) (sep : text) (lines : list text) : res text :=
  let new := blank_copy fx sep in
  let pieces := match plain sep with [] => lines | _ => intersperse sep lines end in
  do r <- join_go pieces (plain new) (spans new) 0;
  let '(p, sps, off) := r in Ok (mkText p off sps (tmeta new)).

(* ---------- divide ---------- *)
(* stable insertion sorts *)
Fixpoint ins_by {A} (key : A -> Z) (x : A) (l : list A) : list A :=   (* ascending; x goes before equals *)
  match l with
  | [] => [x]
  | y :: r => if key y <? key x then y :: ins_by key x r else x :: l
  end.
Definition sort_by {A} (key : A -> Z) (l : list A) : list A := fold_right (ins_by key) [] l.
Fixpoint ins_desc {A} (key : A -> Z) (x : A) (l : list A) : list A :=  (* descending; x goes before equals *)
  match l with
  | [] => [x]
  | y :: r => if key x <? key y then y :: ins_desc key x r else x :: l
  end.
(* sorted(l, key=..., reverse=True) *)
Definition sort_desc {A} (key : A -> Z) (l : list A) : list A := fold_right (ins_desc key) [] l.

Fixpoint index_from {A} (i : Z) (l : list A) : list (Z * A) :=
  match l with [] => [] | x :: r => (i, x) :: index_from (i + 1) r end.

(* one line of the repaired loop.  The stack is kept top first (the Python list reversed); the
   pushed remainders go on top but are not revisited by this line's loop. *)
Fixpoint div_take (stk : list (Z * span)) (endo : Z)
  : list (Z * span) * list (Z * span) * list (Z * span) :=   (* added, pushed (push order), untouched *)
  match stk with
  | [] => ([], [], [])
  | (i, sp) :: r =>
      if sp_start sp <? endo then
        let '(a, rem) := span_split sp endo in
        let '(adds, rems, rest) := div_take r endo in
        ((i, a) :: adds,
         match rem with Some x => if span_bool x then (i, x) :: rems else rems | None => rems end,
         rest)
      else ([], [], stk)
  end.

Fixpoint div_lines (stk : list (Z * span)) (ranges : list (Z * Z)) : list (list span) :=
  match ranges with
  | [] => []
  | (start, endo) :: rr =>
      let '(adds, rems, rest) := div_take stk endo in
      map (fun x => span_move (snd x) (- start)) (sort_by fst adds)
      :: div_lines (rev rems ++ rest) rr
  end.

(* the loop as found: `order` is a dict keyed by span VALUE (association list, overwrite on insert) *)
Definition span_eqb (a b : span) : bool :=
  (sp_start a =? sp_start b) && (sp_end a =? sp_end b) && (sp_style a =? sp_style b).
Definition odict := list (span * Z).
Fixpoint od_get (d : odict) (k : span) : Z :=
  match d with
  | [] => 0        (* unreachable: every key is inserted before it is looked up *)
  | (k', v) :: r => if span_eqb k k' then v else od_get r k
  end.
Fixpoint od_set (d : odict) (k : span) (v : Z) : odict :=
  match d with
  | [] => [(k, v)]
  | (k', v') :: r => if span_eqb k k' then (k', v) :: r else (k', v') :: od_set r k v
  end.

Fixpoint div_take_asis (stk : list span) (start endo : Z) (d : odict)
  : list span * list span * list span * odict :=   (* line spans, pushed, untouched, dict *)
  match stk with
  | [] => ([], [], [], d)
  | sp :: r =>
      if sp_start sp <? endo then
        let '(a, rem) := span_split sp endo in
        let pushed := match rem with Some x => if span_bool x then [x] else [] | None => [] end in
        let d1 := match pushed with x :: _ => od_set d x (od_get d sp) | [] => d end in
        let ls := span_move a (- start) in
        let d2 := od_set d1 ls (od_get d1 sp) in
        let '(lss, rems, rest, d3) := div_take_asis r start endo d2 in
        (ls :: lss, pushed ++ rems, rest, d3)
      else ([], [], stk, d)
  end.

Fixpoint div_lines_asis (stk : list span) (ranges : list (Z * Z)) (d : odict) : list (list span) :=
  match ranges with
  | [] => []
  | (start, endo) :: rr =>
      match stk with
      | [] => [] :: div_lines_asis stk rr d
      | _ =>
          let '(lss, rems, rest, d') := div_take_asis stk start endo d in
          sort_by (od_get d') lss :: div_lines_asis (rev rems ++ rest) rr d'
      end
  end.

Fixpoint pairs_of (l : list Z) : list (Z * Z) :=
  match l with
  | a :: ((b :: _) as r) => (a, b) :: pairs_of r
  | _ => []
  end.

Definition line_meta (m : meta) : meta := mkMeta (base m) (justify m) (overflow m) 0 [NL] (Some 8).

Definition divide (fx : fixes) (t : text) (offsets : list Z) : list text :=
  match offsets with
  | [] => [copy fx t]
  | _ =>
      let p := plain t in
      let ranges := pairs_of (0 :: offsets ++ [zlen p]) in
      let lm := line_meta (tmeta t) in
      let span_lines :=
        if fx_divide fx then
          div_lines (rev (sort_desc (fun x => sp_start (snd x)) (index_from 0 (spans t)))) ranges
        else
          div_lines_asis (rev (sort_desc sp_start (spans t))) ranges
                         (fold_left (fun d x => od_set d (snd x) (fst x)) (index_from 0 (spans t)) [])
      in
      map (fun '((a, b), sps) => ctor fx (py_slice p a b) lm sps) (combine ranges span_lines)
  end.

(* ---------- split ---------- *)
Definition split (fx : fixes) (t : text) (sep : str) (incl allow : bool) : res (list text) :=
  match sep with
  | [] => Crash K_AssertionError
  | _ =>
      let p := plain t in
      let n := zlen sep in
      match find_all sep p with
      | [] => Ok [copy fx t]
      | ms =>
          let lines :=
            if incl then divide fx t (map (fun m => m + n) ms)
            else filter (fun l => negb (str_eqb (plain l) sep))
                        (divide fx t (flat_map (fun m => [m; m + n]) ms)) in
          let pop :=
            if fx_split fx then
              negb allow && (match rev lines with l :: _ => match plain l with [] => true | _ => false end
                                                | [] => false end)
            else negb allow && ends_with p sep in
          Ok (if pop then removelast lines else lines)
      end
  end.

(* ---------- __getitem__ ---------- *)
Definition getitem_int (fx : fixes) (t : text) (i : Z) : res text :=
  match py_nth (plain t) i with
  | None => Crash K_IndexError
  | Some c =>
      let off := if fx_index fx && (i <? 0) then i + zlen (plain t) else i in
      let sps := map (fun sp => (0, 1, sp_style sp))
                     (filter (fun sp => (off <? sp_end sp) && (sp_start sp <=? off)) (spans t)) in
      let m := mkMeta (if fx_index fx then base (tmeta t) else 0) 0 0 0 [] (Some 8) in
      Ok (ctor fx [c] m sps)
  end.

(* slice.indices(n) for step None *)
Definition slice_bounds (n : Z) (a b : option Z) : Z * Z :=
  (match a with None => 0 | Some a => norm_idx n a end,
   match b with None => n | Some b => norm_idx n b end).

Definition getitem_slice (fx : fixes) (t : text) (a b : option Z) : res text :=
  let '(s, e) := slice_bounds (zlen (plain t)) a b in
  match divide fx t [s; e] with
  | _ :: l :: _ => Ok l
  | _ => Crash K_IndexError
  end.

(* ---------- expand_tabs ---------- *)
Definition split_total (fx : fixes) (t : text) (sep : str) : list text :=
  match split fx t sep true false with Ok l => l | _ => [] end.

Fixpoint expand_parts (fx : fixes) (parts : list text) (result : text) (pos tabsz style : Z)
  : res (text * Z) :=
  match parts with
  | [] => Ok (result, pos)
  | part :: r =>
      if ends_with (plain part) [TAB] then
        let part' := mkText (removelast (plain part) ++ [SP]) (len part) (spans part) (tmeta part) in
        do result1 <- append_text_obj result part';
        do n <- pylen part';
        let pos1 := pos + n in
        if tabsz =? 0 then Crash K_ZeroDivisionError
        else
          let spaces := tabsz - ((pos1 - 1) mod tabsz) - 1 in
          if spaces =? 0 then expand_parts fx r result1 pos1 tabsz style
          else do result2 <- append_str fx result1 (py_repeat SP spaces) (Some style);
               expand_parts fx r result2 (pos1 + spaces) tabsz style
      else
        do result1 <- append_text_obj result part;
        expand_parts fx r result1 pos tabsz style
  end.

Fixpoint expand_lines (fx : fixes) (lines : list text) (result : text) (pos tabsz style : Z)
  : res text :=
  match lines with
  | [] => Ok result
  | line :: r =>
      do x <- expand_parts fx (split_total fx line [TAB]) result pos tabsz style;
      let '(result', pos') := x in expand_lines fx r result' pos' tabsz style
  end.

Definition expand_tabs (fx : fixes) (t : text) (tabarg : option Z) : res text :=
  if negb (existsb (Z.eqb TAB) (plain t)) then Ok t
  else
    match (match tabarg with Some k => Some k | None => tab (tmeta t) end) with
    | None => Crash K_AssertionError
    | Some tabsz =>
        do result <- expand_lines fx (split_total fx t [NL]) (blank_copy fx t) 0 tabsz (base (tmeta t));
        Ok (mkText (plain result) (zlen (plain result)) (spans result) (tmeta t))
    end.

(* ---------- styling only ---------- *)
Definition copy_styles (t o : text) : text := with_spans t (spans t ++ spans o).

(* highlight_words(words, style), case sensitive, every word non-empty: leftmost match, first
   alternative that matches wins, matches do not overlap *)
Fixpoint first_word (ws : list str) (s : str) : option Z :=
  match ws with
  | [] => None
  | w :: r => if is_prefix w s then Some (zlen w) else first_word r s
  end.
Fixpoint words_from (ws : list str) (s : str) (pos : Z) (skip : nat) (st : Z) : list span :=
  match s with
  | [] => []
  | _ :: r =>
      match skip with
      | S k => words_from ws r (pos + 1) k st
      | O => match first_word ws s with
             | Some n => (pos, pos + n, st) :: words_from ws r (pos + 1) (Z.to_nat n - 1) st
             | None => words_from ws r (pos + 1) 0 st
             end
      end
  end.
Definition highlight_words (t : text) (ws : list str) (st : Z) : text :=
  with_spans t (spans t ++ words_from ws (plain t) 0 0 st).

(* highlight_regex("[set]+", style): maximal runs of characters of a set *)
Fixpoint runs_from (set : list Z) (s : str) (pos : Z) (open : option Z) (st : Z) : list span :=
  match s with
  | [] => match open with Some a => [(a, pos, st)] | None => [] end
  | c :: r =>
      if existsb (Z.eqb c) set then
        runs_from set r (pos + 1) (match open with Some a => Some a | None => Some pos end) st
      else
        match open with
        | Some a => (a, pos, st) :: runs_from set r (pos + 1) None st
        | None => runs_from set r (pos + 1) None st
        end
  end.
Definition highlight_runs (t : text) (set : list Z) (st : Z) : text :=
  with_spans t (spans t ++ runs_from set (plain t) 0 None st).

(* ---------- render: the sorted enter/leave sweep with stack.remove ---------- *)
Definition event := (Z * bool * Z)%type.     (* offset, leaving, style id (0 = base, i = i-th span) *)
Definition ev_key (e : event) : Z := 2 * fst (fst e) + (if snd (fst e) then 1 else 0).
Fixpoint remove_first (x : Z) (l : list Z) : option (list Z) :=
  match l with
  | [] => None
  | y :: r => if x =? y then Some r
              else match remove_first x r with Some r' => Some (y :: r') | None => None end
  end.
(* stable ascending sort that keeps equal keys in input order (list.sort) *)
Fixpoint ins_after {A} (key : A -> Z) (x : A) (l : list A) : list A :=
  match l with
  | [] => [x]
  | y :: r => if key x <? key y then x :: l else y :: ins_after key x r
  end.
Definition sort_stable {A} (key : A -> Z) (l : list A) : list A :=
  fold_left (fun acc x => ins_after key x acc) l [].

Fixpoint render_go (p : str) (styles : list Z) (evs : list event) (stack : list Z)
  : res (list (Z * list Z)) :=
  match evs with
  | (off, leaving, id) :: ((next, _, _) :: _) as rest =>
      do stack' <- (if leaving then match remove_first id stack with
                                    | Some s => Ok s | None => Crash K_ValueError end
                    else Ok (stack ++ [id]));
      do tail <- render_go p styles rest stack';
      if off <? next then
        match stack' with [] => Crash K_Other | _ =>     (* Style.combine(()) raises *)
        let sty := map (fun i => nth (Z.to_nat i) styles 0) (sort_stable (fun i => i) stack') in
        Ok (map (fun c => (c, sty)) (py_slice p off next) ++ tail) end
      else Ok tail
  | _ => Ok []
  end.

Definition render (t : text) : res (list (Z * list Z)) :=
  let isp := index_from 1 (spans t) in
  let evs := (0, false, 0)
             :: map (fun x => (sp_start (snd x), false, fst x)) isp
             ++ map (fun x => (sp_end (snd x), true, fst x)) isp
             ++ [(zlen (plain t), true, 0)] in
  render_go (plain t) (base (tmeta t) :: map sp_style (spans t)) (sort_stable ev_key evs) [].

(* ---------- rich/highlighter.py: the Highlighter protocol ----------
   Highlighter.__call__: str -> a new Text; Text -> text.copy(), then highlight() IN PLACE on the copy;
   anything else -> TypeError.  RegexHighlighter.highlight = highlight_regex once per pattern (style
   prefix = base_style); NullHighlighter = no pattern.  The executable patterns are "(?P<tK>[set]+)"
   (maximal runs, style token K); proofs/TextOpsP4.v treats an arbitrary matcher as an oracle. *)
Definition hl_pattern := (list Z * Z)%type.
Definition regex_highlight (t : text) (pats : list hl_pattern) : text :=
  fold_left (fun t p => highlight_runs t (fst p) (snd p)) pats t.
Inductive hl_arg := HText | HStr (s : str) | HOther.
Definition highlighter_call (fx : fixes) (pats : list hl_pattern) (a : hl_arg) (t : text) : res text :=
  match a with
  | HText => Ok (regex_highlight (copy fx t) pats)
  | HStr s => Ok (regex_highlight (ctor fx s (default_meta 0) []) pats)
  | HOther => Crash K_TypeError
  end.

(* ---------- operation language of the histories ---------- *)
(* a Text given as an argument: Text(raw, style=base, spans=sps) *)
Definition targ := (str * Z * list span)%type.
Definition arg_text (fx : fixes) (a : targ) : text :=
  let '(s, b, sps) := a in ctor fx s (default_meta b) sps.

Inductive apart := APStr (s : str) | APTup (s : str) (st : option Z) | APText (o : targ).

Inductive op :=
| OAppendStr (s : str) (st : option Z)
| OAppendText (o : targ)
| OAppendTextFast (o : targ)
| OAppendTokens (toks : list (str * option Z))
| OAssemble (b : Z) (parts : list apart)            (* t := Text.assemble(t, *parts, style=b) *)
| OJoinLine (sep : targ) (before after : list targ) (* t := sep.join(before + [t] + after) *)
| OJoinSep (lines : list targ)                       (* t := t.join(lines) *)
| OSplit (sep : str) (incl allow : bool) (k : Z)     (* t := t.split(...)[k] when 0 <= k < count *)
| ODivide (offsets : list Z) (k : Z)
| OIndex (i : Z)
| OSlice (a b : option Z)
| OPad (n c : Z) | OPadLeft (n c : Z) | OPadRight (n c : Z)
| OAlign (how w c : Z)
| OTruncate (w ov : Z) (padb : bool)
| ORightCrop (n : Z) | OSetLength (n : Z) | ORstrip | ORstripEnd (n : Z)
| OExpandTabs (tabarg : option Z)
| OCopy | OBlankCopy | OSetPlain (s : str) | ORemoveSuffix (s : str)
| OStylize (st a : Z) (b : option Z)
| OHighlightWords (ws : list str) (st : Z)
| OHighlightRuns (set : list Z) (st : Z)
| OCopyStyles (o : targ)
| OHighlighter (pats : list hl_pattern) (a : hl_arg).   (* t := hl(t) / hl(str) / hl(not a text) *)

Definition pick {A} (l : list A) (k : Z) : res A :=
  if k <? 0 then Crash K_IndexError
  else match nth_error l (Z.to_nat k) with Some x => Ok x | None => Crash K_IndexError end.

Definition part_of (fx : fixes) (p : apart) : part :=
  match p with
  | APStr s => PStr s
  | APTup s st => PTup s st
  | APText o => PText (arg_text fx o)
  end.

Definition apply (fx : fixes) (o : op) (t : text) : res text :=
  match o with
  | OAppendStr s st => append_str fx t s st
  | OAppendText a => append_text_obj t (arg_text fx a)
  | OAppendTextFast a => append_text t (arg_text fx a)
  | OAppendTokens toks => append_tokens fx t toks
  | OAssemble b parts => assemble fx (default_meta b) (PText t :: map (part_of fx) parts)
  | OJoinLine sep before after =>
      join fx (arg_text fx sep) (map (arg_text fx) before ++ t :: map (arg_text fx) after)
  | OJoinSep lines => join fx t (map (arg_text fx) lines)
  | OSplit sep incl allow k => do ls <- split fx t sep incl allow; pick ls k
  | ODivide offs k => pick (divide fx t offs) k
  | OIndex i => getitem_int fx t i
  | OSlice a b => getitem_slice fx t a b
  | OPad n c => Ok (pad fx t n c)
  | OPadLeft n c => Ok (pad_left fx t n c)
  | OPadRight n c => Ok (pad_right fx t n c)
  | OAlign how w c => Ok (align fx t how w c)
  | OTruncate w ov padb => Ok (truncate fx t w ov padb)
  | ORightCrop n => Ok (right_crop fx t n)
  | OSetLength n => set_length fx t n
  | ORstrip => Ok (rstrip fx t)
  | ORstripEnd n => rstrip_end fx t n
  | OExpandTabs tabarg => expand_tabs fx t tabarg
  | OCopy => Ok (copy fx t)
  | OBlankCopy => Ok (blank_copy fx t)
  | OSetPlain s => Ok (set_plain fx t s)
  | ORemoveSuffix s => Ok (remove_suffix fx t s)
  | OStylize st a b => stylize fx t st a b
  | OHighlightWords ws st => Ok (highlight_words t ws st)
  | OHighlightRuns set st => Ok (highlight_runs t set st)
  | OCopyStyles a => Ok (copy_styles t (arg_text fx a))
  | OHighlighter pats a => highlighter_call fx pats a t
  end.

(* an operation that raises leaves the text as it was (every raise above happens before any mutation) *)
Definition step (fx : fixes) (t : text) (o : op) : text :=
  match apply fx o t with Ok t' => t' | _ => t end.
Definition run (fx : fixes) (ops : list op) (t : text) : text := fold_left (step fx) ops t.

(* ---------- a store of named Text values (object identity) ----------
   Histories over several live values: `y := x.op(...)` for the operations that RETURN a Text built
   from the receiver's parts, `x.op(...)` for the in-place ones, operations taking other stored
   Texts as arguments, and `Lines` results kept whole.  In this functional model values are
   independent by construction; whether the implementation's objects are (no shared span list,
   no shared fragment list) is what the multi-object correspondence observes: EVERY live value
   is compared after EVERY step. *)
Definition inplace (o : op) : bool :=
  match o with
  | OAssemble _ _ | OJoinLine _ _ _ | OJoinSep _ | OSplit _ _ _ _ | ODivide _ _ | OIndex _ | OSlice _ _
  | OCopy | OBlankCopy | OHighlighter _ _ => false
  | _ => true
  end.

Inductive sop :=
| SApply (y x : nat) (o : op)             (* in place: x.op(...) (y = x);  otherwise  y := x.op(...) *)
| SLines (x : nat) (o : op)               (* every line of x.split(...) / x.divide(...) becomes a new slot *)
| SAppendText (x z : nat)                 (* x.append(z) *)
| SAppendTextFast (x z : nat)             (* x.append_text(z) *)
| SCopyStyles (x z : nat)                 (* x.copy_styles(z) *)
| SJoin (y sep : nat) (lines : list nat)  (* y := sep.join([lines...]) *)
| SAssemble (y : nat) (b : Z) (parts : list nat).   (* y := Text.assemble of the stored parts, style=b *)

Fixpoint sset {A} (st : list A) (i : nat) (v : A) : list A :=   (* i = length st: a new slot *)
  match st, i with
  | [], _ => [v]
  | _ :: r, O => v :: r
  | x :: r, S k => x :: sset r k v
  end.
Fixpoint sgets {A} (st : list A) (idx : list nat) : option (list A) :=
  match idx with
  | [] => Some []
  | i :: r => match nth_error st i, sgets st r with
              | Some v, Some vs => Some (v :: vs)
              | _, _ => None
              end
  end.

Definition sapply (fx : fixes) (s : sop) (st : list text) : res (list text) :=
  match s with
  | SApply y x o =>
      match nth_error st x with
      | None => Crash K_IndexError
      | Some t => if inplace o && negb (Nat.eqb y x) then Crash K_Other
                  else do t' <- apply fx o t; Ok (sset st y t')
      end
  | SLines x o =>
      match nth_error st x with
      | None => Crash K_IndexError
      | Some t =>
          match o with
          | OSplit sep incl allow _ => do ls <- split fx t sep incl allow; Ok (st ++ ls)
          | ODivide offs _ => Ok (st ++ divide fx t offs)
          | _ => Crash K_Other
          end
      end
  | SAppendText x z =>
      match nth_error st x, nth_error st z with
      | Some t, Some o => if Nat.eqb x z then Crash K_Other else do t' <- append_text_obj t o; Ok (sset st x t')
      | _, _ => Crash K_IndexError
      end
  | SAppendTextFast x z =>
      match nth_error st x, nth_error st z with
      | Some t, Some o => if Nat.eqb x z then Crash K_Other else do t' <- append_text t o; Ok (sset st x t')
      | _, _ => Crash K_IndexError
      end
  | SCopyStyles x z =>
      match nth_error st x, nth_error st z with
      | Some t, Some o => if Nat.eqb x z then Crash K_Other else Ok (sset st x (copy_styles t o))
      | _, _ => Crash K_IndexError
      end
  | SJoin y sep lines =>
      match nth_error st sep, sgets st lines with
      | Some s, Some ls => do r <- join fx s ls; Ok (sset st y r)
      | _, _ => Crash K_IndexError
      end
  | SAssemble y b parts =>
      match sgets st parts with
      | Some ps => do r <- assemble fx (default_meta b) (map PText ps); Ok (sset st y r)
      | None => Crash K_IndexError
      end
  end.
Definition sstep (fx : fixes) (st : list text) (s : sop) : list text :=
  match sapply fx s st with Ok st' => st' | _ => st end.
Definition srun (fx : fixes) (sops : list sop) (st : list text) : list text := fold_left (sstep fx) sops st.
