(* C20 -- executable model of rich/theme.py (Theme, ThemeStack) and of the theme part of
   rich/console.py (Console.push_theme / pop_theme / use_theme / ThemeContext / get_style).
   Definitions only.

   Conventions
   * a style VALUE is an abstract token (Z); `Style.parse` is an oracle  parse : str -> option Z
     (None = StyleSyntaxError), `str(style)` an oracle  show : Z -> str, configparser an oracle
     cp : str -> option (list (str * str)).  They are Section variables; nothing is assumed about
     them here (the hypotheses live in proofs/ThemeP*.v, Section-local).
   * a Python dict[str, Style] is an association list with unique keys in insertion order
     (`uniq_keys`); `dget` = dict.get, `dset` = d[k] = v, `dupdate` = d.update(e) / {**d, **e}.
     dict.copy() is the identity (model values are immutable; rich never mutates an entry of
     ThemeStack._entries after it was appended).
   * ThemeStack._entries is a non-empty Python list; it is kept as  top :: below  with the top of
     the stack FIRST (Python keeps it last).  `getd` is the dict the cached bound method
     `self.get = self._entries[-1].get` points at: it is state of its own, rebound by
     __init__/push_theme/pop_theme exactly as written. *)
From RichModel Require Import Prelude.

Definition dict := list (str * Z).

Fixpoint dget (d : dict) (n : str) : option Z :=
  match d with
  | [] => None
  | (k, v) :: r => if str_eqb k n then Some v else dget r n
  end.

Fixpoint dset (d : dict) (k : str) (v : Z) : dict :=
  match d with
  | [] => [(k, v)]
  | (k', v') :: r => if str_eqb k' k then (k', v) :: r else (k', v') :: dset r k v
  end.

Definition dupdate (d e : dict) : dict := fold_left (fun acc kv => dset acc (fst kv) (snd kv)) e d.

Fixpoint has_key {A} (d : list (str * A)) (n : str) : bool :=
  match d with
  | [] => false
  | (k, _) :: r => str_eqb k n || has_key r n
  end.

Fixpoint uniq_keys {A} (d : list (str * A)) : bool :=
  match d with
  | [] => true
  | (k, _) :: r => negb (has_key r k) && uniq_keys r
  end.

(* ---------------------------------------------------------------- ThemeStack *)
Record tstack := mkTS { top : dict; below : list dict; getd : dict }.

(* ThemeStack.__init__(theme) *)
Definition ts_init (styles : dict) : tstack := mkTS styles [] styles.

(* ThemeStack.push_theme(theme, inherit):
     styles = {**self._entries[-1], **theme.styles} if inherit else theme.styles.copy()
     self._entries.append(styles); self.get = self._entries[-1].get *)
Definition ts_push (th : dict) (inherit : bool) (s : tstack) : tstack :=
  let styles := if inherit then dupdate (top s) th else th in
  mkTS styles (top s :: below s) styles.

(* ThemeStack.pop_theme(): ThemeStackError when only the base entry is left *)
Definition ts_pop (s : tstack) : res tstack :=
  match below s with
  | [] => Doc E_ThemeStackError
  | d :: r => Ok (mkTS d r d)
  end.

Definition ts_depth (s : tstack) : nat := S (length (below s)).
(* the entry at the bottom of the stack = the console's base theme *)
Definition ts_base (s : tstack) : dict := last (below s) (top s).

(* the observer's "pop until ThemeStackError": number of successful pops and the state left *)
Fixpoint pop_all (fuel : nat) (s : tstack) : Z * tstack :=
  match fuel with
  | O => (0, s)
  | S f => match ts_pop s with
           | Ok s' => let '(n, s'') := pop_all f s' in (n + 1, s'')
           | _ => (0, s)
           end
  end.

(* a value that is either a Style object (token) or a str *)
Definition sval := (Z + str)%type.

(* ---------------------------------------------------------------- command language
   Histories of theme operations on one console, as a user program would issue them. *)
Inductive cmd : Type :=
| CPush (th : dict) (inh : bool)               (* console.push_theme(th, inherit=inh) *)
| CPop                                         (* console.pop_theme() *)
| CUse (th : dict) (inh : bool) (body : list cmd)   (* with console.use_theme(th, inherit=inh): body *)
| CTry (body : list cmd)                       (* try: body  except Exception: pass *)
| CRaise                                       (* user code raises *)
| CGet (name : sval) (default : option sval).  (* console.get_style(name, default=...) ; raises MissingStyle *)

Definition E_User := 100.

(* a command that cannot raise, provided its pops are matched (see `bal` in SpecTheme.v) *)
Fixpoint quiet (c : cmd) : bool :=
  match c with
  | CPush _ _ | CPop | CTry _ => true
  | CUse _ _ body => forallb quiet body
  | CRaise => false
  | CGet (inl _) _ => true
  | CGet (inr _) _ => false
  end.

(* every theme mentioned is a dict (unique keys) *)
Fixpoint wf_cmd (c : cmd) : bool :=
  match c with
  | CPush th _ => uniq_keys th
  | CUse th _ body => uniq_keys th && forallb wf_cmd body
  | CTry body => forallb wf_cmd body
  | _ => true
  end.

(* the theme stack seen as an abstract machine: the concrete ThemeStack and the specification
   stack (SpecTheme.v) are two instances; `exec` below is shared. *)
Record machine : Type := mkM {
  St : Type;
  m_push : dict -> bool -> St -> St;
  m_pop : St -> res St;
  m_get : St -> str -> option Z        (* ThemeStack.get(name) *)
}.

Definition conc : machine := mkM tstack ts_push ts_pop (fun s n => dget (getd s) n).

Inductive event (S : Type) : Type :=
| EvSt (s : S)            (* state after a step that touched the stack (push / pop / enter / exit) *)
| EvGet (r : res Z).      (* result of a get_style command *)
Arguments EvSt {S} s.
Arguments EvGet {S} r.

Section WithParse.
Variable parse : str -> option Z.     (* Style.parse; None = StyleSyntaxError *)

Section Exec.
Variable M : machine.
(* call-site facts (gen/ThemeFacts.v):
     fwd_use : ThemeContext.__enter__ forwards inherit to console.push_theme *)
Variable fwd_use : bool.

(* Console.get_style(name) with default=None, name a str *)
Definition lookup1 (s : St M) (n : str) : res Z :=
  match m_get M s n with
  | Some v => Ok v
  | None => match parse n with Some v => Ok v | None => Doc E_MissingStyle end
  end.

(* Console.get_style(name, default=default):
     if isinstance(name, Style): return name
     try: style = stack.get(name); if style is None: style = Style.parse(name); return style(.copy())
     except StyleSyntaxError: if default is not None: return self.get_style(default); raise MissingStyle *)
Definition get_style (s : St M) (name : sval) (default : option sval) : res Z :=
  match name with
  | inl v => Ok v
  | inr n =>
      match m_get M s n with
      | Some v => Ok v
      | None =>
          match parse n with
          | Some v => Ok v
          | None =>
              match default with
              | None => Doc E_MissingStyle
              | Some (inl v) => Ok v
              | Some (inr dn) => lookup1 s dn
              end
          end
      end
  end.

(* result of running commands: final state, pending exception (class code), events *)
Definition outcome : Type := (St M * option Z * list (event (St M)))%type.

Definition seq_exec (ex : cmd -> St M -> outcome) : list cmd -> St M -> outcome :=
  fix go (l : list cmd) (s : St M) : outcome :=
    match l with
    | [] => (s, None, [])
    | c :: r =>
        let '(s1, o1, t1) := ex c s in
        match o1 with
        | Some e => (s1, Some e, t1)
        | None => let '(s2, o2, t2) := go r s1 in (s2, o2, t1 ++ t2)
        end
    end.

Fixpoint exec (c : cmd) (s : St M) {struct c} : outcome :=
  match c with
  | CPush th inh => let s1 := m_push M th inh s in (s1, None, [EvSt s1])
  | CPop =>
      match m_pop M s with
      | Ok s1 => (s1, None, [EvSt s1])
      | Doc e => (s, Some e, [EvSt s])
      | Crash k => (s, Some (1000 + k), [EvSt s])
      end
  | CUse th inh body =>
      (* ThemeContext.__enter__ : console.push_theme(theme [, inherit=self.inherit]) *)
      let s1 := m_push M th (if fwd_use then inh else true) s in
      let '(s2, o2, t2) := seq_exec exec body s1 in
      (* ThemeContext.__exit__ : console.pop_theme(), whatever happened; returns None, so a pending
         exception propagates -- unless pop_theme raises itself, which then replaces it *)
      match m_pop M s2 with
      | Ok s3 => (s3, o2, EvSt s1 :: t2 ++ [EvSt s3])
      | Doc e => (s2, Some e, EvSt s1 :: t2 ++ [EvSt s2])
      | Crash k => (s2, Some (1000 + k), EvSt s1 :: t2 ++ [EvSt s2])
      end
  | CTry body =>
      let '(s1, _, t1) := seq_exec exec body s in (s1, None, t1)
  | CRaise => (s, Some E_User, [])
  | CGet name default =>
      let r := get_style s name default in
      (s, match r with Ok _ => None | Doc e => Some e | Crash k => Some (1000 + k) end, [EvGet r])
  end.

Definition exec_list : list cmd -> St M -> outcome := seq_exec exec.

(* what an observer sees: after every stack step the result of get_style(p) for every probe name,
   for get_style commands their result; finally the class of the escaping exception (0 = none) *)
Inductive obs : Type :=
| OSnap (l : list (res Z))
| OGet (r : res Z).

Definition snapshot (probes : list str) (s : St M) : list (res Z) := map (lookup1 s) probes.

Definition observe_ev (probes : list str) (e : event (St M)) : obs :=
  match e with
  | EvSt s => OSnap (snapshot probes s)
  | EvGet r => OGet r
  end.

Definition observe (probes : list str) (cmds : list cmd) (s : St M) : list obs * Z :=
  let '(_, o, t) := exec_list cmds s in
  (map (observe_ev probes) t, match o with None => 0 | Some e => e end).

End Exec.

(* ---------------------------------------------------------------- Theme *)
(* Theme.__init__(styles, inherit):  self.styles = DEFAULT_STYLES.copy() if inherit else {};
   self.styles.update({name: style if isinstance(style, Style) else Style.parse(style) ...}) *)
Fixpoint parse_styles (l : list (str * sval)) : res dict :=
  match l with
  | [] => Ok []
  | (n, sv) :: r =>
      do v <- match sv with
              | inl v => Ok v
              | inr s => match parse s with Some v => Ok v | None => Doc E_StyleSyntaxError end
              end;
      do r' <- parse_styles r;
      Ok ((n, v) :: r')
  end.

Definition theme_init (defaults : dict) (styles : list (str * sval)) (inherit : bool) : res dict :=
  do p <- parse_styles styles;
  Ok (dupdate (if inherit then defaults else []) (dupdate [] p)).

(* ---------------------------------------------------------------- Theme.config / from_file *)
Variable show : Z -> str.                             (* str(style) *)
Variable cp : str -> option (list (str * str)).       (* configparser.ConfigParser().read_file(text);
                                                         .items("styles"); None = configparser.Error *)
Fixpoint str_ltb (a b : str) : bool :=                (* Python str '<' : code point lexicographic *)
  match a, b with
  | _, [] => false
  | [], _ :: _ => true
  | x :: a', y :: b' => (x <? y) || ((x =? y) && str_ltb a' b')
  end.

Fixpoint insert_item {A} (kv : str * A) (l : list (str * A)) : list (str * A) :=
  match l with
  | [] => [kv]
  | kv' :: r => if str_ltb (fst kv') (fst kv) then kv' :: insert_item kv r else kv :: l
  end.
(* sorted(self.styles.items()): keys are unique, so only the names are ever compared *)
Definition sort_items {A} (l : list (str * A)) : list (str * A) := fold_right insert_item [] l.

Fixpoint join (sep : str) (l : list str) : str :=
  match l with
  | [] => []
  | [x] => x
  | x :: r => x ++ sep ++ join sep r
  end.

(* '%' -> '%%' *)
Definition esc_pct (s : str) : str := flat_map (fun c => if c =? 37 then [37; 37] else [c]) s.

(* "name = value" *)
Definition cfg_line (kv : str * str) : str := fst kv ++ lit " = " ++ snd kv.
Definition cfg_text (items : list (str * str)) : str :=
  lit "[styles]" ++ [NL] ++ join [NL] (map cfg_line items).

(* Theme.config; esc = gen fact config_escapes_percent *)
Definition config_items (esc : bool) (d : dict) : list (str * str) :=
  map (fun kv => (fst kv, if esc then esc_pct (show (snd kv)) else show (snd kv))) (sort_items d).
Definition config (esc : bool) (d : dict) : str := cfg_text (config_items esc d).

(* Theme.from_file(io.StringIO(text), inherit=inherit):
     styles = {name: Style.parse(value) for name, value in config.items("styles")}
     Theme(styles, inherit=inherit) *)
Definition from_file (defaults : dict) (text : str) (inherit : bool) : res dict :=
  match cp text with
  | None => Crash K_Other
  | Some items =>
      do p <- parse_styles (map (fun kv => (fst kv, inr (snd kv))) items);
      theme_init defaults (map (fun kv => (fst kv, inl (snd kv))) (dupdate [] p)) inherit
  end.

End WithParse.
