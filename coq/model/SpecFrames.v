(* Spec-level checkers for C08.  They look only at rendered lines -- a line is a list of
   (code point, style token) -- and are used both in the theorems (props/C08.v) and, through the
   driver, on the implementation's output. *)
From RichModel Require Import Prelude Cells Segments SpecCells.

Definition fl := list (Z * option Z).
Definition fl_len (l : fl) : Z := sumZ (map (fun cs => char_size (fst cs)) l).
Definition fl_chars (l : fl) : str := map fst l.

(* l = p ++ rest where the characters of p are exactly s (any styles) *)
Fixpoint strip_chars (s : str) (l : fl) : option fl :=
  match s with
  | [] => Some l
  | c :: s' => match l with
               | cs :: l' => if c =? fst cs then strip_chars s' l' else None
               | [] => None
               end
  end.
(* l = a ++ rest, characters and styles *)
Fixpoint strip_exact (a l : fl) : option fl :=
  match a with
  | [] => Some l
  | x :: a' => match l with
               | y :: l' => if cs_eqb x y then strip_exact a' l' else None
               | [] => None
               end
  end.

(* row = lstr . child line (unchanged, styles included) . spaces . rstr *)
Definition row_ok_b (lstr rstr : str) (child row : fl) : bool :=
  match strip_chars lstr row with
  | None => false
  | Some r1 =>
      match strip_exact child r1 with
      | None => false
      | Some r2 =>
          let k := (length r2 - length rstr)%nat in
          (length rstr <=? length r2)%nat
          && forallb (fun cs => fst cs =? SP) (firstn k r2)
          && str_eqb (fl_chars (skipn k r2)) rstr
      end
  end.

Definition rows_text_b (exp : option (list str)) (rows : list fl) : bool :=
  match exp with
  | None => true
  | Some ss => all2 (fun s r => str_eqb s (fl_chars r)) ss rows
  end.

(* An exact rectangle around intact content:
   - all lines have the same cell width (= expect_w when given),
   - nt rows, then one row per child line, then nb rows,
   - every child row is  lstr . child line . spaces . rstr,
   - the top / bottom rows are the given strings when given. *)
Definition frame_ok_b (expect_w : option Z) (nt nb : nat) (lstr rstr : str)
           (tops bots : option (list str)) (child_lines lines : list fl) : bool :=
  let w := match lines with [] => 0 | l :: _ => fl_len l end in
  let nc := length child_lines in
  forallb (fun l => fl_len l =? w) lines
  && match expect_w, lines with Some W, _ :: _ => w =? W | _, _ => true end
  && (length lines =? nt + nc + nb)%nat
  && all2 (row_ok_b lstr rstr) child_lines (firstn nc (skipn nt lines))
  && rows_text_b tops (firstn nt lines)
  && rows_text_b bots (skipn (nt + nc) lines).

(* transparent wrappers: same characters line by line (styles may be overlaid) *)
Definition same_chars_b (a b : list fl) : bool :=
  all2 (fun x y => str_eqb (fl_chars x) (fl_chars y)) a b.

(* Rule: exactly W cells *)
Definition rule_exact_b (W : Z) (ln : str) : bool := cell_len ln =? W.
Definition rule_lines_b (W : Z) (lines : list str) : bool :=
  match lines with [l] => rule_exact_b W l | _ => false end.

(* Bar / ProgressBar: never wider than W; exactly W when `exact` *)
Definition bar_within_b (W : Z) (exact : bool) (ln : str) : bool :=
  (cell_len ln <=? W) && (if exact then cell_len ln =? W else true).

(* ---- Columns.  grid = table rows of item indices, -1 = blank. *)
Definition nonblank (l : list Z) : list Z := filter (fun x => negb (x =? -1)) l.
Fixpoint iota (k : nat) (from : Z) : list Z :=
  match k with O => [] | S k' => from :: iota k' (from + 1) end.
Definition zlist_eqb := list_eqb Z.eqb.

Fixpoint column_of (c : nat) (grid : list (list Z)) : list Z :=
  match grid with [] => [] | row :: rest => nth c row (-1) :: column_of c rest end.

(* every one of the n items exactly once, in the documented order; every row has cc cells; blanks
   only after the last item in row-major reading order *)
Definition columns_once_b (cf rtl : bool) (n : nat) (cc : Z) (grid : list (list Z)) : bool :=
  let grid := if rtl then map (@rev Z) grid else grid in
  let ccn := Z.to_nat cc in
  forallb (fun row => (length row =? ccn)%nat) grid
  && zlist_eqb (nonblank (if cf then flat_map (fun c => column_of c grid) (seq 0 ccn) else concat grid))
               (iota n 0)
  && zlist_eqb (nonblank (firstn n (concat grid))) (firstn n (concat grid))
  && (n <=? length (concat grid))%nat.

(* rendering the SAME object again gives the same lines / the same grid (no exhaustion, no aliasing) *)
Definition same_render_b (a b : list str) : bool := list_eqb str_eqb a b.
Definition same_grid_b (a b : list (list Z)) : bool := list_eqb zlist_eqb a b.

(* Printing a frame: the printed lines are the frame rendered at the effective width E, none is wider than
   the console, and (for frames that fill their width) every line is exactly E cells *)
Definition print_ok_b (E W : Z) (exact : bool) (rendered printed : list str) : bool :=
  same_render_b rendered printed
  && forallb (fun l => cell_len l <=? W) printed
  && (if exact then forallb (fun l => cell_len l =? E) printed else true).

(* ---- Tree: expected = (depth, label lines) in depth-first order; every output line is a prefix of
   exactly 4*depth cells followed by the label line *)
Definition tree_line_b (d : Z) (lab ln : str) : bool :=
  let k := (length ln - length lab)%nat in
  (length lab <=? length ln)%nat && str_eqb (skipn k ln) lab && (cell_len (firstn k ln) =? 4 * d).

Fixpoint tree_dfs_b (expected : list (Z * list str)) (lines : list str) : bool :=
  match expected with
  | [] => match lines with [] => true | _ => false end
  | (d, labs) :: rest =>
      let k := length labs in
      (k <=? length lines)%nat
      && all2 (tree_line_b d) labs (firstn k lines)
      && tree_dfs_b rest (skipn k lines)
  end.
