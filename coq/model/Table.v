(* L4 table core (C07; reused by C01/C09): rich/table.py `_calculate_column_widths`,
   `_measure_column`, `_get_padding_width`, `_extra_width`, the padding rule of `_get_cells`, and
   the row-assembly of `_render` at the level of cell rectangles; rich/box.py get_top/get_row/
   get_bottom.  Cells are abstract: a measurement function and a rendering function.
   Definitions only.  Models the code that exists; the as-found behaviours that matter are
   parameters: `stale` (D21: table_width is not recomputed after the re-measure), `capmin`
   (expand is capped by min_width) and `lead_mul` (D11: the blank `leading` row is multiplied
   inside one line); false = the repaired code (fixes/C07_*.diff). *)
From RichModel Require Import Prelude Cells Segments Ratio.
From RichGen Require Import BoxChars.

(* ---------------------------------------------------------------- Measurement (the bits used) *)
Definition tm_with_maximum (m : Z * Z) (w : Z) : Z * Z := (Z.min (fst m) w, Z.min (snd m) w).
Definition tm_with_minimum (m : Z * Z) (w : Z) : Z * Z :=
  let w := Z.max 0 w in (Z.max (fst m) w, Z.max (snd m) w).
Definition tm_clamp (m : Z * Z) (mn mx : option Z) : Z * Z :=
  let m := match mn with Some w => tm_with_minimum m w | None => m end in
  match mx with Some w => tm_with_maximum m w | None => m end.
Definition tm_normalize (m : Z * Z) : Z * Z :=
  let minimum := Z.min (Z.max 0 (fst m)) (snd m) in
  (Z.max 0 minimum, Z.max 0 (Z.max minimum (snd m))).

(* `x or 1` on an int *)
Definition or1 (z : Z) : Z := if z =? 0 then 1 else z.
Definition opt_or (o : option Z) (d : Z) : Z :=
  match o with Some z => if z =? 0 then d else z | None => d end.

(* ---------------------------------------------------------------- options, columns *)
Record topts := mkOpts {
  o_box : bool;          (* self.box is not None *)
  o_edge : bool;         (* show_edge *)
  o_header : bool;       (* show_header *)
  o_footer : bool;       (* show_footer *)
  o_lines : bool;        (* show_lines *)
  o_leading : Z;
  o_pad : Z * Z * Z * Z; (* Padding.unpack(padding): top, right, bottom, left *)
  o_collapse : bool;     (* collapse_padding *)
  o_pad_edge : bool;
  o_expand : bool;       (* the constructor argument; Table.expand also looks at width *)
  o_width : option Z;
  o_minw : option Z
}.

Record tcol := mkCol {
  c_width : option Z;
  c_minw : option Z;
  c_maxw : option Z;
  c_ratio : option Z;
  c_nowrap : bool;
  (* Measurement.get(console, padded cell, max_width) for every cell _get_cells yields
     (header if shown, the rows, footer if shown) *)
  c_cells : list (Z -> Z * Z)
}.

Definition pad_top (o : topts) := let '(t, _, _, _) := o_pad o in t.
Definition pad_right (o : topts) := let '(_, r, _, _) := o_pad o in r.
Definition pad_bottom (o : topts) := let '(_, _, b, _) := o_pad o in b.
Definition pad_left (o : topts) := let '(_, _, _, l) := o_pad o in l.

(* Table.expand property *)
Definition t_expand (o : topts) : bool :=
  o_expand o || match o_width o with Some _ => true | None => false end.

(* Table._extra_width *)
Definition extra_width (o : topts) (ncols : nat) : Z :=
  (if o_box o && o_edge o then 2 else 0) + (if o_box o then Z.of_nat ncols - 1 else 0).

(* Table._get_padding_width *)
Definition padding_width (o : topts) (idx : nat) : Z :=
  let pl := if o_collapse o && (0 <? idx)%nat then Z.max 0 (pad_left o - pad_right o) else pad_left o in
  pl + pad_right o.

(* _get_cells.add_padding: None = the renderable is used as is (no Padding object) *)
Definition cell_padding (o : topts) (ncols idx : nat) (first_row last_row : bool)
  : option (Z * Z * Z * Z) :=
  let '(pt, pr, pb, pl) := o_pad o in
  if (pt =? 0) && (pr =? 0) && (pb =? 0) && (pl =? 0) then None
  else
    let first_column := (idx =? 0)%nat in
    let last_column := (Z.of_nat idx =? Z.of_nat ncols - 1) in
    let pl := if o_collapse o && negb first_column then Z.max 0 (pl - pr) else pl in
    let pb := if o_collapse o && negb last_row then Z.max 0 (pt - pb) else pb in
    let pl := if negb (o_pad_edge o) && first_column then 0 else pl in
    let pr := if negb (o_pad_edge o) && last_column then 0 else pr in
    let pt := if negb (o_pad_edge o) && first_row then 0 else pt in
    let pb := if negb (o_pad_edge o) && last_row then 0 else pb in
    Some (pt, pr, pb, pl).

(* Python max() of a list with the `if xs else default` guard of _measure_column *)
Definition max_or (l : list Z) (d : Z) : Z :=
  match max_list l with Some m => m | None => d end.

(* Table._measure_column *)
Definition measure_column (o : topts) (idx : nat) (c : tcol) (max_width : Z) : Z * Z :=
  if max_width <? 1 then (0, 0)
  else
    let pw := padding_width o idx in
    match c_width c with
    | Some w => tm_with_maximum (w + pw, w + pw) max_width
    | None =>
        let ms := map (fun f => f max_width) (c_cells c) in
        let m := (max_or (map fst ms) 1, max_or (map snd ms) max_width) in
        tm_clamp (tm_with_maximum m max_width)
                 (match c_minw c with Some w => Some (w + pw) | None => None end)
                 (match c_maxw c with Some w => Some (w + pw) | None => None end)
    end.

Definition flexible (c : tcol) : bool := match c_ratio c with Some _ => true | None => false end.
Definition wrapable (c : tcol) : bool :=
  match c_width c with None => negb (c_nowrap c) | Some _ => false end.

Fixpoint indexed {A} (i : nat) (l : list A) : list (nat * A) :=
  match l with [] => [] | x :: r => (i, x) :: indexed (S i) r end.

(* the `for index, column in enumerate(columns): if column.flexible: widths[index] = fixed + next(it)` loop *)
Fixpoint assign_flex (cols : list tcol) (widths fixed flex : list Z) : res (list Z) :=
  match cols, widths, fixed with
  | c :: cs, w :: ws, f :: fs =>
      if flexible c then
        match flex with
        | [] => Crash K_StopIteration
        | x :: flex' => do rest <- assign_flex cs ws fs flex'; Ok (f + x :: rest)
        end
      else do rest <- assign_flex cs ws fs flex; Ok (w :: rest)
  | _, _, _ => Ok widths
  end.

Definition zip_add (a b : list Z) : list Z := map (fun '(x, y) => x + y) (combine a b).

(* Table._calculate_column_widths.
   stale = true: as found in 9.10.0 (table_width keeps the value computed before the re-measure);
   stale = false: table_width = sum(widths) after the re-measure.
   capmin = true: as found (an expanding table that also has min_width is only padded up to
   min_width); capmin = false: min_width caps the padding only when the table does not expand. *)
Definition calc_widths (stale capmin : bool) (o : topts) (cols : list tcol) (max_width : Z) : res (list Z) :=
  let n := length cols in
  let icols := indexed 0 cols in
  let ranges := map (fun '(i, c) => measure_column o i c max_width) icols in
  let widths := map (fun r => or1 (snd r)) ranges in
  let extra := extra_width o n in
  do widths <-
    (if t_expand o then
       let ratios := map (fun c => opt_or (c_ratio c) 0) (filter flexible cols) in
       if any_nonzero ratios then
         let fixed := map (fun '(r, c) => if flexible c then 0 else snd r) (combine ranges cols) in
         let flex_min := map (fun '(i, c) => opt_or (c_width c) 1 + padding_width o i)
                             (filter (fun ic => flexible (snd ic)) icols) in
         let flexible_width := max_width - sumZ fixed in
         do fw <- ratio_distribute flexible_width ratios (Some flex_min);
         assign_flex cols widths fixed fw
       else Ok widths
     else Ok widths);
  let table_width := sumZ widths in
  do wt <-
    (if max_width <? table_width then
       do w1 <- collapse_widths widths (map wrapable cols) max_width;
       let tw1 := sumZ w1 in
       let '(w2, tw2) :=
         if max_width <? tw1 then
           let w := ratio_reduce (tw1 - max_width) (repeat 1 (length w1)) w1 w1 in (w, sumZ w)
         else (w1, tw1) in
       let w3 := map (fun '(w, (i, c)) => or1 (snd (measure_column o i c w))) (combine w2 icols) in
       Ok (w3, if stale then tw2 else sumZ w3)
     else Ok (widths, table_width));
  let '(widths, table_width) := wt in
  if ((table_width <? max_width) && t_expand o)
     || match o_minw o with Some m => table_width <? m - extra | None => false end
  then
    let mw := match o_minw o with
              | None => max_width
              | Some m => if negb capmin && t_expand o then max_width else Z.min (m - extra) max_width
              end in
    do pad <- ratio_distribute (mw - table_width) widths None;
    Ok (zip_add widths pad)
  else Ok widths.

(* The same solver with the flexible minimum of fixes/C07_ratio_column_minimum.diff as a third
   variant switch.  flexmin = false: as in rich today, a ratio column is guaranteed
   (width or 1) + padding cells; flexmin = true: at least its measured minimum as well.
   `calc_widths` above is kept verbatim (other layers unfold it); TableP2.calc_widths_x_false
   proves calc_widths_x false = calc_widths. *)
Definition calc_widths_x (flexmin stale capmin : bool) (o : topts) (cols : list tcol) (max_width : Z)
  : res (list Z) :=
  let n := length cols in
  let icols := indexed 0 cols in
  let ranges := map (fun '(i, c) => measure_column o i c max_width) icols in
  let widths := map (fun r => or1 (snd r)) ranges in
  let extra := extra_width o n in
  do widths <-
    (if t_expand o then
       let ratios := map (fun c => opt_or (c_ratio c) 0) (filter flexible cols) in
       if any_nonzero ratios then
         let fixed := map (fun '(r, c) => if flexible c then 0 else snd r) (combine ranges cols) in
         let flex_min := map (fun '(r, (i, c)) =>
                                let base := opt_or (c_width c) 1 + padding_width o i in
                                if flexmin then Z.max base (fst r) else base)
                             (filter (fun ric : (Z * Z) * (nat * tcol) => flexible (snd (snd ric)))
                                     (combine ranges icols)) in
         let flexible_width := max_width - sumZ fixed in
         do fw <- ratio_distribute flexible_width ratios (Some flex_min);
         assign_flex cols widths fixed fw
       else Ok widths
     else Ok widths);
  let table_width := sumZ widths in
  do wt <-
    (if max_width <? table_width then
       do w1 <- collapse_widths widths (map wrapable cols) max_width;
       let tw1 := sumZ w1 in
       let '(w2, tw2) :=
         if max_width <? tw1 then
           let w := ratio_reduce (tw1 - max_width) (repeat 1 (length w1)) w1 w1 in (w, sumZ w)
         else (w1, tw1) in
       let w3 := map (fun '(w, (i, c)) => or1 (snd (measure_column o i c w))) (combine w2 icols) in
       Ok (w3, if stale then tw2 else sumZ w3)
     else Ok (widths, table_width));
  let '(widths, table_width) := wt in
  if ((table_width <? max_width) && t_expand o)
     || match o_minw o with Some m => table_width <? m - extra | None => false end
  then
    let mw := match o_minw o with
              | None => max_width
              | Some m => if negb capmin && t_expand o then max_width else Z.min (m - extra) max_width
              end in
    do pad <- ratio_distribute (mw - table_width) widths None;
    Ok (zip_add widths pad)
  else Ok widths.

(* ConsoleOptions.update on the three fields that travel to a cell: None keeps the inherited value,
   anything else (False included) sets it.  keeps_none = gen/BoxChars.UPDATE_NONE_KEEPS: with a
   truthiness test instead (`if no_wrap:`) a False cannot switch an inherited True off. *)
Record copts := mkCopts { co_justify : Z; co_overflow : Z; co_nowrap : bool }.
Definition co_update (keeps_none : bool) (inh : copts) (j ov : option Z) (nw : option bool) : copts :=
  mkCopts (match j with Some x => x | None => co_justify inh end)
          (match ov with Some x => x | None => co_overflow inh end)
          (match nw with
           | Some b => if keeps_none then b else (if b then true else co_nowrap inh)
           | None => co_nowrap inh
           end).
(* what Table._render hands a cell of column (justify, overflow, no_wrap): always all three *)
Definition cell_copts (keeps_none : bool) (inh : copts) (j ov : Z) (nw : bool) : copts :=
  co_update keeps_none inh (Some j) (Some ov) (Some nw).

(* the width __rich_console__ solves for: Table.width if set, else the available width *)
Definition target_width (o : topts) (avail : Z) : Z :=
  match o_width o with Some w => w | None => avail end.

Definition table_widths (stale capmin : bool) (o : topts) (cols : list tcol) (avail : Z) : res (list Z) :=
  calc_widths stale capmin o cols (target_width o avail - extra_width o (length cols)).
Definition table_widths_x (flexmin stale capmin : bool) (o : topts) (cols : list tcol) (avail : Z) : res (list Z) :=
  calc_widths_x flexmin stale capmin o cols (target_width o avail - extra_width o (length cols)).

(* the tables for which "asked to expand => exactly the width asked for" is claimed (theorem
   C07_table_expand_exact) and checked on the implementation (spec.expand_exact): expand or width
   set; every column free to wrap (no width, no min_width, no no_wrap; max_width / ratio, if given,
   at least 1); non-negative horizontal padding; at least one cell per column beyond the borders.
   A column min_width is excluded on purpose: the collapse levels such a column like any other and
   the re-measure clamps it back up, so the table can end up wider than asked (notes/C07.md). *)
Definition col_free_b (c : tcol) : bool :=
  match c_width c with None => true | Some _ => false end
  && match c_minw c with None => true | Some _ => false end
  && negb (c_nowrap c)
  && match c_maxw c with Some w => 1 <=? w | None => true end
  && match c_ratio c with Some x => 1 <=? x | None => true end.

Definition expand_dom_b (o : topts) (cols : list tcol) (avail : Z) : bool :=
  t_expand o
  && negb (length cols =? 0)%nat
  && forallb col_free_b cols
  && (0 <=? pad_right o) && (0 <=? pad_left o)
  && (extra_width o (length cols) + Z.of_nat (length cols) <=? target_width o avail).

(* ---------------------------------------------------------------- a concrete cell: padded text
   Measurement.get(console, Padding(Text, pad), w) resp. Measurement.get(console, str, w), as a
   function of the text's own measurement (tmin = widest word, tmax = widest line) and the
   left+right padding.  Used to instantiate c_cells in the correspondence check. *)
Definition measure_get (raw : Z * Z) (w : Z) : Z * Z :=
  if w <? 1 then (0, 0)
  else
    let rw := tm_with_maximum (tm_normalize raw) w in
    if snd rw <? 1 then (0, 0) else tm_normalize rw.

Definition text_cell_measure (tmin tmax : Z) (pad : option Z) (w : Z) : Z * Z :=
  match pad with
  | None => measure_get (tmin, tmax) w
  | Some extra =>
      (* Padding.__rich_measure__ *)
      let inner :=
        if w - extra <? 1 then (w, w)
        else
          let '(mn, mx) := measure_get (tmin, tmax) (Z.max 0 (w - extra)) in
          tm_with_maximum (mn + extra, mx + extra) w in
      measure_get inner w
  end.

(* the measurement functions of a column of text cells, padded by the rule of _get_cells:
   raws = Text.__rich_measure__ of header (if shown), rows, footer (if shown) *)
Definition text_cells (o : topts) (ncols idx : nat) (raws : list (Z * Z)) : list (Z -> Z * Z) :=
  let n := length raws in
  map (fun '(k, (tmin, tmax)) =>
         text_cell_measure tmin tmax
           (match cell_padding o ncols idx (k =? 0)%nat (S k =? n)%nat with
            | Some (_, r, _, l) => Some (l + r)
            | None => None
            end))
      (indexed 0 raws).

(* ---------------------------------------------------------------- box.py *)
Record boxc := mkBox {
  top_left : Z; top : Z; top_divider : Z; top_right : Z;
  head_left : Z; head_vertical : Z; head_right : Z;
  head_row_left : Z; head_row_horizontal : Z; head_row_cross : Z; head_row_right : Z;
  mid_left : Z; mid_vertical : Z; mid_right : Z;
  row_left : Z; row_horizontal : Z; row_cross : Z; row_right : Z;
  foot_row_left : Z; foot_row_horizontal : Z; foot_row_cross : Z; foot_row_right : Z;
  foot_left : Z; foot_vertical : Z; foot_right : Z;
  bottom_left : Z; bottom : Z; bottom_divider : Z; bottom_right : Z
}.

(* Box.__init__: eight lines of exactly four characters *)
Definition box_of_lines (ls : list (list Z)) : option boxc :=
  match ls with
  | [[a1; a2; a3; a4]; [b1; _; b3; b4]; [c1; c2; c3; c4]; [d1; _; d3; d4];
     [e1; e2; e3; e4]; [f1; f2; f3; f4]; [g1; _; g3; g4]; [h1; h2; h3; h4]] =>
      Some (mkBox a1 a2 a3 a4 b1 b3 b4 c1 c2 c3 c4 d1 d3 d4 e1 e2 e3 e4 f1 f2 f3 f4 g1 g3 g4 h1 h2 h3 h4)
  | _ => None
  end.

Definition box_chars (b : boxc) : list Z :=
  [top_left b; top b; top_divider b; top_right b; head_left b; head_vertical b; head_right b;
   head_row_left b; head_row_horizontal b; head_row_cross b; head_row_right b;
   mid_left b; mid_vertical b; mid_right b; row_left b; row_horizontal b; row_cross b; row_right b;
   foot_row_left b; foot_row_horizontal b; foot_row_cross b; foot_row_right b;
   foot_left b; foot_vertical b; foot_right b; bottom_left b; bottom b; bottom_divider b; bottom_right b].

(* every box character occupies one cell *)
Definition box_w1 (b : boxc) : bool := forallb (fun c => char_size c =? 1) (box_chars b).

Definition nth_box (i : nat) : option boxc :=
  match nth_error BOXES i with
  | Some (_, _, ls) => box_of_lines ls
  | None => None
  end.

(* the `for last, width in loop_last(widths): append(h * width); if not last: append(cross)` loop *)
Fixpoint box_run (h cross : Z) (widths : list Z) : str :=
  match widths with
  | [] => []
  | [w] => py_repeat h w
  | w :: rest => py_repeat h w ++ cross :: box_run h cross rest
  end.

Definition get_top (b : boxc) (widths : list Z) : str :=
  top_left b :: box_run (top b) (top_divider b) widths ++ [top_right b].
Definition get_bottom (b : boxc) (widths : list Z) : str :=
  bottom_left b :: box_run (bottom b) (bottom_divider b) widths ++ [bottom_right b].

Inductive level := LHead | LRow | LMid | LFoot.
Definition get_row (b : boxc) (widths : list Z) (lv : level) (edge : bool) : str :=
  let '(lft, horizontal, cross, rgt) :=
    match lv with
    | LHead => (head_row_left b, head_row_horizontal b, head_row_cross b, head_row_right b)
    | LRow => (row_left b, row_horizontal b, row_cross b, row_right b)
    | LMid => (mid_left b, SP, mid_vertical b, mid_right b)
    | LFoot => (foot_row_left b, foot_row_horizontal b, foot_row_cross b, foot_row_right b)
    end in
  (if edge then [lft] else []) ++ box_run horizontal cross widths ++ (if edge then [rgt] else []).

(* ---------------------------------------------------------------- _render, cell rectangles *)
Notation line := (list (seg Z)).

(* a cell as _render sees it: console.render_lines(cell.renderable, options(width=w), style) *)
Definition cell := Z -> list line.

Record trow := mkRow { r_cells : list cell; r_end_section : bool; r_style : option Z }.

Definition bseg (s : str) : seg Z := mkSeg s None false.

(* render every cell of a row at its column width, then set_shape to (width, max_height) *)
Definition shape_row (widths : list Z) (r : trow) : list (list line) * nat :=
  let raw := map (fun '(w, c) => (w, c w)) (combine widths (r_cells r)) in
  let h := fold_left Nat.max (map (fun wc => length (snd wc)) raw) 1%nat in
  (map (fun '(w, ls) => set_shape ls w (Some (Z.of_nat h)) (r_style r)) raw, h).

(* rendered_cell[line_no] for every cell: heads, and the remaining lines *)
Fixpoint heads_tails {A} (cells : list (list A)) : option (list A * list (list A)) :=
  match cells with
  | [] => Some ([], [])
  | c :: cs =>
      match c, heads_tails cs with
      | l :: ls, Some (hs, ts) => Some (l :: hs, ls :: ts)
      | _, _ => None
      end
  end.

(* `for last_cell, rendered_cell in loop_last(cells): yield from cell_line; if not last: yield divider` *)
Fixpoint join_cells (divider : option (seg Z)) (ls : list line) : line :=
  match ls with
  | [] => []
  | [l] => l
  | l :: rest => l ++ (match divider with Some d => [d] | None => [] end) ++ join_cells divider rest
  end.

Fixpoint hcat (h : nat) (cells : list (list line)) (mk : list line -> line) : res (list line) :=
  match h with
  | O => Ok []
  | S h' =>
      match heads_tails cells with
      | None => Crash K_IndexError
      | Some (hs, ts) => do rest <- hcat h' ts mk; Ok (mk hs :: rest)
      end
  end.

(* the content lines of one row *)
Definition row_body (o : topts) (b : option boxc) (widths : list Z) (first last : bool) (r : trow)
  : res (list line) :=
  let '(cells, h) := shape_row widths r in
  match b with
  | Some bx =>
      let '(l, rt, d) :=
        (* box_segments = [head, foot, mid]; index `0 if first else (2 if last else 1)`:
           as written the LAST row takes the mid characters and the middle rows the foot ones *)
        if first then (head_left bx, head_right bx, head_vertical bx)
        else if last then (mid_left bx, mid_right bx, mid_vertical bx)
        else (foot_left bx, foot_right bx, foot_vertical bx) in
      hcat h cells (fun hs =>
        (if o_edge o then [bseg [l]] else []) ++ join_cells (Some (bseg [d])) hs
        ++ (if o_edge o then [bseg [rt]] else []))
  | None => hcat h cells (fun hs => join_cells None hs)
  end.

(* separator lines emitted before / after the content lines of row `index` of `nrows` *)
Definition row_pre (o : topts) (b : option boxc) (widths : list Z) (last : bool) : list line :=
  match b with
  | Some bx => if last && o_footer o then [[bseg (get_row bx widths LFoot (o_edge o))]] else []
  | None => []
  end.

Definition row_post (lead_mul : bool) (o : topts) (b : option boxc) (widths : list Z)
           (index nrows : nat) (first last : bool) (r : trow) : list line :=
  match b with
  | None => []
  | Some bx =>
      let header_row := first && o_header o in
      let footer_row := last && o_footer o in
      let head := if first && o_header o then [[bseg (get_row bx widths LHead (o_edge o))]] else [] in
      let end_section := negb header_row && negb footer_row && r_end_section r in
      let sep :=
        if (o_lines o || negb (o_leading o =? 0) || end_section)
           && negb last
           && negb (o_footer o && (Z.of_nat nrows - 2 <=? Z.of_nat index))
           && negb (o_header o && header_row)
        then
          if negb (o_leading o =? 0) then
            let mid := get_row bx widths LMid (o_edge o) in
            if lead_mul then [[bseg (concat (repeat mid (Z.to_nat (o_leading o))))]]
            else repeat [bseg mid] (Z.to_nat (o_leading o))
          else [[bseg (get_row bx widths LRow (o_edge o))]]
        else [] in
      head ++ sep
  end.

(* one row's block of lines *)
Definition row_block (lead_mul : bool) (o : topts) (b : option boxc) (widths : list Z)
           (index nrows : nat) (r : trow) : res (list line) :=
  let first := (index =? 0)%nat in
  let last := (S index =? nrows)%nat in
  do body <- row_body o b widths first last r;
  Ok (row_pre o b widths last ++ body ++ row_post lead_mul o b widths index nrows first last r).

Fixpoint row_blocks (lead_mul : bool) (o : topts) (b : option boxc) (widths : list Z)
         (index nrows : nat) (rows : list trow) : res (list (list line)) :=
  match rows with
  | [] => Ok []
  | r :: rest =>
      do blk <- row_block lead_mul o b widths index nrows r;
      do blks <- row_blocks lead_mul o b widths (S index) nrows rest;
      Ok (blk :: blks)
  end.

Definition table_top (o : topts) (b : option boxc) (widths : list Z) : list line :=
  match b with Some bx => if o_edge o then [[bseg (get_top bx widths)]] else [] | None => [] end.
Definition table_bottom (o : topts) (b : option boxc) (widths : list Z) : list line :=
  match b with Some bx => if o_edge o then [[bseg (get_bottom bx widths)]] else [] | None => [] end.

(* Table._render: the lines of the table body (each line without its trailing newline segment).
   rows = row_cells of the code: header first when shown, footer last when shown. *)
Definition render_table (lead_mul : bool) (o : topts) (b : option boxc) (widths : list Z)
           (rows : list trow) : res (list line) :=
  do blks <- row_blocks lead_mul o b widths 0 (length rows) rows;
  Ok (table_top o b widths ++ concat blks ++ table_bottom o b widths).

Definition line_text (l : line) : str :=
  concat (map (fun g => if ctl g then [] else txt g) l).
