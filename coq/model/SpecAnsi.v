(* Spec-level statement of C03: what a stream of styled segments is SUPPOSED to mean, and boolean
   checkers comparing that with what the independent interpreter TermSgr makes of a byte string.
   The checkers are used in the theorem statements (props/C03.v) and, through the driver, on the
   bytes the IMPLEMENTATION wrote.  Definitions only. *)
From RichModel Require Import Prelude Color Style SpecColor TermSgr Ansi.

(* ------------------------------------------------------------------ hypotheses on the input *)
(* text that is not itself an escape sequence: no ESC, BEL, 8-bit CSI, 8-bit OSC *)
Definition plain_char (c : Z) : bool := negb ((c =? 27) || (c =? 7) || (c =? 155) || (c =? 157)).
Definition plain_text (s : str) : bool := forallb plain_char s.
(* a hyperlink target must not end the OSC string early (ESC, BEL, 8-bit ST) *)
Definition osc_safe_char (c : Z) : bool := negb ((c =? 27) || (c =? 7) || (c =? 156)).
Definition link_ok (l : str) : bool := forallb osc_safe_char l.
(* the link id sits in the parameter field: additionally no ';' *)
Definition lid_ok (l : str) : bool := forallb (fun c => osc_safe_char c && negb (c =? 59)) l.

Definition opt_color_wf (c : option color) : bool :=
  match c with None => true | Some c => wf_color_b c end.
Definition style_wf (s : style) : bool :=
  opt_color_wf (s_color s) && opt_color_wf (s_bgcolor s)
  && match s_link s with Some l => link_ok l | None => true end.

(* the `_ansi` memo was produced by _make_ansi_codes of this very style for SOME colour system *)
Definition memo_honest (s : style) (m : memo) : bool :=
  match m with
  | None => true
  | Some (sys0, a) => match make_ansi_codes s sys0 with Ok a' => str_eqb a a' | _ => false end
  end.
Definition memo_fresh (m : memo) : bool := match m with None => true | Some _ => false end.
(* ... and, for the code as found, for the colour system it is used with now *)
Definition memo_same_system (k : cfg) (m : memo) : bool :=
  match m, k_system k with
  | Some (sys0, _), Some sys => ColorSystem_eqb sys0 sys
  | _, _ => true
  end.

(* control codes that leave the rendition alone: interpreted from the reset state they end in the
   reset state, outside any sequence (cursor movement, erase, show/hide cursor, CR, LF ...) *)
Definition neutral_b (text : str) : bool :=
  let '(m, st, _) := run PGround t_reset text in is_ground m && tstate_eqb st t_reset.

Definition dropped (k : cfg) (g : aseg) : bool := negb (k_terminal k) && a_ctl g.

Definition seg_ok (k : cfg) (g : aseg) : bool :=
  lid_ok (a_lid g) &&
  match style_truthy (a_style g) with
  | Some s => style_wf s && memo_honest s (a_memo g)
              && (k_fix_d16 k || memo_same_system k (a_memo g))
              && ((k_fix_ctl k && dropped k g) || plain_text (a_text g))
              && (k_fix_ctl k || negb (dropped k g))
  | None => if a_ctl g then negb (k_terminal k) || neutral_b (a_text g) else plain_text (a_text g)
  end.
Definition segs_ok (k : cfg) (segs : list aseg) : bool := forallb (seg_ok k) segs.

(* ------------------------------------------------------------------ the expected meaning *)
(* rich's attribute bits, by the names of docs/source/style.rst, as terminal flags in the order
   F_BOLD F_FAINT F_ITALIC F_UNDERLINE F_BLINK F_RAPID F_NEGATIVE F_CONCEAL F_CROSSED F_DUNDERLINE
   F_FRAMED F_ENCIRCLED F_OVERLINED.  An attribute is ON when it is set and true. *)
Definition want_flags (s : style) : list bool :=
  let w := Z.land (s_attributes s) (s_set_attributes s) in
  [ has_bit w 0  (* bold *);      has_bit w 1  (* dim *);       has_bit w 2  (* italic *);
    has_bit w 3  (* underline *); has_bit w 4  (* blink *);     has_bit w 5  (* blink2 *);
    has_bit w 6  (* reverse *);   has_bit w 7  (* conceal *);   has_bit w 8  (* strike *);
    has_bit w 9  (* underline2 *); has_bit w 10 (* frame *);    has_bit w 11 (* encircle *);
    has_bit w 12 (* overline *) ].

(* a colour of the console's colour system as the terminal sees it: the 16 standard / legacy
   Windows colours ARE entries 0..15 of the 256-colour palette *)
Definition tcolor_of (c : color) : tcolor :=
  match c_type c, c_number c, c_triplet c with
  | CT_DEFAULT, _, _ => TDefault
  | CT_TRUECOLOR, _, Some t => TRgb (t_red t) (t_green t) (t_blue t)
  | CT_TRUECOLOR, _, None => TDefault
  | _, Some n, _ => TIdx n
  | _, None, _ => TDefault
  end.
(* the documented down-conversion (C18), then the terminal's view of it *)
Definition want_color (sys : ColorSystem) (no_color : bool) (c : option color) : tcolor :=
  if no_color then TDefault
  else match c with
       | None => TDefault
       | Some c => match downgrade c sys with Ok d => tcolor_of d | _ => TDefault end
       end.
Definition want_link (legacy : bool) (s : style) : option str :=
  if legacy then None else match s_link s with Some ((_ :: _) as l) => Some l | _ => None end.

(* how a character printed with style s must look on console k *)
Definition visible (k : cfg) (s : style) : tstate :=
  match k_system k with
  | None => t_reset
  | Some sys => mkT (want_flags s) (want_color sys (k_no_color k) (s_color s))
                    (want_color sys (k_no_color k) (s_bgcolor s)) (want_link (k_legacy k) s)
  end.

Definition expected_seg (k : cfg) (g : aseg) : list cell :=
  if dropped k g then []
  else match style_truthy (a_style g) with
  | Some s => map (mk_cell (visible k s)) (a_text g)
  | None => if a_ctl g then interp (a_text g) else map (mk_cell t_reset) (a_text g)
  end.
Definition expected (k : cfg) (segs : list aseg) : list cell := flat_map (expected_seg k) segs.

(* ------------------------------------------------------------------ checkers on a byte string *)
(* the stream means what the segments say, and nothing is left switched on at its end *)
Definition stream_means_b (k : cfg) (segs : list aseg) (bytes : str) : bool :=
  let '(m, st, ev) := run PGround t_reset bytes in
  cells_eqb (cells_of ev) (expected k segs) && is_ground m && tstate_eqb st t_reset.

Definition no_escape_b (bytes : str) : bool :=
  forallb (fun c => negb ((c =? 27) || (c =? 155) || (c =? 157))) bytes.

Definition color_param (p : Z) : bool := between 30 49 p || between 90 107 p.
Definition no_color_params_b (bytes : str) : bool :=
  forallb (fun p => negb (color_param p)) (sgr_params_of (events bytes)).

(* nothing but SGR and OSC 8 sequences and text: no other control function *)
Definition no_controls_b (bytes : str) : bool := (others_of (events bytes) =? 0)%nat.

Definition all_plain_noncontrol (segs : list aseg) : bool :=
  forallb (fun g => negb (a_ctl g) && plain_text (a_text g)) segs.

(* ------------------------------------------------------------------ histories *)
(* the fields of the current object after a derivation (memo-free: this is the SPEC side) *)
Definition hop_style (s : style) (op : hop) : style :=
  match op with
  | HRender _ _ => s
  | HWithoutColor => style_without_color s
  | HCopy => fst (obj_copy (s, None))
  | HUpdateLink l => style_update_link true s l
  | HAddRight b => fst (obj_add (s, None) (b, None))
  | HAddLeft b => fst (obj_add (b, None) (s, None))
  end.

(* everything the property says about ONE write of Segment(text, s) by console k *)
Definition render_ok_b (k : cfg) (s : style) (text lid out : str) : bool :=
  stream_means_b k [mkASeg text (Some s) lid None false] out
  && (negb (k_no_color k) || no_color_params_b out)
  && match k_system k with None => no_escape_b out | Some _ => true end
  && (k_terminal k || no_controls_b out).

(* every write of a history is right for the style the object has at that moment,
   whatever was rendered or derived before *)
Fixpoint hist_ok_b (lid : str) (s : style) (ops : list hop) (outs : list str) : bool :=
  match ops with
  | [] => match outs with [] => true | _ => false end
  | HRender k text :: r =>
      match outs with
      | out :: outs' => render_ok_b k s text lid out && hist_ok_b lid s r outs'
      | [] => false
      end
  | op :: r => hist_ok_b lid (hop_style s op) r outs
  end.

(* the inputs the history theorems quantify over *)
Definition hop_ok (op : hop) : bool :=
  match op with
  | HRender k text => plain_text text && k_fix_d16 k
  | HUpdateLink (Some l) => link_ok l
  | HAddRight b | HAddLeft b => style_wf b
  | _ => true
  end.

(* ------------------------------------------------------------------ NO_COLOR convention (no-color.org) *)
(* colour is off when the keyword says so, else exactly when the variable NO_COLOR is PRESENT,
   whatever its value (empty, "0", ...) *)
Definition no_color_convention_b (arg : option bool) (present : bool) (got : bool) : bool :=
  Bool.eqb got (match arg with Some b => b | None => present end).
