(* Spec-level checkers for C18: boolean functions used both in the theorem statements
   (props/C18.v) and, through the driver, on the IMPLEMENTATION's outputs. Definitions only. *)
From RichModel Require Import Prelude Color.
From RichGen Require Import Palettes.

Definition in_range (lo hi z : Z) : bool := (lo <=? z) && (z <=? hi).
Definition channel_b (z : Z) : bool := in_range 0 255 z.
Definition triplet_ok_b (t : ColorTriplet) : bool :=
  channel_b (t_red t) && channel_b (t_green t) && channel_b (t_blue t).
Definition palette_ok_b (pal : list (Z * Z * Z)) : bool :=
  forallb (fun p => triplet_ok_b (triplet_of p)) pal.

(* a colour as built by a public constructor (parse, from_ansi 0..255, from_rgb/from_triplet with
   channels 0..255, default) or returned by downgrade *)
Definition wf_color_b (c : color) : bool :=
  match c_type c, c_number c, c_triplet c with
  | CT_DEFAULT, None, None => true
  | CT_STANDARD, Some n, None => in_range 0 15 n
  | CT_WINDOWS, Some n, None => in_range 0 15 n
  | CT_EIGHT_BIT, Some n, None => in_range 0 255 n
  | CT_TRUECOLOR, None, Some t => triplet_ok_b t
  | _, _, _ => false
  end.

(* representable in a colour system: the default colour always; standard / legacy Windows: one of
   the 16 indices of that kind; 256: any indexed colour (an index below 16 keeps its 16-colour
   kind); truecolor: everything *)
Definition in_gamut_b (sys : ColorSystem) (c : color) : bool :=
  wf_color_b c &&
  match sys, c_type c with
  | _, CT_DEFAULT => true
  | CS_TRUECOLOR, _ => true
  | CS_STANDARD, CT_STANDARD => true
  | CS_WINDOWS, CT_WINDOWS => true
  | CS_EIGHT_BIT, CT_STANDARD | CS_EIGHT_BIT, CT_EIGHT_BIT | CS_EIGHT_BIT, CT_WINDOWS => true
  | _, _ => false
  end.

Definition idempotent_b (once twice : color) : bool := color_eqb once twice.
(* a colour that was representable comes back unchanged *)
Definition unchanged_b (sys : ColorSystem) (c out : color) : bool :=
  negb (in_gamut_b sys c) || color_eqb c out.
Definition default_stays_b (c out : color) : bool :=
  negb (ColorType_eqb (c_type c) CT_DEFAULT) || color_eqb c out.
Definition name_kept_b (c out : color) : bool := str_eqb (c_name c) (c_name out).

(* k is the FIRST index of an entry of minimal weighted distance to t *)
Definition nearest_b (pal : list (Z * Z * Z)) (t : ColorTriplet) (k : Z) : bool :=
  let ds := map (color_dist2 t) pal in
  (0 <=? k) &&
  match nth_error ds (Z.to_nat k) with
  | None => false
  | Some dk => forallb (fun d => dk <=? d) ds && forallb (fun d => dk <? d) (firstn (Z.to_nat k) ds)
  end.

(* the 16-colour result of a conversion is the nearest entry of the target palette to the
   colour's RGB value (its own triplet, or its 8-bit palette entry) *)
Definition source_triplet (c : color) : option ColorTriplet :=
  match c_type c with
  | CT_TRUECOLOR => c_triplet c
  | CT_EIGHT_BIT | CT_WINDOWS | CT_STANDARD =>
      match c_number c with
      | Some n => match py_index EIGHT_BIT_PALETTE n with Some p => Some (triplet_of p) | None => None end
      | None => None
      end
  | CT_DEFAULT => None
  end.
Definition palette_of (sys : ColorSystem) : list (Z * Z * Z) :=
  match sys with CS_WINDOWS => WINDOWS_PALETTE | _ => STANDARD_PALETTE end.
(* does converting c to sys go through Palette.match? *)
Definition goes_through_match (sys : ColorSystem) (c : color) : bool :=
  match sys, c_type c, c_number c with
  | CS_STANDARD, CT_TRUECOLOR, _ | CS_STANDARD, CT_EIGHT_BIT, _ | CS_STANDARD, CT_WINDOWS, _ => true
  | CS_WINDOWS, CT_TRUECOLOR, _ => true
  | CS_WINDOWS, CT_EIGHT_BIT, Some n => 16 <=? n
  | _, _, _ => false
  end.
Definition nearest_color_b (sys : ColorSystem) (c out : color) : bool :=
  negb (goes_through_match sys c) ||
  match source_triplet c, c_number out with
  | Some t, Some k => nearest_b (palette_of sys) t k
  | _, _ => false
  end.

(* 256-colour numbers *)
Definition grey_ramp_b (n : Z) : bool := (n =? 16) || (n =? 231) || in_range 232 255 n.
Definition cube_b (n : Z) : bool := in_range 16 231 n.
Definition eight_bit_number_b (t : ColorTriplet) (n : Z) : bool :=
  if (t_red t =? t_green t) && (t_green t =? t_blue t) then grey_ramp_b n
  else cube_b n || in_range 232 255 n.
Definition eight_bit_color_b (sys : ColorSystem) (c out : color) : bool :=
  match sys, c_type c, c_triplet c with
  | CS_EIGHT_BIT, CT_TRUECOLOR, Some t =>
      match c_type out, c_number out with
      | CT_EIGHT_BIT, Some n => eight_bit_number_b t n
      | _, _ => false
      end
  | _, _, _ => true
  end.

(* SGR parameters: the standard ones for the colour's kind *)
Definition dec_of_str (s : str) : option Z :=
  match s with
  | [] => None
  | _ => if forallb is_ascii_digit s
         then let v := fold_left (fun acc c => acc * 10 + (c - 48)) s 0 in
              if str_eqb (str_of_Z v) s then Some v else None
         else None
  end.
Fixpoint all_some {A} (l : list (option A)) : option (list A) :=
  match l with
  | [] => Some []
  | Some a :: r => match all_some r with Some r' => Some (a :: r') | None => None end
  | None :: _ => None
  end.

Definition codes_ok_b (c : color) (foreground : bool) (codes : list str) : bool :=
  match all_some (map dec_of_str codes) with
  | None => false
  | Some ks =>
      match c_type c, c_number c, c_triplet c, ks with
      | CT_DEFAULT, _, _, [k] => k =? (if foreground then 39 else 49)
      | CT_STANDARD, Some n, _, [k] | CT_WINDOWS, Some n, _, [k] =>
          in_range 0 15 n &&
          (if foreground
           then (in_range 30 37 k && (k - 30 =? n)) || (in_range 90 97 k && (k - 90 =? n - 8))
           else (in_range 40 47 k && (k - 40 =? n)) || (in_range 100 107 k && (k - 100 =? n - 8)))
      | CT_EIGHT_BIT, Some n, _, [a; b; k] =>
          (a =? (if foreground then 38 else 48)) && (b =? 5) && (k =? n) && in_range 0 255 n
      | CT_TRUECOLOR, _, Some t, [a; b; r; g; bl] =>
          (a =? (if foreground then 38 else 48)) && (b =? 2)
          && (r =? t_red t) && (g =? t_green t) && (bl =? t_blue t) && triplet_ok_b t
      | _, _, _, _ => false
      end
  end.

(* everything the property says about one conversion  c --sys--> once --sys--> twice *)
Definition conversion_ok_b (sys : ColorSystem) (c once twice : color) : bool :=
  in_gamut_b sys once && idempotent_b once twice && unchanged_b sys c once && default_stays_b c once
  && name_kept_b c once && nearest_color_b sys c once && eight_bit_color_b sys c once.
