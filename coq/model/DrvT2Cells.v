(* wire glue for the T2 tie (gen/T2_Cells.v): runs functions REGENERATED from the Python source
   so that the translator itself is validated against rich on generated inputs. *)
From RichModel Require Import Prelude Cells Ratio T2Lib.
From RichGen Require Import CellWidthTable T2_Cells.

(* fuel of the string functions: more than the table length and the string length *)
Definition str_fuel (s : str) : nat := S (Nat.max (length CELL_WIDTHS) (length s)).
Definition table_fuel : nat := S (length CELL_WIDTHS).

(* widths of lo, lo+1, ... (n of them) with a Z counter *)
Fixpoint widths_from (n : nat) (cp : Z) : list tree :=
  match n with
  | O => []
  | S n' => (match get_character_cell_size_gen table_fuel cp with Ok w => I w | _ => I (-1) end)
            :: widths_from n' (cp + 1)
  end.

Definition ops : list (string * (tree -> tree)) := [
  ("t2.cw_range", fun t =>
      let lo := tZ (tNth t 0) in
      L (widths_from (Z.to_nat (tZ (tNth t 1) - lo)) lo));
  ("t2.codepoint_cell_size", fun t => ofRes I (get_codepoint_cell_size_gen table_fuel (tZ t)));
  ("t2.set_cell_size", fun t =>
      let s := tStr (tNth t 0) in
      ofRes ofStr (set_cell_size_gen (str_fuel s) cell_len s (tZ (tNth t 1))));
  ("t2.chop_cells", fun t =>
      let s := tStr (tNth t 0) in
      ofRes (ofList ofStr) (chop_cells_gen (str_fuel s) s (tZ (tNth t 1)) (tZ (tNth t 2))))
].
