(* Spec-level checkers for C15.  They are written independently of rich's code: a small
   terminal-text scanner (what is visible of a character stream), an HTML tag stripper and an
   entity decoder.  Used in the theorem statements (props/C15.v) and, through the driver, on the
   implementation's outputs. *)
From RichModel Require Import Prelude Cells Segments Record.

(* ---------- visible text of a terminal stream ----------
   Removed: CSI sequences (ESC [ ... final byte 0x40-0x7e), OSC sequences (ESC ] ... terminated
   by BEL or ESC \), two-character escapes (ESC x), and the C0 control characters other than
   newline, and DEL.  Everything else is visible, in order. *)
Inductive vst := VGround | VEsc | VCsi | VOsc | VOscEsc.

Definition is_c0 (c : Z) : bool := ((c <? 32) && negb (c =? NL)) || (c =? 127).

Definition vstep (s : vst) (c : Z) : vst * str :=
  match s with
  | VGround => if c =? 27 then (VEsc, []) else if is_c0 c then (VGround, []) else (VGround, [c])
  | VEsc => if c =? 91 then (VCsi, []) else if c =? 93 then (VOsc, [])
            else if c =? 27 then (VEsc, []) else (VGround, [])
  | VCsi => if c =? 27 then (VEsc, []) else if (64 <=? c) && (c <=? 126) then (VGround, []) else (VCsi, [])
  | VOsc => if c =? 7 then (VGround, []) else if c =? 27 then (VOscEsc, []) else (VOsc, [])
  | VOscEsc => if c =? 92 then (VGround, []) else if c =? 27 then (VOscEsc, []) else (VOsc, [])
  end.

Fixpoint vrun (s : vst) (t : str) : vst * str :=
  match t with
  | [] => (s, [])
  | c :: r => let '(s1, o1) := vstep s c in let '(s2, o2) := vrun s1 r in (s2, o1 ++ o2)
  end.

Definition visible (t : str) : str := snd (vrun VGround t).

Definition vst_ground (s : vst) : bool := match s with VGround => true | _ => false end.

(* text that is shown as it is: no ESC, no control character but newline *)
Definition plain_b (t : str) : bool := forallb (fun c => negb (c =? 27) && negb (is_c0 c)) t.
(* complete escape sequences / control characters only: shows nothing, leaves the scanner at rest *)
Definition invisible_b (t : str) : bool :=
  let '(s, o) := vrun VGround t in vst_ground s && is_nil o.

(* ---------- HTML: strip tags (quote aware, as an HTML tokenizer does), decode entities ---------- *)
Inductive hst := HText | HTag | HQuote.
Fixpoint strip_go (s : hst) (t : str) : str :=
  match t with
  | [] => []
  | c :: r =>
      match s with
      | HText => if c =? 60 then strip_go HTag r else c :: strip_go HText r
      | HTag => if c =? 62 then strip_go HText r else if c =? 34 then strip_go HQuote r else strip_go HTag r
      | HQuote => if c =? 34 then strip_go HTag r else strip_go HQuote r
      end
  end.
Definition strip_tags (t : str) : str := strip_go HText t.

Fixpoint starts_with (p t : str) : bool :=
  match p, t with
  | [], _ => true
  | a :: p', b :: t' => (a =? b) && starts_with p' t'
  | _ :: _, [] => false
  end.

(* decode &amp; &lt; &gt; (the three entities export_html can produce in text); any other & is
   literal.  Defined from the right: at '&' look at the already decoded remainder -- decoding never
   creates the letters of an entity name, so this is the left-to-right decoder. *)
Definition unescape_step (c : Z) (u : str) : str :=
  if c =? 38 then
    if starts_with (lit "amp;") u then 38 :: skipn 4 u
    else if starts_with (lit "lt;") u then 60 :: skipn 3 u
    else if starts_with (lit "gt;") u then 62 :: skipn 3 u
    else c :: u
  else c :: u.
Definition unescape (t : str) : str := fold_right unescape_step [] t.

Definition html_text (code : str) : str := unescape (strip_tags code).

(* the {code} part of an exported document: after the first "<pre ...>" up to the next "</pre>" *)
Fixpoint after_sub (p t : str) : option str :=
  match t with
  | [] => if is_nil p then Some [] else None
  | c :: r => if starts_with p t then Some (skipn (length p) t) else after_sub p r
  end.
Fixpoint before_sub (p t : str) : option str :=
  match t with
  | [] => if is_nil p then Some [] else None
  | c :: r => if starts_with p t then Some []
              else match before_sub p r with Some b => Some (c :: b) | None => None end
  end.
Definition pre_code (doc : str) : option str :=
  match after_sub (lit "<pre ") doc with
  | None => None
  | Some a =>
      match after_sub [62] a with
      | None => None
      | Some b => before_sub (lit "</pre>") b
      end
  end.

(* ---------- the checkers ---------- *)
(* rendered = everything the console rendered (written to the file or returned by a capture)
   since the record was last emptied; text/html/styled = the three exports taken at that point *)
Definition texts_agree_b (rendered text code styled : str) : bool :=
  str_eqb (visible rendered) text && str_eqb (html_text code) text && str_eqb (visible styled) text.
Definition exports_agree_b (rendered text html styled : str) : bool :=
  match pre_code html with Some code => texts_agree_b rendered text code styled | None => false end.

(* a capture returned what the same calls write without a capture, and wrote nothing *)
Definition capture_ok_b (captured would_be file_delta : str) : bool :=
  str_eqb captured would_be && is_nil file_delta.

Definition seg_eqb (a b : sg) : bool :=
  str_eqb (txt a) (txt b) && opt_eqb (sty a) (sty b) && Bool.eqb (ctl a) (ctl b).
Fixpoint segs_eqb (a b : list sg) : bool :=
  match a, b with
  | [], [] => true
  | x :: a', y :: b' => seg_eqb x y && segs_eqb a' b'
  | _, _ => false
  end.
(* record before / after an export *)
Definition clear_ok_b (clear : bool) (before after : list sg) : bool :=
  if clear then is_nil after else segs_eqb before after.

(* ---------- histories ---------- *)
Definition is_export (o : op) : bool :=
  match o with ExportText _ _ | ExportHtml _ _ => true | _ => false end.
Definition is_clearing (o : op) : bool :=
  match o with ExportText c _ | ExportHtml c _ => c | _ => false end.
Definition is_capture_op (o : op) : bool :=
  match o with BeginCapture | EndCapture => true | _ => false end.

(* brackets: the capture depth never goes below 0 and ends at 0 *)
Fixpoint balanced_from (d : Z) (h : list op) : bool :=
  match h with
  | [] => d =? 0
  | BeginCapture :: r => balanced_from (d + 1) r
  | EndCapture :: r => (1 <=? d) && balanced_from (d - 1) r
  | _ :: r => balanced_from d r
  end.
Definition balanced (h : list op) : bool := balanced_from 0 h.

Definition ret_or_nil (e : event) : str := match ret e with Some r => r | None => [] end.

(* everything rendered since the record was last emptied: file writes and capture results, in order *)
Fixpoint rendered_since_clear (acc : str) (h : list op) (es : list event) : str :=
  match h, es with
  | o :: h', e :: es' =>
      let acc' := if is_clearing o then []
                  else acc ++ written e ++ (match o with EndCapture => ret_or_nil e | _ => [] end) in
      rendered_since_clear acc' h' es'
  | _, _ => acc
  end.

Definition file_of (es : list event) : str := concat (map written es).

(* no call made while a capture is open (and no capture/export call at all) writes to the file *)
Fixpoint capture_silent_from (d : Z) (h : list op) (es : list event) : bool :=
  match h, es with
  | o :: h', e :: es' =>
      (if (0 <? d) || is_capture_op o || is_export o then is_nil (written e) else true)
      && capture_silent_from (match o with BeginCapture => d + 1 | EndCapture => d - 1 | _ => d end) h' es'
  | _, _ => true
  end.
Definition capture_silent_b (h : list op) (es : list event) : bool := capture_silent_from 0 h es.

(* well-formed input of the text theorems: printed text has no escape/control characters, control
   segments (styled or not) are made of complete escape sequences / control characters *)
Definition wf_seg_b (g : sg) : bool :=
  if ctl g then invisible_b (txt g) else plain_b (txt g).
Definition wf_op_b (c : cfg) (o : op) : bool :=
  match op_out c o with Some segs => forallb wf_seg_b segs | None => true end.
Definition wf_hist_b (c : cfg) (h : list op) : bool := forallb (wf_op_b c) h.
