(* L3 style: rich/style.py (class Style, _Bit, NULL_STYLE).      Definitions only, no proofs.

   The record carries, besides the five fields that `__eq__` compares, the three pieces of hidden
   state the properties are about:
     s_null  the `_null` flag (drives the short-cuts of __add__/copy/without_color/__bool__);
     s_hash  the tuple `_hash` was computed from at the moment it was computed (symbolic hash:
             rich stores hash(tuple) at construction, and __add__/copy/update_link/without_color
             each copy some operand's `_hash`);
     s_ansi  the memo `_ansi` of _make_ansi_codes (NOT keyed by colour system: DESIGN D16, C03);
     s_def   the memo `_style_definition` of __str__ (update_link copies it: finding of C06).
   `_link_id` (time()-random) is not modelled; Style.render takes it as a parameter.

   Attribute words are arbitrary integers (Python ints): Z.land / Z.lor / Z.lnot are Python's
   `&`, `|`, `~` on unbounded two's complement.

   Assumptions: functools.lru_cache (Style.parse, Style.normalize) is a pure memo of a
   deterministic function -- BUT the memo makes parsed styles shared objects, which is why the
   s_ansi/s_def memo state is part of the record.  str.split()/str.strip() split on
   str.isspace (gen/ColorRegex.UNI_SPACES, validated against the interpreter by t_color.py);
   str.lower as in Color.v (exact on ASCII and on the characters whose lower() is ASCII). *)
From RichModel Require Import Prelude Color.
From RichGen Require Import StyleTables.

(* ------------------------------------------------------------------ records *)
(* the 5-tuple handed to hash(): (color, bgcolor, attributes, set_attributes, link);
   from_color passes None for the two integers *)
Record hkey : Type := mkHKey {
  hk_color : option color;
  hk_bgcolor : option color;
  hk_attributes : option Z;
  hk_set_attributes : option Z;
  hk_link : option str
}.

Record style : Type := mkStyle {
  s_color : option color;
  s_bgcolor : option color;
  s_attributes : Z;            (* bit i = value of attribute i (meaningful where set) *)
  s_set_attributes : Z;        (* bit i = attribute i is specified *)
  s_link : option str;
  s_null : bool;
  s_hash : hkey;
  s_ansi : option str;
  s_def : option str
}.

(* ------------------------------------------------------------------ small helpers *)
Definition bit_mask (i : Z) : Z := Z.shiftl 1 i.
(* `w & (1 << i)` is non-zero *)
Definition has_bit (w i : Z) : bool := negb (Z.land w (bit_mask i) =? 0).

(* truthiness of an Optional[str] *)
Definition str_truthy (o : option str) : bool :=
  match o with Some (_ :: _) => true | _ => false end.
(* `a or b` on Optional[str] *)
Definition link_or (a b : option str) : option str := if str_truthy a then a else b.
(* `a or b` on Optional[Color]: a Color is a non-empty NamedTuple, always truthy *)
Definition color_or (a b : option color) : option color :=
  match a with Some _ => a | None => b end.

Definition opt_color_eqb (a b : option color) : bool :=
  match a, b with None, None => true | Some x, Some y => color_eqb x y | _, _ => false end.
Definition opt_str_eqb (a b : option str) : bool :=
  match a, b with None, None => true | Some x, Some y => str_eqb x y | _, _ => false end.

Fixpoint str_join (sep : str) (l : list str) : str :=
  match l with
  | [] => []
  | [x] => x
  | x :: r => x ++ sep ++ str_join sep r
  end.

(* number of attributes as a nat *)
Definition n_attrs : nat := Z.to_nat N_ATTRS.

(* ------------------------------------------------------------------ Style.__init__ *)
(* sum((bold is not None, dim is not None and 2, ...)) over the keyword arguments in bit order *)
Fixpoint set_word (flags : list (option bool)) (w : Z) : Z :=
  match flags with
  | [] => 0
  | f :: r => (match f with Some _ => w | None => 0 end) + set_word r (2 * w)
  end.
(* sum((bold and 1 or 0, dim and 2 or 0, ...)) *)
Fixpoint attr_word (flags : list (option bool)) (w : Z) : Z :=
  match flags with
  | [] => 0
  | f :: r => (match f with Some true => w | _ => 0 end) + attr_word r (2 * w)
  end.

(* Style(color=, bgcolor=, bold=, ..., overline=, link=) with colours already Color objects.
   [flags] are the 13 attribute keywords in bit order (missing = None, extra ignored). *)
Definition style_make (color bgcolor : option color) (flags : list (option bool))
                      (link : option str) : style :=
  let fl := firstn n_attrs flags in
  let set := set_word fl 1 in
  let att := if set =? 0 then 0 else attr_word fl 1 in
  mkStyle color bgcolor att set link
          ((set =? 0) && (match color with None => true | _ => false end)
           && (match bgcolor with None => true | _ => false end) && negb (str_truthy link))
          (mkHKey color bgcolor (Some att) (Some set) link)
          None None.

(* a colour keyword: a Color object or a string handed to Color.parse *)
Inductive color_arg : Type := CA_obj (c : color) | CA_str (s : str).
Definition resolve_color (a : option color_arg) : res (option color) :=
  match a with
  | None => Ok None
  | Some (CA_obj c) => Ok (Some c)
  | Some (CA_str s) => do c <- Color.parse true s; Ok (Some c)
  end.
(* the keyword constructor; a colour string that does not parse raises ColorParseError.
   (A str colour is truthy whenever Color.parse accepts it: "" is rejected.) *)
Definition style_kw (color bgcolor : option color_arg) (flags : list (option bool))
                    (link : option str) : res style :=
  do c <- resolve_color color;
  do b <- resolve_color bgcolor;
  Ok (style_make c b flags link).

(* NULL_STYLE = Style() *)
Definition style_null : style := style_make None None [] None.

(* Style.from_color *)
Definition style_from_color (color bgcolor : option color) : style :=
  mkStyle color bgcolor 0 0 None
          (match color, bgcolor with None, None => true | _, _ => false end)
          (mkHKey color bgcolor None None None)
          None None.

(* _Bit.__get__ : style.bold etc. *)
Definition style_attr (s : style) (i : Z) : option bool :=
  if has_bit (s_set_attributes s) i then Some (has_bit (s_attributes s) i) else None.

(* __bool__ *)
Definition style_bool (s : style) : bool := negb (s_null s).

(* __eq__ (both operands Styles) *)
Definition style_eqb (a b : style) : bool :=
  opt_color_eqb (s_color a) (s_color b)
  && opt_color_eqb (s_bgcolor a) (s_bgcolor b)
  && (s_set_attributes a =? s_set_attributes b)
  && (s_attributes a =? s_attributes b)
  && opt_str_eqb (s_link a) (s_link b).

(* ------------------------------------------------------------------ Style.__add__ *)
(* the general branch (neither operand flagged null) *)
Definition style_merge (a b : style) : style :=
  mkStyle (color_or (s_color b) (s_color a))
          (color_or (s_bgcolor b) (s_bgcolor a))
          (Z.lor (Z.land (s_attributes a) (Z.lnot (s_set_attributes b)))
                 (Z.land (s_attributes b) (s_set_attributes b)))
          (Z.lor (s_set_attributes a) (s_set_attributes b))
          (link_or (s_link b) (s_link a))
          (s_null a || s_null b)
          (s_hash b)
          None None.

(* self + style *)
Definition style_add (a b : style) : style :=
  if s_null b then a
  else if s_null a then b
  else style_merge a b.
(* self + Optional[Style] *)
Definition style_add_opt (a : style) (b : option style) : style :=
  match b with None => a | Some b => style_add a b end.

(* Style.combine(styles) / Style.chain( *styles ): sum(iter, next(iter)) *)
Definition style_combine (l : list style) : res style :=
  match l with
  | [] => Crash K_StopIteration
  | s :: r => Ok (fold_left style_add r s)
  end.
Definition style_chain := style_combine.

(* ------------------------------------------------------------------ copies *)
Definition style_copy (s : style) : style :=
  if s_null s then style_null
  else mkStyle (s_color s) (s_bgcolor s) (s_attributes s) (s_set_attributes s) (s_link s)
               false (s_hash s) (s_ansi s) (s_def s).

(* update_link(link).  [fix_def = false] is rich 9.10.0 as found (the `_style_definition` memo of
   the source is copied although the link changes); [true] the proposed repair. *)
Definition style_update_link (fix_def : bool) (s : style) (link : option str) : style :=
  mkStyle (s_color s) (s_bgcolor s) (s_attributes s) (s_set_attributes s) link
          false (s_hash s) (s_ansi s) (if fix_def then None else s_def s).

(* the without_color property *)
Definition style_without_color (s : style) : style :=
  if s_null s then style_null
  else mkStyle None None (s_attributes s) (s_set_attributes s) (s_link s)
               false (s_hash s) None None.

(* background_style, transparent_background *)
Definition style_background_style (s : style) : style := style_make None (s_bgcolor s) [] None.
Definition style_transparent_background (s : style) : bool :=
  match s_bgcolor s with None => true | Some c => is_default c end.

(* pick_first( *values ) *)
Fixpoint style_pick_first {A} (l : list (option A)) : res A :=
  match l with
  | [] => Crash K_ValueError
  | Some v :: _ => Ok v
  | None :: r => style_pick_first r
  end.

(* ------------------------------------------------------------------ hashing *)
(* the tuple of the fields __eq__ compares *)
Definition fields_key (s : style) : hkey :=
  mkHKey (s_color s) (s_bgcolor s) (Some (s_attributes s)) (Some (s_set_attributes s)) (s_link s).
(* what hash(style) is the hash of.  [fix_d4 = false]: rich 9.10.0 as found (the stored `_hash`);
   [true]: the proposed repair (__hash__ computed from the fields __eq__ compares). *)
Definition hash_key (fix_d4 : bool) (s : style) : hkey :=
  if fix_d4 then fields_key s else s_hash s.

Definition optZ_eqb' (a b : option Z) : bool :=
  match a, b with None, None => true | Some x, Some y => x =? y | _, _ => false end.
(* tuple equality of two hash keys (Python: equal tuples hash equally) *)
Definition hkey_eqb (a b : hkey) : bool :=
  opt_color_eqb (hk_color a) (hk_color b) && opt_color_eqb (hk_bgcolor a) (hk_bgcolor b)
  && optZ_eqb' (hk_attributes a) (hk_attributes b)
  && optZ_eqb' (hk_set_attributes a) (hk_set_attributes b)
  && opt_str_eqb (hk_link a) (hk_link b).

(* ------------------------------------------------------------------ _make_ansi_codes *)
Definition style_map_get (bit : Z) : res str :=
  match assoc_Z bit STYLE_MAP with Some s => Ok s | None => Crash K_KeyError end.

(* for bit in bits: if attributes & (1 << bit): append(_style_map[bit]) *)
Fixpoint codes_for (attributes : Z) (bits : list Z) : res (list str) :=
  match bits with
  | [] => Ok []
  | b :: r =>
      if has_bit attributes b
      then do c <- style_map_get b; do cs <- codes_for attributes r; Ok (c :: cs)
      else codes_for attributes r
  end.

(* the attribute part of the SGR list, with the grouping of the code *)
Definition attr_codes (attributes : Z) : res (list str) :=
  if attributes =? 0 then Ok []
  else
    do g0 <- codes_for attributes [0; 1; 2; 3];
    do g1 <- (if Z.land attributes 496 =? 0 then Ok [] else codes_for attributes [4; 5; 6; 7; 8]);
    do g2 <- (if Z.land attributes 7680 =? 0 then Ok [] else codes_for attributes [9; 10; 11; 12]);
    Ok (g0 ++ g1 ++ g2).

Definition color_codes (c : option color) (system : ColorSystem) (foreground : bool) : res (list str) :=
  match c with
  | None => Ok []
  | Some c => do d <- downgrade c system; get_ansi_codes d foreground
  end.

(* the SGR parameter list (before ";".join) *)
Definition sgr_list (s : style) (system : ColorSystem) : res (list str) :=
  do a <- attr_codes (Z.land (s_attributes s) (s_set_attributes s));
  do f <- color_codes (s_color s) system true;
  do b <- color_codes (s_bgcolor s) system false;
  Ok (a ++ f ++ b).

(* Style._make_ansi_codes computed afresh (self._ansi is None) *)
Definition make_ansi_codes (s : style) (system : ColorSystem) : res str :=
  do l <- sgr_list s system; Ok (str_join [59] l).

(* Style._make_ansi_codes as coded: the memo wins whatever the colour system *)
Definition make_ansi_codes_memo (s : style) (system : ColorSystem) : res str :=
  match s_ansi s with Some a => Ok a | None => make_ansi_codes s system end.
(* the object after that call *)
Definition style_set_ansi (s : style) (a : str) : style :=
  mkStyle (s_color s) (s_bgcolor s) (s_attributes s) (s_set_attributes s) (s_link s)
          (s_null s) (s_hash s) (Some a) (s_def s).

(* ------------------------------------------------------------------ Style.render *)
Definition ESC : Z := 27.
(* CSI attrs m text CSI 0 m *)
Definition sgr_wrap (attrs text : str) : str :=
  match attrs with
  | [] => text
  | _ => [ESC; 91] ++ attrs ++ [109] ++ text ++ [ESC; 91; 48; 109]
  end.
(* OSC 8 ; id=<link_id> ; <link> ST rendered OSC 8 ; ; ST *)
Definition link_wrap (link_id link rendered : str) : str :=
  [ESC; 93; 56; 59; 105; 100; 61] ++ link_id ++ [59] ++ link ++ [ESC; 92]
  ++ rendered ++ [ESC; 93; 56; 59; 59; ESC; 92].

(* Style.render(text, color_system=, legacy_windows=), self._link_id = [link_id] *)
Definition style_render (s : style) (text : str) (system : option ColorSystem)
                        (legacy_windows : bool) (link_id : str) : res str :=
  match text, system with
  | [], _ => Ok text
  | _, None => Ok text
  | _, Some cs =>
      do attrs <- make_ansi_codes_memo s cs;
      let rendered := sgr_wrap attrs text in
      match s_link s with
      | Some ((_ :: _) as link) =>
          if legacy_windows then Ok rendered else Ok (link_wrap link_id link rendered)
      | _ => Ok rendered
      end
  end.
(* the style object after render (the memo is filled) *)
Definition style_after_render (s : style) (text : str) (system : option ColorSystem) : res style :=
  match text, system with
  | [], _ => Ok s
  | _, None => Ok s
  | _, Some cs => do a <- make_ansi_codes_memo s cs; Ok (style_set_ansi s a)
  end.

(* ------------------------------------------------------------------ Style.__str__ *)
Definition attr_name (i : Z) : str := nth (Z.to_nat i) ATTR_NAMES [].
(* append("bold" if self.bold else "not bold") guarded by bits & (1 << i).  The appended words are
   later joined with " ", so the one list element "not bold" is represented by the two elements
   "not", "bold" (the joined string is the same character for character). *)
Definition attr_word_str (s : style) (i : Z) : list str :=
  if has_bit (s_set_attributes s) i
  then (if has_bit (s_attributes s) i then [attr_name i] else [lit "not"; attr_name i])
  else [].
(* one `if bits & mask:` group *)
Definition str_group (s : style) (mask : Z) (bits : list Z) : list str :=
  if Z.land (s_set_attributes s) mask =? 0 then [] else flat_map (attr_word_str s) bits.

Definition bit_between (lo hi : Z) (b : Z) : bool := (lo <=? b) && (b <=? hi).

(* the words of the definition *)
Definition style_str_words (s : style) : list str :=
    str_group s 15 (filter (bit_between 0 3) STR_ORDER)
    ++ str_group s 496 (filter (bit_between 4 8) STR_ORDER)
    ++ str_group s 7680 (filter (bit_between 9 12) STR_ORDER)
    ++ (match s_color s with Some c => [c_name c] | None => [] end)
    ++ (match s_bgcolor s with Some c => [lit "on"; c_name c] | None => [] end)
    ++ (match s_link s with Some ((_ :: _) as l) => [lit "link"; l] | _ => [] end).

(* the definition regenerated from the fields: " ".join(attributes) or "none" *)
Definition style_str_fresh (s : style) : str :=
  match str_join [SP] (style_str_words s) with
  | [] => lit "none"
  | d => d
  end.

(* str(style) as coded: the memo wins *)
Definition style_str (s : style) : str :=
  match s_def s with Some d => d | None => style_str_fresh s end.
(* the object after str(style) *)
Definition style_set_def (s : style) : style :=
  mkStyle (s_color s) (s_bgcolor s) (s_attributes s) (s_set_attributes s) (s_link s)
          (s_null s) (s_hash s) (s_ansi s) (Some (style_str s)).

(* ------------------------------------------------------------------ Style.parse *)
(* str.split() without arguments *)
Fixpoint split_ws_go (s : str) (cur : str) : list str :=
  match s with
  | [] => match cur with [] => [] | _ => [rev cur] end
  | c :: r =>
      if is_uni_space c
      then match cur with [] => split_ws_go r [] | _ => rev cur :: split_ws_go r [] end
      else split_ws_go r (c :: cur)
  end.
Definition split_ws (s : str) : list str := split_ws_go s [].

(* the accumulators of the loop: color, bgcolor (words), attributes (bit -> bool; later
   assignments overwrite), link *)
Record pstate : Type := mkPState {
  p_color : option str; p_bgcolor : option str; p_attrs : list (Z * bool); p_link : option str }.

Definition attrs_set (l : list (Z * bool)) (i : Z) (v : bool) : list (Z * bool) :=
  (i, v) :: filter (fun p => negb (fst p =? i)) l.
Definition flags_of (l : list (Z * bool)) : list (option bool) :=
  map (fun i => assoc_Z (Z.of_nat i) l) (seq 0 n_attrs).

(* Color.parse(word) inside parse: ColorParseError -> StyleSyntaxError, anything else escapes *)
Definition check_color (word : str) : res unit :=
  match Color.parse true word with
  | Ok _ => Ok tt
  | Doc e => if e =? E_ColorParseError then Doc E_StyleSyntaxError else Doc e
  | Crash k => Crash k
  end.

(* the for-loop; structurally recursive on the remaining words (each round consumes 1 or 2) *)
Fixpoint parse_words (fuel : nat) (ws : list str) (st : pstate) : res pstate :=
  match fuel with
  | O => Crash K_OutOfFuel
  | S fuel =>
    match ws with
    | [] => Ok st
    | original_word :: rest =>
      let word := py_lower original_word in
      if str_eqb word (lit "on") then
        match rest with
        | [] => Doc E_StyleSyntaxError                    (* color expected after 'on' *)
        | w :: rest' =>
            do _ <- check_color w;
            parse_words fuel rest' (mkPState (p_color st) (Some w) (p_attrs st) (p_link st))
        end
      else if str_eqb word (lit "not") then
        let '(w, rest') := match rest with [] => ([], []) | w :: r => (w, r) end in
        match assoc_str w STYLE_ATTRIBUTES with
        | None => Doc E_StyleSyntaxError                  (* expected style attribute after 'not' *)
        | Some i => parse_words fuel rest' (mkPState (p_color st) (p_bgcolor st) (attrs_set (p_attrs st) i false) (p_link st))
        end
      else if str_eqb word (lit "link") then
        match rest with
        | [] => Doc E_StyleSyntaxError                    (* URL expected after 'link' *)
        | w :: rest' => parse_words fuel rest' (mkPState (p_color st) (p_bgcolor st) (p_attrs st) (Some w))
        end
      else match assoc_str word STYLE_ATTRIBUTES with
      | Some i => parse_words fuel rest (mkPState (p_color st) (p_bgcolor st) (attrs_set (p_attrs st) i true) (p_link st))
      | None =>
          do _ <- check_color word;
          parse_words fuel rest (mkPState (Some word) (p_bgcolor st) (p_attrs st) (p_link st))
      end
    end
  end.

(* Style.parse(style_definition): a freshly constructed object (memos empty), or NULL_STYLE *)
Definition style_parse (definition : str) : res style :=
  if str_eqb (py_strip definition) (lit "none") || (match definition with [] => true | _ => false end)
  then Ok style_null
  else
    let ws := split_ws definition in
    do st <- parse_words (S (length ws)) ws (mkPState None None [] None);
    style_kw (option_map CA_str (p_color st)) (option_map CA_str (p_bgcolor st))
             (flags_of (p_attrs st)) (p_link st).

(* Style.normalize(style) *)
Definition style_normalize (definition : str) : res str :=
  match style_parse definition with
  | Ok s => Ok (style_str_fresh s)
  | Doc e => if e =? E_StyleSyntaxError then Ok (py_lower (py_strip definition)) else Doc e
  | Crash k => Crash k
  end.

(* ------------------------------------------------------------------ the repaired __hash__: a lazy memo *)
(* After the C06 repair `_hash : Optional[int]` is a memo: __init__ fills it eagerly, copy() copies
   it, from_color / __add__ / update_link / without_color leave it None, and hash() fills it from
   the five fields __eq__ compares.  Whether hash() was already called on an intermediate style is
   therefore part of a construction route.  [hobj] = a style object of the repaired code together
   with the state of that memo ([None] = not computed yet, [Some k] = hash of the tuple k).
   (The record [style] itself is shared with C03/C19 and keeps the as-found field [s_hash].) *)
Record hobj : Type := mkHObj { ho_style : style; ho_memo : option hkey }.

(* objects built by __init__ (keywords, parse, NULL_STYLE, background_style) *)
Definition ho_init (s : style) : hobj := mkHObj s (Some (fields_key s)).
Definition ho_null : hobj := ho_init style_null.
Definition ho_from_color (c b : option color) : hobj := mkHObj (style_from_color c b) None.
Definition ho_add (a b : hobj) : hobj :=
  if s_null (ho_style b) then a
  else if s_null (ho_style a) then b
  else mkHObj (style_merge (ho_style a) (ho_style b)) None.
Definition ho_copy (a : hobj) : hobj :=
  if s_null (ho_style a) then ho_null else mkHObj (style_copy (ho_style a)) (ho_memo a).
Definition ho_update_link (fix_def : bool) (a : hobj) (l : option str) : hobj :=
  mkHObj (style_update_link fix_def (ho_style a) l) None.
Definition ho_without_color (a : hobj) : hobj :=
  if s_null (ho_style a) then ho_null else mkHObj (style_without_color (ho_style a)) None.
(* str(a): fills the other memo, the hash memo is untouched *)
Definition ho_str (a : hobj) : hobj := mkHObj (style_set_def (ho_style a)) (ho_memo a).
(* what hash(a) is the hash of *)
Definition ho_hash (a : hobj) : hkey :=
  match ho_memo a with Some k => k | None => fields_key (ho_style a) end.
(* the object after hash(a) was called *)
Definition ho_touch (a : hobj) : hobj := mkHObj (ho_style a) (Some (ho_hash a)).
Definition ho_combine (l : list hobj) : res hobj :=
  match l with [] => Crash K_StopIteration | s :: r => Ok (fold_left ho_add r s) end.
