(* Spec-level checkers for C02: boolean functions used both in the theorem statements
   (props/C02.v) and, through the driver, on the IMPLEMENTATION's Text.wrap output.

   A wrapped line / the source is observed as a list of styled characters
       (code point, normalised ordered list of the styles that apply to it)
   where "the styles that apply" = base style followed by the styles of the covering spans in span
   order (later wins), and normalisation removes what cannot change the combined style under ANY
   combination in which a later style overrides an earlier one (Style.__add__ is such an operation):
   null styles, and every occurrence of a style that occurs again later. *)
From RichModel Require Import Prelude Cells Wrap.

Section SpecWrap.
Variable S : Type.
Variable seqb : S -> S -> bool.
Variable null : S.

Definition schar := (Z * list S)%type.

Fixpoint keep_last (l : list S) : list S :=
  match l with
  | [] => []
  | x :: r => if existsb (seqb x) r then keep_last r else x :: keep_last r
  end.
Definition norm (l : list S) : list S := keep_last (filter (fun x => negb (seqb null x)) l).

(* base style, then covering spans in order *)
Definition eff (t : text S) (i : Z) : list S :=
  base t :: map (@sp_style S) (filter (covers S i) (spans t)).

Definition styled (t : text S) : list schar :=
  map (fun ic => (snd ic, norm (eff t (fst ic)))) (index_from 0 (plain t)).

Definition sc_ns (l : list schar) : list schar := filter (fun x => negb (is_space (fst x))) l.
Definition sc_plain (l : list schar) : str := map fst l.

Fixpoint styles_eqb (a b : list S) : bool :=
  match a, b with
  | [], [] => true
  | x :: a', y :: b' => seqb x y && styles_eqb a' b'
  | _, _ => false
  end.
Definition schar_eqb (a b : schar) : bool := (fst a =? fst b) && styles_eqb (snd a) (snd b).
Fixpoint sc_eqb (a b : list schar) : bool :=
  match a, b with
  | [], [] => true
  | x :: a', y :: b' => schar_eqb x y && sc_eqb a' b'
  | _, _ => false
  end.
(* a is a subsequence of b (leftmost embedding) *)
Fixpoint sc_subseq (a b : list schar) : bool :=
  match b with
  | [] => match a with [] => true | _ => false end
  | y :: b' =>
      match a with
      | [] => true
      | x :: a' => if schar_eqb x y then sc_subseq a' b' else sc_subseq a b'
      end
  end.

(* (a) no non-whitespace character dropped, duplicated or reordered *)
Definition same_nonspace_b (src : str) (out : list str) : bool :=
  str_eqb (nonspace (concat out)) (nonspace src).

(* (b) every line fits *)
Definition all_fit_b (w : Z) (out : list str) : bool := forallb (fun l => cell_len l <=? w) out.

(* (c) every non-whitespace character that is output carries the styles it had.  fold and ignore drop
   nothing, so the styled non-whitespace sequences are equal; crop/ellipsis may drop characters, the
   output must then embed in order into the source; the single character an ellipsis line ends with
   is new and is not compared. *)
Definition drop_final_ellipsis (l : list schar) : list schar :=
  match rev l with
  | x :: r => if fst x =? 8230 then rev r else l
  | [] => l
  end.
Definition styles_kept_b (ov : Z) (src : list schar) (out : list (list schar)) : bool :=
  if (ov =? 0) || (ov =? 3) then sc_eqb (concat (map sc_ns out)) (sc_ns src)
  else if ov =? 1 then sc_subseq (concat (map sc_ns out)) (sc_ns src)
  else sc_subseq (concat (map (fun l => drop_final_ellipsis (sc_ns l)) out)) (sc_ns src).

(* (d) a word (maximal non-whitespace run of a tab-expanded source line, the first one taken together
   with the indentation before it) lies on two different output lines only if it is wider than w.
   ids = for every non-whitespace output character the index of its line. *)
Fixpoint line_ids (k : Z) (out : list str) : list Z :=
  match out with
  | [] => []
  | l :: r => map (fun _ => k) (nonspace l) ++ line_ids (k + 1) r
  end.

(* (cells, number of non-whitespace characters) per word of one source line *)
Fixpoint src_words_go (fuel : nat) (rest : str) : list (Z * nat) :=
  match fuel with
  | O => []
  | Datatypes.S f =>
      let r := drop_space rest in
      match take_word r with
      | [] => []
      | w => (cell_len w, length w) :: src_words_go f (drop_word r)
      end
  end.
Definition src_words (line : str) : list (Z * nat) :=
  let r := drop_space line in
  match take_word r with
  | [] => []
  | w => (cell_len (take_space line ++ w), length w) :: src_words_go (length line) (drop_word r)
  end.

Definition all_same (l : list Z) : bool :=
  match l with [] => true | x :: r => forallb (fun y => y =? x) r end.

Fixpoint breaks_go (w : Z) (ws : list (Z * nat)) (ids : list Z) : bool :=
  match ws with
  | [] => true
  | (cells, n) :: ws' =>
      if (length ids <? n)%nat then false
      else (all_same (firstn n ids) || (w <? cells)) && breaks_go w ws' (skipn n ids)
  end.

Definition breaks_only_long_b (w : Z) (src_lines : list str) (out : list str) : bool :=
  breaks_go w (concat (map src_words src_lines)) (line_ids 0 out).
End SpecWrap.
