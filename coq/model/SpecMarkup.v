(* Spec-level checkers for C04: the document grammar, its meaning, and boolean checkers used both
   in the theorem statements (props/C04.v) and, through the driver, on the implementation's output. *)
From RichModel Require Import Prelude Markup.

(* ---------------------------------------------------------------- documents *)
Inductive item : Type :=
| Open (name : str) (params : option str)      (* [name]  /  [name=params] *)
| Close (name : str)                           (* [/name] *)
| CloseTop                                     (* [/] *)
| Lit (s : str).                               (* literal text, written escape(s) *)
Definition doc := list item.

Definition flatten_item (x : item) : str :=
  match x with
  | Open n None => LB :: n ++ [RB]
  | Open n (Some p) => LB :: n ++ EQS :: p ++ [RB]
  | Close n => LB :: SLASH :: n ++ [RB]
  | CloseTop => [LB; SLASH; RB]
  | Lit s => escape s
  end.
Definition flatten (d : doc) : str := concat (map flatten_item d).

(* no ']' and no newline: what may stand inside a tag *)
Definition tag_body_ok (s : str) : bool := forallb (fun c => negb ((c =? RB) || (c =? NL))) s.
Definition no_eq (s : str) : bool := forallb (fun c => negb (c =? EQS)) s.

(* every '[' is closed by a later ']' *)
Fixpoint closed_b (s : str) : bool :=
  match s with
  | [] => true
  | c :: r => (if c =? LB then existsb (fun x => x =? RB) r else true) && closed_b r
  end.
Fixpoint ends_bs (s : str) : bool :=      (* s.endswith("\\") *)
  match s with
  | [] => false
  | c :: r => match r with [] => c =? BS | _ => ends_bs r end
  end.
(* side conditions of the property text for embedded text (and for a markup prefix) *)
Definition lit_ok (s : str) : bool := negb (ends_bs s) && closed_b s.

Definition item_ok (x : item) : bool :=
  match x with
  | Open n p =>
      match n with
      | c :: _ => tag_start c && negb (c =? SLASH) && tag_body_ok n && no_eq n
                  && match p with Some ps => tag_body_ok ps | None => true end
      | [] => false
      end
  | Close n => tag_body_ok n && no_eq n      (* a blank name, e.g. [/ ], acts as [/] *)
  | CloseTop => true
  | Lit s => lit_ok s
  end.
Definition doc_ok (d : doc) : bool := forallb item_ok d.

Section Sem.
  Variable cc : list Z.
  Variable norm : str -> str.

  (* Meaning of a document.  `opn`: the open tags, MOST RECENT FIRST, as (name, token);
     `out`: every character with the tokens of the tags open at that point in OPENING order
     (so the last one takes precedence).  None: a closing tag had nothing to close. *)
  Definition sstate : Type := list (Z * list str) * list (str * str).

  Fixpoint remove_named (nm : str) (opn : list (str * str)) : option (list (str * str)) :=
    match opn with
    | [] => None
    | e :: r => if str_eqb (fst e) nm then Some r
                else match remove_named nm r with Some r' => Some (e :: r') | None => None end
    end.

  Definition sem_step (st : sstate) (x : item) : option sstate :=
    let '(out, opn) := st in
    match x with
    | Open n p => Some (out, (norm n, tag_str (norm n) p) :: opn)
    | Close n =>
        match strip n with
        | [] => match opn with _ :: o => Some (out, o) | [] => None end     (* [/ ] = [/] *)
        | _ => match remove_named (norm (strip n)) opn with Some o => Some (out, o) | None => None end
        end
    | CloseTop => match opn with _ :: o => Some (out, o) | [] => None end
    | Lit s => Some (out ++ map (fun c => (c, rev (map snd opn))) (strip_cc_with cc s), opn)
    end.

  Fixpoint sem_from (st : sstate) (d : doc) : option sstate :=
    match d with
    | [] => Some st
    | x :: r => match sem_step st x with Some st' => sem_from st' r | None => None end
    end.
  Definition sem (d : doc) : option (list (Z * list str)) :=
    match sem_from ([], []) d with Some (out, _) => Some out | None => None end.
End Sem.

(* ---------------------------------------------------------------- reading a result *)
(* tokens of the spans covering character i, in Text.spans order (= precedence order) *)
Definition covers (i : nat) (sp : span) : bool :=
  let '(s, e, _) := sp in (s <=? i)%nat && (i <? e)%nat.
Definition covering (spans : list span) (i : nat) : list str :=
  map (fun sp : span => snd sp) (filter (covers i) spans).
Definition styled (t : text) : list (Z * list str) :=
  let '(plain, spans) := t in
  map (fun ic : nat * Z => (snd ic, covering spans (fst ic))) (combine (seq 0 (length plain)) plain).

Definition list_eqb {A} (eqb : A -> A -> bool) : list A -> list A -> bool :=
  fix go a b := match a, b with
                | [], [] => true
                | x :: a', y :: b' => eqb x y && go a' b'
                | _, _ => false
                end.
Definition styled_eqb : list (Z * list str) -> list (Z * list str) -> bool :=
  list_eqb (fun a b => (fst a =? fst b) && list_eqb str_eqb (snd a) (snd b)).

(* the result of rendering flatten(d) is what the document means *)
Definition markup_ok_b (cc : list Z) (norm : str -> str) (d : doc) (t : text) : bool :=
  match sem cc norm d with
  | Some out => styled_eqb (styled t) out
  | None => false
  end.

(* MarkupError exactly when a closing tag has nothing to close; never any other failure *)
Definition error_iff_b {A} (cc : list Z) (norm : str -> str) (d : doc) (r : res A) : bool :=
  match sem cc norm d, r with
  | Some _, Ok _ => true
  | None, Doc e => e =? E_MarkupError
  | _, _ => false
  end.

(* render(escape(s)) = s verbatim (minus the control codes every Text drops), no spans *)
Definition span_eqb (a b : span) : bool :=
  let '(s1, e1, t1) := a in let '(s2, e2, t2) := b in
  (s1 =? s2)%nat && (e1 =? e2)%nat && str_eqb t1 t2.
Definition text_eqb (a b : text) : bool :=
  str_eqb (fst a) (fst b) && list_eqb span_eqb (snd a) (snd b).
Definition escape_verbatim_b (cc : list Z) (s : str) (r : res text) : bool :=
  match r with
  | Ok t => text_eqb t (strip_cc_with cc s, [])
  | _ => false
  end.

(* well-formedness of a result: spans inside the text, start <= end *)
Definition spans_wf_b (t : text) : bool :=
  let '(plain, spans) := t in
  forallb (fun sp : span => let '(s, e, _) := sp in (s <=? e)%nat && (e <=? length plain)%nat) spans.
