(* L5 (C10): state machine of rich/live.py (Live, _LiveRender), rich/live_render.py (LiveRender,
   used by Progress), the display level of rich/progress.py (start/stop/refresh) and
   rich/status.py (Status = a transient Live with ellipsis overflow whose update always refreshes).
   Frames are abstract: a frame is the list of text lines the renderable produces (already fitted
   to the console width).  Console.print/log reduce to "emit these lines".  The output is the
   character string written to Console.file; TermGrid interprets it.
   Control strings and the statement order of start()/stop() come from gen/LiveCodes.v.
   Definitions only. *)
From RichModel Require Import Prelude Cells.
From RichGen Require Import LiveCodes.

Inductive ovf := OCrop | OEllipsis | OVisible.

Record cfg := mkCfg {
  c_progress : bool;        (* Progress + live_render.LiveRender; otherwise Live + _LiveRender *)
  c_transient : bool;
  c_ovf : ovf;              (* Live(vertical_overflow=...) *)
  c_W : Z;
  c_H : Z;
  c_frender : option nat;   (* fault injection: the render call of the live renderable with this index raises *)
  c_fbuild : option nat;    (* Progress: the get_renderable() call (columns) with this index raises *)
  c_start_guarded : bool;   (* T3: Progress.start's refresh sits in a try that undoes hook/io/cursor *)
  c_vis_unless_transient : bool; (* T3: Live.stop forces "visible" only when not transient *)
  c_restores_ovf : bool;    (* T3: Live.stop puts the user's overflow mode back after its last refresh *)
  c_resets_shape : bool;    (* T3: stop() forgets the shape it drew (so that a later start() erases nothing) *)
  c_final_room : bool;      (* T3: _LiveRender crops the last frame of a transient display to H-1 rows *)
  c_prog_crop : bool;       (* T3: live_render.LiveRender crops what it renders to the page height *)
  c_catches_base : bool;    (* T3: the handler around Progress.start's refresh catches BaseException (or is a finally) *)
  c_fault_base : bool;      (* the injected exception is NOT an Exception subclass (KeyboardInterrupt, SystemExit) *)
  c_restores_in_finally : bool  (* T3: ... and that restore sits in a `finally` (it also happens when the refresh raises) *)
}.

Record st := mkSt {
  started : bool;
  hooks : nat;              (* depth of Console._render_hooks *)
  redir : bool;             (* sys.stdout / sys.stderr replaced by FileProxy *)
  ovf_now : ovf;            (* Live.vertical_overflow (stop() overwrites it) *)
  shape : option (Z * Z);   (* LiveRender._shape *)
  cur : list str;           (* Live: _live_render.renderable; Progress: what get_renderable() builds now *)
  lr : list str;            (* Progress: _live_render.renderable, set by refresh() *)
  nrender : nat;
  nbuild : nat;
  out : str;                (* characters written to Console.file *)
  g_printed : list str;     (* ghost: every line printed/logged so far *)
  g_shown : list str;       (* ghost: the lines of the frame as last written *)
  g_live : bool             (* ghost: the cursor sits on the frame (true after a draw, false once stop() finished) *)
}.

Definition st0 (c : cfg) (f0 : list str) : st :=
  mkSt false 0 false (c_ovf c) None f0 f0 0 0 [] [] [] false.

(* ---- control strings (generated constants) ---- *)
Definition position_cursor (sh : option (Z * Z)) : str :=
  match sh with
  | None => pc_none
  | Some (_, h) => pc_head ++ concat (py_repeat pc_unit (h + pc_off))
  end.

Definition restore_cursor (sh : option (Z * Z)) : str :=
  match sh with
  | None => rc_none
  | Some (_, h) => rc_head ++ concat (py_repeat rc_unit (h + rc_off))
  end.

(* ---- frames ---- *)
Fixpoint join_nl (ls : list str) : str :=
  match ls with
  | [] => []
  | [l] => l
  | l :: r => l ++ NL :: join_nl r
  end.

Definition lines_str (ls : list str) : str := concat (map (fun l => l ++ [NL]) ls).

Definition maxw (ls : list str) : Z := fold_right Z.max 0 (map cell_len ls).

Definition DOT : Z := 46.
(* Text("...", overflow="crop", justify="center", end="") rendered at width W *)
Definition center_dots (W : Z) : str :=
  if W <=? 3 then py_repeat DOT W
  else py_repeat SP ((W - 3) / 2) ++ [DOT; DOT; DOT] ++ py_repeat SP (W - 3 - (W - 3) / 2).

(* _LiveRender.__rich_console__: crop / ellipsis / visible *)
Definition fit_live (o : ovf) (W H : Z) (ls : list str) : list str :=
  if H <? zlen ls then
    match o with
    | OCrop => firstn (Z.to_nat H) ls
    | OEllipsis => firstn (Z.to_nat (H - 1)) ls ++ [center_dots W]
    | OVisible => ls
    end
  else ls.

Definition pad_to (w : Z) (l : str) : str := l ++ py_repeat SP (w - cell_len l).

(* LiveRender.__rich_console__: the shape only grows; Segment.set_shape pads to it *)
Definition grow_shape (W : Z) (sh : option (Z * Z)) (w1 h1 : Z) : Z * Z :=
  match sh with
  | None => (w1, h1)
  | Some (w2, h2) => (Z.max w1 (Z.min W w2), Z.max h1 h2)
  end.

(* the frame is a one-column Table.grid: every line is padded to the column width, which is the
   widest line but at least 1 as soon as there is a row *)
Definition table_width (ls : list str) : Z :=
  match ls with [] => 0 | _ => Z.max 1 (maxw ls) end.

Definition progress_lines (W : Z) (sh : option (Z * Z)) (ls : list str) : list str * (Z * Z) :=
  let '(w, h) := grow_shape W sh (table_width ls) (zlen ls) in
  (map (pad_to w) ls ++ repeat (py_repeat SP w) (Z.to_nat (h - zlen ls)), (w, h)).

(* what LiveRender gets from render_lines for a Progress table: every line padded to the column
   width; cropped to the page height when the code does so *)
Definition progress_rows (crop : bool) (H : Z) (ls : list str) : list str :=
  let rows := map (pad_to (table_width ls)) ls in
  if crop then firstn (Z.to_nat H) rows else rows.

(* ---- state updates ---- *)
Definition emit (s : st) (x : str) : st :=
  mkSt (started s) (hooks s) (redir s) (ovf_now s) (shape s) (cur s) (lr s) (nrender s) (nbuild s)
       (out s ++ x) (g_printed s) (g_shown s) (g_live s).
Definition set_flags (s : st) (b : bool) (h : nat) (r : bool) : st :=
  mkSt b h r (ovf_now s) (shape s) (cur s) (lr s) (nrender s) (nbuild s) (out s) (g_printed s) (g_shown s) (g_live s).
Definition set_ovf (s : st) (o : ovf) : st :=
  mkSt (started s) (hooks s) (redir s) o (shape s) (cur s) (lr s) (nrender s) (nbuild s) (out s) (g_printed s) (g_shown s) (g_live s).
Definition forget_shape (s : st) : st :=
  mkSt (started s) (hooks s) (redir s) (ovf_now s) None (cur s) (lr s) (nrender s) (nbuild s) (out s) (g_printed s) (g_shown s) (g_live s).
Definition set_cur (s : st) (f : list str) : st :=
  mkSt (started s) (hooks s) (redir s) (ovf_now s) (shape s) f (lr s) (nrender s) (nbuild s) (out s) (g_printed s) (g_shown s) (g_live s).
Definition set_lr (s : st) (f : list str) : st :=
  mkSt (started s) (hooks s) (redir s) (ovf_now s) (shape s) (cur s) f (nrender s) (nbuild s) (out s) (g_printed s) (g_shown s) (g_live s).
Definition bump_render (s : st) : st :=
  mkSt (started s) (hooks s) (redir s) (ovf_now s) (shape s) (cur s) (lr s) (S (nrender s)) (nbuild s) (out s) (g_printed s) (g_shown s) (g_live s).
Definition bump_build (s : st) : st :=
  mkSt (started s) (hooks s) (redir s) (ovf_now s) (shape s) (cur s) (lr s) (nrender s) (S (nbuild s)) (out s) (g_printed s) (g_shown s) (g_live s).
(* a successful hooked print: new shape, output, ghosts *)
Definition drew (s : st) (sh : Z * Z) (x : str) (printed shown : list str) : st :=
  mkSt (started s) (hooks s) (redir s) (ovf_now s) (Some sh) (cur s) (lr s) (nrender s) (nbuild s)
       (out s ++ x) (g_printed s ++ printed) shown true.
Definition printed_plain (s : st) (ls : list str) : st :=
  mkSt (started s) (hooks s) (redir s) (ovf_now s) (shape s) (cur s) (lr s) (nrender s) (nbuild s)
       (out s ++ lines_str ls) (g_printed s ++ ls) (g_shown s) (g_live s).

(* stop() completed: a kept frame becomes ordinary printed output, a transient one is gone.
   An EMPTY frame still occupies the row the cursor was parked on; stop() ends that row with a
   newline and neither variant erases it (restore_cursor moves up `height` = 0 rows). *)
Definition kept_rows (keep : bool) (shown : list str) : list str :=
  match shown with
  | [] => [[]]
  | _ => if keep then shown else []
  end.
Definition settle (s : st) (keep : bool) : st :=
  mkSt (started s) (hooks s) (redir s) (ovf_now s) (shape s) (cur s) (lr s) (nrender s) (nbuild s) (out s)
       (g_printed s ++ kept_rows keep (g_shown s)) [] false.

Definition fault (f : option nat) (n : nat) : bool :=
  match f with Some k => (k =? n)%nat | None => false end.

(* the height _LiveRender crops to: the page, or one row less for the frame that a transient
   display draws when it is no longer started (stop() ends that frame with a new line) *)
Definition max_height (c : cfg) (s : st) : Z :=
  if c_final_room c && c_transient c && negb (started s) then Z.max (c_H c - 1) 0 else c_H c.

(* the lines the live renderable yields now, and the shape it records *)
Definition frame_lines (c : cfg) (s : st) : list str * (Z * Z) :=
  if c_progress c then progress_lines (c_W c) (shape s) (progress_rows (c_prog_crop c) (c_H c) (lr s))
  else let ls := fit_live (ovf_now s) (c_W c) (max_height c s) (cur s) in (ls, (maxw ls, zlen ls)).

(* Console.print of some lines / log / print(Control("")) with the render hooks applied:
   [position_cursor, user output, live renderable] rendered into ONE write; when a render raises
   nothing is written (Console.print collects all segments before touching the buffer). *)
Definition console_print (c : cfg) (s : st) (ls : list str) : st * bool :=
  if (0 <? hooks s)%nat then
    let pc := position_cursor (shape s) in
    let s1 := bump_render s in
    if fault (c_frender c) (nrender s) then (s1, true)
    else let '(fl, sh) := frame_lines c s in
         (drew s1 sh (pc ++ lines_str ls ++ join_nl fl) ls fl, false)
  else (printed_plain s ls, false).

(* Live.refresh / Progress.refresh on a terminal console *)
Definition refresh (c : cfg) (s : st) : st * bool :=
  if c_progress c then
    let s1 := bump_build s in
    if fault (c_fbuild c) (nbuild s) then (s1, true)
    else console_print c (set_lr s1 (cur s1)) []
  else console_print c s [].

Definition log_lines (W : Z) (ls : list str) : list str :=
  map (pad_to W) (match ls with [] => [[]] | _ => ls end).

Inductive op :=
| Print (ls : list str)
| Log (ls : list str)
| PrintRaise                         (* console.print(x) where x raises while rendering *)
| Update (f : list str) (r : bool)   (* Live.update / a task change (+ refresh) *)
| Refresh
| Start
| Stop.

(* does the handler around the first refresh of Progress.start() run for the injected exception?
   (every other cleanup in start/stop is a `finally`, which does not care) *)
Definition start_cleans (c : cfg) : bool :=
  c_start_guarded c && (c_catches_base c || negb (c_fault_base c)).

Definition start (c : cfg) (s : st) : st * bool :=
  if started s then (s, false)
  else
    let s1 := emit (set_flags s true (S (hooks s)) true) cursor_off in
    if c_progress c then
      let '(s2, raised) := refresh c s1 in
      if raised && start_cleans c
      then (emit (set_flags s2 false (pred (hooks s2)) false) cursor_on, true)
      else (s2, raised)
    else (s1, false).

Definition restores (c : cfg) (raised : bool) : bool :=
  c_restores_ovf c && (negb raised || c_restores_in_finally c).
Definition after_refresh (c : cfg) (s sr : st) (raised : bool) : st :=
  if restores c raised then set_ovf sr (ovf_now s) else sr.
Definition forget (c : cfg) (s : st) : st := if c_resets_shape c then forget_shape s else s.

Definition stop (c : cfg) (s : st) : st * bool :=
  if negb (started s) then (s, false)
  else
    let s0 := set_flags s false (hooks s) (redir s) in
    let s1 := if c_progress c then s0
              else if c_vis_unless_transient c && c_transient c then s0
              else set_ovf s0 OVisible in
    let '(sr, raised) := refresh c s1 in
    let s2 := after_refresh c s sr raised in                       (* inner finally (or plain statement) *)
    let s3 := if raised then s2 else emit s2 [NL] in             (* console.line() *)
    let s4 := emit (set_flags s3 false (pred (hooks s3)) false) cursor_on in   (* finally: *)
    if raised then (s4, true)
    else if c_transient c then (forget c (settle (emit s4 (restore_cursor (shape s4))) false), false)
    else (forget c (settle s4 true), false).

Definition step (c : cfg) (s : st) (o : op) : st * bool :=
  match o with
  | Print ls => console_print c s ls
  | Log ls => console_print c s (log_lines (c_W c) ls)
  | PrintRaise => (s, true)
  | Update f r => let s1 := set_cur s f in if r then refresh c s1 else (s1, false)
  | Refresh => refresh c s
  | Start => start c s
  | Stop => stop c s
  end.

(* a history runs until the first exception *)
Fixpoint run_ops (c : cfg) (s : st) (ops : list op) : st * bool :=
  match ops with
  | [] => (s, false)
  | o :: r => let '(s1, raised) := step c s o in
              if raised then (s1, true) else run_ops c s1 r
  end.

(* `with Live(...) as live: body` -- __exit__ (stop) runs whenever __enter__ (start) returned *)
Definition run_block (c : cfg) (f0 : list str) (pre : list (list str)) (body : list op) : st * bool :=
  let '(s0, _) := run_ops c (st0 c f0) (map Print pre) in
  let '(s1, r1) := start c s0 in
  if r1 then (s1, true)
  else
    let '(s2, r2) := run_ops c s1 body in
    let '(s3, r3) := stop c s2 in
    (s3, r2 || r3).

(* the configuration the code in /repo has today *)
Definition cfg_today (progress transient : bool) (o : ovf) (W H : Z) (fr fb : option nat) (base : bool) : cfg :=
  mkCfg progress transient o W H fr fb progress_start_guarded live_stop_visible_unless_transient
        live_stop_restores_overflow
        (if progress then progress_stop_resets_shape else live_stop_resets_shape)
        live_transient_final_room
        live_render_crops_to_page
        start_cleanup_catches_base base live_stop_restores_in_finally.
