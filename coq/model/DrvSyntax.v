(* wire glue for the syntax layer (C17).
   render-like arguments:  [code, toks?, line_numbers, start_line, range?, highlight, word_wrap,
                            code_width?, tab_size, transparent, indent_guides, W]
   toks? = [] when get_lexer_by_name raises ClassNotFound, else [[tok, tok, ...]]: the token texts
   the Pygments lexer (built with the call-site options of the tree under test) produced for the
   tab-expanded code -- the lexer is an oracle, its output is an input of the model. *)
From RichModel Require Import Prelude Cells Syntax SpecSyntax SyntaxWrap SyntaxTb.

Definition tRange (t : tree) : option (Z * Z) :=
  match tL t with a :: b :: _ => Some (tZ a, tZ b) | _ => None end.
Definition tFound (t : tree) : bool := match tL t with [] => false | _ => true end.
Definition tLex (t : tree) : str -> list (Z * str) :=
  fun _ => match tL t with x :: _ => map (fun s => (0, tStr s)) (tL x) | [] => [] end.
Definition tOpts (t : tree) : opts :=
  mkOpts (tFound (tNth t 1)) (tB (tNth t 2)) (tZ (tNth t 3)) (tRange (tNth t 4))
         (tList tZ (tNth t 5)) (tB (tNth t 6)) (tOpt tZ (tNth t 7)) (tZ (tNth t 8))
         (tB (tNth t 9)) (tB (tNth t 10)).
Definition tW (t : tree) : Z := tZ (tNth t 11).
Definition tOut (t : tree) : list str := tList tStr (tNth t 12).
Definition ofLinesR (r : res (list str)) : tree :=
  ofRes (ofList ofStr) (match r with Ok l => Ok (map rstrip_sp l) | Doc e => Doc e | Crash k => Crash k end).
Definition spec_op (f : opts -> str -> Z -> list str -> bool) (t : tree) : tree :=
  ofB (f (tOpts t) (tStr (tNth t 0)) (tW t) (tOut t)).

(* one Traceback render: [files, cwd, entries, extra, transparent, guides, W]
   file = [name, present, content, toks]; entry = [co_filename, tb_lineno] *)
Definition tFile (t : tree) : str * (bool * (str * list str)) :=
  (tStr (tNth t 0), (tB (tNth t 1), (tStr (tNth t 2), tList tStr (tNth t 3)))).
Fixpoint find_file (fs : list (str * (bool * (str * list str)))) (f : str) : option (bool * (str * list str)) :=
  match fs with
  | [] => None
  | (n, x) :: r => if str_eqb f n then Some x else find_file r f
  end.
Definition ofBlock (av : Z) (x : frame * block) : tree :=
  let '(fr, b) := x in
  match b with
  | BSkipped => L [I (fr_lineno fr); I 1; L []]
  | BError => L [I (fr_lineno fr); I 2; L []]
  | BCode ls => L [I (fr_lineno fr); I 0;
                   ofList ofStr (map (fun l => rstrip_sp (if av <? cell_len l then set_cell_size l av else l)) ls)]
  end.
Definition tb_render (t : tree) : tree :=
  let fs := tList tFile (tNth t 0) in
  let read := fun f => match find_file fs f with Some (true, (c, _)) => Some c | _ => None end in
  let lexsel := fun f (_ : str) =>
    match find_file fs f with
    | Some (_, (_, toks)) => Some (true, fun _ : str => map (fun s => (0, s)) toks)
    | None => None
    end in
  let frames := map (extract_frame (tStr (tNth t 1)))
                    (tList (fun e => mkEntry (tStr (tNth e 0)) (tZ (tNth e 1)) []) (tNth t 2)) in
  match render_stack read lexsel current_facts wrapf_text (tZ (tNth t 3)) false (tB (tNth t 4)) (tB (tNth t 5))
                     (tZ (tNth t 6)) frames with
  | Ok l => ofList (ofBlock (tZ (tNth t 6) - 4)) l
  | _ => I (-1)
  end.

Definition ops : list (string * (tree -> tree)) := [
  (* several Traceback renders in one process, the files possibly rewritten in between *)
  ("tbtwice", fun t => ofList tb_render (tL t));
  (* [file, content?, lineno, W, guides, kind, lines] *)
  ("spec.block_ok", fun t =>
      ofB (block_ok_b (tStr (tNth t 0)) (tOpt tStr (tNth t 1)) (tZ (tNth t 2)) (tZ (tNth t 3) - 4) (tB (tNth t 4))
                      (tZ (tNth t 5)) (tList tStr (tNth t 6))));
  ("render", fun t =>
      ofLinesR (render (tLex (tNth t 1)) current_facts wrapf_text (tOpts t) (tStr (tNth t 0)) (tW t)));
  (* [code, toks?, range?] -> plain text of Syntax.highlight(code, range) *)
  ("highlight", fun t =>
      ofRes ofStr (highlight (tLex (tNth t 1)) current_facts (tFound (tNth t 1)) (tStr (tNth t 0)) (tRange (tNth t 2))));
  (* [code, toks?, lineno, extra, word_wrap, transparent, guides, W] -> [lineno, lines of the frame's code block] *)
  ("tbframe", fun t =>   (* the panel (width W, border and padding 2+2) crops the block on the right *)
      let av := tZ (tNth t 7) - 4 in
      L [tNth t 2;
         match render_frame (tLex (tNth t 1)) current_facts wrapf_text (tStr (tNth t 0)) (tZ (tNth t 2))
                     (tZ (tNth t 3)) (tB (tNth t 4)) (tB (tNth t 5)) (tB (tNth t 6)) (tZ (tNth t 7)) with
         | Ok ls => ofList ofStr (map (fun l => rstrip_sp (if av <? cell_len l then set_cell_size l av else l)) ls)
         | _ => I (-1)
         end]);
  ("show_Z", fun t => ofStr (show_Z (tZ t)));
  ("expandtabs", fun t => ofStr (expandtabs (tZ (tNth t 0)) (tStr (tNth t 1))));
  ("wrapf_text", fun t => ofList ofStr (map rstrip_sp (wrapf_text (tStr (tNth t 0)) (tZ (tNth t 1)) (tB (tNth t 2)))));
  ("wrap_fit", fun t => ofList ofStr (map rstrip_sp (wrap_fit (tStr (tNth t 0)) (tZ (tNth t 1)) (tB (tNth t 2)))));
  ("lex_norm", fun t => ofStr (lex_norm (mkLexopts (tB (tNth t 0)) (tB (tNth t 1))) (tStr (tNth t 2))));
  (* spec-level checkers on the implementation's output: render argument ++ [out] *)
  ("spec.lines_match", spec_op lines_match_b);
  ("spec.numbers_ok", spec_op numbers_ok_b);
  ("spec.range_ok", spec_op range_ok_b);
  ("spec.marks_ok", spec_op marks_ok_b);
  (* [code, highlighted plain, ranged] *)
  ("spec.highlight_ok", fun t => ofB (highlight_ok_b (tStr (tNth t 0)) (tStr (tNth t 1)) (tB (tNth t 2))));
  (* [code, lineno, W, guides, out] *)
  ("spec.failing_line", fun t =>
      ofB (failing_line_b (tStr (tNth t 0)) (tZ (tNth t 1)) (tZ (tNth t 2) - 4) (tB (tNth t 3)) (tList tStr (tNth t 4))));
  ("spec.frame_lineno", fun t => ofB (tZ (tNth t 0) =? tZ (tNth t 1)));
  (* outcome class of a render: a crash is a violation (ranges are to be clipped, not to raise) *)
  ("spec.rendered", fun t => ofB (tZ (tNth t 0) =? 0));
  (* [stripnl, ensurenl, code, toks] : validation of the oracle hypothesis LexOk on one sample *)
  ("spec.lex_ok", fun t =>
      ofB (lex_ok_b (mkLexopts (tB (tNth t 0)) (tB (tNth t 1))) (tStr (tNth t 2)) (tList tStr (tNth t 3))));
  (* [line, w, pieces] : the Text.wrap contract on one sample *)
  ("spec.wrap_ok", fun t => ofB (wrap_ok_b (tStr (tNth t 0)) (tZ (tNth t 1)) (tList tStr (tNth t 2))))
].
