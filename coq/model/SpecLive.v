(* Spec-level checkers of C10.  They look only at (a) the characters written, replayed on the
   independent terminal TermGrid, and (b) what the history says should be visible: the lines
   printed so far and the lines of the frame last drawn.  Used in props/C10.v and, through
   DrvLive, on the IMPLEMENTATION's bytes. *)
From RichModel Require Import Prelude Cells TermGrid.

Fixpoint row_eqb (a b : row) : bool :=
  match a, b with
  | [], [] => true
  | x :: a', y :: b' => (x =? y) && row_eqb a' b'
  | _, _ => false
  end.

Fixpoint grid_eqb (a b : list row) : bool :=
  match a, b with
  | [], [] => true
  | x :: a', y :: b' => row_eqb x y && grid_eqb a' b'
  | _, _ => false
  end.

Definition is_ground (t : term) : bool :=
  match ps t with PGround => true | _ => false end.

(* what a screen shows: trailing blanks of a row and trailing blank rows are invisible *)
Definition same_screen (g : list row) (lines : list str) : bool :=
  grid_eqb (norm_grid g) (norm_grid (map row_of lines)).

(* while the display is live: the grid is exactly the printed lines followed by the frame, the
   cursor sits on the last row of the frame (on the first free row when the frame is empty) *)
Definition screen_ok_b (H : nat) (printed shown : list str) (bytes : str) : bool :=
  let t := interp H init bytes in
  same_screen (grid t) (printed ++ shown)
  && (cursor_row t =? length printed + pred (Nat.max 1 (length shown)))%nat
  && is_ground t.

(* no frame on screen (before the first draw, after stop()): the grid is exactly the printed
   lines and the cursor is on the first free row, column 0 *)
Definition rest_ok_b (H : nat) (printed : list str) (bytes : str) : bool :=
  let t := interp H init bytes in
  same_screen (grid t) printed
  && (cursor_row t =? length printed)%nat
  && (col t =? 0)%nat
  && is_ground t.

(* after stop(): cursor visible again; grid = printed ++ kept frame (kept = [] when transient) *)
Definition after_stop_ok_b (H : nat) (printed kept : list str) (bytes : str) : bool :=
  rest_ok_b H (printed ++ kept) bytes && vis (interp H init bytes).

Definition view_ok_b (H : nat) (live : bool) (printed shown : list str) (bytes : str) : bool :=
  if live then screen_ok_b H printed shown bytes else rest_ok_b H printed bytes.

(* the cursor is hidden exactly while the display is started *)
Definition cursor_vis_ok_b (H : nat) (started : bool) (bytes : str) : bool :=
  Bool.eqb (vis (interp H init bytes)) (negb started).

(* "the cursor never moves above the live region": the output is cut at operation boundaries;
   while replaying the bytes of one operation the cursor may never be on a row above the first
   row below the lines printed BEFORE that operation. *)
Fixpoint interp_min (H : nat) (t : term) (s : str) (m : nat) : term * nat :=
  match s with
  | [] => (t, m)
  | c :: r => let t' := step H t c in interp_min H t' r (Nat.min m (cursor_row t'))
  end.

Fixpoint cursor_chunks_ok (H : nat) (t : term) (chunks : list (nat * str)) : bool :=
  match chunks with
  | [] => true
  | (floor, bytes) :: rest =>
      let '(t', m) := interp_min H t bytes (cursor_row t) in
      (floor <=? m)%nat && cursor_chunks_ok H t' rest
  end.

Definition cursor_ok_b (H : nat) (chunks : list (nat * str)) : bool :=
  cursor_chunks_ok H init chunks.

(* erase string for a frame of h rows: started on the last of h non-blank rows (below `pre`
   untouched rows), it must blank exactly those h rows and stop on the first of them, column 0 *)
Definition filled (n : nat) : list row := repeat [120] n.   (* rows "x" *)
Definition erase_ok_b (H : nat) (pre h : nat) (bytes : str) : bool :=
  let t0 := mkTerm (filled (pred h + pre)) [120] [] 1 (pred h + pre) true PGround in
  let t := interp (Nat.max H (h + pre)) t0 bytes in
  grid_eqb (norm_grid (grid t)) (norm_grid (filled pre))
  && (cursor_row t =? pre)%nat && (col t =? 0)%nat && is_ground t.

(* cleanup: hook stack depth, stdout/stderr identity and cursor as before the block *)
Definition cleanup_ok_b (H : nat) (hooks_before hooks_after : nat) (io_restored : bool) (bytes : str) : bool :=
  (hooks_before =? hooks_after)%nat && io_restored && vis (interp H init bytes).

(* stdout/stderr are redirected exactly while the display is started: one (redirected, started)
   observation after every operation *)
Definition redirect_ok_b (obs : list (bool * bool)) : bool :=
  forallb (fun p => Bool.eqb (fst p) (snd p)) obs.

(* every character is a graphic character (no C0/C1 control, no ESC) *)
Definition text_ok (l : str) : bool := forallb is_text l.
Definition lines_ok (ls : list str) : bool := forallb text_ok ls.
