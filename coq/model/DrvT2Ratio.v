(* wire glue for the T2 tie (gen/T2_Ratio.v): runs functions REGENERATED from the Python source
   so that the translator itself is validated against rich on generated inputs. *)
From RichModel Require Import Prelude Ratio T2Lib.
From RichGen Require Import T2_Ratio.

Definition ofZs := ofList I.
Definition tZs := tList tZ.

Definition ops : list (string * (tree -> tree)) := [
  ("t2.ratio_reduce", fun t =>
      ofRes ofZs (ratio_reduce_gen (tZ (tNth t 0)) (tZs (tNth t 1)) (tZs (tNth t 2)) (tZs (tNth t 3))));
  ("t2.ratio_distribute", fun t =>
      ofRes ofZs (ratio_distribute_gen (tZ (tNth t 0)) (tZs (tNth t 1)) (tOpt tZs (tNth t 2))));
  ("t2.collapse_widths", fun t =>
      let ws := tZs (tNth t 0) in
      let mw := tZ (tNth t 2) in
      ofRes ofZs (collapse_widths_gen (collapse_fuel ws mw) ws (tList tB (tNth t 1)) mw))
].
