(* wire glue for the T2 tie (gen/T2_Span.v): runs functions REGENERATED from the Python source
   so that the translator itself is validated against rich on generated inputs. *)
From RichModel Require Import Prelude Ratio T2Lib.
From RichGen Require Import T2_Span.

Definition ofTriple (q : Z * Z * Z) : tree := let '(a, b, c) := q in L [I a; I b; I c].
Definition tTriple (t : tree) : Z * Z * Z := (tZ (tNth t 0), tZ (tNth t 1), tZ (tNth t 2)).

Definition ops : list (string * (tree -> tree)) := [
  ("t2.span_split", fun t =>
      let '(a, b) := span_split_gen (tTriple (tNth t 0)) (tZ (tNth t 1)) in L [ofTriple a; ofOpt ofTriple b]);
  ("t2.span_move", fun t => ofTriple (span_move_gen (tTriple (tNth t 0)) (tZ (tNth t 1))));
  ("t2.span_right_crop", fun t => ofTriple (span_right_crop_gen (tTriple (tNth t 0)) (tZ (tNth t 1))))
].
