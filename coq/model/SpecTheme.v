(* C20 -- the abstract specification of the theme stack and the spec-level checkers
   (DESIGN appendix C: lookup_ok_b, restored_b, config_rt_b).  Definitions only.

   Specification ("what the API promises"): the console holds a base theme and a list of pushed
   frames (theme, inherit), most recent first.  A name resolves to the entry of the most recent
   frame that defines it, falling through a frame only when that frame was pushed with
   inherit=True; below the frames is the base theme; when nothing defines the name it is parsed
   as a style definition.  The spec knows nothing of merged dictionaries or of the cached
   bound method. *)
From RichModel Require Import Prelude Theme.

Definition frames := list (dict * bool).

Fixpoint spec_lookup (base : dict) (fr : frames) (n : str) : option Z :=
  match fr with
  | [] => dget base n
  | (th, inh) :: r =>
      match dget th n with
      | Some v => Some v
      | None => if inh then spec_lookup base r n else None
      end
  end.

Definition spec_pop (fr : frames) : res frames :=
  match fr with
  | [] => Doc E_ThemeStackError
  | _ :: r => Ok r
  end.

Definition specm (base : dict) : machine :=
  mkM frames (fun th inh fr => (th, inh) :: fr) spec_pop (spec_lookup base).

Definition wf_frames (fr : frames) : bool := forallb (fun f => uniq_keys (fst f)) fr.

(* Balanced histories: the stack is left as it was found, whatever raises on the way.
   - get_style / raise do not touch the stack (and end the enclosing block when they raise);
   - try and use_theme blocks with balanced bodies -- use_theme pops in __exit__, exception or not;
   - an explicit push ... pop pair around a balanced body that cannot raise (`quiet`); with a
     body that can raise, the pop is skipped by the exception: that is the caller's bug, which
     use_theme exists to avoid. *)
Inductive bal : list cmd -> Prop :=
| bal_nil : bal []
| bal_get : forall n d r, bal r -> bal (CGet n d :: r)
| bal_raise : forall r, bal r -> bal (CRaise :: r)
| bal_try : forall b r, bal b -> bal r -> bal (CTry b :: r)
| bal_use : forall th i b r, bal b -> bal r -> bal (CUse th i b :: r)
| bal_pp : forall th i b r, bal b -> forallb quiet b = true -> bal r ->
    bal (CPush th i :: b ++ CPop :: r).

(* ---------------------------------------------------------------- boolean equalities *)
Definition res_eqb (a b : res Z) : bool :=
  match a, b with
  | Ok x, Ok y => x =? y
  | Doc x, Doc y => x =? y
  | Crash x, Crash y => x =? y
  | _, _ => false
  end.

Fixpoint list_eqb {A} (eqb : A -> A -> bool) (a b : list A) : bool :=
  match a, b with
  | [], [] => true
  | x :: a', y :: b' => eqb x y && list_eqb eqb a' b'
  | _, _ => false
  end.

Definition obs_eqb (a b : obs) : bool :=
  match a, b with
  | OSnap x, OSnap y => list_eqb res_eqb x y
  | OGet x, OGet y => res_eqb x y
  | _, _ => false
  end.

Definition optZ_eqb (a b : option Z) : bool :=
  match a, b with
  | None, None => true
  | Some x, Some y => x =? y
  | _, _ => false
  end.

(* ---------------------------------------------------------------- checkers *)
Section Checkers.
Variable parse : str -> option Z.

(* the observations (every probe name after every stack step, every get_style result, the
   escaping exception) are those of the specification machine run on the same history with the
   API's promised semantics of use_theme (inherit honoured) *)
Definition lookup_ok_b (base : dict) (cmds : list cmd) (probes : list str) (observed : list obs * Z) : bool :=
  let '(want, wo) := observe parse (specm base) true probes cmds [] in
  list_eqb obs_eqb (fst observed) want && (snd observed =? wo).

(* two snapshots of the same probe names agree *)
Definition restored_b (before after : list (res Z)) : bool := list_eqb res_eqb before after.

(* after any history, popping until ThemeStackError leaves exactly the base theme's lookups *)
Definition base_ok_b (base : dict) (probes : list str) (final : list (res Z)) : bool :=
  list_eqb res_eqb final (snapshot parse (specm base) probes []).
End Checkers.

(* the two themes have equal styles: equal lookups on every name either of them defines *)
Definition config_rt_b (d d' : dict) : bool :=
  forallb (fun kv => optZ_eqb (dget d (fst kv)) (dget d' (fst kv))) (d ++ d').

(* ---------------------------------------------------------------- domain of the configparser oracle *)
(* option names: non-empty, over [a-z0-9_.-] (so: lower-case, no '=' ':' '[' '#' ';', no blanks) *)
Definition name_char_ok (c : Z) : bool :=
  ((97 <=? c) && (c <=? 122)) || ((48 <=? c) && (c <=? 57)) || (c =? 95) || (c =? 46) || (c =? 45).
Definition name_ok (n : str) : bool :=
  match n with [] => false | _ => forallb name_char_ok n end.

(* values: non-empty printable ASCII, no leading/trailing blank ('%' allowed) *)
Definition value_char_ok (c : Z) : bool := (32 <=? c) && (c <=? 126).
Definition value_ok (v : str) : bool :=
  match v with
  | [] => false
  | c :: _ => forallb value_char_ok v && negb (c =? 32) && negb (last v 0 =? 32)
  end.
Definition no_pct (v : str) : bool := forallb (fun c => negb (c =? 37)) v.

Definition item_ok (kv : str * str) : bool := name_ok (fst kv) && value_ok (snd kv).
