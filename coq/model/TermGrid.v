(* TermGrid: an INDEPENDENT terminal interpreter, written from ECMA-48 (not from rich).
   It is the oracle of C10: the characters a console wrote are replayed here and the resulting
   grid / cursor is what the property talks about.  tools/vt100.py is the same machine in Python
   (array representation) for the implementation side; the two are compared on random escape
   strings by the correspondence op `term`.

   Subset (ECMA-48 names): graphic characters, CR, LF, CUU (CSI n A), EL (CSI 0/1/2 K),
   ED 2 (CSI 2 J), CUP (CSI r;c H), DECTCEM (CSI ?25 h/l); SGR (CSI ... m), every other CSI /
   ESC sequence and OSC strings (OSC 8 hyperlinks) are parsed and skipped.
   Conventions that are NOT in ECMA-48 and are stated here once:
   * LF is "new line": it also returns to column 0.  This is the tty ONLCR discipline
     (ECMA-48 LNM set) under which every program that writes "a\nb" -- rich included -- runs.
   * the page is H rows; rows that scroll off the top stay in the grid (unbounded scroll-back).
     CUU stops at the top row of the page.  There is no right margin: lines are not wrapped
     (the callers' lines are fitted to the width before they are written).
   * a character of cell width 2 (Cells.char_size) fills its cell and a continuation cell (-1);
     width-0 code points occupy no cell and are not recorded.
   Definitions only. *)
From RichModel Require Import Prelude Cells.

Definition row := list Z.
Definition CONT : Z := -1.

(* parser states: ground, after ESC, ESC + intermediates, CSI (private marker, finished
   parameters reversed, parameter being read, malformed flag), OSC string, OSC + ESC *)
Inductive pstate :=
| PGround
| PEsc
| PEscI
| PCsi (priv : Z) (args : list Z) (cur : option Z) (bad : bool)
| POsc
| POscEsc.

(* zipper over the rows: [above] is nearest-first; [vr] = cursor row inside the page (0-based) *)
Record term := mkTerm {
  above : list row;
  crow : row;
  below : list row;
  col : nat;
  vr : nat;
  vis : bool;
  ps : pstate
}.

Definition init : term := mkTerm [] [] [] 0 0 true PGround.

Definition grid (t : term) : list row := rev (above t) ++ crow t :: below t.
Definition cursor_row (t : term) : nat := length (above t).

Definition set_ps (t : term) (p : pstate) : term :=
  mkTerm (above t) (crow t) (below t) (col t) (vr t) (vis t) p.

(* write cells vs at column c of row r *)
Definition set_cells (r : row) (c : nat) (vs : list Z) : row :=
  firstn c (r ++ repeat SP (c - length r)) ++ vs ++ skipn (c + length vs) r.

Definition cells_of (c : Z) : list Z :=
  let w := char_size c in
  if w =? 1 then [c] else if w =? 2 then [c; CONT] else [].

Definition put (t : term) (c : Z) : term :=
  let vs := cells_of c in
  match vs with
  | [] => t
  | _ => mkTerm (above t) (set_cells (crow t) (col t) vs) (below t) (col t + length vs) (vr t) (vis t) (ps t)
  end.

Definition is_text (c : Z) : bool := (32 <=? c) && negb ((127 <=? c) && (c <? 160)).

Definition do_cr (t : term) : term :=
  mkTerm (above t) (crow t) (below t) 0 (vr t) (vis t) (ps t).

Definition down1 (t : term) : term :=
  mkTerm (crow t :: above t) (hd [] (below t)) (tl (below t)) (col t) (vr t) (vis t) (ps t).

(* LF with ONLCR: next row, column 0; at the bottom row of the page the page scrolls *)
Definition do_lf (H : nat) (t : term) : term :=
  let t' := down1 t in
  mkTerm (above t') (crow t') (below t') 0 (if S (vr t) <? H then S (vr t) else vr t)%nat (vis t') (ps t').

Definition up1 (t : term) : term :=
  match above t with
  | a :: ab =>
      match vr t with
      | O => t
      | S v => mkTerm ab a (crow t :: below t) (col t) v (vis t) (ps t)
      end
  | [] => t
  end.

Fixpoint iter {A} (n : nat) (f : A -> A) (x : A) : A :=
  match n with O => x | S n' => iter n' f (f x) end.

Definition do_cuu (n : nat) (t : term) : term := iter (Nat.min n (vr t)) up1 t.

Definition set_crow (t : term) (r : row) : term :=
  mkTerm (above t) r (below t) (col t) (vr t) (vis t) (ps t).

Definition do_el (mode : Z) (t : term) : term :=
  if mode =? 2 then set_crow t []
  else if mode =? 0 then set_crow t (firstn (col t) (crow t))
  else if mode =? 1 then set_crow t (repeat SP (S (col t)) ++ skipn (S (col t)) (crow t))
  else t.

(* move the cursor to page row r (0-based), keeping the column *)
Definition goto_vrow (H : nat) (r : nat) (t : term) : term :=
  let t0 := iter (vr t) up1 t in
  let r := Nat.min r (H - 1) in
  let t1 := iter r down1 t0 in
  mkTerm (above t1) (crow t1) (below t1) (col t1) (vr t0 + r) (vis t1) (ps t1).

(* ED 2: blank every row of the page; the cursor does not move *)
Definition do_ed2 (H : nat) (t : term) : term :=
  let ab := map (fun _ => []) (firstn (vr t) (above t)) ++ skipn (vr t) (above t) in
  let nb := (H - 1 - vr t)%nat in
  let be := map (fun _ => []) (firstn nb (below t)) ++ skipn nb (below t) in
  mkTerm ab [] be (col t) (vr t) (vis t) (ps t).

Definition set_vis (t : term) (b : bool) : term :=
  mkTerm (above t) (crow t) (below t) (col t) (vr t) b (ps t).

Definition arg_or (d : Z) (o : option Z) : Z := match o with Some v => v | None => d end.

(* parameters in order; an empty trailing parameter counts as absent *)
Definition csi_args (args : list Z) (cur : option Z) : list (option Z) :=
  rev (cur :: map Some args).

Definition csi_dispatch (H : nat) (priv : Z) (args : list Z) (cur : option Z) (fin : Z) (t : term) : term :=
  let al := csi_args args cur in
  let p1 := hd None al in
  if priv =? 0 then
    if fin =? 65 (* A *) then do_cuu (Z.to_nat (Z.max 1 (arg_or 1 p1))) t
    else if fin =? 75 (* K *) then do_el (arg_or 0 p1) t
    else if fin =? 74 (* J *) then (if arg_or 0 p1 =? 2 then do_ed2 H t else t)
    else if fin =? 72 (* H *) then
      let r := Z.to_nat (Z.max 1 (arg_or 1 p1) - 1) in
      let c := Z.to_nat (Z.max 1 (arg_or 1 (hd None (tl al))) - 1) in
      let t' := goto_vrow H r t in
      mkTerm (above t') (crow t') (below t') c (vr t') (vis t') (ps t')
    else t
  else if priv =? 63 (* ? *) then
    if (fin =? 104) && (arg_or 0 p1 =? 25) then set_vis t true
    else if (fin =? 108) && (arg_or 0 p1 =? 25) then set_vis t false
    else t
  else t.

Definition ground_step (H : nat) (t : term) (c : Z) : term :=
  if is_text c then put t c
  else if c =? 13 then do_cr t
  else if c =? 10 then do_lf H t
  else if c =? 27 then set_ps t PEsc
  else t.

Definition step (H : nat) (t : term) (c : Z) : term :=
  match ps t with
  | PGround => ground_step H t c
  | PEsc =>
      if c =? 91 (* [ *) then set_ps t (PCsi 0 [] None false)
      else if c =? 93 (* ] *) then set_ps t POsc
      else if (32 <=? c) && (c <=? 47) then set_ps t PEscI
      else if c =? 27 then t
      else set_ps t PGround
  | PEscI =>
      if (32 <=? c) && (c <=? 47) then t
      else if c =? 27 then set_ps t PEsc
      else set_ps t PGround
  | PCsi priv args cur bad =>
      if (48 <=? c) && (c <=? 57) then
        set_ps t (PCsi priv args (Some (arg_or 0 cur * 10 + (c - 48))) bad)
      else if c =? 59 (* ; *) then set_ps t (PCsi priv (arg_or 0 cur :: args) None bad)
      else if (60 <=? c) && (c <=? 63) then
        (* private marker: only meaningful as the very first parameter byte *)
        match args, cur with
        | [], None => if priv =? 0 then set_ps t (PCsi c [] None bad) else set_ps t (PCsi priv [] None true)
        | _, _ => set_ps t (PCsi priv args cur true)
        end
      else if c =? 58 then set_ps t (PCsi priv args cur true)
      else if (32 <=? c) && (c <=? 47) then set_ps t (PCsi priv args cur true)
      else if (64 <=? c) && (c <=? 126) then
        let t' := set_ps t PGround in
        if bad then t' else csi_dispatch H priv args cur c t'
      else ground_step H (set_ps t PGround) c   (* anything else aborts the sequence *)
  | POsc =>
      if c =? 7 then set_ps t PGround
      else if c =? 27 then set_ps t POscEsc
      else t
  | POscEsc =>
      if c =? 92 (* \ *) then set_ps t PGround
      else if c =? 27 then t
      else set_ps t POsc
  end.

Definition interp (H : nat) (t : term) (s : str) : term := fold_left (step H) s t.

(* ---- observation: the grid modulo blank space that a screen cannot show ---- *)
Fixpoint strip_sp (r : row) : row :=
  match r with
  | [] => []
  | c :: r' => let s := strip_sp r' in
               match s with
               | [] => if c =? SP then [] else [c]
               | _ => c :: s
               end
  end.

Fixpoint strip_empty (g : list row) : list row :=
  match g with
  | [] => []
  | r :: g' => let s := strip_empty g' in
               match s, r with
               | [], [] => []
               | _, _ => r :: s
               end
  end.

Definition norm_grid (g : list row) : list row := strip_empty (map strip_sp g).

(* the cells a text line occupies when written from column 0 of a blank row *)
Definition row_of (l : str) : row := concat (map cells_of l).
