(* C12 -- executable model of rich/progress.py: Task, its derived values, the Progress mutators,
   track() (direct path and _TrackThread path) and, in module Conc, the interleaving semantics of
   concurrent advance() calls over the event lists regenerated from the source (gen/ProgressLock.v).
   Definitions only.

   Numbers.  Amounts and clock readings are rationals (Q).  The properties depend on floats only
   through sign and order, which IEEE + - * / on finite non-NaN inputs share with the rationals
   (underflow keeps the sign); the harness runs the implementation on ints, dyadic floats and
   Fractions, for which every stored quantity (completed, samples, finish time) is exact.
   Clock readings are inputs: every operation carries the (at most two) readings t1 t2 that its
   get_time() calls return. *)
From RichModel Require Import Prelude.
From RichGen Require Import ProgressLock.
From Coq Require Import QArith Qround Qminmax.
Open Scope Q_scope.

Definition Qltb (a b : Q) : bool := negb (Qle_bool b a).
Definition sumQ (l : list Q) : Q := fold_right Qplus 0 l.
Definition qZ (z : Z) : Q := inject_Z z.

(* ------------------------------------------------------------------ Task *)
Record sample := mkSample { s_ts : Q; s_delta : Q }.

Record task := mkTask {
  t_id : Z;
  t_total : Q;
  t_completed : Q;
  t_start : option Q;
  t_stop : option Q;
  t_fin : option Q;            (* finished_time *)
  t_visible : bool;
  t_samples : list sample      (* _progress, oldest first *)
}.

Definition set_total (t : task) v := mkTask (t_id t) v (t_completed t) (t_start t) (t_stop t) (t_fin t) (t_visible t) (t_samples t).
Definition set_completed (t : task) v := mkTask (t_id t) (t_total t) v (t_start t) (t_stop t) (t_fin t) (t_visible t) (t_samples t).
Definition set_start (t : task) v := mkTask (t_id t) (t_total t) (t_completed t) v (t_stop t) (t_fin t) (t_visible t) (t_samples t).
Definition set_stop (t : task) v := mkTask (t_id t) (t_total t) (t_completed t) (t_start t) v (t_fin t) (t_visible t) (t_samples t).
Definition set_fin (t : task) v := mkTask (t_id t) (t_total t) (t_completed t) (t_start t) (t_stop t) v (t_visible t) (t_samples t).
Definition set_visible (t : task) v := mkTask (t_id t) (t_total t) (t_completed t) (t_start t) (t_stop t) (t_fin t) v (t_samples t).
Definition set_samples (t : task) v := mkTask (t_id t) (t_total t) (t_completed t) (t_start t) (t_stop t) (t_fin t) (t_visible t) v.

Definition is_some {A} (o : option A) : bool := match o with Some _ => true | None => false end.
Definition started (t : task) : bool := is_some (t_start t).
Definition finished (t : task) : bool := is_some (t_fin t).
Definition remaining (t : task) : Q := t_total t - t_completed t.

(* Task.elapsed; `now` is what get_time() would return if it is called *)
Definition elapsed (t : task) (now : Q) : option Q :=
  match t_start t with
  | None => None
  | Some s => match t_stop t with Some e => Some (e - s) | None => Some (now - s) end
  end.

(* Task.percentage; the guard and the clamp constants are regenerated from the source *)
Definition percentage (t : task) : Q :=
  if Qeq_bool (t_total t) 0 then qZ PCT_WHEN_NO_TOTAL
  else Qmin (qZ PCT_HI) (Qmax (qZ PCT_LO) (t_completed t / t_total t * qZ PCT_FACTOR)).

(* Task.speed; the number of samples skipped before the sum (next(iter_progress)) is regenerated, the
   rest of the method's shape is checked by the translator (speed_facts) *)
Definition speed (t : task) : option Q :=
  match t_start t with
  | None => None
  | Some _ =>
      match t_samples t with
      | [] => None
      | s0 :: rest =>
          let total_time := s_ts (last rest s0) - s_ts s0 in
          if Qeq_bool total_time 0 then None
          else Some (sumQ (map s_delta (skipn (Z.to_nat SPEED_SKIP) (s0 :: rest))) / total_time)
      end
  end.

(* Task.time_remaining (ceil of a rational is exact; ceil of the float quotient may differ by one
   when the quotient is within an ulp of an integer -- the harness compares with that tolerance) *)
Definition time_remaining (t : task) : option Z :=
  if finished t then Some 0%Z
  else match speed t with
       | None => None
       | Some sp => if Qeq_bool sp 0 then None else Some (Qceiling (remaining t / sp))
       end.

(* ------------------------------------------------------------------ sample window *)
Fixpoint drop_old (cut : Q) (l : list sample) : list sample :=
  match l with
  | [] => []
  | s :: r => if Qltb (s_ts s) cut then drop_old cut r else l
  end.
(* while len(_progress) > MAX_SAMPLES: popleft() *)
Definition drop_cap (l : list sample) : list sample := skipn (length l - Z.to_nat MAX_SAMPLES) l.
Definition trim (period now : Q) (l : list sample) : list sample := drop_cap (drop_old (now - period) l).

(* if task.completed >= task.total and task.finished_time is None: task.finished_time = task.elapsed *)
Definition finish_check (t : task) (now : Q) : task :=
  if Qle_bool (t_total t) (t_completed t) && negb (finished t) then set_fin t (elapsed t now) else t.

Definition reset_samples (t : task) : task := set_fin (set_samples t []) None.   (* Task._reset *)

(* ------------------------------------------------------------------ the mutators, on one task *)
Definition append_sample (conditional : bool) (l : list sample) (now uc : Q) : list sample :=
  if conditional && negb (Qltb 0 uc) then l else l ++ [mkSample now uc].

Definition do_advance (period : Q) (t : task) (amt t1 t2 : Q) : task :=
  let c0 := t_completed t in
  let t := set_completed t (c0 + amt) in
  let uc := t_completed t - c0 in
  let smp := append_sample advance_append_conditional (trim period t1 (t_samples t)) t1 uc in
  finish_check (set_samples t smp) t2.

Definition do_update (period : Q) (t : task) (total completed advance : option Q) (visible : option bool)
           (t1 t2 : Q) : task :=
  let c0 := t_completed t in
  let t := match total with Some x => reset_samples (set_total t x) | None => t end in
  let t := match advance with Some a => set_completed t (t_completed t + a) | None => t end in
  let t := match completed with Some c => set_completed t c | None => t end in
  let t := match visible with Some v => set_visible t v | None => t end in
  let uc := t_completed t - c0 in
  let smp := append_sample update_append_conditional (trim period t1 (t_samples t)) t1 uc in
  finish_check (set_samples t smp) t2.

Definition do_reset (t : task) (start : bool) (total : option Q) (completed : Q) (visible : option bool)
           (t1 : Q) : task :=
  let t := reset_samples t in
  let t := set_start t (if start then Some t1 else None) in
  let t := match total with Some x => set_total t x | None => t end in
  let t := set_completed t completed in
  let t := match visible with Some v => set_visible t v | None => t end in
  set_fin t None.

Definition do_start (t : task) (t1 : Q) : task :=
  match t_start t with None => set_start t (Some t1) | Some _ => t end.

Definition do_stop (t : task) (t1 : Q) : task :=
  let t := match t_start t with None => set_start t (Some t1) | Some _ => t end in
  set_stop t (Some t1).

(* ------------------------------------------------------------------ Progress *)
Record progress := mkProgress { p_tasks : list task; p_next : Z; p_period : Q }.

Inductive op : Type :=
| AddTask (start : bool) (total completed : Q) (visible : bool)
| StartTask (id : Z)
| StopTask (id : Z)
| Update (id : Z) (total completed advance : option Q) (visible : option bool)
| Reset (id : Z) (start : bool) (total : option Q) (completed : Q) (visible : option bool)
| Advance (id : Z) (amt : Q)
| Remove (id : Z).

Fixpoint find_task (id : Z) (l : list task) : option task :=
  match l with
  | [] => None
  | t :: r => if (t_id t =? id)%Z then Some t else find_task id r
  end.
Fixpoint upd_task (id : Z) (f : task -> task) (l : list task) : list task :=
  match l with
  | [] => []
  | t :: r => if (t_id t =? id)%Z then f t :: r else t :: upd_task id f r
  end.
Fixpoint del_task (id : Z) (l : list task) : list task :=
  match l with
  | [] => []
  | t :: r => if (t_id t =? id)%Z then r else t :: del_task id r
  end.

Definition on_task (p : progress) (id : Z) (f : task -> task) : res progress :=
  match find_task id (p_tasks p) with
  | None => Crash K_KeyError
  | Some _ => Ok (mkProgress (upd_task id f (p_tasks p)) (p_next p) (p_period p))
  end.

Definition new_task (id : Z) (start : bool) (total completed : Q) (visible : bool) (t1 : Q) : task :=
  let t := mkTask id total completed None None None visible [] in
  if start then do_start t t1 else t.

Definition target (o : op) : option Z :=
  match o with
  | AddTask _ _ _ _ => None
  | StartTask id | StopTask id | Update id _ _ _ _ | Reset id _ _ _ _ | Advance id _ | Remove id => Some id
  end.

Definition step (p : progress) (o : op) (t1 t2 : Q) : res progress :=
  match o with
  | AddTask start total completed visible =>
      Ok (mkProgress (p_tasks p ++ [new_task (p_next p) start total completed visible t1])
                     (p_next p + 1)%Z (p_period p))
  | StartTask id => on_task p id (fun t => do_start t t1)
  | StopTask id => on_task p id (fun t => do_stop t t1)
  | Update id total completed advance visible =>
      on_task p id (fun t => do_update (p_period p) t total completed advance visible t1 t2)
  | Reset id start total completed visible =>
      on_task p id (fun t => do_reset t start total completed visible t1)
  | Advance id amt => on_task p id (fun t => do_advance (p_period p) t amt t1 t2)
  | Remove id =>
      match find_task id (p_tasks p) with
      | None => Crash K_KeyError
      | Some _ => Ok (mkProgress (del_task id (p_tasks p)) (p_next p) (p_period p))
      end
  end.

(* a failing operation (KeyError) raises before any mutation: the state is unchanged *)
Definition step_total (p : progress) (o : op) (t1 t2 : Q) : progress :=
  match step p o t1 t2 with Ok p' => p' | _ => p end.

Definition hop : Type := (op * Q * Q)%type.
Definition run (p : progress) (h : list hop) : progress :=
  fold_left (fun p '(o, t1, t2) => step_total p o t1 t2) h p.
(* the states after every prefix *)
Fixpoint run_trace (p : progress) (h : list hop) : list progress :=
  match h with
  | [] => []
  | (o, t1, t2) :: r => let p' := step_total p o t1 t2 in p' :: run_trace p' r
  end.
Definition empty_progress (period : Q) : progress := mkProgress [] 0%Z period.

(* clock readings in the order they are consumed *)
Fixpoint clock_of (h : list hop) : list Q :=
  match h with [] => [] | (_, t1, t2) :: r => t1 :: t2 :: clock_of r end.
Fixpoint mono_from (lo : Q) (l : list Q) : bool :=
  match l with [] => true | x :: r => Qle_bool lo x && mono_from x r end.
Definition mono_b (l : list Q) : bool := match l with [] => true | x :: r => mono_from x r end.

(* ------------------------------------------------------------------ track() *)
(* What the generator does, as a list of events: Yield x hands x to the consumer, Do o is a call
   on the Progress object.  Direct path (auto_refresh = False): advance by one after every element. *)
Inductive tev (A : Type) : Type := Yield (x : A) | Do (o : op).
Arguments Yield {A} x.
Arguments Do {A} o.

Definition track_setup {A} (task_id : option Z) (next_id : Z) (total : Q) : Z * list (tev A) :=
  match task_id with
  | None => (next_id, [Do (AddTask true total 0 true)])
  | Some id => (id, [Do (Update id (Some total) None None None)])
  end.

Definition track_direct {A} (task_id : option Z) (next_id : Z) (total : Q) (xs : list A) : list (tev A) :=
  let '(id, setup) := track_setup task_id next_id total in
  setup ++ flat_map (fun x => [Yield x; Do (Advance id 1)]) xs.

(* _TrackThread path (auto_refresh = True).  The main thread does `yield value; counter += 1`; the
   helper wakes up at arbitrary moments and advances by the difference since its last look; on exit
   it calls update(completed = counter).  A schedule says who moves next: true = the main thread
   (resume the generator: pending increment, then the next element or the end of the loop), false =
   a wake-up of the helper.  When the schedule is used up the main thread runs to the end. *)
Fixpoint track_thread_go {A} (id : Z) (xs : list A) (sched : list bool) (counter last : Z) (pending : bool)
  : list (tev A) :=
  (* pending: the consumer holds an element; `counter += 1` runs when the generator is resumed *)
  let counter' := if pending then (counter + 1)%Z else counter in
  match sched with
  | [] => map Yield xs ++ [Do (Update id None (Some (qZ (counter' + zlen xs))) None None)]
  | true :: sch =>
      match xs with
      | [] => [Do (Update id None (Some (qZ counter')) None None)]      (* loop over: __exit__ *)
      | x :: r => Yield x :: track_thread_go id r sch counter' last true
      end
  | false :: sch =>
      if (last =? counter)%Z then track_thread_go id xs sch counter last pending
      else Do (Advance id (qZ (counter - last))) :: track_thread_go id xs sch counter counter pending
  end.

Definition track_thread {A} (task_id : option Z) (next_id : Z) (total : Q) (xs : list A) (sched : list bool)
  : list (tev A) :=
  let '(id, setup) := track_setup task_id next_id total in
  setup ++ track_thread_go id xs sched 0 0 false.

(* The consumer abandons the loop (break, or close() of the generator) while holding the k-th
   element, 1 <= k <= length xs: the generator is closed at its `yield`, so the bookkeeping for that
   element never runs.  Both paths end at k - 1: "completed" counts elements whose loop body finished. *)
Definition track_direct_abandoned {A} (task_id : option Z) (next_id : Z) (total : Q) (xs : list A) (k : nat)
  : list (tev A) :=
  let '(id, setup) := track_setup task_id next_id total in
  match skipn (k - 1) xs with
  | x :: _ => setup ++ flat_map (fun x => [Yield x; Do (Advance id 1)]) (firstn (k - 1) xs) ++ [Yield x]
  | [] => setup ++ flat_map (fun x => [Yield x; Do (Advance id 1)]) xs
  end.
Definition track_thread_abandoned {A} (task_id : option Z) (next_id : Z) (total : Q) (xs : list A) (k : nat)
  : list (tev A) :=
  let '(id, setup) := track_setup task_id next_id total in
  setup ++ map Yield (firstn k xs) ++ [Do (Update id None (Some (qZ (Z.of_nat k - 1))) None None)].

Definition yields {A} (l : list (tev A)) : list A :=
  flat_map (fun e => match e with Yield x => [x] | Do _ => [] end) l.
Definition calls {A} (l : list (tev A)) : list op :=
  flat_map (fun e => match e with Yield _ => [] | Do o => [o] end) l.
(* attach clock readings (two per call) to the calls *)
Fixpoint with_clock (os : list op) (clk : list Q) : list hop :=
  match os with
  | [] => []
  | o :: r => match clk with
              | a :: b :: clk' => (o, a, b) :: with_clock r clk'
              | [a] => (o, a, a) :: with_clock r []
              | [] => (o, 0, 0) :: with_clock r []
              end
  end.

(* ================================================================== Conc *)
(* Interleaving semantics of threads that each perform a list of advance(id, amount) calls on one
   task.  A thread executes the event list `evs` of the method (for rich: gen advance_events) one
   event per step; a schedule is a list of thread indices.  Integers here (amounts, ticks of a
   global scripted clock that returns 0, 1, 2, ... on successive reads). *)
Module Conc.
Open Scope Z_scope.

Record shared := mkShared {
  completed : Z;
  total : Z;
  start_time : option Z;
  stop_time : option Z;
  fin_time : option Z;
  samples : list (Z * Z);       (* (timestamp, delta), oldest first *)
  clock : Z;                    (* next reading of the scripted clock *)
  lock : option nat;            (* owner of Progress._lock *)
  period : Z
}.

Record thread := mkThread {
  pc : list ev;                 (* rest of the current call *)
  amt : Z;                      (* its argument *)
  todo : list Z;                (* arguments of the calls still to make *)
  done : Z;                     (* sum of the arguments of the completed calls *)
  r_time : Z;                   (* current_time *)
  r_c : Z;                      (* last value read from task.completed *)
  r_cs : option Z;              (* completed_start *)
  r_uc : Z;                     (* update_completed *)
  (* ghost flags, maintained exactly as the static checker wf_from does *)
  g_inlock : bool; g_valid : bool; g_wrote : bool;
  g_tvalid : bool               (* current_time was read in the current critical section *)
}.

Definition set_lock (s : shared) l := mkShared (completed s) (total s) (start_time s) (stop_time s) (fin_time s) (samples s) (clock s) l (period s).
Definition set_completed (s : shared) c := mkShared c (total s) (start_time s) (stop_time s) (fin_time s) (samples s) (clock s) (lock s) (period s).
Definition set_samples (s : shared) l := mkShared (completed s) (total s) (start_time s) (stop_time s) (fin_time s) l (clock s) (lock s) (period s).
Definition set_clock (s : shared) c := mkShared (completed s) (total s) (start_time s) (stop_time s) (fin_time s) (samples s) c (lock s) (period s).
Definition set_fin (s : shared) f := mkShared (completed s) (total s) (start_time s) (stop_time s) f (samples s) (clock s) (lock s) (period s).

Fixpoint drop_oldZ (cut : Z) (l : list (Z * Z)) : list (Z * Z) :=
  match l with [] => [] | (ts, d) :: r => if ts <? cut then drop_oldZ cut r else l end.
Definition drop_capZ (l : list (Z * Z)) : list (Z * Z) := skipn (length l - Z.to_nat MAX_SAMPLES) l.

(* does task.elapsed call get_time() in this state? *)
Definition finish_due (s : shared) : bool :=
  (total s <=? completed s) && negb (is_some (fin_time s)).
Definition elapsed_reads_clock (s : shared) : bool :=
  finish_due s && is_some (start_time s) && negb (is_some (stop_time s)).

Definition is_shared_access (e : ev) : bool :=
  match e with Clock | Acq | Rel | Refresh | Call => false | _ => true end.
Definition is_rd_completed (e : ev) : bool := match e with Rd f => f =? F_completed | _ => false end.
Definition is_wr_completed (e : ev) : bool := match e with Wr f => f =? F_completed | _ => false end.

(* ---- the static discipline, one pass over an event list: every access to shared state lies
   between Acq and Rel, the lock is not re-acquired, task.completed is written exactly once and the
   value written is computed from a read made in the same critical section. *)
Fixpoint wf_from (inlock valid wrote : bool) (l : list ev) : bool :=
  match l with
  | [] => negb inlock && wrote
  | e :: r =>
      match e with
      | Acq => negb inlock && wf_from true false wrote r
      | Rel => inlock && wf_from false false wrote r
      | Call => false
      | Clock | Refresh => wf_from inlock valid wrote r
      | _ =>
          inlock &&
          (if is_rd_completed e then wf_from inlock true wrote r
           else if is_wr_completed e then valid && negb wrote && wf_from inlock false true r
           else wf_from inlock valid wrote r)
      end
  end.
Definition wf_b (l : list ev) : bool := wf_from false false false l.

(* every shared access of a method lies inside the lock (used for the other mutators) *)
Fixpoint guarded_from (depth : nat) (l : list ev) : bool :=
  match l with
  | [] => Nat.eqb depth 0
  | Acq :: r => guarded_from (S depth) r
  | Rel :: r => match depth with O => false | S d => guarded_from d r end
  | e :: r => (negb (is_shared_access e) || negb (Nat.eqb depth 0)) && guarded_from depth r
  end.
Definition guarded (l : list ev) : bool := guarded_from 0 l.

(* is every clock read that can stamp a sample made while the lock is held? *)
Fixpoint clock_inside_from (inlock : bool) (l : list ev) : bool :=
  match l with
  | [] => true
  | Acq :: r => clock_inside_from true r
  | Rel :: r => clock_inside_from false r
  | Clock :: r => inlock && clock_inside_from inlock r
  | _ :: r => clock_inside_from inlock r
  end.
Definition clock_inside_b (l : list ev) : bool := clock_inside_from false l.

(* every sample is stamped with a clock reading made in the same critical section *)
Fixpoint stamp_from (inlock tvalid : bool) (l : list ev) : bool :=
  match l with
  | [] => true
  | Acq :: r => stamp_from true false r
  | Rel :: r => stamp_from false false r
  | Clock :: r => stamp_from inlock inlock r
  | Append :: r => tvalid && stamp_from inlock tvalid r
  | _ :: r => stamp_from inlock tvalid r
  end.
Definition stamp_b (l : list ev) : bool := stamp_from false false l.

(* ---- dynamic semantics of one event of thread i *)
Definition exec (i : nat) (s : shared) (th : thread) (e : ev) : option (shared * thread) :=
  let th' := fun t c cs uc il v w tv =>
    mkThread (tl (pc th)) (amt th) (todo th) (done th) t c cs uc il v w tv in
  let same := th' (r_time th) (r_c th) (r_cs th) (r_uc th) (g_inlock th) (g_valid th) (g_wrote th) (g_tvalid th) in
  match e with
  | Clock =>
      Some (set_clock s (clock s + 1),
            th' (clock s) (r_c th) (r_cs th) (r_uc th) (g_inlock th) (g_valid th) (g_wrote th) (g_inlock th))
  | Acq =>
      match lock s with
      | None => Some (set_lock s (Some i),
                      th' (r_time th) (r_c th) (r_cs th) (r_uc th) true false (g_wrote th) false)
      | Some _ => None                        (* blocked (or re-entry, excluded by wf_b) *)
      end
  | Rel => Some (set_lock s None, th' (r_time th) (r_c th) (r_cs th) (r_uc th) false false (g_wrote th) false)
  | Rd f =>
      if f =? F_completed then
        let cs := match r_cs th with Some c => c | None => completed s end in
        Some (s, th' (r_time th) (completed s) (Some cs) (completed s - cs) (g_inlock th) true (g_wrote th) (g_tvalid th))
      else Some (s, same)
  | Wr f =>
      if f =? F_completed then
        Some (set_completed s (r_c th + amt th),
              th' (r_time th) (r_c th) (r_cs th) (r_uc th) (g_inlock th) false true (g_tvalid th))
      else if f =? F_finished_time then
        (* task.finished_time = task.elapsed, under its guard *)
        if finish_due s then
          match start_time s with
          | None => Some (s, same)
          | Some st =>
              match stop_time s with
              | Some sp => Some (set_fin s (Some (sp - st)), same)
              | None => Some (set_fin (set_clock s (clock s + 1)) (Some (clock s - st)), same)
              end
          end
        else Some (s, same)
      else Some (s, same)
  | PopOld => Some (set_samples s (drop_oldZ (r_time th - period s) (samples s)), same)
  | PopCap => Some (set_samples s (drop_capZ (samples s)), same)
  | Append => Some (set_samples s (samples s ++ [(r_time th, r_uc th)]), same)
  | Clear | Elapsed | Refresh | Call => Some (s, same)
  end.

Definition fresh_thread (amounts : list Z) : thread :=
  mkThread [] 0 amounts 0 0 0 None 0 false false false false.

Section Machine.
Variable evs : list ev.      (* the event list of advance() *)

(* one step of thread i: run its next event, or start its next call, or stutter (blocked/finished) *)
Definition step1 (i : nat) (s : shared) (th : thread) : shared * thread :=
  match pc th with
  | e :: _ => match exec i s th e with Some r => r | None => (s, th) end
  | [] =>
      match todo th with
      | [] => (s, th)
      | a :: rest =>
          let th0 := mkThread evs a rest (done th) 0 0 None 0 false false false false in
          match evs with
          | [] => (s, mkThread [] 0 rest (done th + a) 0 0 None 0 false false false false)
          | e :: _ => match exec i s th0 e with Some r => r | None => (s, th0) end
          end
      end
  end.

(* a call is over when its last event has run: its argument moves to `done` *)
Definition retire (th : thread) : thread :=
  match pc th with
  | [] => if g_wrote th
          then mkThread [] 0 (todo th) (done th + amt th) (r_time th) (r_c th) None 0 false false false false
          else th
  | _ => th
  end.

Fixpoint set_nth {A} (n : nat) (x : A) (l : list A) : list A :=
  match l, n with
  | [], _ => []
  | _ :: r, O => x :: r
  | y :: r, S n' => y :: set_nth n' x r
  end.

Definition state : Type := (shared * list thread)%type.
Definition sstep (st : state) (i : nat) : state :=
  let '(s, ths) := st in
  match nth_error ths i with
  | None => st
  | Some th => let '(s', th') := step1 i s th in (s', set_nth i (retire th') ths)
  end.
Definition srun (st : state) (sched : list nat) : state := fold_left sstep sched st.

Definition thread_done (th : thread) : bool :=
  match pc th, todo th with [], [] => true | _, _ => false end.
Definition all_done (st : state) : bool := forallb thread_done (snd st).
End Machine.

Definition init_shared (c0 tot : Z) (start : option Z) (per : Z) : shared :=
  mkShared c0 tot start None None [] 0 None per.
Definition init_state (c0 tot : Z) (start : option Z) (per : Z) (progs : list (list Z)) : state :=
  (init_shared c0 tot start per, map fresh_thread progs).

(* the Task the shared state stands for (for speed / time_remaining) *)
Definition task_of (s : shared) : task :=
  mkTask 0 (qZ (total s)) (qZ (completed s))
         (option_map qZ (start_time s)) (option_map qZ (stop_time s)) (option_map qZ (fin_time s))
         true (map (fun '(ts, d) => mkSample (qZ ts) (qZ d)) (samples s)).

(* advance() as found in rich 9.10.0 (clock read before the lock is taken); kept by hand so that the
   refutation theorem does not depend on which tree gen/ was regenerated from *)
Definition advance_events_asis : list ev :=
  [Clock; Acq; Rd 0; Rd 1; Rd 1; Wr 1; Rd 1; Rd 6; Rd 6; Rd 6; PopOld; Rd 6; PopCap; Append;
   Rd 1; Rd 2; Rd 5; Elapsed; Wr 5; Rel].

(* ---- replay of an observed trace.  The scheduler harness records, per thread, the events it can
   see: Clock reads, lock acquire / release, reads and writes of task.completed, sample appends.
   Replay moves the named thread through its invisible events up to the next visible one and checks
   that its kind is the recorded one. *)
Definition vis_kind (s : shared) (e : ev) : option Z :=
  match e with
  | Clock => Some 0
  | Acq => Some 1
  | Rel => Some 2
  | Rd f => if f =? F_completed then Some 3 else None
  | Wr f => if f =? F_completed then Some 4
            else if (f =? F_finished_time) && elapsed_reads_clock s then Some 0 else None
  | Append => Some 5
  | _ => None
  end.

Definition next_event (evs : list ev) (th : thread) : option ev :=
  match pc th with
  | e :: _ => Some e
  | [] => match todo th with [] => None | _ => hd_error evs end
  end.

Fixpoint replay_one (evs : list ev) (fuel : nat) (i : nat) (kind : Z) (st : state) : option state :=
  match fuel with
  | O => None
  | S fuel' =>
      match nth_error (snd st) i with
      | None => None
      | Some th =>
          match next_event evs th with
          | None => None
          | Some e =>
              let st' := sstep evs st i in
              match vis_kind (fst st) e with
              | Some k => if k =? kind then Some st' else None
              | None => replay_one evs fuel' i kind st'
              end
          end
      end
  end.

Fixpoint replay (evs : list ev) (trace : list (nat * Z)) (st : state) : option state :=
  match trace with
  | [] => Some st
  | (i, k) :: r =>
      match replay_one evs (S (length evs)) i k st with
      | None => None
      | Some st' => replay evs r st'
      end
  end.
(* after the trace: let every thread finish its invisible tail (Wr finished_time without clock, Rel is
   visible so nothing of substance remains) *)
End Conc.

(* ================================================================== Ser *)
(* Any number of threads performing arbitrary Progress operations (add / start / stop / update /
   reset / advance / remove), each operation being ONE critical section whose body is an arbitrary
   sequence of micro-steps on (shared state, thread-local state) -- any decomposition of the method
   into atomic actions, down to single bytecodes.  A schedule picks which thread moves next; a move
   is: take the free lock and start the next operation / one micro-step / release.  Events outside
   the critical section do not touch shared state (checked on the regenerated event lists:
   `single_cs_b`) and are omitted.  `hist` is a ghost: the operations in lock-acquisition order. *)
Module Ser.
Set Implicit Arguments.
Section M.
Variables Sh Lo Op Ms : Type.
Variable mexec : Ms -> Sh * Lo -> Sh * Lo.
Variable body : Op -> list Ms.
Variable lo0 : Op -> Lo.

Record thr := mkThr { cur : option (Lo * list Ms); todo : list Op }.
Record st := mkSt { sh : Sh; lock : option nat; ths : list thr; hist : list (nat * Op) }.

Fixpoint set_nth {A} (n : nat) (x : A) (l : list A) : list A :=
  match l, n with
  | [], _ => []
  | _ :: r, O => x :: r
  | y :: r, S n' => y :: set_nth n' x r
  end.

Definition step (s : st) (i : nat) : st :=
  match nth_error (ths s) i with
  | None => s
  | Some th =>
      match cur th with
      | None =>
          match todo th, lock s with
          | o :: r, None =>
              mkSt (sh s) (Some i) (set_nth i (mkThr (Some (lo0 o, body o)) r) (ths s)) (hist s ++ [(i, o)])
          | _, _ => s                                        (* nothing to do, or blocked *)
          end
      | Some (lo, []) => mkSt (sh s) None (set_nth i (mkThr None (todo th)) (ths s)) (hist s)
      | Some (lo, m :: rest) =>
          let '(sh', lo') := mexec m (sh s, lo) in
          mkSt sh' (lock s) (set_nth i (mkThr (Some (lo', rest)) (todo th)) (ths s)) (hist s)
      end
  end.
Definition run (s : st) (sched : list nat) : st := fold_left step sched s.

Definition run_body (ms : list Ms) (x : Sh * Lo) : Sh * Lo := fold_left (fun x m => mexec m x) ms x.
Definition run_op (o : Op) (s : Sh) : Sh := fst (run_body (body o) (s, lo0 o)).
Definition seq_run (os : list Op) (s : Sh) : Sh := fold_left (fun s o => run_op o s) os s.
Definition init (s0 : Sh) (progs : list (list Op)) : st :=
  mkSt s0 None (map (fun p => mkThr None p) progs) [].
End M.
Unset Implicit Arguments.
End Ser.

(* one critical section containing every shared access and every clock read of the method *)
Module SerFacts.
Import Conc.
Fixpoint count_acq (l : list ev) : nat :=
  match l with [] => O | Acq :: r => S (count_acq r) | _ :: r => count_acq r end.
Definition single_cs_b (l : list ev) : bool :=
  Nat.eqb (count_acq l) 1 && guarded l && clock_inside_b l.
End SerFacts.

(* ================================================================== Mix *)
(* Event-granular interleaving of threads that each perform a list of advance / update / reset calls
   on one task, over the finer event lists regenerated from the source (gen: advance_xevents,
   update_xevents, reset_xevents).  Only task.completed is tracked here (the other fields of mixed
   operations are covered at critical-section granularity by Ser); two ghosts: `wlog`, every write to
   task.completed in execution order, and `hist`, the calls in lock-acquisition order. *)
Module Mix.
Open Scope Z_scope.

Inductive mop : Type :=
| MAdv (a : Z)
| MUpd (tot comp adv : option Z)
| MRst (comp : Z).
Definition arg_adv (o : mop) : option Z :=
  match o with MAdv a => Some a | MUpd _ _ adv => adv | MRst _ => None end.
Definition arg_comp (o : mop) : option Z :=
  match o with MAdv _ => None | MUpd _ c _ => c | MRst c => Some c end.
Definition guard_ok (g : guard) (o : mop) : bool :=
  match g with
  | G_always => true
  | G_total => match o with MUpd (Some _) _ _ => true | _ => false end
  | G_completed => is_some (arg_comp o)
  | G_advance => is_some (arg_adv o)
  end.

Inductive wr : Type := WSet (v : Z) | WAdd (a : Z).
(* last explicitly set value plus the advances since, as a fold over the writes *)
Definition eval_log (c0 : Z) (l : list wr) : Z :=
  fold_left (fun c w => match w with WSet v => v | WAdd a => c + a end) l c0.

(* what an event of a call writes to task.completed *)
Definition writes_ev (o : mop) (e : xev) : list wr :=
  match e with
  | XAddC g => if guard_ok g o then match arg_adv o with Some a => [WAdd a] | None => [] end else []
  | XSetC g => if guard_ok g o then match arg_comp o with Some c => [WSet c] | None => [] end else []
  | _ => []
  end.
(* the property's reading of the three calls *)
Definition spec_writes (o : mop) : list wr :=
  match o with
  | MAdv a => [WAdd a]
  | MUpd _ comp adv =>
      (match adv with Some a => [WAdd a] | None => [] end) ++ (match comp with Some c => [WSet c] | None => [] end)
  | MRst c => [WSet c]
  end.

Record shared := mkShared { completed : Z; lock : option nat; wlog : list wr; hist : list mop }.
Record thread := mkThread {
  pc : list xev; cur : mop; todo : list mop; r_c : Z;
  g_phase : nat;      (* ghost: 0 before the lock is taken, 1 inside, 2 after release *)
  g_valid : bool      (* ghost: r_c was read in this critical section and not yet consumed *)
}.

(* static discipline: one critical section holding every shared access; `+=` writes a value read in it *)
Fixpoint wfx_from (phase : nat) (valid : bool) (l : list xev) : bool :=
  match l with
  | [] => Nat.eqb phase 2
  | e :: r =>
      match e with
      | XClock | XLocal => wfx_from phase valid r
      | XAcq => Nat.eqb phase 0 && wfx_from 1 false r
      | XRel => Nat.eqb phase 1 && wfx_from 2 false r
      | XRdC => Nat.eqb phase 1 && wfx_from 1 true r
      | XAddC _ => Nat.eqb phase 1 && valid && wfx_from 1 false r
      | XSetC _ => Nat.eqb phase 1 && wfx_from 1 false r
      | XOther => Nat.eqb phase 1 && wfx_from 1 valid r
      end
  end.
Definition wfx_b (l : list xev) : bool := wfx_from 0 false l.

Section Machine.
Variables evA evU evR : list xev.      (* the event lists of advance / update / reset *)
Definition prog_of (o : mop) : list xev :=
  match o with MAdv _ => evA | MUpd _ _ _ => evU | MRst _ => evR end.
Definition writes_of (o : mop) : list wr := flat_map (writes_ev o) (prog_of o).

Definition exec (i : nat) (s : shared) (th : thread) (e : xev) : option (shared * thread) :=
  let th' := fun c ph v => mkThread (tl (pc th)) (cur th) (todo th) c ph v in
  match e with
  | XClock | XLocal | XOther => Some (s, th' (r_c th) (g_phase th) (g_valid th))
  | XAcq =>
      match lock s with
      | None => Some (mkShared (completed s) (Some i) (wlog s) (hist s ++ [cur th]), th' (r_c th) 1%nat false)
      | Some _ => None
      end
  | XRel => Some (mkShared (completed s) None (wlog s) (hist s), th' (r_c th) 2%nat false)
  | XRdC => Some (s, th' (completed s) (g_phase th) true)
  | XAddC g =>
      match (if guard_ok g (cur th) then arg_adv (cur th) else None) with
      | Some a => Some (mkShared (r_c th + a) (lock s) (wlog s ++ [WAdd a]) (hist s), th' (r_c th) (g_phase th) false)
      | None => Some (s, th' (r_c th) (g_phase th) false)
      end
  | XSetC g =>
      match (if guard_ok g (cur th) then arg_comp (cur th) else None) with
      | Some c => Some (mkShared c (lock s) (wlog s ++ [WSet c]) (hist s), th' (r_c th) (g_phase th) false)
      | None => Some (s, th' (r_c th) (g_phase th) false)
      end
  end.

Definition step1 (i : nat) (s : shared) (th : thread) : shared * thread :=
  match pc th with
  | e :: _ => match exec i s th e with Some r => r | None => (s, th) end
  | [] =>
      match todo th with
      | [] => (s, th)
      | o :: rest =>
          let th0 := mkThread (prog_of o) o rest 0 0%nat false in
          match prog_of o with
          | [] => (s, th0)
          | e :: _ => match exec i s th0 e with Some r => r | None => (s, th0) end
          end
      end
  end.

Fixpoint set_nth {A} (n : nat) (x : A) (l : list A) : list A :=
  match l, n with
  | [], _ => []
  | _ :: r, O => x :: r
  | y :: r, S n' => y :: set_nth n' x r
  end.
Definition state : Type := (shared * list thread)%type.
Definition sstep (st : state) (i : nat) : state :=
  let '(s, ths) := st in
  match nth_error ths i with
  | None => st
  | Some th => let '(s', th') := step1 i s th in (s', set_nth i th' ths)
  end.
Definition srun (st : state) (sched : list nat) : state := fold_left sstep sched st.
End Machine.

Definition init_state (c0 : Z) (progs : list (list mop)) : state :=
  (mkShared c0 None [] [], map (fun p => mkThread [] (MRst 0) p 0 2%nat false) progs).
End Mix.

(* replay of an observed trace through Mix: visible are lock acquire (1) / release (2) and the writes
   to task.completed (4); the named thread is moved through its invisible events up to the next
   visible one, whose kind must be the recorded one *)
Module MixReplay.
Import Mix.
Open Scope Z_scope.
Definition vis (o : mop) (e : xev) : option Z :=
  match e with
  | XAcq => Some 1
  | XRel => Some 2
  | XAddC g => if guard_ok g o && is_some (arg_adv o) then Some 4 else None
  | XSetC g => if guard_ok g o && is_some (arg_comp o) then Some 4 else None
  | _ => None
  end.
Section R.
Variables evA evU evR : list xev.
Definition next_ev (th : thread) : option (mop * xev) :=
  match pc th with
  | e :: _ => Some (cur th, e)
  | [] => match todo th with
          | [] => None
          | o :: _ => match prog_of evA evU evR o with [] => None | e :: _ => Some (o, e) end
          end
  end.
Fixpoint replay_one (fuel : nat) (i : nat) (kind : Z) (st : state) : option state :=
  match fuel with
  | O => None
  | S fuel' =>
      match nth_error (snd st) i with
      | None => None
      | Some th =>
          match next_ev th with
          | None => None
          | Some (o, e) =>
              let st' := sstep evA evU evR st i in
              match vis o e with
              | Some k => if k =? kind then Some st' else None
              | None => replay_one fuel' i kind st'
              end
          end
      end
  end.
Fixpoint replay (trace : list (nat * Z)) (st : state) : option state :=
  match trace with
  | [] => Some st
  | (i, k) :: r =>
      match replay_one 80 i k st with
      | None => None
      | Some st' => replay r st'
      end
  end.
End R.
(* the values task.completed takes, write after write *)
Fixpoint scan_log (c : Z) (l : list wr) : list Z :=
  match l with
  | [] => []
  | w :: r => let c' := match w with WSet v => v | WAdd a => c + a end in c' :: scan_log c' r
  end.
Definition thread_idle (th : thread) : bool :=
  match pc th, todo th with
  | [], [] => true
  | l, [] => forallb (fun e => match e with XClock | XLocal | XOther => true | _ => false end) l
  | _, _ => false
  end.
End MixReplay.
