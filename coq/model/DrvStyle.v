(* wire glue for the style layer (C06; Style.v is also used by C03/C19) *)
From RichModel Require Import Prelude Color Style SpecStyle.
From RichModel Require DrvColor.
From RichGen Require Import StyleTables.

Definition ofColor := DrvColor.ofColor.
Definition tColor := DrvColor.tColor.
Definition tSys := DrvColor.tSys.

(* the fields __eq__ compares + the _null flag:  [color?, bgcolor?, attributes, set_attributes, link?, null] *)
Definition ofFields (s : style) : tree :=
  L [ofOpt ofColor (s_color s); ofOpt ofColor (s_bgcolor s); I (s_attributes s); I (s_set_attributes s);
     ofOpt ofStr (s_link s); ofB (s_null s)].
(* a raw record: hash of its own fields, empty memos *)
Definition tFields (t : tree) : style :=
  let c := tOpt tColor (tNth t 0) in
  let b := tOpt tColor (tNth t 1) in
  let a := tZ (tNth t 2) in
  let sa := tZ (tNth t 3) in
  let l := tOpt tStr (tNth t 4) in
  mkStyle c b a sa l (tB (tNth t 5)) (mkHKey c b (Some a) (Some sa) l) None None.
(* what the harness observes of a style object: fields, str(), bool() *)
Definition ofObs (s : style) : tree := L [ofFields s; ofStr (style_str s); ofB (style_bool s)].

Definition tFlag (t : tree) : option bool :=
  let z := tZ t in if z <? 0 then None else Some (negb (z =? 0)).
Definition tColorArg (t : tree) : option color_arg :=
  match tL t with
  | [] => None
  | k :: v :: _ => Some (if tZ k =? 0 then CA_obj (tColor v) else CA_str (tStr v))
  | _ => None
  end.

(* construction routes: a small expression language, evaluated the same way by the harness on
   real Style objects.  Values are [hobj]: the style together with the state of the lazy hash memo
   of the repaired code (ignored when the tree under test still stores the hash eagerly).
     [0] null()            [1, s] parse(s)         [2, color, bgcolor, flags, link?] Style(...)
     [3, a, b] a + b       [4, e] copy()           [5, e, link?] update_link(link)
     [6, e] without_color  [7, color?, bgcolor?] from_color     [8, e] str(e); e
     [9, fields] raw record   [10, e, sys] e._make_ansi_codes(sys); e    [11, e] e + None
     [12, e...] combine([...])   [13, e] background_style     [14, e] hash(e); e            *)
Fixpoint evalh (fuel : nat) (fix_def : bool) (t : tree) : res hobj :=
  match fuel with
  | O => Crash K_OutOfFuel
  | S fuel =>
    let ev := evalh fuel fix_def in
    let tag := tZ (tNth t 0) in
    if tag =? 0 then Ok ho_null
    else if tag =? 1 then do s <- style_parse (tStr (tNth t 1)); Ok (ho_init s)
    else if tag =? 2 then
      do s <- style_kw (tColorArg (tNth t 1)) (tColorArg (tNth t 2)) (tList tFlag (tNth t 3)) (tOpt tStr (tNth t 4));
      Ok (ho_init s)
    else if tag =? 3 then do a <- ev (tNth t 1); do b <- ev (tNth t 2); Ok (ho_add a b)
    else if tag =? 4 then do a <- ev (tNth t 1); Ok (ho_copy a)
    else if tag =? 5 then do a <- ev (tNth t 1); Ok (ho_update_link fix_def a (tOpt tStr (tNth t 2)))
    else if tag =? 6 then do a <- ev (tNth t 1); Ok (ho_without_color a)
    else if tag =? 7 then Ok (ho_from_color (tOpt tColor (tNth t 1)) (tOpt tColor (tNth t 2)))
    else if tag =? 8 then do a <- ev (tNth t 1); Ok (ho_str a)
    else if tag =? 9 then Ok (ho_init (tFields (tNth t 1)))
    else if tag =? 10 then
      do a <- ev (tNth t 1); do c <- make_ansi_codes_memo (ho_style a) (tSys (tNth t 2));
      Ok (mkHObj (style_set_ansi (ho_style a) c) (ho_memo a))
    else if tag =? 11 then do a <- ev (tNth t 1); Ok a
    else if tag =? 12 then
      do l <- fold_right (fun e acc => do s <- ev e; do r <- acc; Ok (s :: r)) (Ok []) (tl (tL t));
      ho_combine l
    else if tag =? 13 then do a <- ev (tNth t 1); Ok (ho_init (style_background_style (ho_style a)))
    else if tag =? 14 then do a <- ev (tNth t 1); Ok (ho_touch a)
    else Crash K_Other
  end.

Fixpoint depth (t : tree) : nat :=
  match t with
  | I _ => 1
  | L l => S (fold_right (fun x acc => Nat.max (depth x) acc) 0%nat l)
  end.
Definition runh (fix_def : bool) (t : tree) : res hobj := evalh (depth t) fix_def t.
Definition run (fix_def : bool) (t : tree) : res style := do o <- runh fix_def t; Ok (ho_style o).
(* what hash(o) is the hash of: the stored tuple as found, the lazy memo of the repaired code *)
Definition obj_hash (fix_d4 : bool) (o : hobj) : hkey :=
  if fix_d4 then ho_hash o else hash_key false (ho_style o).

Definition ofAttr (o : option bool) : tree :=
  match o with None => I (-1) | Some false => I 0 | Some true => I 1 end.

Definition ops : list (string * (tree -> tree)) := [
  (* [fix_def, e] -> fields, str, bool *)
  ("style.eval", fun t => ofRes ofObs (run (tB (tNth t 0)) (tNth t 1)));
  (* [fix_def, a, b, c] -> fields of a, b, c, a+b, (a+b)+c, a+(b+c), b+c *)
  ("style.add3", fun t =>
     let fd := tB (tNth t 0) in
     ofRes (fun x => x)
       (do a <- run fd (tNth t 1); do b <- run fd (tNth t 2); do c <- run fd (tNth t 3);
        let ab := style_add a b in let bc := style_add b c in
        Ok (L [ofFields a; ofFields b; ofFields c; ofFields ab; ofFields (style_add ab c);
               ofFields (style_add a bc); ofFields bc])));
  (* [fix_def, e] -> NULL + e, e + NULL *)
  ("style.add_null", fun t =>
     ofRes (fun x => x)
       (do a <- run (tB (tNth t 0)) (tNth t 1);
        Ok (L [ofFields a; ofFields (style_add style_null a); ofFields (style_add a style_null)])));
  (* [fix_def, fix_d4, e1, e2] -> [e1 == e2, hash(e1) == hash(e2)] *)
  ("style.hash_eq", fun t =>
     let fd := tB (tNth t 0) in
     let fh := tB (tNth t 1) in
     ofRes (fun x => x)
       (do a <- runh fd (tNth t 2); do b <- runh fd (tNth t 3);
        Ok (L [ofB (style_eqb (ho_style a) (ho_style b)); ofB (hkey_eqb (obj_hash fh a) (obj_hash fh b))])));
  (* [fix_def, e] -> fields of e, str(e), parse(str(e)), normalize(str(e)), parse(normalize(str(e))) *)
  ("style.roundtrip", fun t =>
     ofRes (fun x => x)
       (do a <- run (tB (tNth t 0)) (tNth t 1);
        let d := style_str a in
        let n := style_normalize d in
        Ok (L [ofFields a; ofStr d; ofRes ofFields (style_parse d); ofRes ofStr n;
               match n with Ok n' => ofRes ofFields (style_parse n') | _ => L [] end])));
  ("style.parse", fun t => ofRes ofObs (style_parse (tStr t)));
  ("style.normalize", fun t => ofRes ofStr (style_normalize (tStr t)));
  ("style.split", fun t => L [ofList ofStr (split_ws (tStr t)); ofStr (py_lower (tStr t)); ofStr (py_strip (tStr t))]);
  (* [fix_def, e] -> the 13 descriptor values *)
  ("style.attrs", fun t =>
     ofRes (fun s => ofList (fun i => ofAttr (style_attr s i)) attr_bits) (run (tB (tNth t 0)) (tNth t 1)));
  (* [fix_def, e, sys] -> _make_ansi_codes *)
  ("style.codes", fun t =>
     ofRes ofStr (do a <- run (tB (tNth t 0)) (tNth t 1); make_ansi_codes_memo a (tSys (tNth t 2))));
  (* [fix_def, e, text, sys?, legacy_windows, link_id] -> render *)
  ("style.render", fun t =>
     ofRes ofStr (do a <- run (tB (tNth t 0)) (tNth t 1);
                  style_render a (tStr (tNth t 2)) (tOpt tSys (tNth t 3)) (tB (tNth t 4)) (tStr (tNth t 5))));
  (* k -> parse of the k-th documented spelling *)
  ("style.spelling", fun t =>
     match nth_error documented_spellings (Z.to_nat (tZ t)) with
     | Some (w, _) => L [ofStr w; ofRes ofFields (style_parse w)]
     | None => L []
     end);
  ("style.n_spellings", fun _ => ofNat (length documented_spellings));
  (* spec-level checkers, applied by the harness to the implementation's outputs *)
  ("spec.style.assoc_ok", fun t => ofB (assoc_b (tFields (tNth t 0)) (tFields (tNth t 1))));
  ("spec.style.add_ok", fun t =>          (* [a, b, a+b] *)
     ofB (add_ok_b (tFields (tNth t 0)) (tFields (tNth t 1)) (tFields (tNth t 2))));
  ("spec.style.identity_ok", fun t =>     (* [a, out] : inv a -> out == a *)
     ofB (negb (inv_b (tFields (tNth t 0))) || identity_b (tFields (tNth t 0)) (tFields (tNth t 1))));
  ("spec.style.inv", fun t => ofB (inv_b (tFields t)));
  ("spec.style.roundtrip_ok", fun t =>    (* [s, [0, s'] | [1, e] | [2, k]] *)
     let r := tNth t 1 in
     ofB (roundtrip_ok_b (tFields (tNth t 0))
            (if tZ (tNth r 0) =? 0 then Ok (tFields (tNth r 1))
             else if tZ (tNth r 0) =? 1 then Doc (tZ (tNth r 1)) else Crash (tZ (tNth r 1)))));
  ("spec.style.str_ok", fun t =>          (* [s, str(s)] : the string is the one the fields dictate *)
     ofB (str_eqb (tStr (tNth t 1)) (style_str_fresh (tFields (tNth t 0)))));
  ("spec.style.eq_hash_ok", fun t => ofB (eq_hash_b (tB (tNth t 0)) (tB (tNth t 1))));
  ("spec.style.spelling_ok", fun t =>     (* [k, [0, s]] *)
     let r := tNth t 1 in
     ofB (spelling_ok_b (Z.to_nat (tZ (tNth t 0)))
            (if tZ (tNth r 0) =? 0 then Ok (tFields (tNth r 1))
             else if tZ (tNth r 0) =? 1 then Doc (tZ (tNth r 1)) else Crash (tZ (tNth r 1)))))
].
