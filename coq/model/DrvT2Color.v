(* wire glue for the T2 tie (gen/T2_Color.v): runs functions REGENERATED from the Python source
   so that the translator itself is validated against rich on generated inputs. *)
From RichModel Require Import Prelude Ratio T2Lib.
From RichGen Require Import T2_Color.

Definition tTriple (t : tree) : Z * Z * Z := (tZ (tNth t 0), tZ (tNth t 1), tZ (tNth t 2)).

Definition ops : list (string * (tree -> tree)) := [
  ("t2.get_ansi_codes", fun t =>   (* [type, number?, triplet?, foreground] *)
      ofRes (ofList ofStr)
        (get_ansi_codes_gen (tZ (tNth t 0)) (tOpt tZ (tNth t 1)) (tOpt tTriple (tNth t 2)) (tB (tNth t 3))))
].
