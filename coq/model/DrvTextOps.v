(* wire glue for L2 text operations (C05) *)
From RichModel Require Import Prelude Cells TextOps SpecTextOps.

Definition tSpan (t : tree) : span := (tZ (tNth t 0), tZ (tNth t 1), tZ (tNth t 2)).
Definition ofSpan (s : span) : tree := L [I (sp_start s); I (sp_end s); I (sp_style s)].
Definition tMeta (t : tree) : meta :=
  mkMeta (tZ (tNth t 0)) (tZ (tNth t 1)) (tZ (tNth t 2)) (tZ (tNth t 3)) (tStr (tNth t 4)) (tOpt tZ (tNth t 5)).
Definition ofMeta (m : meta) : tree :=
  L [I (base m); I (justify m); I (overflow m); I (no_wrap m); ofStr (end_ m); ofOpt I (tab m)].
Definition ofText (t : text) : tree :=
  L [ofStr (plain t); I (len t); ofList ofSpan (spans t); ofMeta (tmeta t);
     ofList (fun x => L [I (fst x); I (fst (snd x)); I (snd (snd x))]) (rendered_of t)].
Definition tText (t : tree) : text :=
  mkText (tStr (tNth t 0)) (tZ (tNth t 1)) (tList tSpan (tNth t 2)) (tMeta (tNth t 3)).
Definition tArg (t : tree) : targ := (tStr (tNth t 0), tZ (tNth t 1), tList tSpan (tNth t 2)).
Definition tFixes (t : tree) : fixes :=
  mkFixes (tB (tNth t 0)) (tB (tNth t 1)) (tB (tNth t 2)) (tB (tNth t 3)) (tB (tNth t 4))
          (tB (tNth t 5)) (tB (tNth t 6)) (tB (tNth t 7)) (tB (tNth t 8)).
Definition tTok (t : tree) : str * option Z := (tStr (tNth t 0), tOpt tZ (tNth t 1)).
Definition tPart (t : tree) : apart :=
  let k := tZ (tNth t 0) in
  if k =? 0 then APStr (tStr (tNth t 1))
  else if k =? 1 then APTup (tStr (tNth t 1)) (tOpt tZ (tNth t 2))
  else APText (tArg (tNth t 1)).

Definition tOp (t : tree) : op :=
  let k := tZ (tNth t 0) in
  let a := tNth t 1 in let b := tNth t 2 in let c := tNth t 3 in let d := tNth t 4 in
  if k =? 1 then OAppendStr (tStr a) (tOpt tZ b)
  else if k =? 2 then OAppendText (tArg a)
  else if k =? 3 then OAppendTextFast (tArg a)
  else if k =? 4 then OAppendTokens (tList tTok a)
  else if k =? 5 then OAssemble (tZ a) (tList tPart b)
  else if k =? 6 then OJoinLine (tArg a) (tList tArg b) (tList tArg c)
  else if k =? 7 then OJoinSep (tList tArg a)
  else if k =? 8 then OSplit (tStr a) (tB b) (tB c) (tZ d)
  else if k =? 9 then ODivide (tList tZ a) (tZ b)
  else if k =? 10 then OIndex (tZ a)
  else if k =? 11 then OSlice (tOpt tZ a) (tOpt tZ b)
  else if k =? 12 then OPad (tZ a) (tZ b)
  else if k =? 13 then OPadLeft (tZ a) (tZ b)
  else if k =? 14 then OPadRight (tZ a) (tZ b)
  else if k =? 15 then OAlign (tZ a) (tZ b) (tZ c)
  else if k =? 16 then OTruncate (tZ a) (tZ b) (tB c)
  else if k =? 17 then ORightCrop (tZ a)
  else if k =? 18 then OSetLength (tZ a)
  else if k =? 19 then ORstrip
  else if k =? 20 then ORstripEnd (tZ a)
  else if k =? 21 then OExpandTabs (tOpt tZ a)
  else if k =? 22 then OCopy
  else if k =? 23 then OBlankCopy
  else if k =? 24 then OSetPlain (tStr a)
  else if k =? 25 then ORemoveSuffix (tStr a)
  else if k =? 26 then OStylize (tZ a) (tZ b) (tOpt tZ c)
  else if k =? 27 then OHighlightWords (tList tStr a) (tZ b)
  else if k =? 28 then OHighlightRuns (tStr a) (tZ b)
  else if k =? 29 then OCopyStyles (tArg a)
  else OHighlighter (tList (fun x => (tStr (tNth x 0), tZ (tNth x 1))) a)
                    (let kind := tZ b in if kind =? 0 then HText else if kind =? 1 then HStr (tStr c) else HOther).

(* initial text: Text(raw, style/justify/..., spans=...) *)
Definition tInit (fx : fixes) (t : tree) : text := ctor fx (tStr (tNth t 0)) (tMeta (tNth t 1)) (tList tSpan (tNth t 2)).

Definition outcome {A} (r : res A) : Z :=
  match r with Ok _ => 0 | Doc e => 100 + e | Crash k => 200 + k end.

(* states after every prefix, with the outcome class of each operation *)
Fixpoint hist (fx : fixes) (t : text) (ops : list op) : list tree :=
  match ops with
  | [] => []
  | o :: rest =>
      let r := apply fx o t in
      let t' := match r with Ok t' => t' | _ => t end in
      L [I (outcome r); ofText t'] :: hist fx t' rest
  end.

Definition tRendered (t : tree) : list (Z * (Z * Z)) :=
  tList (fun x => (tZ (tNth x 0), (tZ (tNth x 1), tZ (tNth x 2)))) t.

(* the property checked on the implementation's states: [plain, len, spans, meta, rendered] each *)
Definition state_ok (r : ref) (st : tree) : bool :=
  refines_b r (tText st) && rendered_ok_b r (tRendered (tNth st 4)).
Fixpoint hist_ok (r : ref) (ops : list op) (states : list tree) : bool :=
  match ops, states with
  | [], [] => true
  | o :: rest, (L (I oc :: st :: _)) :: srest =>
      let rr := r_apply o r in
      let r' := match rr with Ok r' => r' | _ => r end in
      (outcome rr =? oc) && alt_ok o r && state_ok r' st && hist_ok r' rest srest
  | _, _ => false
  end.


(* ---------- the store of named values ---------- *)
Definition tN (t : tree) : nat := Z.to_nat (tZ t).
Definition tSop (t : tree) : sop :=
  let k := tZ (tNth t 0) in
  let a := tNth t 1 in let b := tNth t 2 in let c := tNth t 3 in
  if k =? 1 then SApply (tN a) (tN b) (tOp c)
  else if k =? 2 then SLines (tN a) (tOp b)
  else if k =? 3 then SAppendText (tN a) (tN b)
  else if k =? 4 then SAppendTextFast (tN a) (tN b)
  else if k =? 5 then SCopyStyles (tN a) (tN b)
  else if k =? 6 then SJoin (tN a) (tN b) (tList tN c)
  else SAssemble (tN a) (tZ b) (tList tN c).

Fixpoint shist (fx : fixes) (st : list text) (sops : list sop) : list tree :=
  match sops with
  | [] => []
  | s :: rest =>
      let r := sapply fx s st in
      let st' := match r with Ok st' => st' | _ => st end in
      L [I (outcome r); ofList ofText st'] :: shist fx st' rest
  end.

Fixpoint states_ok (rs : list ref) (sts : list tree) : bool :=
  match rs, sts with
  | [], [] => true
  | r :: rs', s :: sts' => state_ok r s && states_ok rs' sts'
  | _, _ => false
  end.
Fixpoint shist_ok (rs : list ref) (sops : list sop) (states : list tree) : bool :=
  match sops, states with
  | [], [] => true
  | s :: rest, (L (I oc :: sts :: _)) :: srest =>
      let rr := r_sapply s rs in
      let rs' := match rr with Ok x => x | _ => rs end in
      (outcome rr =? oc) && states_ok rs' (tL sts) && shist_ok rs' rest srest
  | _, _ => false
  end.

Definition store_ops : list (string * (tree -> tree)) := [
  ("store_hist", fun t =>    (* [fixes, [init...], sops] -> [[state...], [outcome, [state...]], ...] *)
      let fx := tFixes (tNth t 0) in
      let st0 := tList (tInit fx) (tNth t 1) in
      L (ofList ofText st0 :: shist fx st0 (tList tSop (tNth t 2))));
  ("store_in_domain", fun t =>
      let st0 := tList (tInit FIXED) (tNth t 0) in
      ofB (forallb consistent_b st0 && in_sdomain (tList tSop (tNth t 1)) (map abs st0)));
  (* every live value, after every step, refines the store of independent reference values *)
  ("spec.store_hist_ok", fun t =>
      let st0 := tList (tInit FIXED) (tNth t 0) in
      let sops := tList tSop (tNth t 1) in
      let rs0 := map abs st0 in
      ofB (negb (forallb consistent_b st0 && in_sdomain sops rs0)
           || match tL (tNth t 2) with
              | s0 :: srest => states_ok rs0 (tL s0) && shist_ok rs0 sops srest
              | [] => false
              end))
].

Definition ops : list (string * (tree -> tree)) := store_ops ++ [
  ("text_hist", fun t =>    (* [fixes, init, ops] -> [state0, [outcome, state1], ...] *)
      let fx := tFixes (tNth t 0) in
      let t0 := tInit fx (tNth t 1) in
      let os := tList tOp (tNth t 2) in
      L (ofText t0 :: hist fx t0 os));
  ("text_in_domain", fun t =>    (* [init, ops] -> is the history inside the theorem's domain? *)
      let t0 := tInit FIXED (tNth t 0) in
      ofB (consistent_b t0 && in_domain (tList tOp (tNth t 1)) (abs t0)));
  ("strip", fun t => ofStr (strip (tStr t)));
  (* [init, ops, [state0, [outcome, state1], ...]]: out of the theorem's domain -> 1 (nothing claimed) *)
  ("spec.text_hist_ok", fun t =>
      let t0 := tInit FIXED (tNth t 0) in
      let os := tList tOp (tNth t 1) in
      let r0 := abs t0 in
      ofB (negb (consistent_b t0 && in_domain os r0)
           || match tL (tNth t 2) with
              | s0 :: srest => state_ok r0 s0 && hist_ok r0 os srest
              | [] => false
              end));
  ("spec.consistent", fun t => ofB (consistent_b (tText t)));
  (* [before, after, source_after]: a real highlighter object called on a Text (or on Text(str)) *)
  ("spec.hl_ok", fun t =>
      let before := tText (tNth t 0) in
      ofB (negb (consistent_b before)
           || (hl_ok_b before (tText (tNth t 1)) && text_eqb before (tText (tNth t 2)))))
].
