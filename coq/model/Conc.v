(* C11: small-step interleaving semantics of console output (rich/console.py, live.py).
   Definitions only.  Threads are lists of abstract instructions; the shared state holds the
   file (one element per file.write call, tagged with the writing thread), the record buffer,
   three RE-ENTRANT locks (Live._lock, Console._lock, Console._record_buffer_lock) and the live
   display's fields; buffer and nesting depth are per thread (threading.local).
   Granularity = the events of gen/ConsoleLock.v (see proofs/ConcP.v for the bridge);
   preemption finer than that is covered only by the scheduler-driven trace validation. *)
From RichModel Require Import Prelude.

Definition tid := nat.

Inductive lockid := LLive | LConsole | LRecord.
Definition rank (l : lockid) : Z := match l with LLive => 0 | LConsole => 1 | LRecord => 2 end.
Definition lock_eqb (a b : lockid) : bool :=
  match a, b with LLive, LLive | LConsole, LConsole | LRecord, LRecord => true | _, _ => false end.

(* what a write consists of *)
Inductive item :=
| Txt (t : tid) (id : Z)      (* one printed line, produced by thread t *)
| Erase (n : nat)             (* LiveRender.position_cursor() for height n >= 1 (nothing while _shape is None) *)
| Frame (fid : Z) (h : nat)   (* the live renderable fid, h rows, no trailing newline *)
| Ctl (c : Z).                (* 0 hide cursor, 1 show cursor, 2 newline of Console.line() *)

Inductive instr :=
| IAcq (l : lockid) | IRel (l : lockid)
| IEnter                 (* _enter_buffer:  _buffer_index += 1 *)
| IExitDec               (* _exit_buffer:   _buffer_index -= 1 *)
| ITest                  (* _check_buffer:  if _buffer_index == 0: record; write *)
| IRecord                (* _render_buffer: _record_buffer.extend(buffer) *)
| IWrite                 (* del buffer[:]; file.write(text); file.flush() *)
| IRdHooks (c : option Z)  (* print/log: for hook in self._render_hooks; chooses the rest of the call *)
| IRdShape               (* position_cursor(): the erase Control is built NOW from _shape *)
| IRenderTxt (id : Z)    (* render the user's object into the local segment list *)
| IRenderLive            (* _LiveRender.__rich_console__: read renderable, set _shape *)
| IExtend                (* self._buffer.extend(new_segments) *)
| IEndCap                (* end_capture: _render_buffer(self._buffer); del self._buffer[:] *)
| ICtl (c : Z)           (* control()/line(): self._buffer.append(...) *)
| ISetRend (fid : Z) (h : nat)   (* LiveRender.set_renderable *)
| IStart | IStop         (* Live.start / Live.stop: read _started, choose the rest *)
| ISetStarted (b : bool) | IPushHook | IPopHook
| IResetShape            (* Live.stop: self._live_render._shape = None *)
| ISetDone               (* _RefreshThread.stop(): self.done.set() *)
| IJoin (t : tid)        (* Thread.join(): BLOCKS until thread t has finished *)
| ILoop                  (* _RefreshThread.run: `while not self.done.wait(..)`; leaving the loop ends the thread *)
| ICheckDone             (* inside the tick, under the live lock: if not self.done.is_set(): refresh() *)
| IStopA (rt : tid).     (* Live.stop of an auto-refreshing display whose refresh thread is rt *)

Record tstate := mkT {
  prog : list instr;
  buf : list item;            (* ConsoleThreadLocals.buffer *)
  depth : Z;                  (* ConsoleThreadLocals.buffer_index *)
  pend : list item;           (* new_segments of the print call in progress *)
  olog : list (bool * list item)   (* ghost: this thread's writes (true) and captures (false) *)
}.

Record shared := mkS {
  file : list (tid * list item);
  record : list (tid * bool * list item);   (* bool: true = also written, false = captured *)
  lkL : option (tid * nat); lkC : option (tid * nat); lkR : option (tid * nat);
  shape : option nat;          (* LiveRender._shape (height) *)
  rend : Z * nat;              (* LiveRender.renderable: (id, rows) *)
  started : bool;              (* Live._started *)
  hooks : nat;                 (* len(Console._render_hooks) *)
  done : bool;                 (* _RefreshThread.done *)
  fin : list tid               (* threads whose run() has returned (what join() waits for) *)
}.

Record state := mkSt { sh : shared; th : tid -> tstate }.

Definition getl (s : shared) (l : lockid) :=
  match l with LLive => lkL s | LConsole => lkC s | LRecord => lkR s end.
Definition setl (s : shared) (l : lockid) (v : option (tid * nat)) : shared :=
  match l with
  | LLive => mkS (file s) (record s) v (lkC s) (lkR s) (shape s) (rend s) (started s) (hooks s) (done s) (fin s)
  | LConsole => mkS (file s) (record s) (lkL s) v (lkR s) (shape s) (rend s) (started s) (hooks s) (done s) (fin s)
  | LRecord => mkS (file s) (record s) (lkL s) (lkC s) v (shape s) (rend s) (started s) (hooks s) (done s) (fin s)
  end.
Definition set_file (s : shared) v := mkS v (record s) (lkL s) (lkC s) (lkR s) (shape s) (rend s) (started s) (hooks s) (done s) (fin s).
Definition set_record (s : shared) v := mkS (file s) v (lkL s) (lkC s) (lkR s) (shape s) (rend s) (started s) (hooks s) (done s) (fin s).
Definition set_shape (s : shared) v := mkS (file s) (record s) (lkL s) (lkC s) (lkR s) v (rend s) (started s) (hooks s) (done s) (fin s).
Definition set_rend (s : shared) v := mkS (file s) (record s) (lkL s) (lkC s) (lkR s) (shape s) v (started s) (hooks s) (done s) (fin s).
Definition set_started (s : shared) v := mkS (file s) (record s) (lkL s) (lkC s) (lkR s) (shape s) (rend s) v (hooks s) (done s) (fin s).
Definition set_hooks (s : shared) v := mkS (file s) (record s) (lkL s) (lkC s) (lkR s) (shape s) (rend s) (started s) v (done s) (fin s).
Definition set_done (s : shared) v := mkS (file s) (record s) (lkL s) (lkC s) (lkR s) (shape s) (rend s) (started s) (hooks s) v (fin s).
Definition set_fin (s : shared) v := mkS (file s) (record s) (lkL s) (lkC s) (lkR s) (shape s) (rend s) (started s) (hooks s) (done s) v.

Definition set_prog ts p := mkT p (buf ts) (depth ts) (pend ts) (olog ts).
Definition set_buf ts b := mkT (prog ts) b (depth ts) (pend ts) (olog ts).
Definition set_depth ts d := mkT (prog ts) (buf ts) d (pend ts) (olog ts).
Definition set_pend ts p := mkT (prog ts) (buf ts) (depth ts) p (olog ts).
Definition set_olog ts o := mkT (prog ts) (buf ts) (depth ts) (pend ts) o.

(* threading.RLock *)
Definition acquire (o : option (tid * nat)) (t : tid) : option (option (tid * nat)) :=
  match o with
  | None => Some (Some (t, 1%nat))
  | Some (u, n) => if Nat.eqb u t then Some (Some (t, S n)) else None     (* blocked *)
  end.
Definition release (o : option (tid * nat)) (t : tid) : option (option (tid * nat)) :=
  match o with
  | Some (u, S n) => if Nat.eqb u t then Some (match n with O => None | _ => Some (t, n) end) else None
  | _ => None       (* RuntimeError: cannot release un-acquired lock *)
  end.

Definition is_nil {A} (l : list A) : bool := match l with [] => true | _ => false end.

(* ---- the code after `for hook in self._render_hooks` of one print/log call.
   rep = false: rich as it is (the live lock is held only while the renderable list is built and,
   separately, while the live renderable is rendered);  rep = true: the repaired variant (the live
   lock is held from position_cursor() until the write has happened). *)
Definition check_seq : list instr := [IAcq LConsole; ITest; IRel LConsole].
Definition flush_seq : list instr := [IAcq LRecord; IRecord; IRel LRecord; IWrite].
Definition print_rest (rep hooked : bool) (c : option Z) : list instr :=
  let txt := match c with Some id => [IRenderTxt id] | None => [] end in
  let tail := IExtend :: IExitDec :: check_seq in
  if hooked then
    if rep then [IAcq LLive; IRdShape] ++ txt ++ [IRenderLive] ++ tail ++ [IRel LLive]
    else [IAcq LLive; IRdShape; IRel LLive] ++ txt ++ [IAcq LLive; IRenderLive; IRel LLive] ++ tail
  else txt ++ tail.
Definition print_seq (c : option Z) : list instr := [IEnter; IRdHooks c].
(* Live.refresh on a terminal:  with self._lock, self.console: self.console.print(Control("")) *)
Definition refresh_seq : list instr :=
  [IAcq LLive; IEnter] ++ print_seq None ++ [IExitDec] ++ check_seq ++ [IRel LLive].
Definition start_rest : list instr :=
  [ICtl 0] ++ check_seq ++ [IPushHook; ISetStarted true].
Definition stop_rest : list instr :=
  [ISetStarted false] ++ refresh_seq ++ [ICtl 2] ++ check_seq ++ [IPopHook; ICtl 1] ++ check_seq ++ [IResetShape].

(* Live.stop() with auto_refresh: tell the refresh thread to finish, last refresh, clean up, release
   the live lock -- and only then join the thread *)
Definition stopa_rest (rt : tid) : list instr :=
  [ISetStarted false; ISetDone] ++ refresh_seq ++ [ICtl 2] ++ check_seq ++ [IPopHook; ICtl 1] ++ check_seq
  ++ [IResetShape; IRel LLive; IJoin rt].
Definition tick_seq : list instr := [IAcq LLive; ICheckDone; IRel LLive; ILoop].

Definition exec (rep : bool) (t : tid) (s : shared) (ts : tstate) (i : instr) : option (shared * tstate) :=
  (* ts already has the instruction removed from its program *)
  match i with
  | IAcq l => match acquire (getl s l) t with Some v => Some (setl s l v, ts) | None => None end
  | IRel l => match release (getl s l) t with Some v => Some (setl s l v, ts) | None => None end
  | IEnter => Some (s, set_depth ts (depth ts + 1))
  | IExitDec => Some (s, set_depth ts (depth ts - 1))
  | ITest => Some (s, if depth ts =? 0 then set_prog ts (flush_seq ++ prog ts) else ts)
  | IRecord => Some (if is_nil (buf ts) then s else set_record s (record s ++ [(t, true, buf ts)]), ts)
  | IWrite =>
      if is_nil (buf ts) then Some (s, ts)
      else Some (set_file s (file s ++ [(t, buf ts)]),
                 set_olog (set_buf ts []) (olog ts ++ [(true, buf ts)]))
  | IRdHooks c => Some (s, set_prog ts (print_rest rep (0 <? hooks s)%nat c ++ prog ts))
  | IRdShape => Some (s, set_pend ts (pend ts ++ match shape s with Some h => [Erase h] | None => [] end))
  | IRenderTxt id => Some (s, set_pend ts (pend ts ++ [Txt t id]))
  | IRenderLive => Some (set_shape s (Some (snd (rend s))),
                         set_pend ts (pend ts ++ [Frame (fst (rend s)) (snd (rend s))]))
  | IExtend => Some (s, set_pend (set_buf ts (buf ts ++ pend ts)) [])
  | IEndCap => Some (if is_nil (buf ts) then s else set_record s (record s ++ [(t, false, buf ts)]),
                     set_olog (set_buf ts []) (olog ts ++ [(false, buf ts)]))
  | ICtl c => Some (s, set_buf ts (buf ts ++ [Ctl c]))
  | ISetRend fid h => Some (set_rend s (fid, h), ts)
  | IStart => Some (s, if started s then ts else set_prog ts (start_rest ++ prog ts))
  | IStop => Some (s, if started s then set_prog ts (stop_rest ++ prog ts) else ts)
  | ISetStarted b => Some (set_started s b, ts)
  | IPushHook => Some (set_hooks s (S (hooks s)), ts)
  | IPopHook => match hooks s with O => None (* IndexError *) | S n => Some (set_hooks s n, ts) end
  | IResetShape => Some (set_shape s None, ts)
  | ISetDone => Some (set_done s true, ts)
  | IJoin t' => if existsb (Nat.eqb t') (fin s) then Some (s, ts) else None      (* blocked *)
  | ILoop => if done s then Some (set_fin s (t :: fin s), ts)
             else Some (s, set_prog ts (tick_seq ++ prog ts))
  | ICheckDone => Some (s, if done s then ts else set_prog ts (refresh_seq ++ prog ts))
  | IStopA rt => Some (s, set_prog ts ((if started s then stopa_rest rt else [IRel LLive]) ++ prog ts))
  end.

Definition upd (f : tid -> tstate) (t : tid) (v : tstate) : tid -> tstate :=
  fun u => if Nat.eqb u t then v else f u.

(* one step of thread t; None = finished, blocked on a lock, or an error *)
Definition step (rep : bool) (st : state) (t : tid) : option state :=
  let ts := th st t in
  match prog ts with
  | [] => None
  | i :: r =>
      match exec rep t (sh st) (set_prog ts r) i with
      | Some (s', ts') => Some (mkSt s' (upd (th st) t ts'))
      | None => None
      end
  end.

(* a schedule is a list of thread ids; a choice that cannot step is skipped (the scheduler would
   simply not have chosen it) -- so EVERY list of tids is a schedule *)
Fixpoint run (rep : bool) (sched : list tid) (st : state) : state :=
  match sched with
  | [] => st
  | t :: r => match step rep st t with Some st' => run rep r st' | None => run rep r st end
  end.

(* ---- user-level operations and their compilation *)
Inductive op :=
| Print (id : Z)                 (* console.print / console.log of one object *)
| BeginBlock | EndBlock          (* with console: ... *)
| BeginCap | EndCap              (* with console.capture(): ... *)
| Update (fid : Z) (h : nat) (refresh : bool)
| Refresh                        (* live.refresh() *)
| Tick                           (* one iteration of _RefreshThread.run *)
| Start | Stop
| StopAuto (rt : tid)            (* live.stop() of an auto-refreshing display; rt = its refresh thread *)
| RefreshLoop.                   (* _RefreshThread.run *)

Definition compile_op (o : op) : list instr :=
  match o with
  | Print id => print_seq (Some id)
  | BeginBlock => [IEnter]
  | EndBlock => IExitDec :: check_seq
  | BeginCap => [IEnter]
  | EndCap => [IAcq LRecord; IEndCap; IRel LRecord; IExitDec] ++ check_seq
  | Update fid h r => [IAcq LLive; ISetRend fid h] ++ (if r then refresh_seq else []) ++ [IRel LLive]
  | Refresh => refresh_seq
  | Tick => [IAcq LLive] ++ refresh_seq ++ [IRel LLive]
  | Start => [IAcq LLive; IStart; IRel LLive]
  | Stop => [IAcq LLive; IStop; IRel LLive]
  | StopAuto rt => [IAcq LLive; IStopA rt]
  | RefreshLoop => [ILoop]
  end.
Definition compile (ops : list op) : list instr := flat_map compile_op ops.

Definition init_t (p : list instr) : tstate := mkT p [] 0 [] [].
Definition init_shared (live : bool) (sh0 : option nat) (r0 : Z * nat) : shared :=
  mkS [] [] None None None sh0 r0 live (if live then 1%nat else 0%nat) false [].
Definition init_state (live : bool) (sh0 : option nat) (r0 : Z * nat) (progs : tid -> list op) : state :=
  mkSt (init_shared live sh0 r0) (fun t => init_t (compile (progs t))).

Definition progs_of (l : list (list op)) : tid -> list op := fun t => nth t l [].

(* ---- the screen a terminal shows after the writes, at the granularity of rows: a grid of
   rows, the cursor's row, and whether the cursor stands after some text on that row.  Every
   token (printed line, frame row) has the same width, so writing at column 0 replaces the row;
   writing after existing text garbles it (RMix). *)
Inductive row := RTxt (t : tid) (id : Z) | RFrame (fid : Z) (k : nat) | RBlank | RMix.
Definition row_eqb (a b : row) : bool :=
  match a, b with
  | RTxt t i, RTxt u j => Nat.eqb t u && (i =? j)
  | RFrame f k, RFrame g m => (f =? g) && Nat.eqb k m
  | RBlank, RBlank => true
  | RMix, RMix => true
  | _, _ => false
  end.
Record scr := mkScr { rows : list row; cur : nat; mid : bool }.
Definition pad (rs : list row) (i : nat) : list row := rs ++ repeat RBlank (S i - length rs).
Definition set_row (rs : list row) (i : nat) (r : row) : list row :=
  let rs := pad rs i in firstn i rs ++ r :: skipn (S i) rs.
Definition put (s : scr) (r : row) : scr :=
  mkScr (set_row (rows s) (cur s) (if mid s then RMix else r)) (cur s) true.
Definition newline (s : scr) : scr := mkScr (pad (rows s) (S (cur s))) (S (cur s)) false.
Definition clear_row (s : scr) : scr := mkScr (set_row (rows s) (cur s) RBlank) (cur s) false.
Fixpoint erase_up (n : nat) (s : scr) : scr :=     (* (ESC[1A ESC[2K) * n *)
  match n with O => s | S k => erase_up k (clear_row (mkScr (rows s) (pred (cur s)) (mid s))) end.
Fixpoint put_frame (fid : Z) (k h : nat) (s : scr) : scr :=   (* rows k .. k+h-1, newline between *)
  match h with
  | O => s
  | S O => put s (RFrame fid k)
  | S h' => put_frame fid (S k) h' (newline (put s (RFrame fid k)))
  end.
Definition apply_item (s : scr) (it : item) : scr :=
  match it with
  | Txt t id => newline (put s (RTxt t id))
  | Erase n => match n with O => s | S k => erase_up k (clear_row s) end   (* CR ESC[2K (ESC[1A ESC[2K)*(n-1) *)
  | Frame fid h => put_frame fid 0 h s
  | Ctl c => if c =? 2 then newline s else s
  end.
Definition apply_write (s : scr) (p : list item) : scr := fold_left apply_item p s.
Fixpoint trim (rs : list row) : list row :=     (* drop trailing blank rows *)
  match rs with
  | [] => []
  | r :: rest => match trim rest, r with [], RBlank => [] | t, _ => r :: t end
  end.
Definition screen_of (f : list (tid * list item)) : list row :=
  trim (rows (fold_left (fun s w => apply_write s (snd w)) f (mkScr [] 0 false))).

(* ---- replay of an observed trace (tie 2): the visible events of the real run, in order *)
Inductive vev := VAcq (l : lockid) | VRel (l : lockid) | VWrite (p : list item) | VHooksRd | VHooksWr
| VSetDone | VWait (b : bool) | VJoin.

Definition item_eqb (a b : item) : bool :=
  match a, b with
  | Txt t i, Txt u j => Nat.eqb t u && (i =? j)
  | Erase n, Erase m => Nat.eqb n m
  | Frame f h, Frame g k => (f =? g) && Nat.eqb h k
  | Ctl c, Ctl d => c =? d
  | _, _ => false
  end.
Fixpoint list_eqb {A} (eq : A -> A -> bool) (a b : list A) : bool :=
  match a, b with
  | [], [] => true
  | x :: a', y :: b' => eq x y && list_eqb eq a' b'
  | _, _ => false
  end.

(* is the next instruction of this thread observable by the scheduler? *)
Definition visible (ts : tstate) (i : instr) : bool :=
  match i with
  | IAcq _ | IRel _ | IRdHooks _ | IPushHook | IPopHook | ISetDone | ILoop | IJoin _ => true
  | IWrite => negb (is_nil (buf ts))
  | _ => false
  end.
Definition matches (ts : tstate) (i : instr) (e : vev) : bool :=
  match i, e with
  | IAcq l, VAcq l' | IRel l, VRel l' => lock_eqb l l'
  | IWrite, VWrite p => list_eqb item_eqb (buf ts) p
  | IRdHooks _, VHooksRd => true
  | IPushHook, VHooksWr | IPopHook, VHooksWr => true
  | ISetDone, VSetDone | ILoop, VWait _ | IJoin _, VJoin => true
  | _, _ => false
  end.

(* run the invisible steps of thread t *)
Fixpoint advance (fuel : nat) (rep : bool) (st : state) (t : tid) : state :=
  match fuel with
  | O => st
  | S f =>
      match prog (th st t) with
      | [] => st
      | i :: _ => if visible (th st t) i then st
                  else match step rep st t with Some st' => advance f rep st' t | None => st end
      end
  end.

Definition replay1 (rep : bool) (st : state) (te : tid * vev) : option state :=
  let st1 := advance 200 rep st (fst te) in
  match prog (th st1 (fst te)) with
  | i :: _ => if visible (th st1 (fst te)) i && matches (th st1 (fst te)) i (snd te)
                 && match snd te with VWait b => Bool.eqb b (done (sh st1)) | _ => true end
              then step rep st1 (fst te) else None
  | [] => None
  end.
Fixpoint replay (rep : bool) (st : state) (tr : list (tid * vev)) : option state :=
  match tr with
  | [] => Some st
  | te :: r => match replay1 rep st te with Some st' => replay rep st' r | None => None end
  end.
(* after the trace every thread must be able to finish without a further visible event *)
Definition finish (rep : bool) (st : state) (n : nat) : option state :=
  fold_left (fun o t => match o with
                        | Some st => let st' := advance 200 rep st t in
                                     if is_nil (prog (th st' t)) then Some st' else None
                        | None => None end) (seq 0 n) (Some st).

(* deadlock / exhaustive exploration helpers *)
Definition finished (st : state) (n : nat) : bool := forallb (fun t => is_nil (prog (th st t))) (seq 0 n).
Definition runnable (rep : bool) (st : state) (n : nat) : list tid :=
  filter (fun t => match step rep st t with Some _ => true | None => false end) (seq 0 n).
(* all maximal executions from st (n threads) end in a state satisfying ok; fuel bounds the depth *)
Fixpoint explore (fuel : nat) (rep : bool) (n : nat) (ok : state -> bool) (st : state) : bool :=
  match fuel with
  | O => false
  | S f =>
      match runnable rep st n with
      | [] => finished st n && ok st
      | ts => forallb (fun t => match step rep st t with Some st' => explore f rep n ok st' | None => true end) ts
      end
  end.
