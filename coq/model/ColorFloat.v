(* The float kernel of Color.downgrade (truecolor -> 256), bit-exact in binary64 with Coq's
   primitive floats.  NOT extracted (PrimFloat has no ExtrOcamlBasic mapping): this module is only
   ever evaluated by vm_compute.  The extracted model uses Color.downgrade_8bit_int;
   proofs/ColorP.v proves  downgrade_8bit_float r g b = Some (downgrade_8bit_int r g b)
   for all channels in 0..255 by finite sweeps.  Definitions only.

   Python being modelled (rich/color.py, rich/color_triplet.py, CPython 3.12 colorsys.py):
       red, green, blue = r/255.0, g/255.0, b/255.0
       maxc = max(r,g,b); minc = min(r,g,b); sumc = maxc+minc; rangec = maxc-minc; l = sumc/2.0
       if minc == maxc: s = 0.0
       elif l <= 0.5:   s = rangec / sumc
       else:            s = rangec / (2.0-maxc-minc)
       if s < 0.1: gray = round(l*25.0) ...  else 16 + 36*round(red*5.0) + 6*round(green*5.0) + round(blue*5.0)
   (h is computed by colorsys but unused by rich.) *)
From Coq Require Import ZArith List Bool.
From Coq Require Import Uint63 PrimFloat FloatOps SpecFloat.
Import ListNotations.
Open Scope Z_scope.

(* float(int) for 0 <= z < 2^53: exact *)
Definition f_of_Z (z : Z) : float := PrimFloat.of_uint63 (Uint63.of_Z z).

Definition f255 : float := f_of_Z 255.
Definition f25 : float := f_of_Z 25.
Definition f5 : float := f_of_Z 5.
Definition f2 : float := f_of_Z 2.
Definition f0 : float := f_of_Z 0.
Definition f_half : float := PrimFloat.div (f_of_Z 1) f2.                 (* 0.5, exact *)
Definition f_tenth : float := 0x1.999999999999ap-4%float.                 (* the literal 0.1 *)

(* Python's round(x) for a float: nearest integer, ties to even; None for inf/nan (OverflowError /
   ValueError).  Exact, from the mantissa/exponent decomposition. *)
Definition py_round (x : float) : option Z :=
  match Prim2SF x with
  | S754_zero _ => Some 0
  | S754_infinity _ => None
  | S754_nan => None
  | S754_finite sign m e =>
      let mz := Zpos m in
      let mag :=
        if 0 <=? e then mz * 2 ^ e
        else
          let d := 2 ^ (- e) in
          let q := mz / d in
          let r := mz mod d in
          if 2 * r <? d then q else if d <? 2 * r then q + 1 else if Z.even q then q else q + 1 in
      Some (if sign then - mag else mag)
  end.

(* ColorTriplet.normalized, one channel *)
Definition norm (c : Z) : float := PrimFloat.div (f_of_Z c) f255.

(* max(a, b, c) / min(a, b, c): CPython keeps the first of equal items, replaces on strict > / < *)
Definition fmax2 (a b : float) : float := if PrimFloat.ltb a b then b else a.
Definition fmin2 (a b : float) : float := if PrimFloat.ltb b a then b else a.
Definition fmax3 (a b c : float) : float := fmax2 (fmax2 a b) c.
Definition fmin3 (a b c : float) : float := fmin2 (fmin2 a b) c.

(* l and s of colorsys.rgb_to_hls as a function of maxc and minc; None = ZeroDivisionError *)
Definition hls_ls (maxc minc : float) : option (float * float) :=
  let sumc := PrimFloat.add maxc minc in
  let rangec := PrimFloat.sub maxc minc in
  let l := PrimFloat.div sumc f2 in
  if PrimFloat.eqb minc maxc then Some (l, f0)
  else if PrimFloat.leb l f_half then
    if PrimFloat.eqb sumc f0 then None else Some (l, PrimFloat.div rangec sumc)
  else
    let d := PrimFloat.sub (PrimFloat.sub f2 maxc) minc in
    if PrimFloat.eqb d f0 then None else Some (l, PrimFloat.div rangec d).

(* the grey decision of Color.downgrade: Some (true, gray) | Some (false, _) | None = exception *)
Definition grey_decision (maxc minc : float) : option (bool * Z) :=
  match hls_ls maxc minc with
  | None => None
  | Some (l, s) =>
      if PrimFloat.ltb s f_tenth then
        match py_round (PrimFloat.mul l f25) with Some g => Some (true, g) | None => None end
      else Some (false, 0)
  end.

Definition cube_round (c : float) : option Z := py_round (PrimFloat.mul c f5).

Definition downgrade_8bit_float (r g b : Z) : option Z :=
  let fr := norm r in let fg := norm g in let fb := norm b in
  match grey_decision (fmax3 fr fg fb) (fmin3 fr fg fb) with
  | None => None
  | Some (true, gray) => Some (if gray =? 0 then 16 else if gray =? 25 then 231 else 231 + gray)
  | Some (false, _) =>
      match cube_round fr, cube_round fg, cube_round fb with
      | Some cr, Some cg, Some cb => Some (16 + 36 * cr + 6 * cg + cb)
      | _, _, _ => None
      end
  end.
