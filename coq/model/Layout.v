(* L4 layout (C01 / C09): a deep embedding of renderable trees with their rendering
   (Console.render: the segment stream; lines = Segment.split_lines of it) and their measurement
   (Measurement.get incl. normalize / with_maximum / the no-__rich_measure__ fallback / __rich__
   casting), by structural recursion on the tree.  Every node delegates to the existing models:
   Wrap.v (Text.wrap), Frames.v (Padding, Panel, Align, Constrain, Styled, Rule, Bar, ProgressBar,
   Columns placement, Tree), Table.v / Ratio.v (column widths, row assembly), Segments.v
   (render_lines = split_and_crop_lines) with the recursive calls plugged in as the abstract
   children of those models.  Definitions only.

   What is modelled here and nowhere else: Text.__rich_console__ / __rich_measure__ (rich/text.py
   504-532), RenderGroup and measure_renderables (console.py 252-280, measure.py 125-149),
   Panel/Align/Constrain/Styled/Bar/ProgressBar/Tree/Table.__rich_measure__, Table._get_cells and
   Table.__rich_console__ (title, caption, per-column justify/overflow/no_wrap handed to the cells),
   Columns.__rich_console__ (a Table.grid of Constrain/Align-wrapped items).

   Styles do not influence layout: every style is the null token.  The tree /repo is modelled with
   the fix: commits of C07 (leading rows, expand-exact) and C08 (Rule / Panel title not re-wrapped)
   applied, i.e. Table.calc_widths_x FLEXMIN false false, render_table false, rule_lines false, panel_lines false;
   FLEXMIN = gen/BoxChars.FLEXMIN_MEASURED is read from the tree under check (fixes/C07_ratio_column_minimum.diff:
   a ratio column is guaranteed its measured minimum), so the model follows whichever tree is checked.
   `fix_d20` (cfg): false = Text.__rich_measure__ as found in 9.10.0 (str.splitlines), true = the
   proposed repair (split on "\n", the separator Text.wrap uses). *)
From RichModel Require Import Prelude Cells Segments Ratio Frames.
From RichModel Require Wrap Table.
From RichGen Require BoxChars.

(* fixes/C07_ratio_column_minimum.diff applied to the tree under check? (regenerated T3 fact) *)
Definition FLEXMIN : bool := BoxChars.FLEXMIN_MEASURED.

(* ---------------------------------------------------------------- configuration, inherited options *)
Record cfg := mkCfgC {
  cW : Z;              (* console.width: Align measures its child, Panel renders its title, against it *)
  fix_d20 : bool;
  has_color : bool     (* console.color_system is not None: the only thing of the colour system that changes the
                          CELLS of a rendering (ProgressBar draws its remaining part only then) *)
}.
(* the configuration without a colour system (color_system=None) *)
Definition mkCfg (w : Z) (fx : bool) : cfg := mkCfgC w fx false.

(* the ConsoleOptions fields that travel from parent to child besides the width *)
Record ropts := mkRO { ro_justify : option Z; ro_overflow : option Z; ro_nowrap : bool }.
Definition ro0 : ropts := mkRO None None false.

Definition or_else (a b : option Z) (d : Z) : Z :=
  match a with Some x => x | None => match b with Some x => x | None => d end end.

(* ---------------------------------------------------------------- Text *)
Definition wrap_plain (s : str) (w j ov : Z) (nw : bool) : list str :=
  map (@Wrap.plain unit)
      (Wrap.wrap unit (fun _ _ => true) tt (fun _ _ => tt) Wrap.repaired (Wrap.mkText s [] tt) w j ov 8 nw).

(* "\n".join *)
Fixpoint join_nl (ls : list str) : str :=
  match ls with
  | [] => []
  | [l] => l
  | l :: r => l ++ NL :: join_nl r
  end.

(* Text.__rich_console__: justify = self.justify or options.justify or "fold" (no Lines.justify branch
   matches "fold": same as "default"); overflow = self.overflow or options.overflow or "fold";
   no_wrap = pick_bool(self.no_wrap, options.no_wrap, False); then Text("\n").join(lines).render(end="\n") *)
Definition text_stream (s : str) (j ov : option Z) (nw : option bool) (ro : ropts) (W : Z) : list segZ :=
  let justify := or_else j (ro_justify ro) Wrap.J_DEFAULT in
  let overflow := or_else ov (ro_overflow ro) Wrap.OV_FOLD in
  let no_wrap := match nw with Some b => b | None => ro_nowrap ro end in
  let joined := join_nl (wrap_plain s W justify overflow no_wrap) in
  (match joined with [] => [] | _ => [mkSeg joined None false] end) ++ [nlseg].

(* str.splitlines() boundaries that can occur in a Text (its constructor strips \x08 \x0b \x0c \r);
   with the repair only "\n" separates lines, as in Text.wrap *)
Definition is_linebreak (fx : bool) (c : Z) : bool :=
  (c =? NL) ||
  (negb fx && ((c =? 11) || (c =? 12) || (c =? 13) || (c =? 28) || (c =? 29) || (c =? 30)
                || (c =? 133) || (c =? 8232) || (c =? 8233))).

Fixpoint split_on (f : Z -> bool) (s : str) (cur : str) : list str :=   (* cur is reversed *)
  match s with
  | [] => [rev cur]
  | c :: r => if f c then rev cur :: split_on f r [] else split_on f r (c :: cur)
  end.

Definition maxl (l : list Z) : Z := fold_right Z.max 0 l.

(* Text.__rich_measure__ *)
Definition text_measure (fx : bool) (s : str) : Z * Z :=
  if forallb Wrap.is_space s then (cell_len s, cell_len s)
  else (maxl (map cell_len (split_on Wrap.is_space s [])),
        maxl (map cell_len (split_on (is_linebreak fx) s []))).

Definition text_child (cf : cfg) (s : str) (j ov : option Z) (nw : option bool) (ro : ropts) : child :=
  mkChild (fun _ => text_measure (fix_d20 cf) s) (text_stream s j ov nw ro).

(* ---------------------------------------------------------------- child combinators *)
Definition mget := measurement_get.

(* a renderable without __rich_measure__: Measurement.get answers (0, max_width) *)
Definition nomeasure_child (c : child) : child := mkChild (fun w => (0, w)) (render_at c).

(* RenderGroup of cs, fit *)
Definition group_child (cs : list child) (fit : bool) : child :=
  mkChild
    (fun w =>
       if fit then
         match cs with
         | [] => (0, 0)
         | _ => (maxl (map (fun c => fst (mget c w)) cs), maxl (map (fun c => snd (mget c w)) cs))
         end
       else (w, w))
    (fun W => flat_map (fun c => render_at c W) cs).

Definition pt4 (p : Z * Z * Z * Z) := p.

(* Panel.__rich_measure__: the raw child and the title text are measured at max_width - padding - 2 *)
Definition panel_measure (cf : cfg) (c : child) (o : panel_opts) (w : Z) : Z * Z :=
  let '(_, r, _, l) := p_pad o in
  let padding := l + r in
  match p_width o with
  | Some pw => (pw, pw)
  | None =>
      let inner := w - padding - 2 in
      let mc := snd (mget c inner) in
      let m :=
        match p_title o with
        | [] => mc
        | _ => Z.max mc (snd (mget (mkChild (fun _ => text_measure (fix_d20 cf) (panel_title (p_title o))) (fun _ => [])) inner))
        end in
      (m + padding + 2, m + padding + 2)
  end.

Definition panel_child (cf : cfg) (c : child) (o : panel_opts) : child :=
  mkChild (panel_measure cf c o) (fun W => stream_of (panel_lines false c o W (cW cf))).

Definition align_child (cf : cfg) (c : child) (how : Z) (pad : bool) (aw : option Z) : child :=
  mkChild (fun w => mget c w) (fun W => stream_of (align_lines c how pad aw None W (cW cf))).

Definition constrain_child (c : child) (cw : option Z) : child :=
  mkChild (fun w => mget c (match cw with Some x => Z.min x w | None => w end))
          (fun W => constrain_render c cw W).

Definition styled_child (c : child) : child :=
  mkChild (fun w => mget c w) (fun W => styled_render c None W).

Definition str_lines_stream (ls : list str) : list segZ :=
  flat_map (fun l => [mkSeg l None false; nlseg]) ls.

Definition rule_child (title chars : str) (how : Z) : child :=
  mkChild (fun w => (0, w)) (fun W => str_lines_stream (rule_lines false title chars how false W)).

Definition bar_measure (bw : option Z) (w : Z) : Z * Z :=
  match bw with Some x => (x, x) | None => (4, w) end.

Definition bar_child (size b e : Z) (bw : option Z) : child :=
  mkChild (bar_measure bw) (fun W => [mkSeg (bar_text size b e bw W) None false; nlseg]).

(* ProgressBar yields no new line; hc = console.color_system is not None, no_color = False, utf-8,
   animation_time given *)
Definition pbar_child (hc : bool) (total completed : Z) (pw : option Z) (pulse : bool) (t : Z) : child :=
  mkChild (bar_measure pw)
          (fun W => match pbar_text total completed pw pulse t false hc false W with
                    | [] => []
                    | s => [mkSeg s None false]
                    end).

(* ---------------------------------------------------------------- Tree *)
(* Tree.__rich_measure__: every visible label is measured at max_width (not at max_width - indent) *)
Fixpoint tree_measure (w : Z) (level : Z) (t : tnode) (acc : Z * Z) : Z * Z :=
  match t with
  | TNode lab _ ex kids =>
      let '(mn, mx) := mget lab w in
      let acc := (Z.max (mn + level * 4) (fst acc), Z.max (mx + level * 4) (snd acc)) in
      if ex then fold_left (fun a k => tree_measure w (level + 1) k a) kids acc else acc
  end.

Definition tree_child (t : tnode) : child :=
  mkChild (fun w => tree_measure w 0 t (0, 0))
          (fun W => match tree_render false false t W with
                    | Ok ls => str_lines_stream ls
                    | _ => []
                    end).

(* ---------------------------------------------------------------- Table *)
Record colspec := mkColSpec {
  cs_header : str; cs_footer : str;
  cs_justify : Z; cs_overflow : Z; cs_nowrap : bool;
  cs_width : option Z; cs_minw : option Z; cs_maxw : option Z; cs_ratio : option Z
}.
Definition default_col : colspec :=
  mkColSpec [] [] Wrap.J_LEFT Wrap.OV_ELLIPSIS false None None None None.

Definition col_ro (c : colspec) : ropts := mkRO (Some (cs_justify c)) (Some (cs_overflow c)) (cs_nowrap c).

Record tblspec := mkTblSpec {
  tb_o : Table.topts;
  tb_box : option Z;              (* index into gen/BoxChars.BOXES *)
  tb_title : str; tb_caption : str;   (* [] = none *)
  tb_cols : list colspec;
  tb_es : list bool               (* end_section flag of every data row *)
}.

Definition tb_boxc (t : tblspec) : option Table.boxc :=
  match tb_box t with Some i => Table.nth_box (Z.to_nat i) | None => None end.

Definition blank_cell (cf : cfg) : ropts -> child := text_child cf [] None None None.

(* the renderables _get_cells yields for column j (header if shown, the row cells, footer if shown),
   each wrapped in Padding by the rule of add_padding; every cell is built under the column's options *)
Definition column_cells (cf : cfg) (t : tblspec) (rows : list (list (ropts -> child))) (j : nat) (c : colspec)
  : list child :=
  let o := tb_o t in
  let n := length (tb_cols t) in
  let ro := col_ro c in
  let raw :=
    (if Table.o_header o then [text_child cf (cs_header c) None None None ro] else [])
    ++ map (fun row => nth j row (blank_cell cf) ro) rows
    ++ (if Table.o_footer o then [text_child cf (cs_footer c) None None None ro] else []) in
  let k := length raw in
  map (fun '(i, ch) =>
         match Table.cell_padding o n j (i =? 0)%nat (S i =? k)%nat with
         | Some (pt, pr, pb, pl) => padding_child ch pt pr pb pl None true
         | None => ch
         end)
      (Table.indexed 0 raw).

Definition table_cols (cf : cfg) (t : tblspec) (rows : list (list (ropts -> child))) : list (list child) :=
  map (fun '(j, c) => column_cells cf t rows j c) (Table.indexed 0 (tb_cols t)).

Definition table_tcols (t : tblspec) (cells : list (list child)) : list Table.tcol :=
  map (fun '(c, chs) =>
         Table.mkCol (cs_width c) (cs_minw c) (cs_maxw c) (cs_ratio c) (cs_nowrap c)
                     (map (fun ch => mget ch) chs))
      (combine (tb_cols t) cells).

(* zip of the column cells as rows of Table.v *)
Fixpoint transpose_rows (k : nat) (cols : list (list child)) (flags : list bool) (idx : nat) : list Table.trow :=
  match k with
  | O => []
  | S k' =>
      Table.mkRow (map (fun col => fun w => render_lines (nth idx col (mkChild (fun _ => (0, 0)) (fun _ => []))) w None true) cols)
                  (nth idx flags false) None
      :: transpose_rows k' cols flags (S idx)
  end.

Definition table_rows (t : tblspec) (cells : list (list child)) : list Table.trow :=
  let nshown := match cells with [] => O | c :: _ => length c end in
  let flags := (if Table.o_header (tb_o t) then [false] else []) ++ tb_es t in
  transpose_rows nshown cells flags 0.

Definition table_measure (t : tblspec) (cells : list (list child)) (w : Z) : Z * Z :=
  let o := tb_o t in
  let w := match Table.o_width o with Some x => x | None => w end in
  if w <? 0 then (0, 0)
  else
    let cols := table_tcols t cells in
    let extra := Table.extra_width o (length cols) in
    match Table.calc_widths_x FLEXMIN false false o cols (w - extra) with
    | Ok ws =>
        let mw := sumZ ws in
        let ms := map (fun '(i, c) => Table.measure_column o i c mw) (Table.indexed 0 cols) in
        let mn := sumZ (map fst ms) + extra in
        let mx := match Table.o_width o with None => sumZ (map snd ms) + extra | Some x => x end in
        Table.tm_clamp (mn, mx) (Table.o_minw o) None
    | _ => (0, 0)
    end.

(* render_annotation: the title / caption Text rendered at the table's width, justify "center" *)
Definition annotation (s : str) (ro : ropts) (tw : Z) : list segZ :=
  match s with
  | [] => []
  | _ => if tw <? 1 then []
         else text_stream s None None None (mkRO (Some Wrap.J_CENTER) (ro_overflow ro) (ro_nowrap ro)) tw
  end.

Definition table_stream (t : tblspec) (cells : list (list child)) (ro : ropts) (W : Z) : list segZ :=
  let o := tb_o t in
  let cols := table_tcols t cells in
  match Table.table_widths_x FLEXMIN false false o cols W with
  | Ok ws =>
      let tw := sumZ ws + Table.extra_width o (length cols) in
      match Table.render_table false o (tb_boxc t) ws (table_rows t cells) with
      | Ok ls => annotation (tb_title t) ro tw ++ stream_of ls ++ annotation (tb_caption t) ro tw
      | _ => []
      end
  | _ => []
  end.

Definition table_child (cf : cfg) (t : tblspec) (rows : list (list (ropts -> child))) (ro : ropts) : child :=
  let cells := table_cols cf t rows in
  mkChild (table_measure t cells) (table_stream t cells ro).

(* ---------------------------------------------------------------- Columns *)
Record colsopts := mkColsOpts {
  co_pad : Z * Z * Z * Z;
  co_expand : bool; co_equal : bool; co_cf : bool; co_rtl : bool;
  co_align : option Z;
  co_title : str
}.

Definition grid_opts (o : colsopts) : Table.topts :=
  Table.mkOpts false false false false false 0 (co_pad o) true false (co_expand o) None None.

(* Columns.__rich_console__: the column count from the measured maxima, the items placed by
   iter_renderables, each wrapped in Constrain (equal) and Align, then a Table.grid of them.
   The `width=` option (D10, ZeroDivisionError when it exceeds the available width) is outside the
   modelled option domain. *)
Definition columns_stream (cf : cfg) (items : list (ropts -> child)) (o : colsopts) (ro : ropts) (W : Z)
  : list segZ :=
  match items with
  | [] => []
  | _ =>
      let '(_, pr, _, pl) := co_pad o in
      let ws := map (fun it => snd (mget (it ro) W)) items in
      match columns_grid ws None pl pr (co_equal o) (co_cf o) (co_rtl o) W with
      | Ok (cc, grid) =>
          let wmax := maxl ws in
          let cell (i : Z) : ropts -> child :=
            if i <? 0 then blank_cell cf
            else fun ro' =>
                   let c := nth (Z.to_nat i) items (blank_cell cf) ro' in
                   let c := if co_equal o then constrain_child c (Some wmax) else c in
                   match co_align o with Some how => align_child cf c how true None | None => c end in
          let t := mkTblSpec (grid_opts o) None (co_title o) [] (repeat default_col (Z.to_nat cc)) [] in
          render_at (table_child cf t (map (map cell) grid) ro) W
      | _ => []
      end
  end.

Definition columns_child (cf : cfg) (items : list (ropts -> child)) (o : colsopts) (ro : ropts) : child :=
  mkChild (fun w => (0, w)) (columns_stream cf items o ro).

(* ---------------------------------------------------------------- the renderable trees *)
Inductive R : Type :=
| Txt (s : str) (justify overflow : option Z) (no_wrap : option bool)
| Pad (c : R) (t r b l : Z) (expand : bool)
| Panel (c : R) (o : panel_opts)
| Align (c : R) (how : Z) (pad : bool) (width : option Z)
| Constrain (c : R) (width : option Z)
| Styled (c : R)
| Group (cs : list R) (fit : bool)
| Rule (title chars : str) (how : Z)
| Bar (size b e : Z) (width : option Z)
| PBar (total completed : Z) (width : option Z) (pulse : bool) (t : Z)
| Tbl (t : tblspec) (rows : list (list R))
| Cols (items : list R) (o : colsopts)
| Tree (label : R) (kids : list R) (expanded : bool)    (* kids are Tree nodes *)
| NoMeasure (c : R)
| Cast (c : R).

Definition dummy_child : child := mkChild (fun _ => (0, 0)) (fun _ => [nlseg]).

(* den: the renderable as a child (its __rich_measure__ and its Console.render stream per width) under
   the inherited options; node_of: a Tree node for Frames.tree_render *)
Fixpoint den (cf : cfg) (r : R) (ro : ropts) {struct r} : child :=
  match r with
  | Txt s j ov nw => text_child cf s j ov nw ro
  | Pad c t rr b l ex => padding_child (den cf c ro) t rr b l None ex
  | Panel c o => panel_child cf (den cf c ro) o
  | Align c how pad w => align_child cf (den cf c ro) how pad w
  | Constrain c w => constrain_child (den cf c ro) w
  | Styled c => styled_child (den cf c ro)
  | Group cs fit => group_child (map (fun c => den cf c ro) cs) fit
  | Rule title chars how => rule_child title chars how
  | Bar size b e w => bar_child size b e w
  | PBar total completed w pulse t => pbar_child (has_color cf) total completed w pulse t
  | Tbl t rows => table_child cf t (map (map (fun c => den cf c)) rows) ro
  | Cols items o => columns_child cf (map (fun c => den cf c) items) o ro
  | Tree lab kids ex => tree_child (TNode (den cf lab ro) (None, None) ex (map (fun k => node_of cf k ro) kids))
  | NoMeasure c => nomeasure_child (den cf c ro)
  | Cast c => den cf c ro
  end
with node_of (cf : cfg) (r : R) (ro : ropts) {struct r} : tnode :=
  match r with
  | Tree lab kids ex => TNode (den cf lab ro) (None, None) ex (map (fun k => node_of cf k ro) kids)
  | _ => TNode dummy_child (None, None) true []
  end.

(* ---------------------------------------------------------------- where the model's own `res` can fail
   calc_widths (ratio_distribute's assert, StopIteration), render_table (IndexError), columns_grid and
   tree_render (fuel) answer in `res`; `den` maps a failure to an empty rendering / (0, 0).  `fails`
   recomputes, top-down at the widths each parent hands to its children, whether any such failure is
   met; the top-level `render` / `measure` then answer Crash.  (Measurement failures are looked for at
   the widths of the first measuring pass only.) *)
Definition first_some (l : list (option Z)) : option Z :=
  fold_right (fun a b => match a with Some _ => a | None => b end) None l.

Definition res_fail {A} (r : res A) : option Z :=
  match r with Ok _ => None | Doc e => Some e | Crash k => Some k end.

Definition table_fail (t : tblspec) (cells : list (list child)) (W : Z) : option Z :=
  let cols := table_tcols t cells in
  match Table.table_widths_x FLEXMIN false false (tb_o t) cols W with
  | Ok ws => res_fail (Table.render_table false (tb_o t) (tb_boxc t) ws (table_rows t cells))
  | r => res_fail r
  end.

Fixpoint fails (cf : cfg) (r : R) (ro : ropts) (W : Z) {struct r} : option Z :=
  if W <? 1 then None else
  match r with
  | Txt _ _ _ _ | Rule _ _ _ | Bar _ _ _ _ | PBar _ _ _ _ _ => None
  | Pad c t rr b l ex =>
      fails cf c ro (padding_width (den cf c ro) rr l ex W - l - rr)
  | Panel c o =>
      let '(t, rr, b, l) := p_pad o in
      let cwid := panel_child_width (den cf c ro) o W in
      fails cf c ro (if (t =? 0) && (rr =? 0) && (b =? 0) && (l =? 0) then cwid else cwid - l - rr)
  | Align c how pad w =>
      let m := snd (mget (den cf c ro) (cW cf)) in
      first_some [fails cf c ro (cW cf);
                  fails cf c ro (Z.min (match w with None => m | Some aw => Z.min m aw end) W)]
  | Constrain c w => fails cf c ro (match w with None => W | Some x => Z.min x W end)
  | Styled c | NoMeasure c | Cast c => fails cf c ro W
  | Group cs _ => first_some (map (fun c => fails cf c ro W) cs)
  | Tbl t rows =>
      let cells := table_cols cf t (map (map (fun c => den cf c)) rows) in
      match table_fail t cells W with
      | Some k => Some k
      | None =>
          match Table.table_widths_x FLEXMIN false false (tb_o t) (table_tcols t cells) W with
          | Ok ws =>
              first_some (map (fun row =>
                                 (fix go (row : list R) (wc : list (Z * colspec)) : option Z :=
                                    match row, wc with
                                    | c :: row', (w, col) :: wc' =>
                                        match fails cf c (col_ro col) w with
                                        | Some k => Some k
                                        | None => go row' wc'
                                        end
                                    | _, _ => None
                                    end) row (combine ws (tb_cols t))) rows)
          | _ => None
          end
      end
  | Cols items o =>
      match items with
      | [] => None
      | _ =>
          let '(_, pr, _, pl) := co_pad o in
          let ws := map (fun c => snd (mget (den cf c ro) W)) items in
          match columns_grid ws None pl pr (co_equal o) (co_cf o) (co_rtl o) W with
          | Ok _ => first_some (map (fun c => fails cf c ro W) items)
          | rr => res_fail rr
          end
      end
  | Tree lab kids ex =>
      first_some [res_fail (tree_render false false (node_of cf r ro) W);
                  fails cf lab ro W;
                  if ex then first_some (map (fun k => fails cf k ro (W - 4)) kids) else None]
  end.

(* ---------------------------------------------------------------- the observable functions *)
(* list(Segment.split_lines(console.render(r, options.update(width = W)))) *)
Definition render (cf : cfg) (r : R) (ro : ropts) (W : Z) : res (list line) :=
  match fails cf r ro W with
  | Some k => Crash k
  | None => Ok (split_lines (render_at (den cf r ro) W))
  end.

(* Measurement.get(console, r, avail) *)
Definition measure (cf : cfg) (r : R) (avail : Z) : res (Z * Z) :=
  match fails cf r ro0 avail with
  | Some k => Crash k
  | None => Ok (mget (den cf r ro0) avail)
  end.

(* Measurement.get(console, r, max_width=None): an omitted max_width means the console width
   (`_max_width = console.width if max_width is None else max_width`, pinned as gen/MeasureFacts.GET_NONE_IS_CONSOLE_WIDTH;
   the clamp `.with_maximum(_max_width)` uses that RESOLVED width: GET_NORMALIZE_WITH_MAXIMUM) *)
Definition measure_opt (cf : cfg) (r : R) (max_width : option Z) : res (Z * Z) :=
  measure cf r (match max_width with None => cW cf | Some w => w end).

(* ---------------------------------------------------------------- structural minimum (DESIGN section 9) *)
Definition has_wide (s : str) : bool := existsb (fun c => char_size c =? 2) s.
Definition txt_min (s : str) : Z := if has_wide s then 2 else 1.

Definition sum_map {A} (f : A -> Z) (l : list A) : Z := sumZ (map f l).

Fixpoint column_of {A} (j : nat) (rows : list (list A)) : list A :=
  match rows with
  | [] => []
  | row :: rest => match nth_error row j with Some x => x :: column_of j rest | None => column_of j rest end
  end.

(* borders and padding plus room for one character (two if double-width characters occur) in every
   innermost column *)
Fixpoint smin (r : R) : Z :=
  match r with
  | Txt s _ _ _ => txt_min s
  | Pad c _ rr _ l _ => l + rr + smin c
  | Panel c o =>
      let '(_, rr, _, l) := p_pad o in
      2 + Z.max (l + rr + smin c) (match p_title o with [] => 0 | _ => 2 + txt_min (p_title o) end)
  | Align c _ _ _ | Constrain c _ | Styled c | NoMeasure c | Cast c => smin c
  | Group cs _ => maxl (map smin cs)
  | Rule _ _ _ | Bar _ _ _ _ | PBar _ _ _ _ _ => 1
  | Tbl t rows =>
      let o := tb_o t in
      let n := length (tb_cols t) in
      let srows := map (map smin) rows in
      Table.extra_width o n
      + sumZ (map (fun '(j, c) =>
                     Table.padding_width o j
                     + Z.max (Z.max (txt_min (cs_header c ++ cs_footer c))
                                    (Z.max (match cs_width c with Some w => w | None => 0 end)
                                           (match cs_minw c with Some w => w | None => 0 end)))
                             (maxl (column_of j srows)))
                  (Table.indexed 0 (tb_cols t)))
  | Cols items o =>
      (* up to one grid column per item, each at least one cell wide *)
      Z.max (Z.max (maxl (map smin items)) (match co_title o with [] => 0 | s => txt_min s end)) (zlen items)
  | Tree lab kids ex => Z.max (smin lab) (if ex then 4 + maxl (map smin kids) else 0)
  end.

(* the option domain of the C01 quantifier ("tables whose columns are free to wrap"): no text or
   column switches wrapping off (no_wrap, overflow="ignore"), no column has a fixed width or a
   min_width, ratios are positive, paddings non-negative, an explicit Panel width leaves room for the
   structural minimum of what it holds, Tree children are Tree nodes, a ProgressBar (which ends without a
   new line: known finding, props/C01.v) is not followed by a sibling inside a group *)
Definition opt_ok (o : option Z) : bool := match o with Some x => negb (x =? Wrap.OV_IGNORE) | None => true end.
Definition nonneg4 (p : Z * Z * Z * Z) : bool :=
  let '(t, r, b, l) := p in (0 <=? t) && (0 <=? r) && (0 <=? b) && (0 <=? l).

Fixpoint ends_nl (r : R) : bool :=
  match r with
  | PBar _ _ _ _ _ => false
  | Styled c | Constrain c _ | NoMeasure c | Cast c => ends_nl c
  | Group cs _ => last (map ends_nl cs) true
  | _ => true
  end.

Fixpoint all_but_last {A} (f : A -> bool) (l : list A) : bool :=
  match l with
  | [] => true
  | [x] => true
  | x :: r => f x && all_but_last f r
  end.

Definition col_ok (c : colspec) : bool :=
  negb (cs_nowrap c) && negb (cs_overflow c =? Wrap.OV_IGNORE)
  && match cs_width c with None => true | Some _ => false end
  && match cs_minw c with None => true | Some _ => false end
  && match cs_maxw c with None => true | Some w => 1 <=? w end
  && match cs_ratio c with None => true | Some x => 1 <=? x end.

Definition is_tree (r : R) : bool := match r with Tree _ _ _ => true | _ => false end.
Definition is_cast (r : R) : bool := match r with Cast _ => true | _ => false end.

(* is a table / columns grid reached from r through the renderables that do not crop their child
   (Align, Constrain, Styled, groups, casts)?  Padding, Panel, Tree and table cells crop (render_lines). *)
Fixpoint spine_tables (r : R) : bool :=
  match r with
  | Tbl _ _ | Cols _ _ => true
  | Align c _ _ _ | Constrain c _ | Styled c | NoMeasure c | Cast c => spine_tables c
  | Group cs _ => existsb spine_tables cs
  | _ => false
  end.

Fixpoint wrappable (r : R) : bool :=
  match r with
  | Txt _ _ ov nw => opt_ok ov && match nw with Some true => false | _ => true end
  | Pad c t rr b l _ => (0 <=? t) && (0 <=? rr) && (0 <=? b) && (0 <=? l) && wrappable c
  | Panel c o =>
      nonneg4 (p_pad o) && wrappable c
      && match p_width o with
         | None => true
         | Some w => let '(_, rr, _, l) := p_pad o in
                     2 + Z.max (l + rr + smin c) (match p_title o with [] => 0 | _ => 2 + txt_min (p_title o) end) <=? w
         end
  | Align c _ _ _ | Constrain c _ => wrappable c
  | Styled c | NoMeasure c => wrappable c
  | Cast c => negb (is_cast c) && wrappable c
  | Group cs _ => forallb wrappable cs && all_but_last ends_nl cs
  | Rule _ chars _ => 0 <? cell_len chars
  | Bar size _ _ w => (0 <? size) && match w with None => true | Some x => 0 <=? x end
  | PBar _ _ w _ _ => match w with None => true | Some x => 0 <=? x end
  | Tbl t rows =>
      let o := tb_o t in
      nonneg4 (Table.o_pad o) && (0 <=? Table.o_leading o)
      && match Table.o_width o with None => true | Some _ => false end
      && match tb_cols t with [] => false | _ => true end
      && Bool.eqb (Table.o_box o) (match tb_boxc t with Some _ => true | None => false end)
      && forallb col_ok (tb_cols t)
      && forallb (fun row => (length row =? length (tb_cols t))%nat && forallb wrappable row) rows
  | Cols items o => nonneg4 (co_pad o) && forallb wrappable items
  | Tree lab kids _ => wrappable lab && forallb (fun k => is_tree k && wrappable k) kids
  end.

(* nesting depth of tables / columns *)
Fixpoint table_depth (r : R) : Z :=
  match r with
  | Txt _ _ _ _ | Rule _ _ _ | Bar _ _ _ _ | PBar _ _ _ _ _ => 0
  | Pad c _ _ _ _ _ | Panel c _ | Align c _ _ _ | Constrain c _ | Styled c | NoMeasure c | Cast c => table_depth c
  | Group cs _ => maxl (map table_depth cs)
  | Tbl _ rows => 1 + maxl (map (fun row => maxl (map table_depth row)) rows)
  | Cols items _ => 1 + maxl (map table_depth items)
  | Tree lab kids _ => Z.max (table_depth lab) (maxl (map table_depth kids))
  end.
