(* wire glue for L0/L1 (C13) *)
From RichModel Require Import Prelude Cells Segments SpecCells.

Definition tSeg (t : tree) : seg Z :=
  mkSeg (tStr (tNth t 0)) (tOpt tZ (tNth t 1)) (tB (tNth t 2)).
Definition ofSeg (g : seg Z) : tree :=
  L [ofStr (txt g); ofOpt I (sty g); ofB (ctl g)].
Definition tLine := tList tSeg.
Definition ofLine := ofList ofSeg.
Definition ofLines := ofList ofLine.

Definition ops : list (string * (tree -> tree)) := [
  ("cw", fun t => ofRes I (codepoint_cell_size (tZ t)));
  ("cw_range", fun t =>   (* [lo, hi) -> widths, -1 where the model would raise *)
      let lo := tZ (tNth t 0) in
      let n := Z.to_nat (tZ (tNth t 1) - lo) in
      ofList (fun i => match char_size_res (lo + Z.of_nat i) with Ok w => I w | _ => I (-1) end) (seq 0 n));
  ("cell_len_default_cache", fun _ => L [I 0; I 1]);  (* theorem cache_transparent: no stale answer, size bounded *)
  ("cw_lin", fun t => I (cw (tZ t)));
  ("char_size", fun t => ofRes I (char_size_res (tZ t)));
  ("cell_len", fun t => I (cell_len (tStr t)));
  ("cell_len_hist", fun t =>   (* [cap, [s1, s2, ...]] -> results in call order *)
      let '(vs, _) := run_cached (Z.to_nat (tZ (tNth t 0))) [] (tList tStr (tNth t 1)) in
      ofList I vs);
  ("set_cell_size", fun t => ofStr (set_cell_size (tStr (tNth t 0)) (tZ (tNth t 1))));
  ("chop_cells", fun t =>
      ofList ofStr (chop_cells (tStr (tNth t 0)) (tZ (tNth t 1)) (tZ (tNth t 2))));
  ("split_lines", fun t => ofLines (split_lines (tLine t)));
  ("adjust_line_length", fun t =>
      ofLine (adjust_line_length (tLine (tNth t 0)) (tZ (tNth t 1)) (tOpt tZ (tNth t 2)) (tB (tNth t 3))));
  ("split_and_crop_lines", fun t =>  (* [shadow, segs, length, style, pad, incl] *)
      ofLines (split_and_crop_lines (tB (tNth t 0)) (tLine (tNth t 1)) (tZ (tNth t 2))
                 (tOpt tZ (tNth t 3)) (tB (tNth t 4)) (tB (tNth t 5))));
  ("get_shape", fun t =>
      let '(w, h) := get_shape (tList tLine t) in L [I w; I h]);
  ("set_shape", fun t =>
      ofLines (set_shape (tList tLine (tNth t 0)) (tZ (tNth t 1)) (tOpt tZ (tNth t 2)) (tOpt tZ (tNth t 3))));
  (* spec-level checkers, applied by the harness to the implementation's outputs *)
  ("spec.width_ok", fun t => ofB (width_ok_b (tZ (tNth t 0)) (tZ (tNth t 1))));
  ("spec.widths_ok", fun t =>   (* [lo, [w_lo, w_lo+1, ...]] *)
      let lo := tZ (tNth t 0) in
      ofB (snd (fold_left (fun '(cp, ok) w => (cp + 1, ok && width_ok_b cp w))
                          (tList tZ (tNth t 1)) (lo, true))));
  ("spec.cell_len_ok", fun t => ofB (tZ (tNth t 1) =? sumZ (map char_size (tStr (tNth t 0)))));
  ("spec.resize_ok", fun t => ofB (resize_ok_b (tStr (tNth t 0)) (tZ (tNth t 1)) (tStr (tNth t 2))));
  ("spec.chop_ok", fun t => ofB (chop_ok_b (tStr (tNth t 0)) (tZ (tNth t 1)) (tList tStr (tNth t 2))));
  ("spec.adjust_ok", fun t =>
      ofB (adjust_ok_b (tLine (tNth t 0)) (tZ (tNth t 1)) (tOpt tZ (tNth t 2)) (tB (tNth t 3)) (tLine (tNth t 4))));
  ("spec.sac_ok", fun t =>  (* [segs, length, style, pad, incl, out_lines] *)
      ofB (shape_ok_b (tZ (tNth t 1)) (tOpt tZ (tNth t 2)) (tB (tNth t 3)) (tB (tNth t 4))
             (split_lines (tLine (tNth t 0))) (tList tLine (tNth t 5))));
  ("spec.set_shape_ok", fun t =>  (* [lines, width, height?, style, out] *)
      let lines := tList tLine (tNth t 0) in
      let w := tZ (tNth t 1) in
      let out := tList tLine (tNth t 4) in
      let n := length lines in
      let h := match tOpt tZ (tNth t 2) with None => n | Some h => Z.to_nat h end in
      ofB ((length out =? Nat.max n h)%nat
           && shape_ok_b w (tOpt tZ (tNth t 3)) true false lines (firstn n out)
           && forallb (fun l => adjust_ok_b [] w (tOpt tZ (tNth t 3)) true l) (skipn n out)))
].
