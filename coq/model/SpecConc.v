(* C11 spec-level checkers: boolean statements of the property on concrete observations.
   Used in the theorems (props/C11.v) and, through DrvConc, on the implementation's outputs. *)
From RichModel Require Import Prelude Conc.

Definition pid := (tid * Z)%type.     (* a printed line: (thread, id) *)
Definition pid_eqb (a b : pid) : bool := Nat.eqb (fst a) (fst b) && (snd a =? snd b).

Fixpoint strip (p : list item) : list pid :=
  match p with
  | [] => []
  | Txt t id :: r => (t, id) :: strip r
  | _ :: r => strip r
  end.
Definition strip_obs (o : list (bool * list item)) : list (bool * list pid) :=
  filter (fun e => negb (is_nil (snd e))) (map (fun e => (fst e, strip (snd e))) o).

(* ---- the serial specification of ONE thread: what it writes (true, ...) and captures
   (false, ...), in order, as a function of its own program only.  b = buffered lines, d = depth. *)
Definition emit (k : bool) (b : list pid) : list (bool * list pid) := if is_nil b then [] else [(k, b)].
Fixpoint sspec (t : tid) (ops : list op) (b : list pid) (d : Z) : list (bool * list pid) :=
  match ops with
  | [] => []
  | o :: r =>
      match o with
      | Print id => if d =? 0 then emit true (b ++ [(t, id)]) ++ sspec t r [] d
                    else sspec t r (b ++ [(t, id)]) d
      | BeginBlock | BeginCap => sspec t r b (d + 1)
      | EndBlock => if d - 1 =? 0 then emit true b ++ sspec t r [] (d - 1) else sspec t r b (d - 1)
      | EndCap => emit false b ++ sspec t r [] (d - 1)
      | Update _ _ true | Refresh | Tick | Start | Stop | StopAuto _ | RefreshLoop =>
          (* these write frames/controls only.  Live.refresh enters the buffer twice and leaves it
             twice: whatever this thread has buffered is flushed when a leave reaches depth 0 *)
          let b1 := if d + 1 =? 0 then [] else b in
          (if d + 1 =? 0 then emit true b else [])
          ++ (if d =? 0 then emit true b1 ++ sspec t r [] d else sspec t r b1 d)
      | Update _ _ false => sspec t r b d
      end
  end.

Definition obs_eqb (a b : list (bool * list pid)) : bool :=
  list_eqb (fun x y => Bool.eqb (fst x) (fst y) && list_eqb pid_eqb (snd x) (snd y)) a b.

Definition proj (t : tid) (f : list (tid * list item)) : list (list item) :=
  map snd (filter (fun w => Nat.eqb (fst w) t) f).
Definition only (k : bool) (o : list (bool * list pid)) : list (list pid) :=
  map snd (filter (fun e => Bool.eqb (fst e) k) o).
Definition nonempty_strips (ps : list (list item)) : list (list pid) :=
  filter (fun p => negb (is_nil p)) (map strip ps).
Definition lists_eqb (a b : list (list pid)) : bool := list_eqb (list_eqb pid_eqb) a b.

(* every print of every thread reached the file exactly once, inside one write call, in program
   order, grouped exactly as the outermost buffer exits of that thread group them; and a write
   of thread t carries no other thread's line *)
Definition writes_atomic_b (progs : list (list op)) (f : list (tid * list item)) : bool :=
  forallb (fun t => lists_eqb (nonempty_strips (proj t f)) (only true (sspec t (nth t progs []) [] 0)))
          (seq 0 (length progs))
  && forallb (fun w => Nat.ltb (fst w) (length progs)) f.

(* caps: for every thread the payloads its captures returned, in order *)
Definition captures_isolated_b (progs : list (list op)) (caps : list (list (list item))) : bool :=
  Nat.eqb (length caps) (length progs)
  && forallb (fun t => lists_eqb (nonempty_strips (nth t caps [])) (only false (sspec t (nth t progs []) [] 0)))
             (seq 0 (length progs)).

(* the recorded copy, minus what was captured (never written), has the order of the file *)
Definition written_part (r : list (tid * bool * list item)) : list (tid * list item) :=
  map (fun e => (fst (fst e), snd e)) (filter (fun e => snd (fst e)) r).
Definition flat_ids (f : list (tid * list item)) : list pid := flat_map (fun w => strip (snd w)) f.
Definition record_order_b (f : list (tid * list item)) (r : list (tid * bool * list item)) : bool :=
  list_eqb pid_eqb (flat_ids (written_part r)) (flat_ids f).

(* C10's screen statement for the order in which the writes reached the file: the screen shows
   the printed lines in file order followed by the rows of the frame written last *)
Fixpoint last_frame (p : list item) (acc : option (Z * nat)) : option (Z * nat) :=
  match p with
  | [] => acc
  | Frame fid h :: r => last_frame r (Some (fid, h))
  | _ :: r => last_frame r acc
  end.
Definition texts (p : list item) : list row :=
  flat_map (fun it => match it with Txt t id => [RTxt t id] | _ => [] end) p.
Definition expected_screen (f : list (tid * list item)) : list row :=
  let all := flat_map snd f in
  texts all ++ match last_frame all None with Some (fid, h) => map (RFrame fid) (seq 0 h) | None => [] end.
Definition rows_eqb := list_eqb row_eqb.
Definition screen_rows_b (f : list (tid * list item)) (rows : list row) : bool :=
  rows_eqb rows (expected_screen f).
Definition screen_ok_b (f : list (tid * list item)) : bool := screen_rows_b f (screen_of f).

(* ---- trace validation: the observed visible events are a behaviour of the model, the model
   ends with every thread finished, and it wrote / captured / recorded what was observed *)
Definition caps_of (st : state) (n : nat) : list (list (list item)) :=
  map (fun t => map snd (filter (fun e => negb (fst e)) (olog (th st t)))) (seq 0 n).
Definition replay_full (rep : bool) (st0 : state) (n : nat) (tr : list (tid * vev)) : option state :=
  match replay rep (fold_left (advance 200 rep) (seq 0 n) st0) tr with
  | Some st => finish rep st n
  | None => None
  end.
Definition caps_eqb (a b : list (list (list item))) : bool :=
  list_eqb (list_eqb (list_eqb item_eqb)) a b.
Definition trace_ok_b (rep live : bool) (sh0 : option nat) (r0 : Z * nat) (progs : list (list op))
           (tr : list (tid * vev)) (caps : list (list (list item))) : bool :=
  match replay_full rep (init_state live sh0 r0 (progs_of progs)) (length progs) tr with
  | Some st => caps_eqb (caps_of st (length progs)) caps
  | None => false
  end.
(* which variant does the implementation match, and does the screen statement hold where that
   variant promises it?  as-is trace whose model run already breaks the screen = the known race
   class (D17), not judged here (the exact screen is compared by the `vis` correspondence) *)
Definition live_screen_b (live : bool) (sh0 : option nat) (r0 : Z * nat) (progs : list (list op))
           (tr : list (tid * vev)) (rows : list row) : bool :=
  let st0 := init_state live sh0 r0 (progs_of progs) in
  match replay_full false st0 (length progs) tr with
  | Some st => if screen_ok_b (file (sh st)) then screen_rows_b (file (sh st)) rows else true
  | None => match replay_full true st0 (length progs) tr with
            | Some st => screen_rows_b (file (sh st)) rows
            | None => false
            end
  end.

(* ---- schedules at the granularity of visible events (what tools/sched_console can direct):
   every thread is parked before its next visible event; a choice performs that event and runs
   the thread up to the next one; a choice that is blocked or finished is skipped; when the list
   is exhausted the lowest runnable thread is chosen until nothing can run *)
Definition vstep (rep : bool) (st : state) (t : tid) : option state :=
  match step rep st t with Some st' => Some (advance 200 rep st' t) | None => None end.
Fixpoint drain (fuel : nat) (rep : bool) (n : nat) (st : state) : state :=
  match fuel with
  | O => st
  | S f => match runnable rep st n with
           | t :: _ => match vstep rep st t with Some st' => drain f rep n st' | None => st end
           | [] => st
           end
  end.
Fixpoint run_vis_aux (rep : bool) (st : state) (vs : list tid) : state :=
  match vs with
  | [] => st
  | t :: r => match vstep rep st t with Some st' => run_vis_aux rep st' r | None => run_vis_aux rep st r end
  end.
Definition run_vis (rep : bool) (st0 : state) (n : nat) (vs : list tid) : state :=
  drain 2000 rep n (run_vis_aux rep (fold_left (advance 200 rep) (seq 0 n) st0) vs).
