(* wire glue for C15.  The abstract style functions of Record.v are instantiated from a per-case
   table  [token, truthy, pre, suf, pre_tc, suf_tc, html_rule, [link]?]  supplied by the harness:
   pre/suf = the two halves of style.render around the text for the console's colour system (of
   style.without_color when no_color applies),
   pre_tc/suf_tc the same for export_text(styles=True) (truecolor, legacy_windows=False). *)
From RichModel Require Import Prelude Wire Cells Segments Record SpecRecord.

Definition tSeg (t : tree) : sg :=
  mkSeg (tStr (tNth t 0)) (tOpt tZ (tNth t 1)) (tB (tNth t 2)).
Definition ofSeg (g : sg) : tree :=
  L [ofStr (txt g); ofOpt I (sty g); ofB (ctl g)].
Definition tSegs := tList tSeg.
Definition ofSegs := ofList ofSeg.

Definition tCfg (t : tree) : cfg :=
  mkCfg (tZ (tNth t 0)) (tB (tNth t 1)) (tZ (tNth t 2)) (tB (tNth t 3)) (tB (tNth t 4)).

Definition tOp (t : tree) : op :=
  let tag := tZ (tNth t 0) in
  if tag =? 0 then Print (tB (tNth t 1)) (tSegs (tNth t 2))
  else if tag =? 1 then Line (Z.to_nat (tZ (tNth t 1)))
  else if tag =? 2 then Control (tStr (tNth t 1))
  else if tag =? 3 then Bell
  else if tag =? 4 then Clear (tB (tNth t 1))
  else if tag =? 5 then ShowCursor (tB (tNth t 1))
  else if tag =? 6 then BeginCapture
  else if tag =? 7 then EndCapture
  else if tag =? 8 then ExportText (tB (tNth t 1)) (tB (tNth t 2))
  else ExportHtml (tB (tNth t 1)) (tB (tNth t 2)).

Fixpoint row_of (tbl : list tree) (s : Z) : tree :=
  match tbl with
  | [] => L []
  | r :: rest => if tZ (tNth r 0) =? s then r else row_of rest s
  end.

Section Tbl.
Variable tbl : list tree.
Variable c : cfg.
Definition t_truthy (s : Z) : bool := tB (tNth (row_of tbl s) 1).
Definition t_esc (cs : Z) (lw : bool) (s : Z) (t : str) : str :=
  if is_nil t then t
  else
    let r := row_of tbl s in
    if (cs =? csys_eff c) && Bool.eqb lw (legacy c)
    then tStr (tNth r 2) ++ t ++ tStr (tNth r 3)
    else tStr (tNth r 4) ++ t ++ tStr (tNth r 5).
Definition t_rule (s : Z) : str := tStr (tNth (row_of tbl s) 6).
Definition t_link (s : Z) : option str := tOpt tStr (tNth (row_of tbl s) 7).

Definition ofEvent (e : event) : list tree := [ofStr (written e); ofOpt ofStr (ret e)].

(* observations: per call [written, ret?, [record before, record after]? (exports only)] *)
Fixpoint run_obs (keep hesc : bool) (s : st) (h : list op) : list tree :=
  match h with
  | [] => []
  | o :: h' =>
      let '(s1, e) := step t_truthy t_esc t_rule t_link keep hesc c s o in
      L (ofEvent e ++ [if is_export o then L [ofSegs (rec_ s); ofSegs (rec_ s1)] else L []])
      :: run_obs keep hesc s1 h'
  end.
End Tbl.

Definition tEvent (t : tree) : event := mkEv (tStr (tNth t 0)) (tOpt tStr (tNth t 1)).

Definition ops : list (string * (tree -> tree)) := [
  ("run", fun t =>   (* [keep_ctl, hesc, cfg, table, ops] *)
      let c := tCfg (tNth t 2) in
      L (run_obs (tL (tNth t 3)) c (tB (tNth t 0)) (tB (tNth t 1)) st0 (tList tOp (tNth t 4))));
  ("spec.replay", fun t =>   (* [keep_ctl, hesc, cfg, table, ops, observations of the implementation] *)
      let c := tCfg (tNth t 2) in
      let m := L (run_obs (tL (tNth t 3)) c (tB (tNth t 0)) (tB (tNth t 1)) st0 (tList tOp (tNth t 4))) in
      ofB (str_eqb (print_tree m) (print_tree (tNth t 5))));
  ("spec.exports_agree", fun t =>   (* [rendered, text, html, styled] *)
      ofB (exports_agree_b (tStr (tNth t 0)) (tStr (tNth t 1)) (tStr (tNth t 2)) (tStr (tNth t 3))));
  ("spec.capture_ok", fun t =>   (* [captured, would_be, file_delta] *)
      ofB (capture_ok_b (tStr (tNth t 0)) (tStr (tNth t 1)) (tStr (tNth t 2))));
  ("spec.clear_ok", fun t =>   (* [clear, record before, record after] *)
      ofB (clear_ok_b (tB (tNth t 0)) (tSegs (tNth t 1)) (tSegs (tNth t 2))));
  ("spec.capture_silent", fun t =>   (* [ops, events] *)
      ofB (capture_silent_b (tList tOp (tNth t 0)) (tList tEvent (tNth t 1))));
  ("spec.wf_hist", fun t =>   (* [cfg, table, ops] *)
      ofB (wf_hist_b (tCfg (tNth t 0)) (tList tOp (tNth t 2))));
  ("spec.exports_agree_at", fun t =>   (* [cfg, table, ops, events, k]: the exports at k, k+1, k+2 *)
      let c := tCfg (tNth t 0) in
      let h := tList tOp (tNth t 2) in
      let es := tList tEvent (tNth t 3) in
      let k := Z.to_nat (tZ (tNth t 4)) in
      let rendered := rendered_since_clear [] (firstn k h) (firstn k es) in
      let r i := ret_or_nil (nth (k + i) es (mkEv [] None)) in
      ofB (wf_hist_b c h
           && exports_agree_b rendered (r 0%nat) (r 2%nat) (r 1%nat)));
  ("spec.styled_export", fun t =>   (* [table, record, styled]: styled = the record under its own styles, truecolor *)
      let c0 := mkCfg 0 false 0 false false in
      ofB (str_eqb (tStr (tNth t 2))
             (export_styled (t_truthy (tL (tNth t 0))) (t_esc (tL (tNth t 0)) c0) (tSegs (tNth t 1)))));
  ("spec.no_exception", fun t => ofB (tB t));   (* 0 = a console call of the history raised *)
  ("spec.balanced", fun t => ofB (balanced (tList tOp t)));
  ("visible", fun t => ofStr (visible (tStr t)));
  ("html_text", fun t => ofStr (html_text (tStr t)));
  ("pre_code", fun t => ofOpt ofStr (pre_code (tStr t)));
  ("simplify", fun t => ofSegs (simplify (tB (tNth t 0)) (tSegs (tNth t 1))))
].
