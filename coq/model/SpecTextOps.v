(* C05 reference semantics and spec-level checkers.
   The reference state is what the property talks about: the characters, each with the ORDERED list
   of the styles of the spans covering it (which determines the effective style under any
   right-biased combine), plus the metadata the operations copy.  The reference operations are
   ordinary list operations -- no offsets, no cached length. *)
From RichModel Require Import Prelude Cells TextOps.

Definition rchar := (Z * list Z)%type.
Record ref := mkRef { rchars : list rchar; rmeta : meta }.

Definition covers (i : Z) (sp : span) : bool := (sp_start sp <=? i) && (i <? sp_end sp).
Definition cover (sps : list span) (i : Z) : list Z := map sp_style (filter (covers i) sps).
Fixpoint abs_from (i : Z) (p : str) (sps : list span) : list rchar :=
  match p with
  | [] => []
  | c :: r => (c, cover sps i) :: abs_from (i + 1) r sps
  end.
Definition abs_chars (p : str) (sps : list span) : list rchar := abs_from 0 p sps.
Definition abs (t : text) : ref := mkRef (abs_chars (plain t) (spans t)) (tmeta t).

Definition rplain (r : list rchar) : str := map fst r.
Definition bare (s : str) : list rchar := map (fun c => (c, [])) s.
Definition styled (s : str) (l : list Z) : list rchar := map (fun c => (c, l)) s.
Definition under (b : Z) (r : list rchar) : list rchar := map (fun '(c, l) => (c, b :: l)) r.
Definition opt_list (o : option Z) : list Z := match o with None => [] | Some k => [k] end.

(* the invariant *)
Definition ctl_free (s : str) : bool := forallb (fun c => negb (is_ctl c)) s.
Definition span_within (n : Z) (sp : span) : bool :=
  (0 <=? sp_start sp) && (sp_start sp <=? sp_end sp) && (sp_end sp <=? n).
Definition consistent_b (t : text) : bool :=
  (len t =? zlen (plain t)) && ctl_free (plain t) && forallb (span_within (len t)) (spans t).
Definition Consistent (t : text) : Prop := consistent_b t = true.

(* ---------- reference operations ---------- *)
Definition r_ctor (s : str) (m : meta) : ref := mkRef (bare (strip s)) m.
Definition r_arg (a : targ) : ref := abs (arg_text FIXED a).

Definition r_append_str (r : ref) (s : str) (st : option Z) : ref :=
  mkRef (rchars r ++ styled (strip s) (opt_list st)) (rmeta r).
Definition r_append_text (r o : ref) : ref :=
  mkRef (rchars r ++ under (base (rmeta o)) (rchars o)) (rmeta r).
Definition r_append_tokens (r : ref) (toks : list (str * option Z)) : ref :=
  mkRef (rchars r ++ flat_map (fun '(s, st) => styled (strip s) (opt_list st)) toks) (rmeta r).

Inductive rpart := RStr (s : str) | RTup (s : str) (st : option Z) | RText (o : ref).
Definition r_append_part (r : ref) (p : rpart) : ref :=
  match p with
  | RStr s => r_append_str r s None
  | RTup s st => r_append_str r s st
  | RText o => r_append_text r o
  end.
Definition r_assemble (m : meta) (ps : list rpart) : ref := fold_left r_append_part ps (mkRef [] m).

Definition r_join (sep : ref) (lines : list ref) : ref :=
  let pieces := match rchars sep with [] => lines | _ => intersperse sep lines end in
  mkRef (flat_map (fun x => under (base (rmeta x)) (rchars x)) pieces) (rmeta sep).

Definition r_divide (r : ref) (offsets : list Z) : list ref :=
  match offsets with
  | [] => [r]
  | _ => map (fun '(a, b) => mkRef (py_slice (rchars r) a b) (line_meta (rmeta r)))
             (pairs_of (0 :: offsets ++ [zlen (rchars r)]))
  end.

(* split: cut the character list at the non-overlapping leftmost occurrences of the separator, drop the
   separators (or keep them at the end of each line), drop a final blank line unless allow_blank *)
Definition r_split (r : ref) (sep : str) (incl allow : bool) : list ref :=
  let n := zlen sep in
  match find_all sep (rplain (rchars r)) with
  | [] => [r]                                   (* separator absent: a copy of the text *)
  | ms =>
      let lines :=
        if incl then r_divide r (map (fun m => m + n) ms)
        else filter (fun l => negb (str_eqb (rplain (rchars l)) sep))
                    (r_divide r (flat_map (fun m => [m; m + n]) ms)) in
      let pop := negb allow && (match rev lines with l :: _ => match rchars l with [] => true | _ => false end
                                                | [] => false end) in
      if pop then removelast lines else lines
  end.

(* an independent rendering of the same: str.split(sep) as one left-to-right scan over the characters, the styles
   travelling with them (proofs/TextOpsP10.v: equal to r_split on an exhaustive finite domain; the driver evaluates
   both on every generated case) *)
Fixpoint r_split_go (sep : str) (r : list rchar) (skip : nat) (cur : list rchar) (incl : bool)
  : list (list rchar) :=
  match r with
  | [] => [rev cur]
  | x :: r' =>
      match skip with
      | S k =>   (* inside a separator occurrence *)
          let cur' := if incl then x :: cur else cur in
          match k with
          | O => rev cur' :: r_split_go sep r' 0 [] incl
          | _ => r_split_go sep r' k cur' incl
          end
      | O =>
          if is_prefix sep (rplain r) then
            let cur' := if incl then x :: cur else cur in
            match (length sep - 1)%nat with
            | O => rev cur' :: r_split_go sep r' 0 [] incl
            | k => r_split_go sep r' k cur' incl
            end
          else r_split_go sep r' 0 (x :: cur) incl
      end
  end.
Definition r_split_scan (r : ref) (sep : str) (incl allow : bool) : list ref :=
  let pieces := r_split_go sep (rchars r) 0 [] incl in
  match pieces with
  | [_] => [r]                                   (* separator absent: a copy of the text *)
  | _ =>
      let pieces := if negb allow && (match rev pieces with [] :: _ => true | _ => false end)
                    then removelast pieces else pieces in
      map (fun p => mkRef p (line_meta (rmeta r))) pieces
  end.

Definition r_index (r : ref) (i : Z) : res ref :=
  match py_nth (rchars r) i with
  | None => Crash K_IndexError
  | Some x => Ok (mkRef [x] (mkMeta (base (rmeta r)) 0 0 0 [] (Some 8)))
  end.
Definition r_slice (r : ref) (a b : option Z) : ref :=
  let '(s, e) := slice_bounds (zlen (rchars r)) a b in
  mkRef (py_slice (rchars r) s e) (line_meta (rmeta r)).

(* characters replaced, styles stay at their positions *)
Fixpoint r_restyle (new : str) (old : list rchar) : list rchar :=
  match new with
  | [] => []
  | c :: n' => match old with
               | [] => (c, []) :: r_restyle n' []
               | (_, l) :: o' => (c, l) :: r_restyle n' o'
               end
  end.
Definition r_set_plain (r : ref) (new : str) : ref := mkRef (r_restyle (strip new) (rchars r)) (rmeta r).

Definition r_pad_right (r : ref) (n c : Z) : ref := mkRef (rchars r ++ bare (py_repeat c n)) (rmeta r).
Definition r_pad_left (r : ref) (n c : Z) : ref := mkRef (bare (py_repeat c n) ++ rchars r) (rmeta r).
Definition r_pad (r : ref) (n c : Z) : ref :=
  mkRef (bare (py_repeat c n) ++ rchars r ++ bare (py_repeat c n)) (rmeta r).
Definition r_right_crop (r : ref) (n : Z) : ref :=
  mkRef (firstn (Z.to_nat (zlen (rchars r) - n)) (rchars r)) (rmeta r).
Definition r_remove_suffix (r : ref) (suf : str) : ref :=
  if ends_with (rplain (rchars r)) suf then r_right_crop r (zlen suf) else r.
Definition r_rstrip (r : ref) : ref := r_right_crop r (trailing_ws (rplain (rchars r))).
Definition r_rstrip_end (r : ref) (size : Z) : ref :=
  let n := zlen (rchars r) in
  if size <? n then r_right_crop r (Z.min (trailing_ws (rplain (rchars r))) (n - size)) else r.
Definition r_set_length (r : ref) (n : Z) : ref :=
  let l := zlen (rchars r) in
  if l <? n then r_pad_right r (n - l) SP else r_right_crop r (l - n).

Definition r_truncate (r : ref) (w ov : Z) (padb : bool) : ref :=
  let eff := if negb (ov =? 0) then ov else if negb (overflow (rmeta r) =? 0) then overflow (rmeta r) else 1 in
  if eff =? 4 then r
  else
    let p := rplain (rchars r) in
    let length := cell_len p in
    let r1 := if w <? length then
                r_set_plain r (if eff =? 3 then set_cell_size p (w - 1) ++ [ELLIPSIS] else set_cell_size p w)
              else r in
    if padb && (length <? w) then r_pad_right r1 (w - length) SP else r1.

Definition r_align (r : ref) (how w c : Z) : ref :=
  let r1 := r_truncate r w 0 false in
  let excess := w - cell_len (rplain (rchars r1)) in
  if how =? 0 then r_pad_right r1 excess c
  else if how =? 1 then r_pad_right (r_pad_left r1 (excess / 2) c) (excess - excess / 2) c
  else r_pad_left r1 excess c.

(* expand_tabs on reference values: lines (newline kept), each line cut after every tab; a part ending in a
   tab has the tab replaced by a space (keeping its styles) and is followed by fresh spaces, carrying only
   the base style, up to the next tab stop; every appended part lies under the text's base style once more
   (a span rich adds).  `pos` is rich's running count: it only advances over parts that end in a tab. *)
Definition r_tab_to_space (part : ref) : ref :=
  match rev (rchars part) with
  | (_, l) :: before => mkRef (rev before ++ [(SP, l)]) (rmeta part)
  | [] => part
  end.
Fixpoint r_expand_parts (parts : list ref) (result : ref) (pos tabsz style : Z) : res (ref * Z) :=
  match parts with
  | [] => Ok (result, pos)
  | part :: rest =>
      if ends_with (rplain (rchars part)) [TAB] then
        let part' := r_tab_to_space part in
        let result1 := r_append_text result part' in
        let pos1 := pos + zlen (rchars part') in
        if tabsz =? 0 then Crash K_ZeroDivisionError
        else
          let spaces := tabsz - ((pos1 - 1) mod tabsz) - 1 in
          if spaces =? 0 then r_expand_parts rest result1 pos1 tabsz style
          else r_expand_parts rest (r_append_str result1 (py_repeat SP spaces) (Some style)) (pos1 + spaces) tabsz style
      else r_expand_parts rest (r_append_text result part) pos tabsz style
  end.
Fixpoint r_expand_lines (lines : list ref) (result : ref) (pos tabsz style : Z) : res ref :=
  match lines with
  | [] => Ok result
  | line :: rest =>
      do x <- r_expand_parts (r_split line [TAB] true false) result pos tabsz style;
      let '(result', pos') := x in r_expand_lines rest result' pos' tabsz style
  end.
Definition r_expand_tabs (r : ref) (tabarg : option Z) : res ref :=
  if negb (existsb (Z.eqb TAB) (rplain (rchars r))) then Ok r
  else match (match tabarg with Some k => Some k | None => tab (rmeta r) end) with
       | None => Crash K_AssertionError
       | Some tabsz =>
           do result <- r_expand_lines (r_split r [NL] true false) (mkRef [] (rmeta r)) 0 tabsz (base (rmeta r));
           Ok (mkRef (rchars result) (rmeta r))
       end.

(* an independent rendering of expand_tabs as one walk over the characters (proofs/TextOpsP10.v: equal to
   r_expand_tabs on an exhaustive finite domain; evaluated by the driver on every generated case):
   a tab becomes a space (keeping its styles) followed by fresh spaces up to the next stop;
   every character additionally lies under the text's own base style (a span rich adds) *)
Fixpoint r_tabs_go (r : list rchar) (pos run tabsz b : Z) : list rchar :=
  match r with
  | [] => []
  | (c, l) :: r' =>
      if c =? TAB then
        let pos1 := pos + run + 1 in
        let spaces := tabsz - ((pos1 - 1) mod tabsz) - 1 in
        (SP, b :: l) :: styled (py_repeat SP spaces) [b] ++ r_tabs_go r' (pos1 + spaces) 0 tabsz b
      else if c =? NL then (c, b :: l) :: r_tabs_go r' pos 0 tabsz b
      else (c, b :: l) :: r_tabs_go r' pos (run + 1) tabsz b
  end.
Definition r_expand_tabs_walk (r : ref) (tabarg : option Z) : res ref :=
  if negb (existsb (Z.eqb TAB) (rplain (rchars r))) then Ok r
  else match (match tabarg with Some k => Some k | None => tab (rmeta r) end) with
       | None => Crash K_AssertionError
       | Some tabsz => if tabsz =? 0 then Crash K_ZeroDivisionError
                       else Ok (mkRef (r_tabs_go (rchars r) 0 0 tabsz (base (rmeta r))) (rmeta r))
       end.

(* styling only: the characters are untouched by construction (map over the style lists) *)
Fixpoint r_add_from (i : Z) (r : list rchar) (sps : list span) : list rchar :=
  match r with
  | [] => []
  | (c, l) :: r' => (c, l ++ cover sps i) :: r_add_from (i + 1) r' sps
  end.
Definition r_add_spans (r : ref) (sps : list span) : ref := mkRef (r_add_from 0 (rchars r) sps) (rmeta r).
Definition r_stylize (r : ref) (st a : Z) (b : option Z) : ref :=
  let n := zlen (rchars r) in
  let start := if a <? 0 then Z.max 0 (n + a) else a in
  let e := match b with None => n | Some e => if e <? 0 then n + e else e end in
  r_add_spans r [(start, e, st)].
Fixpoint r_zip_styles (r o : list rchar) : list rchar :=
  match r, o with
  | (c, l) :: r', (_, l') :: o' => (c, l ++ l') :: r_zip_styles r' o'
  | _, _ => r
  end.
Definition r_copy_styles (r o : ref) : ref := mkRef (r_zip_styles (rchars r) (rchars o)) (rmeta r).

(* Highlighter.__call__ on reference values: the same characters and metadata, every existing style kept,
   the matches appended as the last styles of the characters they cover *)
Definition r_regex_highlight (r : ref) (pats : list hl_pattern) : ref :=
  fold_left (fun r p => r_add_spans r (runs_from (fst p) (rplain (rchars r)) 0 None (snd p))) pats r.
Definition r_highlighter (pats : list hl_pattern) (a : hl_arg) (r : ref) : res ref :=
  match a with
  | HText => Ok (r_regex_highlight r pats)
  | HStr s => Ok (r_regex_highlight (r_ctor s (default_meta 0)) pats)
  | HOther => Crash K_TypeError
  end.

Definition r_part_of (p : apart) : rpart :=
  match p with
  | APStr s => RStr s
  | APTup s st => RTup s st
  | APText o => RText (r_arg o)
  end.

Definition r_pick {A} := @pick A.

Definition r_apply (o : op) (r : ref) : res ref :=
  match o with
  | OAppendStr s st => Ok (r_append_str r s st)
  | OAppendText a => Ok (r_append_text r (r_arg a))
  | OAppendTextFast a => Ok (r_append_text r (r_arg a))
  | OAppendTokens toks => Ok (r_append_tokens r toks)
  | OAssemble b parts => Ok (r_assemble (default_meta b) (RText r :: map r_part_of parts))
  | OJoinLine sep before after => Ok (r_join (r_arg sep) (map r_arg before ++ r :: map r_arg after))
  | OJoinSep lines => Ok (r_join r (map r_arg lines))
  | OSplit sep incl allow k =>
      match sep with [] => Crash K_AssertionError | _ => pick (r_split r sep incl allow) k end
  | ODivide offs k => pick (r_divide r offs) k
  | OIndex i => r_index r i
  | OSlice a b => Ok (r_slice r a b)
  | OPad n c => Ok (r_pad r n c)
  | OPadLeft n c => Ok (r_pad_left r n c)
  | OPadRight n c => Ok (r_pad_right r n c)
  | OAlign how w c => Ok (r_align r how w c)
  | OTruncate w ov padb => Ok (r_truncate r w ov padb)
  | ORightCrop n => Ok (r_right_crop r n)
  | OSetLength n => Ok (r_set_length r n)
  | ORstrip => Ok (r_rstrip r)
  | ORstripEnd n => Ok (r_rstrip_end r n)
  | OExpandTabs tabarg => r_expand_tabs r tabarg
  | OCopy => Ok r
  | OBlankCopy => Ok (mkRef [] (rmeta r))
  | OSetPlain s => Ok (r_set_plain r s)
  | ORemoveSuffix s => Ok (r_remove_suffix r s)
  | OStylize st a b => Ok (r_stylize r st a b)
  | OHighlightWords ws st => Ok (r_add_spans r (words_from ws (rplain (rchars r)) 0 0 st))
  | OHighlightRuns set st => Ok (r_add_spans r (runs_from set (rplain (rchars r)) 0 None st))
  | OCopyStyles a => Ok (r_copy_styles r (r_arg a))
  | OHighlighter pats a => r_highlighter pats a r
  end.
Definition r_step (r : ref) (o : op) : ref := match r_apply o r with Ok r' => r' | _ => r end.
Definition run_ref (ops : list op) (r : ref) : ref := fold_left r_step ops r.

(* ---------- the domain of the theorem ---------- *)
Definition arg_ok (a : targ) : bool := consistent_b (arg_text FIXED a).
Definition apart_ok (p : apart) : bool := match p with APText o => arg_ok o | _ => true end.
Fixpoint sorted_from (prev : Z) (l : list Z) : bool :=
  match l with [] => true | x :: r => (prev <=? x) && sorted_from x r end.
Definition pad_char_ok (c : Z) : bool := negb (is_ctl c).

(* Restrictions, each with the documented precondition it comes from:
   - argument Texts are well-formed Texts (spans inside the text);
   - divide: ascending non-negative offsets ("Offsets used to divide text");
   - pad character is a printable single character, not one of the codes Text strips;
   - copy_styles: "must be the same length";
   - highlight_words: non-empty words;  split: non-empty separator (asserted by the code). *)
Definition op_ok (o : op) (r : ref) : bool :=
  match o with
  | OAppendText a | OAppendTextFast a => arg_ok a
  | OAssemble _ parts => forallb apart_ok parts
  | OJoinLine sep before after => arg_ok sep && forallb arg_ok before && forallb arg_ok after
  | OJoinSep lines => forallb arg_ok lines
  | ODivide offs _ => sorted_from 0 offs
  | OPad n c | OPadLeft n c | OPadRight n c => pad_char_ok c
  | OAlign _ w c => pad_char_ok c
  | OCopyStyles a => arg_ok a && (zlen (rchars (r_arg a)) =? zlen (rchars r))
  | OHighlightWords ws _ => forallb (fun w => negb (match w with [] => true | _ => false end)) ws
  | _ => true
  end.
Fixpoint in_domain (ops : list op) (r : ref) : bool :=
  match ops with
  | [] => true
  | o :: rest => op_ok o r && in_domain rest (r_step r o)
  end.

(* ---------- checkers on concrete states ---------- *)
Fixpoint list_eqb {A} (eqb : A -> A -> bool) (a b : list A) : bool :=
  match a, b with
  | [], [] => true
  | x :: a', y :: b' => eqb x y && list_eqb eqb a' b'
  | _, _ => false
  end.
Definition rchar_eqb (a b : rchar) : bool := (fst a =? fst b) && list_eqb Z.eqb (snd a) (snd b).
Definition opt_eqb (a b : option Z) : bool :=
  match a, b with None, None => true | Some x, Some y => x =? y | _, _ => false end.
Definition meta_eqb (a b : meta) : bool :=
  (base a =? base b) && (justify a =? justify b) && (overflow a =? overflow b)
  && (no_wrap a =? no_wrap b) && str_eqb (end_ a) (end_ b) && opt_eqb (tab a) (tab b).
Definition ref_eqb (a b : ref) : bool :=
  list_eqb rchar_eqb (rchars a) (rchars b) && meta_eqb (rmeta a) (rmeta b).

(* the property on one state: plain is the reference string, len() is its length, every character
   carries the reference's ordered style list (base first), metadata as the reference says *)
Definition refines_b (r : ref) (t : text) : bool :=
  str_eqb (plain t) (rplain (rchars r)) && (len t =? zlen (rchars r)) && ref_eqb (abs t) r.

(* effective style of a character under the harness's concrete style algebra: odd tokens set the
   foreground, even non-zero tokens the background, 0 is the null style; later styles win *)
Definition eff_style (l : list Z) : Z * Z :=
  fold_left (fun '(fg, bg) k => if k =? 0 then (fg, bg) else if Z.odd k then (k, bg) else (fg, k)) l (0, 0).
Definition eff_of (r : ref) : list (Z * (Z * Z)) :=
  map (fun '(c, l) => (c, eff_style (base (rmeta r) :: l))) (rchars r).
Definition eff_eqb (a b : Z * (Z * Z)) : bool :=
  (fst a =? fst b) && (fst (snd a) =? fst (snd b)) && (snd (snd a) =? snd (snd b)).
Definition rendered_ok_b (r : ref) (rendered : list (Z * (Z * Z))) : bool :=
  list_eqb eff_eqb (eff_of r) rendered.
(* what the model's own render shows, in the same concrete algebra; [(-1,(-1,-1))] when render raises *)
Definition rendered_of (t : text) : list (Z * (Z * Z)) :=
  match render t with
  | Ok l => map (fun '(c, sty) => (c, eff_style sty)) l
  | _ => [(-1, (-1, -1))]
  end.

(* ---------- the store of reference values: plain independent values ---------- *)
Definition r_sapply (s : sop) (st : list ref) : res (list ref) :=
  match s with
  | SApply y x o =>
      match nth_error st x with
      | None => Crash K_IndexError
      | Some r => if inplace o && negb (Nat.eqb y x) then Crash K_Other
                  else do r' <- r_apply o r; Ok (sset st y r')
      end
  | SLines x o =>
      match nth_error st x with
      | None => Crash K_IndexError
      | Some r =>
          match o with
          | OSplit sep incl allow _ =>
              match sep with [] => Crash K_AssertionError | _ => Ok (st ++ r_split r sep incl allow) end
          | ODivide offs _ => Ok (st ++ r_divide r offs)
          | _ => Crash K_Other
          end
      end
  | SAppendText x z | SAppendTextFast x z =>
      match nth_error st x, nth_error st z with
      | Some r, Some o => if Nat.eqb x z then Crash K_Other else Ok (sset st x (r_append_text r o))
      | _, _ => Crash K_IndexError
      end
  | SCopyStyles x z =>
      match nth_error st x, nth_error st z with
      | Some r, Some o => if Nat.eqb x z then Crash K_Other else Ok (sset st x (r_copy_styles r o))
      | _, _ => Crash K_IndexError
      end
  | SJoin y sep lines =>
      match nth_error st sep, sgets st lines with
      | Some s, Some ls => Ok (sset st y (r_join s ls))
      | _, _ => Crash K_IndexError
      end
  | SAssemble y b parts =>
      match sgets st parts with
      | Some ps => Ok (sset st y (r_assemble (default_meta b) (map RText ps)))
      | None => Crash K_IndexError
      end
  end.
Definition r_sstep (st : list ref) (s : sop) : list ref :=
  match r_sapply s st with Ok st' => st' | _ => st end.
Definition srun_ref (sops : list sop) (st : list ref) : list ref := fold_left r_sstep sops st.

Definition sop_ok (s : sop) (st : list ref) : bool :=
  match s with
  | SApply y x o => match nth_error st x with Some r => op_ok o r | None => true end
  | SLines x o => match nth_error st x with Some r => op_ok o r | None => true end
  | SCopyStyles x z =>
      match nth_error st x, nth_error st z with
      | Some r, Some o => zlen (rchars o) =? zlen (rchars r)
      | _, _ => true
      end
  | _ => true
  end.
Fixpoint in_sdomain (sops : list sop) (st : list ref) : bool :=
  match sops with
  | [] => true
  | s :: rest => sop_ok s st && in_sdomain rest (r_sstep st s)
  end.

(* the two independent renderings agree with the reference operations (evaluated by the driver on every case) *)
Definition alt_ok (o : op) (r : ref) : bool :=
  match o with
  | OSplit sep incl allow _ =>
      match sep with
      | [] => true
      | _ => list_eqb ref_eqb (r_split r sep incl allow) (r_split_scan r sep incl allow)
      end
  | OExpandTabs ta =>
      match r_expand_tabs r ta, r_expand_tabs_walk r ta with
      | Ok a, Ok b => ref_eqb a b
      | Crash a, Crash b => a =? b
      | _, _ => false
      end
  | _ => true
  end.

(* a highlighter of ANY kind (ReprHighlighter, a user's regexes): what __call__ may do to a Text -- same
   characters, length and metadata; every existing span kept, in place and in order; only spans inside
   the text appended *)
Fixpoint strip_span_prefix (a b : list span) : option (list span) :=
  match a, b with
  | [], _ => Some b
  | x :: a', y :: b' =>
      if (sp_start x =? sp_start y) && (sp_end x =? sp_end y) && (sp_style x =? sp_style y)
      then strip_span_prefix a' b' else None
  | _ :: _, [] => None
  end.
Definition hl_ok_b (before after : text) : bool :=
  str_eqb (plain after) (plain before) && (len after =? len before) && meta_eqb (tmeta after) (tmeta before)
  && match strip_span_prefix (spans before) (spans after) with
     | Some extra => forallb (span_within (len before)) extra
     | None => false
     end.
Definition text_eqb (a b : text) : bool :=
  str_eqb (plain a) (plain b) && (len a =? len b) && meta_eqb (tmeta a) (tmeta b)
  && match strip_span_prefix (spans a) (spans b) with Some [] => true | _ => false end.
