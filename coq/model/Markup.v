(* C04 -- executable model of rich/markup.py (rich 9.10.0): the RE_TAGS / escape scanners,
   escape(), _parse(), render().  Definitions only.

   Oracles (Section variables, never axioms):
     norm : Style.normalize           (tag names are compared after normalisation)
     E    : _emoji_replace            (applied per text chunk when emoji=True; the identity when
                                       emoji=False)
   Result of render: plain string + spans (start, end, tag token) in the order of Text.spans,
   which is the precedence order of Text.render (a later span wins). *)
From RichModel Require Import Prelude.

Definition BS : Z := 92.     (* \ *)
Definition LB : Z := 91.     (* [ *)
Definition RB : Z := 93.     (* ] *)
Definition SLASH : Z := 47.  (* / *)
Definition EQS : Z := 61.    (* = *)

(* ---------------------------------------------------------------- the two regexes

   (written with BSL for a literal backslash, because backslash-star-paren would end this comment)
   RE_TAGS           ( (BSL BSL STAR) BSL[ ( [a-z#BSL/] . STAR ? ) BSL] )      flags: re.VERBOSE
                     i.e. group 2 = a run of backslashes, group 3 = the tag text;  VERBOSE has no
                     effect: the pattern has no whitespace or '#' outside the character class
   escape's pattern  (BSL BSL STAR) ( BSL[ [a-z#BSL/] . STAR ? BSL] )          no flags
   The exact source strings are RE_TAGS_src / ESCAPE_src of gen/MarkupRegex.v, pinned by
   reflexivity in proofs/MarkupP.v.

   Both describe the same language and the same span; they differ only in grouping.  A match
   *anchored at a position p* is:  k >= 0 backslashes, '[', one character of [a-z#/], then
   `.*?` (lazy, `.` = anything but '\n' since DOTALL is off), then ']'.
   - `\\*` is greedy: it takes the whole run of backslashes at p.  Backtracking to a shorter run
     cannot help, because the next character would then be a backslash and not '['.  So k is
     the length of the maximal run (span_bs).
   - `.*?` is lazy and followed by `\]`: the engine tries the shortest extension first, i.e. it
     stops at the FIRST ']' after the tag's first character, provided no '\n' comes before it;
     a '\n' before the first ']' kills the attempt (`.` cannot consume it) and no longer
     extension exists either (find_close).
   - finditer / sub scan for the LEFTMOST position with a match, emit it, and resume at its
     end (matches are never empty).  Trying positions left to right and skipping the matched
     length afterwards is exactly that (scan_aux / parse_aux / escape_aux below, `skip` being
     the number of characters still covered by the last match). *)

Definition tag_start (c : Z) : bool :=
  ((97 <=? c) && (c <=? 122)) || (c =? 35) || (c =? SLASH).

(* text up to the first ']' , None if '\n' or the end comes first *)
Fixpoint find_close (s : str) : option str :=
  match s with
  | [] => None
  | c :: r =>
      if c =? RB then Some []
      else if c =? NL then None
      else match find_close r with Some t => Some (c :: t) | None => None end
  end.

(* maximal run of backslashes at the head *)
Fixpoint span_bs (s : str) : nat * str :=
  match s with
  | c :: r => if c =? BS then let '(k, r') := span_bs r in (S k, r') else (O, s)
  | [] => (O, [])
  end.

(* anchored match: (number of backslashes, tag text = group `[a-z#/].*?`) *)
Definition match_tag (s : str) : option (nat * str) :=
  let '(k, r) := span_bs s in
  match r with
  | lb :: c :: r' =>
      if (lb =? LB) && tag_start c then
        match find_close r' with Some t => Some (k, c :: t) | None => None end
      else None
  | _ => None
  end.

Definition match_len (m : nat * str) : nat := (fst m + length (snd m) + 2)%nat.

(* the scanner for RE_TAGS and the one for escape's pattern (same language, see above; each
   is compared separately with Python's `re`, and each source string is pinned in proofs/) *)
Definition re_tags_match := match_tag.
Definition re_escape_match := match_tag.

(* finditer: (start, number of backslashes, end) of every match *)
Fixpoint scan_aux (mt : str -> option (nat * str)) (s : str) (skip pos : nat) : list (nat * nat * nat) :=
  match s with
  | [] => []
  | _ :: s' =>
      match skip with
      | S n => scan_aux mt s' n (S pos)
      | O =>
          match mt s with
          | Some m => (pos, fst m, pos + match_len m)%nat :: scan_aux mt s' (match_len m - 1)%nat (S pos)
          | None => scan_aux mt s' 0%nat (S pos)
          end
      end
  end.
Definition scan_tags (s : str) := scan_aux re_tags_match s 0 0.
Definition scan_escape (s : str) := scan_aux re_escape_match s 0 0.

(* ---------------------------------------------------------------- escape()
   re.sub with  f"{backslashes}{backslashes}\\{text}"  *)
Fixpoint escape_aux (s : str) (skip : nat) : str :=
  match s with
  | [] => []
  | c :: s' =>
      match skip with
      | S n => escape_aux s' n
      | O =>
          match re_escape_match s with
          | Some m =>
              repeat BS (fst m) ++ repeat BS (fst m) ++ BS :: LB :: snd m ++ RB :: escape_aux s' (match_len m - 1)%nat
          | None => c :: escape_aux s' 0%nat
          end
      end
  end.
Definition escape (s : str) : str := escape_aux s 0.

(* ---------------------------------------------------------------- _parse()
   positions are dropped: they only feed the text of the MarkupError message *)
Inductive token : Type :=
| TText (s : str)
| TTag (name : str) (params : option str).

(* tag_text.partition("=") -> Tag(text, parameters if equals else None) *)
Fixpoint partition_eq (s : str) : str * option str :=
  match s with
  | [] => ([], None)
  | c :: r => if c =? EQS then ([], Some r) else let '(a, p) := partition_eq r in (c :: a, p)
  end.

(* `if start > position: yield markup[position:start]` *)
Definition flush (pend : str) : list token :=
  match pend with [] => [] | _ => [TText pend] end.

(* what one match yields: divmod(len(escapes), 2) *)
Definition emit (k : nat) (tag : str) : list token :=
  (if (Nat.div2 k =? 0)%nat then [] else [TText (repeat BS (Nat.div2 k))]) ++
  (if Nat.odd k then [TText (LB :: tag ++ [RB])]
   else let '(n, p) := partition_eq tag in [TTag n p]).

Fixpoint parse_aux (s : str) (skip : nat) (pend : str) : list token :=
  match s with
  | [] => flush pend
  | c :: s' =>
      match skip with
      | S n => parse_aux s' n pend
      | O =>
          match re_tags_match s with
          | Some m => flush pend ++ emit (fst m) (snd m) ++ parse_aux s' (match_len m - 1)%nat []
          | None => parse_aux s' 0%nat (pend ++ [c])
          end
      end
  end.
Definition parse (s : str) : list token := parse_aux s 0 [].

(* ---------------------------------------------------------------- Python helpers *)
(* str.isspace() code points (validated on every code point by the harness) *)
Definition py_isspace (c : Z) : bool :=
  ((9 <=? c) && (c <=? 13)) || ((28 <=? c) && (c <=? 32)) || (c =? 133) || (c =? 160)
  || (c =? 5760) || ((8192 <=? c) && (c <=? 8202)) || (c =? 8232) || (c =? 8233)
  || (c =? 8239) || (c =? 8287) || (c =? 12288).
Fixpoint lstrip (s : str) : str :=
  match s with c :: r => if py_isspace c then lstrip r else s | [] => [] end.
Definition strip (s : str) : str := rev (lstrip (rev (lstrip s))).

(* control.strip_control_codes: Text.append / Text.__init__ drop these code points *)
Definition strip_cc_with (codes : list Z) (s : str) : str :=
  filter (fun c => negb (existsb (Z.eqb c) codes)) s.

Definition tag_str (name : str) (params : option str) : str :=
  match params with None => name | Some p => name ++ SP :: p end.

Definition span : Type := nat * nat * str.      (* start, end, str(tag) *)
Definition text : Type := str * list span.      (* plain, Text.spans *)

(* sorted(spans): tuples compare lexicographically, str by code point *)
Fixpoint str_cmp (a b : str) : comparison :=
  match a, b with
  | [], [] => Eq
  | [], _ => Lt
  | _, [] => Gt
  | x :: a', y :: b' => match x ?= y with Eq => str_cmp a' b' | c => c end
  end.
Definition span_le (a b : span) : bool :=
  let '(s1, e1, t1) := a in
  let '(s2, e2, t2) := b in
  match Nat.compare s1 s2 with
  | Lt => true | Gt => false
  | Eq => match Nat.compare e1 e2 with
          | Lt => true | Gt => false
          | Eq => match str_cmp t1 t2 with Gt => false | _ => true end
          end
  end.
Fixpoint insert_span (x : span) (l : list span) : list span :=
  match l with
  | [] => [x]
  | y :: r => if span_le x y then x :: l else y :: insert_span x r
  end.
Definition sort_spans (l : list span) : list span := fold_right insert_span [] l.

Section Render.
  Variable cc : list Z.            (* STRIP_CONTROL_CODES, regenerated from /repo *)
  Variable norm : str -> str.      (* Style.normalize *)
  Variable E : str -> str.         (* _emoji_replace, or the identity when emoji=False *)

  Definition strip_cc := strip_cc_with cc.

  (* closing tags: name starts with '/', style_name = name[1:].strip() *)
  Definition closing_name (name : str) : option str :=
    match name with c :: r => if c =? SLASH then Some (strip r) else None | [] => None end.

  (* ------------------------------------------------------------ as found in 9.10.0:
     stack of (start, tag); a span is appended when its tag closes; sorted(spans) at the end *)
  Definition entryA : Type := nat * str * option str.        (* len(text) at opening, Tag *)
  Definition stateA : Type := str * list entryA * list span. (* plain, stack (top first), spans *)

  (* pop_style: the most recent entry whose name equals nm *)
  Fixpoint pop_named {X} (nameof : X -> str) (nm : str) (stk : list X) : option (X * list X) :=
    match stk with
    | [] => None
    | e :: r =>
        if str_eqb (nameof e) nm then Some (e, r)
        else match pop_named nameof nm r with
             | Some (x, r') => Some (x, e :: r')
             | None => None
             end
    end.

  Definition pop_for {X} (nameof : X -> str) (style_name : str) (stk : list X) : option (X * list X) :=
    match style_name with
    | [] => match stk with e :: r => Some (e, r) | [] => None end       (* [/] : stack.pop() *)
    | _ => pop_named nameof (norm style_name) stk                         (* [/name] *)
    end.

  Definition stepA (st : stateA) (tk : token) : res stateA :=
    let '(plain, stk, spans) := st in
    match tk with
    | TText t => Ok (plain ++ strip_cc (E t), stk, spans)
    | TTag name params =>
        match closing_name name with
        | Some sn =>
            match pop_for (fun e : entryA => snd (fst e)) sn stk with
            | Some ((start, nm, ps), stk') =>
                Ok (plain, stk', spans ++ [(start, length plain, tag_str nm ps)])
            | None => Doc E_MarkupError
            end
        | None => Ok (plain, (length plain, norm name, params) :: stk, spans)
        end
    end.

  Fixpoint run {St} (step : St -> token -> res St) (st : St) (ts : list token) : res St :=
    match ts with
    | [] => Ok st
    | tk :: r => match step st tk with
                 | Ok st' => run step st' r
                 | Doc e => Doc e
                 | Crash k => Crash k
                 end
    end.

  Definition finishA (st : stateA) : text :=
    let '(plain, stk, spans) := st in
    (plain, sort_spans (spans ++ map (fun e : entryA =>
                                       let '(start, nm, ps) := e in (start, length plain, tag_str nm ps)) stk)).

  (* ------------------------------------------------------------ repaired (fixes/C04_span_order.diff):
     every opening tag reserves a slot in `spans` (opening order); the stack holds the slot
     index; closing fills in the end.  A slot whose end is still None is the placeholder. *)
  Definition entryF : Type := nat * str * option str.                 (* slot index, Tag *)
  Definition slot : Type := nat * option nat * str.                   (* start, end, str(tag) *)
  Definition stateF : Type := str * list entryF * list slot.

  Fixpoint set_end (i : nat) (e : nat) (l : list slot) : list slot :=
    match l with
    | [] => []
    | x :: r => match i with
                | O => (fst (fst x), Some e, snd x) :: r
                | S i' => x :: set_end i' e r
                end
    end.

  Definition stepF (st : stateF) (tk : token) : res stateF :=
    let '(plain, stk, slots) := st in
    match tk with
    | TText t => Ok (plain ++ strip_cc (E t), stk, slots)
    | TTag name params =>
        match closing_name name with
        | Some sn =>
            match pop_for (fun e : entryF => snd (fst e)) sn stk with
            | Some ((idx, _, _), stk') => Ok (plain, stk', set_end idx (length plain) slots)
            | None => Doc E_MarkupError
            end
        | None =>
            let nm := norm name in
            Ok (plain, (length slots, nm, params) :: stk, slots ++ [(length plain, None, tag_str nm params)])
        end
    end.

  Definition finishF (st : stateF) : text :=
    let '(plain, stk, slots) := st in
    let n := length plain in
    (plain, map (fun x : slot => let '(s, e, t) := x in
                                 (s, match e with Some e' => e' | None => n end, t)) slots).

  (* ------------------------------------------------------------ render() *)
  Definition has_lb (s : str) : bool := existsb (fun c => c =? LB) s.

  Definition render_main (asis : bool) (markup : str) : res text :=
    if asis then
      match run stepA ([], [], []) (parse markup) with
      | Ok st => Ok (finishA st) | Doc e => Doc e | Crash k => Crash k
      end
    else
      match run stepF ([], [], []) (parse markup) with
      | Ok st => Ok (finishF st) | Doc e => Doc e | Crash k => Crash k
      end.

  Definition render (asis : bool) (markup : str) : res text :=
    if has_lb markup then render_main asis markup
    else Ok (strip_cc (E markup), []).          (* `if "[" not in markup: return Text(...)` *)
End Render.

(* ---------------------------------------------------------------- concrete oracles for the driver *)
Definition id_str (s : str) : str := s.

(* Style.normalize restricted to what the exhaustive alphabet  [ ] \ / = # a 1 space \n : b  can
   spell (the only style word is "b" = bold); compared with the implementation on every such
   name by the harness.  Elsewhere the harness passes the oracle's graph as a table. *)
Fixpoint words_aux (s : str) (cur : str) : list str :=
  match s with
  | [] => match cur with [] => [] | _ => [cur] end
  | c :: r => if py_isspace c then (match cur with [] => [] | _ => [cur] end) ++ words_aux r []
              else words_aux r (cur ++ [c])
  end.
Definition ascii_lower (s : str) : str :=
  map (fun c => if (65 <=? c) && (c <=? 90) then c + 32 else c) s.
Definition norm_default (s : str) : str :=
  match words_aux s [] with
  | [] => lit "none"
  | ws => if forallb (fun w => str_eqb w [98]) ws then lit "bold" else strip (ascii_lower s)
  end.
Fixpoint assoc_str (k : str) (tbl : list (str * str)) : option str :=
  match tbl with
  | [] => None
  | (a, b) :: r => if str_eqb a k then Some b else assoc_str k r
  end.
Definition norm_tbl (tbl : list (str * str)) (s : str) : str :=
  match assoc_str s tbl with Some v => v | None => norm_default s end.
