(* Executable model of rich/pretty.py (C16): traverse, Node.iter_tokens / check_length / render,
   _Line.expand / check_length, pretty_repr.  Definitions only.

   Values.  repr() of a leaf is an oracle: the harness sends the real repr string.  For str/bytes
   leaves it also sends len(obj) and repr(obj[:max_string]) (the two further facts to_repr uses).
   `Cycle` stands for a reference to a container that is currently being traversed (an ancestor:
   its id is in visited_ids).  Keys of mappings are never traversed by rich (to_repr(key)), so they
   are leaf data.  `attr` is repr(obj.typecode) for array, repr(obj.default_factory) for defaultdict. *)
From RichModel Require Import Prelude Wire Cells.
From RichGen Require Import PrettyBraces.

Inductive skind := KList | KTuple | KSet | KFrozenset | KDeque | KArray.
Inductive mkind := KDict | KCounter | KDefaultdict | KEnviron.

Definition leafd : Type := str * option (Z * str).  (* repr, Some (len, repr of obj[:max_string]) for str/bytes *)

Inductive V : Type :=
| Leaf (d : leafd)
| Seq (k : skind) (attr : str) (xs : list V)
| Map (k : mkind) (attr : str) (kvs : list (leafd * V))
| Cycle.

Definition sname (k : skind) : str :=
  match k with
  | KList => lit "list" | KTuple => lit "tuple" | KSet => lit "set"
  | KFrozenset => lit "frozenset" | KDeque => lit "deque" | KArray => lit "array"
  end.
Definition mname (k : mkind) : str :=
  match k with
  | KDict => lit "dict" | KCounter => lit "Counter" | KDefaultdict => lit "defaultdict"
  | KEnviron => lit "os._Environ"
  end.
Definition all_type_names : list str :=
  map sname [KList; KTuple; KSet; KFrozenset; KDeque; KArray] ++ map mname [KDict; KCounter; KDefaultdict; KEnviron].

(* ---------- _BRACES ---------- *)
Definition braces_table := list (list Z * (list bpart * list bpart * list bpart)).

Definition inst (parts : list bpart) (attr : str) : str :=
  concat (map (fun p => match p with BLit s => s | BAttr _ => attr end) parts).

Fixpoint lookup_braces (T : braces_table) (name : str) : option (list bpart * list bpart * list bpart) :=
  match T with
  | [] => None
  | (n, t) :: rest => if str_eqb n name then Some t else lookup_braces rest name
  end.

(* _BRACES[obj_type](obj); the KeyError branch is checked once, up front, by table_complete *)
Definition bf_of (T : braces_table) (name attr : str) : str * str * str :=
  match lookup_braces T name with
  | Some (o, c, e) => (inst o attr, inst c attr, inst e attr)
  | None => ([], [], [])
  end.
Definition table_complete (T : braces_table) : bool :=
  forallb (fun n => match lookup_braces T n with Some _ => true | None => false end) all_type_names.

(* the table as it was before the D5 fix: the empty-array string lacks the f prefix *)
Definition BRACES_asis : braces_table :=
  map (fun '(n, (o, c, e)) =>
         if str_eqb n (lit "array") then (n, (o, c, [BLit (lit "array({_object.typecode!r})")])) else (n, (o, c, e)))
      BRACES.

(* ---------- Node ---------- *)
Inductive node : Type :=
| Node (key_repr value_repr open_brace close_brace empty : str) (last is_tuple : bool)
       (children : option (list node)).

Definition n_key (n : node) := let 'Node k _ _ _ _ _ _ _ := n in k.
Definition n_value (n : node) := let 'Node _ v _ _ _ _ _ _ := n in v.
Definition n_open (n : node) := let 'Node _ _ o _ _ _ _ _ := n in o.
Definition n_close (n : node) := let 'Node _ _ _ c _ _ _ _ := n in c.
Definition n_empty (n : node) := let 'Node _ _ _ _ e _ _ _ := n in e.
Definition n_last (n : node) := let 'Node _ _ _ _ _ l _ _ := n in l.
Definition n_tuple (n : node) := let 'Node _ _ _ _ _ _ t _ := n in t.
Definition n_children (n : node) := let 'Node _ _ _ _ _ _ _ c := n in c.

Definition nonempty {A} (l : list A) : bool := match l with [] => false | _ => true end.
Definition separator (n : node) : str := if n_last n then [] else lit ",".

(* ---------- traverse ---------- *)
Section Traverse.
  Variable bf : str -> str -> str * str * str.
  Variable max_length : option Z.
  Variable max_string : option Z.

  (* to_repr: truncation of str/bytes longer than max_string *)
  Definition to_repr (d : leafd) : str :=
    match max_string, snd d with
    | Some m, Some (n, rt) => if n >? m then rt ++ lit "+" ++ print_Z (n - m) else fst d
    | _, _ => fst d
    end.

  Definition limit_reached (i : Z) : bool :=
    match max_length with Some m => i >=? m | None => false end.
  Definition abbrev_node (num_items : Z) : list node :=
    match max_length with
    | Some m => if num_items >? m
                then [Node [] (lit "... +" ++ print_Z (num_items - m)) [] [] [] true false None]
                else []
    | None => []
    end.
  Definition is_tup (k : skind) : bool := match k with KTuple => true | _ => false end.

  (* enumerate(islice(iter(obj), max_length)): items with index < max_length, each with its index *)
  Definition gomap {A B} (f : A -> Z -> B) : list A -> Z -> list B :=
    fix go (l : list A) (i : Z) : list B :=
      match l with
      | [] => []
      | x :: r => if limit_reached i then [] else f x i :: go r (i + 1)
      end.

  (* _traverse; `key` and `last` are the fields the caller assigns afterwards *)
  Fixpoint trav (v : V) (key : str) (last : bool) : node :=
    match v with
    | Leaf d => Node key (to_repr d) [] [] [] last false None
    | Cycle => Node key (lit "...") [] [] [] last false None
    | Seq k attr xs =>
        match xs with
        | [] => Node key [] [] [] (snd (bf (sname k) attr)) last (is_tup k) (Some [])
        | _ =>
            let n := zlen xs in
            Node key [] (fst (fst (bf (sname k) attr))) (snd (fst (bf (sname k) attr))) [] last (is_tup k)
                 (Some (gomap (fun x i => trav x [] (i =? n - 1)) xs 0 ++ abbrev_node n))
        end
    | Map k attr kvs =>
        match kvs with
        | [] => Node key [] [] [] (snd (bf (mname k) attr)) last false (Some [])
        | _ =>
            let n := zlen kvs in
            Node key [] (fst (fst (bf (mname k) attr))) (snd (fst (bf (mname k) attr))) [] last false
                 (Some (gomap (fun kv i => trav (snd kv) (to_repr (fst kv)) (i =? n - 1)) kvs 0 ++ abbrev_node n))
        end
    end.

  Definition traverse (v : V) : node := trav v [] true.
End Traverse.

(* islice(it, max_length) raises ValueError for a negative stop; reached only inside a non-empty container *)
Definition has_nonempty_container (v : V) : bool :=
  match v with
  | Seq _ _ (_ :: _) => true
  | Map _ _ (_ :: _) => true
  | _ => false
  end.

(* ---------- Node.iter_tokens / check_length ---------- *)
Definition single {A} (l : list A) : bool := match l with [_] => true | _ => false end.

Fixpoint tokens (n : node) : list str :=
  match n with
  | Node key val o c e _ tup ch =>
      (if nonempty key then [key; lit ": "] else []) ++
      (if nonempty val then [val]
       else match ch with
            | None => []
            | Some [] => [e]
            | Some (c0 :: cs) =>
                [o] ++
                (if tup && single (c0 :: cs)
                 then tokens c0 ++ [lit ","]
                 else (fix go (l : list node) : list str :=
                         match l with
                         | [] => []
                         | x :: r => (tokens x ++ (if n_last x then [] else [lit ", "])) ++ go r
                         end) (c0 :: cs)) ++
                [c]
            end)
  end.

Definition node_str (n : node) : str := concat (tokens n).

Fixpoint check_toks (toks : list str) (total max : Z) : bool :=
  match toks with
  | [] => true
  | t :: r => let total' := total + cell_len t in
              if total' >? max then false else check_toks r total' max
  end.
Definition node_check_length (n : node) (start max : Z) : bool := check_toks (tokens n) start max.

(* ---------- _Line ---------- *)
Record line := mkLine {
  l_root : bool; l_node : option node; l_text : str; l_suffix : str; l_ws : str }.

Definition line_str (l : line) : str :=
  l_ws l ++ l_text l ++ (match l_node l with Some n => node_str n | None => [] end) ++ l_suffix l.

Definition line_check_length (l : line) (n : node) (max : Z) : bool :=
  node_check_length n (zlen (l_ws l) + cell_len (l_text l) + cell_len (l_suffix l)) max.

(* the node of an expandable line: node is not None and node.children is a non-empty list *)
Definition expandable_node (l : line) : option (node * list node) :=
  match l_node l with
  | Some n => match n_children n with Some (c :: cs) => Some (n, c :: cs) | _ => None end
  | None => None
  end.

(* _Line.expand.  keep_suffix = true is the repaired code (closing line keeps this line's own suffix);
   false is the code before the D22 fix. *)
Definition key_open (n : node) : str :=
  if nonempty (n_key n) then n_key n ++ lit ": " ++ n_open n else n_open n.
Definition open_line (l : line) (n : node) : line := mkLine false None (key_open n) [] (l_ws l).
Definition child_suffix (tuple_of_one : bool) (c : node) : str :=
  if tuple_of_one then lit "," else separator c.
Definition child_line (indent_size : Z) (l : line) (tuple_of_one : bool) (c : node) : line :=
  mkLine false (Some c) [] (child_suffix tuple_of_one c) (l_ws l ++ py_repeat SP indent_size).
Definition close_line (keep_suffix : bool) (l : line) (n : node) (tuple_of_one : bool) : line :=
  mkLine false None (n_close n)
         (if keep_suffix then l_suffix l
          else if tuple_of_one && negb (l_root l) then lit "," else separator n)
         (l_ws l).

Definition expand (keep_suffix : bool) (indent_size : Z) (l : line) (n : node) (children : list node) : list line :=
  let tuple_of_one := n_tuple n && single children in
  open_line l n :: map (child_line indent_size l tuple_of_one) children ++ [close_line keep_suffix l n tuple_of_one].

(* Node.render's while loop: `done` are the lines before line_no (reversed), `todo` the rest *)
Section Render.
  Variable keep_suffix : bool.
  Variable max_width indent_size : Z.
  Variable expand_all : bool.

  Definition must_expand (l : line) : option (node * list node) :=
    match expandable_node l with
    | Some (n, cs) => if expand_all || negb (line_check_length l n max_width) then Some (n, cs) else None
    | None => None
    end.

  Fixpoint render_loop (fuel : nat) (done todo : list line) : res (list line) :=
    match todo with
    | [] => Ok (rev done)
    | l :: rest =>
        match fuel with
        | O => Crash K_OutOfFuel
        | S f =>
            match must_expand l with
            | Some (n, cs) =>
                let tuple_of_one := n_tuple n && single cs in
                render_loop f (open_line l n :: done)
                            (map (child_line indent_size l tuple_of_one) cs
                               ++ close_line keep_suffix l n tuple_of_one :: rest)
            | None => render_loop f (l :: done) rest
            end
        end
    end.
End Render.

Fixpoint node_size (n : node) : nat :=
  match n with
  | Node _ _ _ _ _ _ _ None => 1
  | Node _ _ _ _ _ _ _ (Some cs) =>
      S ((fix go (l : list node) : nat := match l with [] => O | x :: r => (node_size x + go r)%nat end) cs)
  end.

Fixpoint join_nl (ls : list str) : str :=
  match ls with
  | [] => []
  | [x] => x
  | x :: r => x ++ NL :: join_nl r
  end.

Definition render_lines (keep_suffix : bool) (n : node) (max_width indent_size : Z) (expand_all : bool)
  : res (list line) :=
  render_loop keep_suffix max_width indent_size expand_all (2 * node_size n)%nat [] [mkLine true (Some n) [] [] []].

Definition render (keep_suffix : bool) (n : node) (max_width indent_size : Z) (expand_all : bool) : res str :=
  do ls <- render_lines keep_suffix n max_width indent_size expand_all;
  Ok (join_nl (map line_str ls)).

(* ---------- pretty_repr ---------- *)
Definition pretty_repr_T (T : braces_table) (keep_suffix : bool) (v : V) (max_width indent_size : Z)
           (max_length max_string : option Z) (expand_all : bool) : res str :=
  if negb (table_complete T) then Crash K_KeyError
  else if (match max_length with Some m => m <? 0 | None => false end) && has_nonempty_container v
  then Crash K_ValueError
  else render keep_suffix (traverse (bf_of T) max_length max_string v) max_width indent_size expand_all.

(* today's code: table regenerated from /repo, closing line keeps its suffix *)
Definition pretty_repr := pretty_repr_T BRACES true.
(* rich 9.10.0 before the two fixes *)
Definition pretty_repr_asis := pretty_repr_T BRACES_asis false.
