(* Prelude: shared conventions of the executable models (DESIGN section 3).
   Definitions only -- no proofs live under model/. *)
From Coq Require Export String Ascii.
From Coq Require Export ZArith NArith List Bool Lia.
Export ListNotations.
Open Scope string_scope.
Open Scope list_scope.
Open Scope Z_scope.

(* A Python str is a sequence of Unicode scalar values. *)
Definition str := list Z.

(* Outcome of a Python call: value, documented error, or undocumented escape. *)
Inductive res (A : Type) : Type :=
| Ok (a : A)
| Doc (e : Z)     (* documented error class, see tools/corr/common.py DOC_ERRORS *)
| Crash (k : Z).  (* undocumented escape class, see CRASH_ERRORS *)
Arguments Ok {A} a.
Arguments Doc {A} e.
Arguments Crash {A} k.

Definition bind {A B} (r : res A) (f : A -> res B) : res B :=
  match r with Ok a => f a | Doc e => Doc e | Crash k => Crash k end.
Notation "'do' x <- r ; k" := (bind r (fun x => k))
  (at level 200, x pattern, r at level 100, k at level 200).

(* documented error classes *)
Definition E_ColorParseError := 1.
Definition E_StyleSyntaxError := 2.
Definition E_MarkupError := 3.
Definition E_MissingStyle := 4.
Definition E_ThemeStackError := 5.
Definition E_NotRenderableError := 6.
(* undocumented escape classes *)
Definition K_ValueError := 1.
Definition K_ZeroDivisionError := 2.
Definition K_IndexError := 3.
Definition K_StopIteration := 4.
Definition K_AssertionError := 5.
Definition K_TypeError := 6.
Definition K_KeyError := 7.
Definition K_OutOfFuel := 8.
Definition K_AttributeError := 9.
Definition K_Other := 99.

(* Generic value exchanged with the correspondence harness: nested lists of ints. *)
Inductive tree : Type :=
| I (z : Z)
| L (l : list tree).

Definition tZ (t : tree) : Z := match t with I z => z | L _ => 0 end.
Definition tL (t : tree) : list tree := match t with I _ => [] | L l => l end.
Definition tB (t : tree) : bool := negb (tZ t =? 0).
Definition tStr (t : tree) : str := map tZ (tL t).
Definition tNth (t : tree) (n : nat) : tree := nth n (tL t) (L []).
Definition ofStr (s : str) : tree := L (map I s).
Definition ofB (b : bool) : tree := I (if b then 1 else 0).
Definition ofNat (n : nat) : tree := I (Z.of_nat n).
Definition ofList {A} (f : A -> tree) (l : list A) : tree := L (map f l).
Definition tList {A} (f : tree -> A) (t : tree) : list A := map f (tL t).
Definition ofOpt {A} (f : A -> tree) (o : option A) : tree :=
  match o with None => L [] | Some a => L [f a] end.
Definition tOpt {A} (f : tree -> A) (t : tree) : option A :=
  match tL t with [] => None | x :: _ => Some (f x) end.
Definition ofRes {A} (f : A -> tree) (r : res A) : tree :=
  match r with
  | Ok a => L [I 0; f a]
  | Doc e => L [I 1; I e]
  | Crash k => L [I 2; I k]
  end.

(* string literals of the models: Coq string -> code points *)
Fixpoint lit (s : string) : str :=
  match s with
  | EmptyString => []
  | String a s' => Z.of_N (N_of_ascii a) :: lit s'
  end.

Fixpoint str_eqb (a b : str) : bool :=
  match a, b with
  | [], [] => true
  | x :: a', y :: b' => (x =? y) && str_eqb a' b'
  | _, _ => false
  end.

Definition SP : Z := 32.
Definition NL : Z := 10.

Fixpoint repeatZ {A} (x : A) (n : nat) : list A :=
  match n with O => [] | S n' => x :: repeatZ x n' end.
(* "x" * n with Python semantics: negative n gives the empty string *)
Definition py_repeat {A} (x : A) (n : Z) : list A := repeat x (Z.to_nat n).

Definition sumZ (l : list Z) : Z := fold_right Z.add 0 l.
Definition zlen {A} (l : list A) : Z := Z.of_nat (length l).

(* Python slicing with non-negative bounds *)
Definition slice {A} (l : list A) (a b : nat) : list A := firstn (b - a) (skipn a l).
