(* wire glue for the markup layer (C04) *)
From RichModel Require Import Prelude Markup SpecMarkup.
From RichGen Require Import MarkupRegex.

Definition CC := STRIP_CONTROL_CODES.

(* the property's 12-symbol alphabet:  [ ] \ / = # a 1 space newline : b *)
Definition ALPHA12 : list Z := [91; 93; 92; 47; 61; 35; 97; 49; 32; 10; 58; 98].
(* idx-th string of the given length, least significant digit first *)
Fixpoint nth_string (len : nat) (idx : Z) : str :=
  match len with
  | O => []
  | S n => nth (Z.to_nat (idx mod 12)) ALPHA12 0 :: nth_string n (idx / 12)
  end.

Definition tTbl (t : tree) : list (str * str) :=
  map (fun p => (tStr (tNth p 0), tStr (tNth p 1))) (tL t).
Definition tItem (t : tree) : item :=
  let k := tZ (tNth t 0) in
  if k =? 0 then Open (tStr (tNth t 1)) (tOpt tStr (tNth t 2))
  else if k =? 1 then Close (tStr (tNth t 1))
  else if k =? 2 then CloseTop
  else Lit (tStr (tNth t 1)).
Definition tDoc (t : tree) : doc := map tItem (tL t).

Definition ofSpan (sp : span) : tree :=
  let '(s, e, tg) := sp in L [ofNat s; ofNat e; ofStr tg].
Definition tSpan (t : tree) : span :=
  (Z.to_nat (tZ (tNth t 0)), Z.to_nat (tZ (tNth t 1)), tStr (tNth t 2)).
Definition ofText (t : text) : tree := L [ofStr (fst t); ofList ofSpan (snd t)].
Definition tText (t : tree) : text := (tStr (tNth t 0), map tSpan (tL (tNth t 1))).
(* outcome as sent by the harness: [0, value] | [1, e] | [2, k] *)
Definition tRes {A} (f : tree -> A) (t : tree) : res A :=
  let k := tZ (tNth t 0) in
  if k =? 0 then Ok (f (tNth t 1)) else if k =? 1 then Doc (tZ (tNth t 1)) else Crash (tZ (tNth t 1)).
Definition ofScan (l : list (nat * nat * nat)) : tree :=
  ofList (fun m : nat * nat * nat => let '(a, k, b) := m in L [ofNat a; ofNat k; ofNat b]) l.

(* the tag that takes precedence at each character: the last covering one *)
Definition effective (l : list (Z * list str)) : list (Z * option str) :=
  map (fun cs : Z * list str => (fst cs, match rev (snd cs) with x :: _ => Some x | [] => None end)) l.
Definition ofEff (l : list (Z * option str)) : tree :=
  ofList (fun p : Z * option str => L [I (fst p); ofOpt ofStr (snd p)]) l.
Definition tEff (t : tree) : list (Z * option str) :=
  map (fun p => (tZ (tNth p 0), tOpt tStr (tNth p 1))) (tL t).
Definition eff_eqb (a b : list (Z * option str)) : bool :=
  list_eqb (fun x y : Z * option str =>
              (fst x =? fst y) && match snd x, snd y with
                                  | None, None => true
                                  | Some u, Some v => str_eqb u v
                                  | _, _ => false
                                  end) a b.

Definition render_tbl (asis : bool) (tbl : list (str * str)) (s : str) : res text :=
  render CC (norm_tbl tbl) id_str asis s.

(* everything the exhaustive sweep looks at for one string *)
Definition ex_one (asis : bool) (s : str) : tree :=
  L [ofScan (scan_tags s); ofScan (scan_escape s); ofStr (escape s);
     ofRes ofText (render_tbl asis [] s); ofRes ofText (render_tbl asis [] (escape s))].

(* order-sensitive digest of a tree (thorough tier: lengths 6 and 7 are compared by digest) *)
Definition MASK : Z := 281474976710655.  (* 2^48 - 1 *)
Definition mix (h x : Z) : Z := Z.land (h * 33 + x + 1) MASK.
Fixpoint digest (t : tree) (h : Z) : Z :=
  match t with
  | I z => mix h z
  | L l => mix ((fix go (l : list tree) (h : Z) : Z :=
                   match l with [] => h | x :: r => go r (digest x h) end) l (mix h 1000001)) 1000002
  end.

Fixpoint zrange (n : nat) (lo : Z) : list Z :=
  match n with O => [] | S n' => lo :: zrange n' (lo + 1) end.
Definition range_strings (len : nat) (lo hi : Z) : list str :=
  map (nth_string len) (zrange (Z.to_nat (hi - lo)) lo).

Definition ops : list (string * (tree -> tree)) := [
  ("scan_tags", fun t => ofScan (scan_tags (tStr t)));
  ("scan_escape", fun t => ofScan (scan_escape (tStr t)));
  ("escape", fun t => ofStr (escape (tStr t)));
  (* [asis, emoji (implementation side only), norm table, markup] *)
  ("render", fun t => ofRes ofText (render_tbl (tB (tNth t 0)) (tTbl (tNth t 2)) (tStr (tNth t 3))));
  ("render_doc", fun t =>
      ofRes ofText (render_tbl (tB (tNth t 0)) (tTbl (tNth t 2)) (flatten (tDoc (tNth t 3)))));
  ("render_escaped", fun t => ofRes ofText (render_tbl (tB (tNth t 0)) [] (escape (tStr (tNth t 1)))));
  (* [asis, norm table, doc] -> per character: the token that takes precedence *)
  ("effective_doc", fun t =>
      ofRes ofEff (match render_tbl (tB (tNth t 0)) (tTbl (tNth t 1)) (flatten (tDoc (tNth t 2))) with
                   | Ok tx => Ok (effective (styled tx)) | Doc e => Doc e | Crash k => Crash k end));
  ("flatten", fun t => ofStr (flatten (tDoc t)));
  (* [asis, digest?, len, lo, hi] *)
  ("ex_range", fun t =>
      let rs := map (ex_one (tB (tNth t 0)))
                    (range_strings (Z.to_nat (tZ (tNth t 2))) (tZ (tNth t 3)) (tZ (tNth t 4))) in
      if tB (tNth t 1) then L [I (digest (L rs) 0)] else L rs);
  ("isspace_range", fun t =>
      let lo := tZ (tNth t 0) in
      ofList (fun c => ofB (py_isspace c)) (zrange (Z.to_nat (tZ (tNth t 1) - lo)) lo));
  ("norm_range", fun t =>
      ofList (fun s => L [ofStr (norm_default s); ofStr (strip s)])
             (range_strings (Z.to_nat (tZ (tNth t 0))) (tZ (tNth t 1)) (tZ (tNth t 2))));
  (* spec-level checkers, applied by the harness to the implementation's outputs *)
  ("spec.doc_ok", fun t => ofB (doc_ok (tDoc t)));
  ("spec.markup_ok", fun t =>   (* [norm table, doc, text] *)
      ofB (markup_ok_b CC (norm_tbl (tTbl (tNth t 0))) (tDoc (tNth t 1)) (tText (tNth t 2))));
  ("spec.error_iff", fun t =>   (* [norm table, doc, outcome] *)
      ofB (error_iff_b CC (norm_tbl (tTbl (tNth t 0))) (tDoc (tNth t 1)) (tRes tText (tNth t 2))));
  ("spec.escape_verbatim", fun t =>  (* [s, outcome of render(escape(s))] *)
      ofB (escape_verbatim_b CC (tStr (tNth t 0)) (tRes tText (tNth t 1))));
  ("spec.ex_verbatim", fun t =>  (* [len, lo, hi, outcomes of render(escape(s)) for the range] *)
      let ss := range_strings (Z.to_nat (tZ (tNth t 0))) (tZ (tNth t 1)) (tZ (tNth t 2)) in
      let rs := tL (tNth t 3) in
      ofB ((length ss =? length rs)%nat
           && forallb (fun p : str * tree => escape_verbatim_b CC (fst p) (tRes tText (snd p))) (combine ss rs)));
  ("spec.spans_wf", fun t => ofB (spans_wf_b (tText t)));
  ("spec.effective_ok", fun t =>  (* [norm table, doc, effective tokens seen through Text.render] *)
      ofB (match sem CC (norm_tbl (tTbl (tNth t 0))) (tDoc (tNth t 1)) with
           | Some out => eff_eqb (tEff (tNth t 2)) (effective out)
           | None => false
           end))
].
