(* Spec-level checkers for C01 / C09: boolean functions used both in the theorem statements
   (props/C01.v, props/C09.v) and, through the driver, on the IMPLEMENTATION's rendered lines and
   measurements.  A rendered line is observed as its text (control segments dropped). *)
From RichModel Require Import Prelude Cells Segments.
From RichModel Require Wrap.

(* C01: no line occupies more than W cells (double-width = 2, zero-width = 0) *)
Definition fits_b (W : Z) (lines : list str) : bool := forallb (fun l => cell_len l <=? W) lines.

(* C09 (1): 0 <= minimum <= maximum <= available width *)
Definition meas_bounds_b (avail : Z) (m : Z * Z) : bool :=
  (0 <=? fst m) && (fst m <=? snd m) && (snd m <=? avail).

(* C09 (2): rendering at the reported maximum, and at the reported minimum, yields no line wider than
   that value -- for values at or above the structural minimum `sm` *)
Definition meas_sound_b (sm : Z) (m : Z * Z) (lines_at_mx lines_at_mn : list str) : bool :=
  (if sm <=? snd m then fits_b (snd m) lines_at_mx else true)
  && (if sm <=? fst m then fits_b (fst m) lines_at_mn else true).

(* C09 (3): the text measurement in the vocabulary of the wrapper: a word is what _wrap.words scans
   (its non-whitespace part), a line is what Text.wrap splits at "\n".  Whitespace-only text reports its
   whole cell length twice. *)
Definition widest_word (s : str) : Z :=
  fold_right Z.max 0 (map (fun w => cell_len (Wrap.nonspace (snd w))) (Wrap.words s)).
Definition src_lines (s : str) : list str :=
  map (@Wrap.plain unit) (Wrap.split unit (fun _ _ => true) Wrap.repaired (Wrap.mkText s [] tt) NL false true).
Definition widest_line (s : str) : Z := fold_right Z.max 0 (map cell_len (src_lines s)).

Definition text_meas_b (s : str) (m : Z * Z) : bool :=
  if forallb Wrap.is_space s then (fst m =? cell_len s) && (snd m =? cell_len s)
  else (fst m =? widest_word s) && (snd m =? widest_line s).

(* C09 (4): text given its maximum is not wrapped: one output line per "\n"-separated source line *)
Definition not_wrapped_b (s : str) (lines : list str) : bool :=
  (length lines =? length (src_lines s))%nat.
