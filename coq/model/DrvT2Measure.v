(* wire glue for the T2 tie (gen/T2_Measure.v): runs functions REGENERATED from the Python source
   so that the translator itself is validated against rich on generated inputs. *)
From RichModel Require Import Prelude Ratio T2Lib.
From RichGen Require Import T2_Measure.

Definition tZs := tList tZ.
Definition ofPair (m : Z * Z) : tree := L [I (fst m); I (snd m)].
Definition tPair (t : tree) : Z * Z := (tZ (tNth t 0), tZ (tNth t 1)).
Definition ofQuad (q : Z * Z * Z * Z) : tree := let '(a, b, c, d) := q in L [I a; I b; I c; I d].
Definition tQuad (t : tree) : Z * Z * Z * Z := (tZ (tNth t 0), tZ (tNth t 1), tZ (tNth t 2), tZ (tNth t 3)).

Definition ops : list (string * (tree -> tree)) := [
  ("t2.normalize", fun t => ofPair (normalize_gen (tPair t)));
  ("t2.with_maximum", fun t => ofPair (with_maximum_gen (tPair (tNth t 0)) (tZ (tNth t 1))));
  ("t2.with_minimum", fun t => ofPair (with_minimum_gen (tPair (tNth t 0)) (tZ (tNth t 1))));
  ("t2.clamp", fun t =>
      ofPair (clamp_gen (tPair (tNth t 0)) (tOpt tZ (tNth t 1)) (tOpt tZ (tNth t 2))));
  ("t2.unpack", fun t => ofRes ofQuad (unpack_gen (tZs t)));
  ("t2.padding_width", fun t =>
      I (get_padding_width_gen (tQuad (tNth t 0)) (tB (tNth t 1)) (tZ (tNth t 2))));
  ("t2.extra_width", fun t =>
      I (extra_width_gen (if tB (tNth t 0) then Some tt else None) (tB (tNth t 1))
           (repeat tt (Z.to_nat (tZ (tNth t 2))))))
].
