(* T2Lib: run-time library of the statement-level translator (tools/translate/t2.py).
   Every Python construct of the supported subset that is not a plain Gallina operator is one
   definition here.  Definitions only -- no proofs live under model/.  Nothing is totalised by a
   default: an operation that raises in Python answers `Crash K_...`. *)
From RichModel Require Import Prelude Ratio.
From Coq Require Decimal.

(* ---- outcome of one pass of a loop body (the "flag" of early return / break) ---- *)
Inductive lctl (R S : Type) : Type :=
| LNext (s : S)      (* fell through / `continue` *)
| LBreak (s : S)     (* `break` *)
| LReturn (r : R).   (* `return r` *)
Arguments LNext {R S} s.
Arguments LBreak {R S} s.
Arguments LReturn {R S} r.

(* `for x in xs: body` with a body that may raise, no early exit *)
Fixpoint foldM {S X} (f : S -> X -> res S) (xs : list X) (s : S) : res S :=
  match xs with
  | [] => Ok s
  | x :: r => do s' <- f s x; foldM f r s'
  end.

(* `for x in xs: body` with break / continue / return *)
Fixpoint for_ctl {R S X} (f : S -> X -> res (lctl R S)) (xs : list X) (s : S) : res (lctl R S) :=
  match xs with
  | [] => Ok (LNext s)
  | x :: r =>
      do c <- f s x;
      match c with
      | LNext s' => for_ctl f r s'
      | LBreak s' => Ok (LBreak s')
      | LReturn v => Ok (LReturn v)
      end
  end.

(* `while cond: body` on explicit fuel: one unit per evaluation of the condition *)
Fixpoint while_loop {R S} (fuel : nat) (cond : S -> bool) (body : S -> res (lctl R S)) (s : S)
  : res (lctl R S) :=
  match fuel with
  | O => Crash K_OutOfFuel
  | S f =>
      if cond s then
        do c <- body s;
        match c with
        | LNext s' => while_loop f cond body s'
        | LBreak s' => Ok (LBreak s')
        | LReturn v => Ok (LReturn v)
        end
      else Ok (LNext s)
  end.

(* [e for x in xs] with an element expression that may raise *)
Fixpoint mapM {X Y} (f : X -> res Y) (xs : list X) : res (list Y) :=
  match xs with
  | [] => Ok []
  | x :: r => do y <- f x; do ys <- mapM f r; Ok (y :: ys)
  end.

(* ---- true division under round / math.ceil / int (exact rationals; see Ratio.v) ---- *)
Definition py_round_div (n d : Z) : res Z :=
  if d =? 0 then Crash K_ZeroDivisionError
  else if 0 <? d then Ok (round_div n d) else Ok (round_div (- n) (- d)).
Definition py_ceil_div (n d : Z) : res Z :=
  if d =? 0 then Crash K_ZeroDivisionError
  else if 0 <? d then Ok (ceil_div n d) else Ok (ceil_div (- n) (- d)).
Definition py_trunc_div (n d : Z) : res Z :=
  if d =? 0 then Crash K_ZeroDivisionError
  else if 0 <? d then Ok (trunc_div n d) else Ok (trunc_div (- n) (- d)).
(* `//` and `%` with a divisor that is not a non-zero literal (Z's / and mod are Python's) *)
Definition py_floordiv (n d : Z) : res Z :=
  if d =? 0 then Crash K_ZeroDivisionError else Ok (n / d).
Definition py_mod (n d : Z) : res Z :=
  if d =? 0 then Crash K_ZeroDivisionError else Ok (n mod d).

(* ---- sequences ---- *)
Definition nonempty {A} (l : list A) : bool := match l with [] => false | _ => true end.

Definition t2_nth {A} (l : list A) (i : Z) : option A :=
  if 0 <=? i then nth_error l (Z.to_nat i)
  else let n := zlen l in
       if - n <=? i then nth_error l (Z.to_nat (n + i)) else None.
(* l[i] *)
Definition py_idx {A} (l : list A) (i : Z) : res A :=
  match t2_nth l i with Some x => Ok x | None => Crash K_IndexError end.

(* l.pop() *)
Definition py_pop {A} (l : list A) : res (A * list A) :=
  match rev l with
  | [] => Crash K_IndexError
  | x :: r => Ok (x, rev r)
  end.
(* l[-1].append(x) *)
Definition py_append_last {A} (l : list (list A)) (x : A) : res (list (list A)) :=
  match rev l with
  | [] => Crash K_IndexError
  | y :: r => Ok (rev r ++ [y ++ [x]])
  end.

(* l * n *)
Definition py_mul_list {A} (l : list A) (n : Z) : list A := concat (repeat l (Z.to_nat n)).

(* l[lo:hi] with Python's clamping; None = bound omitted *)
Definition clamp_index (n i : Z) : Z :=
  if i <? 0 then Z.max 0 (n + i) else Z.min i n.
Definition py_slice {A} (l : list A) (lo hi : option Z) : list A :=
  let n := zlen l in
  let a := match lo with None => 0 | Some i => clamp_index n i end in
  let b := match hi with None => n | Some i => clamp_index n i end in
  firstn (Z.to_nat (b - a)) (skipn (Z.to_nat a) l).

(* max(seq) / min(seq) *)
Definition py_max_list (l : list Z) : res Z :=
  match l with [] => Crash K_ValueError | x :: r => Ok (fold_left Z.max r x) end.
Definition py_min_list (l : list Z) : res Z :=
  match l with [] => Crash K_ValueError | x :: r => Ok (fold_left Z.min r x) end.

(* range(a, b) *)
Fixpoint range_from (n : nat) (a : Z) : list Z :=
  match n with O => [] | S n' => a :: range_from n' (a + 1) end.
Definition py_range (a b : Z) : list Z := range_from (Z.to_nat (b - a)) a.
Definition py_enumerate {A} (l : list A) : list (Z * A) := combine (range_from (length l) 0) l.

(* a, b = seq   (exact length or ValueError) *)
Definition py_unpack2 {A} (l : list A) : res (A * A) :=
  match l with [a; b] => Ok (a, b) | _ => Crash K_ValueError end.
Definition py_unpack3 {A} (l : list A) : res (A * A * A) :=
  match l with [a; b; c] => Ok (a, b, c) | _ => Crash K_ValueError end.
Definition py_unpack4 {A} (l : list A) : res (A * A * A * A) :=
  match l with [a; b; c; d] => Ok (a, b, c, d) | _ => Crash K_ValueError end.

(* str(int): decimal digits as code points *)
Fixpoint t2_uint_digits (u : Decimal.uint) : list Z :=
  match u with
  | Decimal.Nil => []
  | Decimal.D0 u => 48 :: t2_uint_digits u | Decimal.D1 u => 49 :: t2_uint_digits u
  | Decimal.D2 u => 50 :: t2_uint_digits u | Decimal.D3 u => 51 :: t2_uint_digits u
  | Decimal.D4 u => 52 :: t2_uint_digits u | Decimal.D5 u => 53 :: t2_uint_digits u
  | Decimal.D6 u => 54 :: t2_uint_digits u | Decimal.D7 u => 55 :: t2_uint_digits u
  | Decimal.D8 u => 56 :: t2_uint_digits u | Decimal.D9 u => 57 :: t2_uint_digits u
  end.
Definition py_str_int (z : Z) : list Z :=
  match z with
  | Z0 => [48]
  | Zpos p => t2_uint_digits (Pos.to_uint p)
  | Zneg p => 45 :: t2_uint_digits (Pos.to_uint p)
  end.

(* l[i].append(x) *)
Fixpoint t2_update_nth {A} (l : list A) (n : nat) (f : A -> A) : list A :=
  match l, n with
  | [], _ => []
  | y :: r, O => f y :: r
  | y :: r, S n' => y :: t2_update_nth r n' f
  end.
Definition py_append_at {A} (l : list (list A)) (i : Z) (x : A) : res (list (list A)) :=
  let n := zlen l in
  let j := if i <? 0 then n + i else i in
  if (0 <=? j) && (j <? n) then Ok (t2_update_nth l (Z.to_nat j) (fun y => y ++ [x]))
  else Crash K_IndexError.
