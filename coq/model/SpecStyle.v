(* Spec-level checkers for C06: boolean functions used both in the theorem statements
   (props/C06.v) and, through the driver, on the IMPLEMENTATION's outputs.  Definitions only. *)
From RichModel Require Import Prelude Color Style.
From RichGen Require Import StyleTables.

(* ------------------------------------------------------------------ invariants *)
(* `_null` set  =>  every field is empty *)
Definition null_ok_b (s : style) : bool :=
  negb (s_null s)
  || ((match s_color s with None => true | _ => false end)
      && (match s_bgcolor s with None => true | _ => false end)
      && (s_set_attributes s =? 0) && (s_attributes s =? 0)
      && (match s_link s with None => true | _ => false end)).
(* value bits only where the attribute is specified *)
Definition attr_sub_b (s : style) : bool :=
  Z.land (s_attributes s) (s_set_attributes s) =? s_attributes s.
(* 13 attributes *)
Definition attr_range_b (s : style) : bool :=
  (0 <=? s_set_attributes s) && (s_set_attributes s <? Z.shiftl 1 N_ATTRS).
(* link is None or a non-empty string (Style(link="") is the one constructor call that breaks it) *)
Definition link_ok_b (s : style) : bool :=
  match s_link s with Some [] => false | _ => true end.
(* the invariant of every style built from the public constructors with non-empty links *)
Definition inv_b (s : style) : bool := null_ok_b s && attr_sub_b s && link_ok_b s.

(* the `_style_definition` memo, when filled, is what __str__ would compute *)
Definition def_ok_b (s : style) : bool :=
  match s_def s with None => true | Some d => str_eqb d (style_str_fresh s) end.
(* the stored hash is the hash of the fields *)
Definition hash_ok_b (s : style) : bool := hkey_eqb (s_hash s) (fields_key s).

(* ------------------------------------------------------------------ algebra *)
(* rich's == *)
Definition assoc_b (ab_c a_bc : style) : bool := style_eqb ab_c a_bc.
Definition identity_b (a out : style) : bool := style_eqb out a.

Definition opt_bool_eqb (a b : option bool) : bool :=
  match a, b with None, None => true | Some x, Some y => Bool.eqb x y | _, _ => false end.
Definition attr_bits : list Z := map Z.of_nat (seq 0 n_attrs).
(* the right operand wins exactly where it specifies a value *)
Definition bias_attr_b (a b out : style) (i : Z) : bool :=
  opt_bool_eqb (style_attr out i)
               (match style_attr b i with Some v => Some v | None => style_attr a i end).
Definition bias_b (a b out : style) : bool :=
  forallb (bias_attr_b a b out) attr_bits
  && opt_color_eqb (s_color out) (color_or (s_color b) (s_color a))
  && opt_color_eqb (s_bgcolor out) (color_or (s_bgcolor b) (s_bgcolor a))
  && opt_str_eqb (s_link out) (link_or (s_link b) (s_link a)).
(* everything the property says about one sum  a + b = out  of styles satisfying the invariant *)
Definition add_ok_b (a b out : style) : bool :=
  negb (inv_b a && inv_b b) || (bias_b a b out && inv_b out).

(* ------------------------------------------------------------------ round trip *)
Definition ws_free (s : str) : bool := forallb (fun c => negb (is_uni_space c)) s.
(* a colour whose name is a word that Color.parse maps back to the same colour *)
Definition name_ok_b (c : color) : bool :=
  match Color.parse true (c_name c) with Ok c' => color_eqb c' c | _ => false end
  && ws_free (c_name c) && str_eqb (py_lower (c_name c)) (c_name c).
Definition opt_name_ok_b (c : option color) : bool :=
  match c with None => true | Some c => name_ok_b c end.
Definition link_word_ok_b (l : option str) : bool :=
  match l with None => true | Some [] => false | Some l => ws_free l end.
(* the quantifier of the round trip: 13 tri-state attributes, colours whose name is one word that
   parses back (default, named, color(n), #rrggbb, rgb(r,g,b) written without blanks), link a
   non-empty whitespace-free string *)
Definition wf_style_b (s : style) : bool :=
  attr_range_b s && attr_sub_b s && opt_name_ok_b (s_color s) && opt_name_ok_b (s_bgcolor s)
  && link_word_ok_b (s_link s).

Definition roundtrip_b (s : style) (r : res style) : bool :=
  match r with Ok s' => style_eqb s' s | _ => false end.
(* parse(str(s)) == s  for a style in the quantifier *)
Definition roundtrip_ok_b (s : style) (r : res style) : bool := negb (wf_style_b s) || roundtrip_b s r.

(* ------------------------------------------------------------------ hashing *)
(* equal styles have equal hashes *)
Definition eq_hash_b (equal hash_equal : bool) : bool := negb equal || hash_equal.

(* ------------------------------------------------------------------ documented spellings *)
Fixpoint index_of (w : str) (l : list str) (i : Z) : option Z :=
  match l with [] => None | x :: r => if str_eqb x w then Some i else index_of w r (i + 1) end.
Definition flags_single (i : Z) (v : bool) : list (option bool) :=
  map (fun k => if Z.of_nat k =? i then Some v else None) (seq 0 n_attrs).
Definition named_color (name : str) (n : Z) : color :=
  mkColor name (if n <? 16 then CT_STANDARD else CT_EIGHT_BIT) (Some n) None.

(* docs/source/style.rst: every spelling of a bullet names the attribute whose full name opens the
   bullet; each may be negated with "not".  docs/source/appendix/colors.rst: every name is the
   colour with the number printed beside it, as foreground and (after "on") as background. *)
Definition documented_spellings : list (str * style) :=
  flat_map (fun g =>
      match g with
      | [] => []
      | full :: _ =>
          match index_of full ATTR_NAMES 0 with
          | None => [(full, style_null)]      (* a documented attribute that does not exist: fails *)
          | Some i =>
              flat_map (fun w => [(w, style_make None None (flags_single i true) None);
                                  (lit "not " ++ w, style_make None None (flags_single i false) None)]) g
          end
      end) DOC_ATTR_SPELLINGS
  ++ flat_map (fun p => [(fst p, style_make (Some (named_color (fst p) (snd p))) None [] None);
                         (lit "on " ++ fst p, style_make None (Some (named_color (fst p) (snd p))) [] None)])
              DOC_COLOR_NAMES
  ++ [(lit "default", style_make (Some (mkColor (lit "default") CT_DEFAULT None None)) None [] None);
      (lit "default on default", style_make (Some (mkColor (lit "default") CT_DEFAULT None None))
                                            (Some (mkColor (lit "default") CT_DEFAULT None None)) [] None);
      (lit "link https://google.com", style_make None None [] (Some (lit "https://google.com")));
      (lit "blink bold red underline on white",
         style_make (Some (named_color (lit "red") 1)) (Some (named_color (lit "white") 7))
                    [Some true; None; None; Some true; Some true] None)].

Definition spelling_b (r : res style) (expect : style) : bool :=
  match r with Ok s => style_eqb s expect | _ => false end.
(* the k-th documented spelling parsed to [r] *)
Definition spelling_ok_b (k : nat) (r : res style) : bool :=
  match nth_error documented_spellings k with
  | Some (_, expect) => spelling_b r expect
  | None => false
  end.
