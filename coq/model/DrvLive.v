(* wire glue for C10: the terminal oracle, the live-display state machine, the spec checkers *)
From RichModel Require Import Prelude Cells TermGrid Live SpecLive.
From RichGen Require Import LiveCodes.

Definition ofRow (r : row) : tree := L (map I r).
Definition ofTerm (t : term) : tree :=
  L [ofList ofRow (grid t); ofNat (cursor_row t); ofNat (col t); ofNat (vr t); ofB (vis t); ofB (is_ground t)].

Definition tNat (t : tree) : nat := Z.to_nat (tZ t).
Definition tLines (t : tree) : list str := tList tStr t.
Definition tOptNat (t : tree) : option nat := tOpt tNat t.

Definition tOvf (t : tree) : ovf :=
  let z := tZ t in if z =? 0 then OCrop else if z =? 1 then OEllipsis else OVisible.

(* [progress, transient, ovf, W, H, frender?, fbuild?, kind, fault is BaseException-only]  (T3 facts: today's /repo).
   kind 2 = Status: transient and overflow mode are what rich/status.py passes to Live, not what the
   harness says *)
Definition tCfg (t : tree) : cfg :=
  let status := tZ (tNth t 7) =? 2 in
  cfg_today (tB (tNth t 0))
            (if status then status_live_transient else tB (tNth t 1))
            (if status then tOvf (I status_overflow_mode) else tOvf (tNth t 2))
            (tZ (tNth t 3)) (tZ (tNth t 4))
            (tOptNat (tNth t 5)) (tOptNat (tNth t 6)) (tB (tNth t 8)).

Definition tOp (t : tree) : op :=
  let k := tZ (tNth t 0) in
  if k =? 0 then Print (tLines (tNth t 1))
  else if k =? 1 then Log (tLines (tNth t 1))
  else if k =? 2 then PrintRaise
  else if k =? 3 then Update (tLines (tNth t 1)) (tB (tNth t 2))
  else if k =? 4 then Refresh
  else if k =? 5 then Start
  else Stop.

(* free-form history with a trace: after every executed op (length of out, printed so far) *)
Fixpoint run_trace (c : cfg) (s : st) (ops : list op) : st * bool * list (nat * nat) :=
  match ops with
  | [] => (s, false, [])
  | o :: r =>
      let '(s1, raised) := step c s o in
      let here := (length (out s1), length (g_printed s1)) in
      if raised then (s1, true, [here])
      else let '(s2, r2, tr) := run_trace c s1 r in (s2, r2, here :: tr)
  end.

(* (redirected, started) after every executed op *)
Fixpoint run_obs (c : cfg) (s : st) (ops : list op) : list (bool * bool) :=
  match ops with
  | [] => []
  | o :: r =>
      let '(s1, raised) := step c s o in
      (redir s1, started s1) :: (if raised then [] else run_obs c s1 r)
  end.

(* the caller catches every exception and goes on (mode 2) *)
Fixpoint run_all_tr (c : cfg) (s : st) (ops : list op) : st * bool * list (nat * nat) :=
  match ops with
  | [] => (s, false, [])
  | o :: r =>
      let '(s1, raised) := step c s o in
      let here := (length (out s1), length (g_printed s1)) in
      let '(s2, r2, tr) := run_all_tr c s1 r in (s2, raised || r2, here :: tr)
  end.
Fixpoint run_all_obs (c : cfg) (s : st) (ops : list op) : list (bool * bool) :=
  match ops with
  | [] => []
  | o :: r => let s1 := fst (step c s o) in (redir s1, started s1) :: run_all_obs c s1 r
  end.

(* [cfg, f0, mode, pre, ops]: mode 0 = free-form history up to the first exception, 1 = with-block (pre =
   prints before it), 2 = free-form, every exception caught by the caller, the history goes on *)
Definition run_case_full (t : tree) : cfg * (st * bool * list (nat * nat)) * list (bool * bool) :=
  let c := tCfg (tNth t 0) in
  let f0 := tLines (tNth t 1) in
  let status := tZ (tNth (tNth t 0) 7) =? 2 in
  (* Status.update always ends with _live.update(..., refresh=True) *)
  let fix_op (o : op) : op :=
    match o with
    | Update f r => Update f (r || (status && status_update_refreshes))
    | _ => o
    end in
  let ops := map fix_op (tList tOp (tNth t 4)) in
  if tZ (tNth t 2) =? 0 then (c, run_trace c (st0 c f0) ops, run_obs c (st0 c f0) ops)
  else if tZ (tNth t 2) =? 2 then (c, run_all_tr c (st0 c f0) ops, run_all_obs c (st0 c f0) ops)
  else let '(s, r) := run_block c f0 (tList tLines (tNth t 3)) ops in (c, (s, r, []), []).
Definition run_case (t : tree) : cfg * (st * bool * list (nat * nat)) := fst (run_case_full t).

Definition ofRun (x : cfg * (st * bool * list (nat * nat)) * list (bool * bool)) : tree :=
  let '(_, (s, raised, tr), obs) := x in
  L [ofStr (out s); ofB raised; ofNat (hooks s); ofB (redir s); ofB (started s);
     ofList (fun p => ofNat (fst p)) tr; ofList (fun p => L [ofB (fst p); ofB (snd p)]) obs].

Definition Hn (c : cfg) : nat := Z.to_nat (c_H c).

(* cut bytes at the trace's offsets; floors = lines printed before each op *)
Fixpoint chunks_of (bytes : str) (pos : nat) (floor : nat) (tr : list (nat * nat)) : list (nat * str) :=
  match tr with
  | [] => []
  | (e, p) :: rest => (floor, firstn (e - pos) bytes) :: chunks_of (skipn (e - pos) bytes) e p rest
  end.

Definition ops : list (string * (tree -> tree)) := [
  ("term", fun t => ofTerm (interp (tNat (tNth t 0)) init (tStr (tNth t 1))));
  ("run", fun t => ofRun (run_case_full t));
  ("expect", fun t =>   (* what the history says should be on screen: [live, printed, shown] *)
      let '(_, (s, _, _)) := run_case t in
      L [ofB (g_live s); ofList ofStr (g_printed s); ofList ofStr (g_shown s)]);
  ("codes", fun t =>   (* [w, h] or [] -> [position_cursor, restore_cursor] *)
      let sh := match tL t with [w; h] => Some (tZ w, tZ h) | _ => None end in
      L [ofStr (position_cursor sh); ofStr (restore_cursor sh)]);
  ("facts", fun _ => L [ofB progress_start_guarded; ofB live_stop_visible_unless_transient;
                        ofB live_stop_restores_overflow; ofB live_stop_resets_shape;
                        ofB progress_stop_resets_shape; ofB live_transient_final_room;
                        ofB live_render_crops_to_page]);
  (* ---- spec-level checkers on the given bytes (the harness passes the implementation's) ---- *)
  ("spec.view_ok", fun t =>   (* [case, bytes]: expectation from the history, screen from the bytes *)
      let '(c, (s, _, _)) := run_case (tNth t 0) in
      ofB (view_ok_b (Hn c) (g_live s) (g_printed s) (g_shown s) (tStr (tNth t 1))));
  ("spec.cursor_vis_ok", fun t =>   (* [H, started, bytes] *)
      ofB (cursor_vis_ok_b (tNat (tNth t 0)) (tB (tNth t 1)) (tStr (tNth t 2))));
  ("spec.cursor_ok", fun t =>   (* [case, bytes, [end offset of each op's output]]; floors from the history *)
      let '(c, (_, _, tr)) := run_case (tNth t 0) in
      ofB (cursor_ok_b (Hn c)
             (chunks_of (tStr (tNth t 1)) 0 0
                (combine (map tNat (tL (tNth t 2))) (map snd tr)))));
  ("spec.redirect_ok", fun t =>   (* [[redirected, started], ...] as observed on the implementation *)
      ofB (redirect_ok_b (map (fun p => (tB (tNth p 0), tB (tNth p 1))) (tL t))));
  ("spec.erase_ok", fun t =>   (* [H, pre, h, bytes] *)
      ofB (erase_ok_b (tNat (tNth t 0)) (tNat (tNth t 1)) (tNat (tNth t 2)) (tStr (tNth t 3))));
  ("spec.cleanup_ok", fun t =>   (* [H, hooks_before, hooks_after, io_restored, bytes] *)
      ofB (cleanup_ok_b (tNat (tNth t 0)) (tNat (tNth t 1)) (tNat (tNth t 2)) (tB (tNth t 3)) (tStr (tNth t 4))));
  ("spec.lines_ok", fun t => ofB (lines_ok (tLines t)))
].
