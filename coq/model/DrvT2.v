(* all T2 ops in one driver (used to validate the translator as a whole; the property checks
   use the per-file drivers DrvT2Ratio / DrvT2Cells / DrvT2Measure / DrvT2Span so that one
   generated file that does not build cannot take another property's driver down) *)
From RichModel Require Import Prelude.
From RichModel Require DrvT2Ratio DrvT2Cells DrvT2Measure DrvT2Span.

Definition ops : list (string * (tree -> tree)) :=
  DrvT2Ratio.ops ++ DrvT2Cells.ops ++ DrvT2Measure.ops ++ DrvT2Span.ops.
