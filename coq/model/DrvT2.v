(* all T2 ops in one driver (used to validate the translator as a whole; the property checks
   use the per-file drivers DrvT2Ratio / DrvT2Cells / DrvT2Measure / DrvT2Span / DrvT2Color / DrvT2Live / DrvT2Segment / DrvT2Progress / DrvT2Style / DrvT2Bar / DrvT2ProgressBar so that one
   generated file that does not build cannot take another property's driver down) *)
From RichModel Require Import Prelude.
From RichModel Require DrvT2Ratio DrvT2Cells DrvT2Measure DrvT2Span DrvT2Color DrvT2Live DrvT2Segment DrvT2Progress DrvT2Style DrvT2Bar DrvT2ProgressBar.

Definition ops : list (string * (tree -> tree)) :=
  DrvT2Ratio.ops ++ DrvT2Cells.ops ++ DrvT2Measure.ops ++ DrvT2Span.ops
  ++ DrvT2Color.ops ++ DrvT2Live.ops ++ DrvT2Segment.ops ++ DrvT2Progress.ops ++ DrvT2Style.ops ++ DrvT2Bar.ops ++ DrvT2ProgressBar.ops.
