(* C15: the buffer / record / capture / export machinery of rich/console.py at the level of
   segment lists.  Definitions only.

   What is an INPUT of this model: the renderable -> segments step (print/log/rule are reduced to
   "these segments were produced by Console.render for the arguments"), and everything about a
   style except its identity: a style is a token (Z), and
     truthy s        bool(style)                      (False for a null style)
     esc cs lw s t   style.render(t, color_system=cs, legacy_windows=lw)
     html_rule s     style.get_html_style(theme)
     html_link s     style.link (None or empty -> None)
   are Section variables.  Token equality stands for Style.__eq__.

   Console configuration outside the model: not a dumb terminal (TERM not
   dumb/unknown), not Jupyter, not Windows, record=True, no render hooks, one thread. *)
From RichModel Require Import Prelude Cells Segments Wire.
From RichGen Require Import RecordFacts.

Definition sg := seg Z.

Record cfg := mkCfg {
  width : Z;        (* Console.width *)
  term : bool;      (* Console.is_terminal *)
  csys : Z;         (* Console._color_system: 0 None, 1 standard, 2 256, 3 truecolor *)
  legacy : bool;    (* Console.legacy_windows *)
  ncol : bool       (* Console.no_color *)
}.
(* `if self.no_color and color_system: buffer = Segment.remove_color(buffer)`: a truthy style is replaced by
   style.without_color (still truthy: _null = False), a falsy one by None, so the branch taken per segment is
   unchanged and only the wrapper differs.  The wrapper of the colourless style is `esc` at the code
   csys + 16 (esc is abstract in its colour-system argument).  The RECORD keeps the unfiltered buffer
   (t_record.py requires the record to be extended before the filter). *)
Definition csys_eff (c : cfg) : Z :=
  if ncol c && negb (csys c =? 0) then csys c + 16 else csys c.
Definition CS_TRUECOLOR : Z := 3.

Inductive op : Type :=
| Print (crop : bool) (segs : list sg)   (* print / log / rule: segs = what Console.render yielded *)
| Line (n : nat)                         (* Console.line(count), count >= 0 (asserted upstream) *)
| Control (codes : str)                  (* Console.control(str) *)
| Bell
| Clear (home : bool)
| ShowCursor (show : bool)
| BeginCapture                           (* begin_capture / Capture.__enter__ *)
| EndCapture                             (* end_capture / Capture.__exit__ + get() *)
| ExportText (clear styles : bool)       (* export_text / save_text *)
| ExportHtml (clear inline : bool).      (* export_html / save_html *)

Record st := mkSt {
  buf : list sg;      (* ConsoleThreadLocals.buffer *)
  bidx : Z;           (* ConsoleThreadLocals.buffer_index *)
  rec_ : list sg      (* Console._record_buffer *)
}.
Definition st0 : st := mkSt [] 0 [].

(* what one call did that can be observed from outside *)
Record event := mkEv {
  written : str;          (* text passed to file.write during the call ("" = no write) *)
  ret : option str        (* value returned by end_capture / export_* *)
}.

Definition opt_eqb (a b : option Z) : bool :=
  match a, b with
  | None, None => true
  | Some x, Some y => x =? y
  | _, _ => false
  end.

Definition is_nil {A} (l : list A) : bool := match l with [] => true | _ => false end.

(* ---------- Segment.simplify, Segment.filter_control ---------- *)
(* keep_ctl = the merge condition also requires `not last_segment.is_control`
   (gen fact simplify_keeps_control; false = rich 9.10.0 as found, DESIGN D12). *)
Fixpoint simplify_go (keep_ctl : bool) (last : sg) (rest : list sg) : list sg :=
  match rest with
  | [] => [last]
  | g :: rest' =>
      if opt_eqb (sty last) (sty g) && negb (ctl g) && (negb keep_ctl || negb (ctl last))
      then simplify_go keep_ctl (mkSeg (txt last ++ txt g) (sty last) false) rest'
      else last :: simplify_go keep_ctl g rest'
  end.
Definition simplify (keep_ctl : bool) (segs : list sg) : list sg :=
  match segs with [] => [] | g :: rest => simplify_go keep_ctl g rest end.

Definition filter_control (segs : list sg) : list sg := filter (fun g => negb (ctl g)) segs.

(* ---------- HTML pieces ---------- *)
(* str.replace(old, new) for a one-character old *)
Definition replace1 (old : Z) (new : str) (t : str) : str :=
  concat (map (fun c => if c =? old then new else [c]) t).
Definition replace_chain (chain : list (Z * str)) (t : str) : str :=
  fold_left (fun t '(o, n) => replace1 o n t) chain t.
(* the local `escape` of export_html *)
Definition html_escape (t : str) : str := replace_chain HTML_ESCAPE_CHAIN t.
(* escape_attr of the repaired export_html: escape, then the double quote -> &quot; *)
Definition attr_escape (t : str) : str := replace1 34 (lit "&quot;") (html_escape t).

(* str.format on a template with named fields; "{{" and "}}" are literal braces *)
Inductive fstate := FNormal | FOpen | FName (acc : str) | FClose.
Fixpoint assoc_str {A} (k : str) (l : list (str * A)) : option A :=
  match l with
  | [] => None
  | (k', v) :: r => if str_eqb k k' then Some v else assoc_str k r
  end.
Fixpoint format_go (fields : list (str * str)) (stt : fstate) (s : str) : str :=
  match s with
  | [] => []
  | c :: r =>
      match stt with
      | FNormal => if c =? 123 then format_go fields FOpen r
                   else if c =? 125 then format_go fields FClose r
                   else c :: format_go fields FNormal r
      | FOpen => if c =? 123 then 123 :: format_go fields FNormal r
                 else if c =? 125 then format_go fields FNormal r
                 else format_go fields (FName [c]) r
      | FName acc => if c =? 125
                     then match assoc_str (rev acc) fields with Some v => v | None => [] end
                          ++ format_go fields FNormal r
                     else format_go fields (FName (c :: acc)) r
      | FClose => if c =? 125 then 125 :: format_go fields FNormal r
                  else c :: format_go fields FNormal r
      end
  end.
Definition py_format (template : str) (fields : list (str * str)) : str :=
  format_go fields FNormal template.

Fixpoint join_nl (l : list str) : str :=
  match l with
  | [] => []
  | [x] => x
  | x :: r => x ++ NL :: join_nl r
  end.

Section Styles.
Variable truthy : Z -> bool.
Variable esc : Z -> bool -> Z -> str -> str.
Variable html_rule : Z -> str.
Variable html_link : Z -> option str.

Definition truthy_o (o : option Z) : bool :=
  match o with Some s => truthy s | None => false end.

(* ---------- Console._render_buffer (the string part) ---------- *)
(* render_control_test_first (gen fact): the loop tests `not_terminal and is_control` before `if style:`,
   so a styled control segment is dropped on a non-terminal as well; false = rich 9.10.0 as found, where
   the test only guarded the unstyled branch. *)
Definition render_seg (c : cfg) (g : sg) : str :=
  if render_control_test_first && negb (term c) && ctl g then []
  else
    match sty g with
    | Some s => if truthy s then esc (csys_eff c) (legacy c) s (txt g)
                else if negb (term c) && ctl g then [] else txt g
    | None => if negb (term c) && ctl g then [] else txt g
    end.
Definition render_buffer (c : cfg) (b : list sg) : str := concat (map (render_seg c) b).

(* ---------- Console._check_buffer ---------- *)
Definition check_buffer (c : cfg) (s : st) : st * str :=
  if bidx s =? 0 then (mkSt [] (bidx s) (rec_ s ++ buf s), render_buffer c (buf s))
  else (s, []).

(* ---------- the segments an output call appends to the buffer (None: the call does nothing) *)
Definition op_out (c : cfg) (o : op) : option (list sg) :=
  match o with
  | Print crop segs =>
      Some (if crop then concat (split_and_crop_lines false segs (width c) None print_crop_pad true)
            else segs)
  | Line n => match n with O => None | _ => Some [mkSeg (repeat NL n) None false] end
  | Control codes => Some [mkSeg codes None true]
  | Bell => Some [mkSeg BELL_CODE None true]
  | Clear home => Some [mkSeg (if home then CLEAR_HOME else CLEAR_NOHOME) None true]
  | ShowCursor show =>
      if term c && negb (legacy c)
      then Some [mkSeg (if show then CURSOR_SHOW else CURSOR_HIDE) None true] else None
  | _ => None
  end.

(* ---------- export_text ---------- *)
Definition export_plain (r : list sg) : str := concat (map (@txt Z) (filter_control r)).
Definition styled_seg (g : sg) : str :=
  match sty g with
  | Some s => if truthy s then esc CS_TRUECOLOR false s (txt g) else txt g
  | None => txt g
  end.
Definition export_styled (r : list sg) : str := concat (map styled_seg r).

(* ---------- export_html ---------- *)
Definition href_text (hesc : bool) (l : str) : str := if hesc then attr_escape l else l.
Definition wrap_link (hesc : bool) (s : Z) (t : str) : str :=
  match html_link s with
  | Some l => lit "<a href=""" ++ href_text hesc l ++ lit """>" ++ t ++ lit "</a>"
  | None => t
  end.
Definition html_seg_inline (hesc : bool) (g : sg) : str :=
  let t := html_escape (txt g) in
  match sty g with
  | Some s =>
      if truthy s then
        let rule := html_rule s in
        let t := if is_nil rule then t
                 else lit "<span style=""" ++ rule ++ lit """>" ++ t ++ lit "</span>" in
        wrap_link hesc s t
      else t
  | None => t
  end.
Definition html_code_inline (hesc : bool) (segs : list sg) : str :=
  concat (map (html_seg_inline hesc) segs).

(* styles.setdefault(rule, len(styles) + 1) on an insertion-ordered dict *)
Definition class_of (styles : list (str * Z)) (rule : str) : Z * list (str * Z) :=
  match assoc_str rule styles with
  | Some n => (n, styles)
  | None => let n := zlen styles + 1 in (n, styles ++ [(rule, n)])
  end.
Definition html_seg_class (hesc : bool) (styles : list (str * Z)) (g : sg) : str * list (str * Z) :=
  let t := html_escape (txt g) in
  match sty g with
  | Some s =>
      if truthy s then
        let rule := html_rule s in
        let '(t, styles) :=
          if is_nil rule then (t, styles)
          else let '(n, styles') := class_of styles rule in
               (lit "<span class=""r" ++ print_Z n ++ lit """>" ++ t ++ lit "</span>", styles') in
        (wrap_link hesc s t, styles)
      else (t, styles)
  | None => (t, styles)
  end.
Fixpoint html_code_class (hesc : bool) (styles : list (str * Z)) (segs : list sg)
  : str * list (str * Z) :=
  match segs with
  | [] => ([], styles)
  | g :: r =>
      let '(t, styles') := html_seg_class hesc styles g in
      let '(t', styles'') := html_code_class hesc styles' r in
      (t ++ t', styles'')
  end.
Definition stylesheet (styles : list (str * Z)) : str :=
  join_nl (map (fun '(rule, n) => lit ".r" ++ print_Z n ++ lit " {" ++ rule ++ lit "}") styles).

(* the {code} and {stylesheet} fields of export_html *)
Definition html_parts (keep_ctl hesc inline : bool) (r : list sg) : str * str :=
  let segs := filter_control (simplify keep_ctl r) in
  if inline then (html_code_inline hesc segs, [])
  else let '(code, styles) := html_code_class hesc [] segs in (code, stylesheet styles).
Definition html_code (keep_ctl hesc inline : bool) (r : list sg) : str :=
  fst (html_parts keep_ctl hesc inline r).
Definition export_html (keep_ctl hesc inline : bool) (r : list sg) : str :=
  let '(code, sheet) := html_parts keep_ctl hesc inline r in
  py_format CONSOLE_HTML_FORMAT_src
    [(lit "code", code); (lit "stylesheet", sheet);
     (lit "foreground", HTML_FG_HEX); (lit "background", HTML_BG_HEX)].

(* ---------- one call ---------- *)
(* keep_ctl, hesc: the two code variants of export_html's helpers (see RecordFacts) *)
Definition step (keep_ctl hesc : bool) (c : cfg) (s : st) (o : op) : st * event :=
  match o with
  | BeginCapture => (mkSt (buf s) (bidx s + 1) (rec_ s), mkEv [] None)
  | EndCapture =>
      (* render_result = _render_buffer(_buffer); del _buffer[:]; _exit_buffer() *)
      let r := render_buffer c (buf s) in
      let s1 := mkSt [] (bidx s - 1) (rec_ s ++ buf s) in
      let '(s2, w) := check_buffer c s1 in
      (s2, mkEv w (Some r))
  | ExportText clear styles =>
      let t := if styles then export_styled (rec_ s) else export_plain (rec_ s) in
      (mkSt (buf s) (bidx s) (if clear then [] else rec_ s), mkEv [] (Some t))
  | ExportHtml clear inline =>
      let t := export_html keep_ctl hesc inline (rec_ s) in
      (mkSt (buf s) (bidx s) (if clear then [] else rec_ s), mkEv [] (Some t))
  | _ =>
      match op_out c o with
      | None => (s, mkEv [] None)
      | Some segs =>
          (* print: `with self:` raises and restores the index around the append, then checks *)
          let '(s', w) := check_buffer c (mkSt (buf s ++ segs) (bidx s) (rec_ s)) in
          (s', mkEv w None)
      end
  end.

Fixpoint run (keep_ctl hesc : bool) (c : cfg) (s : st) (h : list op) : st * list event :=
  match h with
  | [] => (s, [])
  | o :: h' =>
      let '(s1, e) := step keep_ctl hesc c s o in
      let '(s2, es) := run keep_ctl hesc c s1 h' in
      (s2, e :: es)
  end.

End Styles.
