(* C14 -- the public entry points of rich 9.10.0 as `res`-valued functions, built from the models of
   the other layers (glue only; definitions only).

     Color.parse          = Color.parse true               (Color.v, D9 repaired as committed in /repo)
     Style.parse          = Style.style_parse              (Style.v)
     Style.normalize      = Style.style_normalize
     markup.render        = Markup.render with Style.normalize plugged in as a `res`-valued call
     Console.get_style    = theme lookup, then Style.parse, StyleSyntaxError -> default / MissingStyle
     AnsiDecoder.decode   = AnsiDecode.decode
     Text(s), len(Text(s))= TextOps.ctor / pylen
     Console.print(s, markup=False)
                          = Text(E s) -> highlighter spans -> Text.wrap (Wrap.v) -> Text("\n").join
                            (TextOps.join) -> Text.render (TextOps.render).  _render_buffer (Record.v)
                            is a total function on segments (no `res`), so it adds no failure.
     Columns(width=cw)    = Frames.columns_grid (D10) and its repair
     render / measure     = Layout.render / Layout.measure (b-C01)

   Oracles: the highlighter `hl : str -> list span` and the emoji pass `E : str -> str`. *)
From RichModel Require Import Prelude Color Style.
From RichModel Require Markup AnsiDecode TextOps Wrap Frames Layout.
From RichGen Require MarkupRegex ThemeFacts.

(* ---------------------------------------------------------------- outcome classes as integers
   0 = returned; 10 + e = documented error e; 100 + k = undocumented escape k *)
Definition code_of {A} (r : res A) : Z :=
  match r with Ok _ => 0 | Doc e => 10 + e | Crash k => 100 + k end.

(* ---------------------------------------------------------------- Color / Style *)
Definition color_parse (s : str) : res color := Color.parse true s.

(* ---------------------------------------------------------------- markup.render
   Markup.v takes Style.normalize as a total oracle `norm`.  Here the real normalize is called in
   `res`, at the point where render calls it (before pop_style for `[/name]`, before the push for an
   opening tag): `guard` makes that call and propagates its failure; `norm_fn` hands the value to
   Markup's step (its fall-back value is never used: a failing guard has already returned). *)
Definition norm_fn (s : str) : str :=
  match style_normalize s with Ok x => x | _ => [] end.

Definition guard (tk : Markup.token) : res unit :=
  match tk with
  | Markup.TText _ => Ok tt
  | Markup.TTag name _ =>
      match Markup.closing_name name with
      | Some [] => Ok tt                                   (* [/] : no normalize call *)
      | Some sn => do _ <- style_normalize sn; Ok tt       (* [/name] *)
      | None => do _ <- style_normalize name; Ok tt        (* opening tag *)
      end
  end.

Fixpoint run_guard {St} (step : St -> Markup.token -> res St) (st : St) (ts : list Markup.token) : res St :=
  match ts with
  | [] => Ok st
  | tk :: r =>
      do _ <- guard tk;
      do st' <- step st tk;
      run_guard step st' r
  end.

Definition CC := MarkupRegex.STRIP_CONTROL_CODES.

Section MarkupRender.
  Variable E : str -> str.          (* _emoji_replace (or the identity) *)
  Definition markup_render (asis : bool) (markup : str) : res Markup.text :=
    if Markup.has_lb markup then
      if asis then
        do st <- run_guard (Markup.stepA CC norm_fn E) ([], [], []) (Markup.parse markup);
        Ok (Markup.finishA st)
      else
        do st <- run_guard (Markup.stepF CC norm_fn E) ([], [], []) (Markup.parse markup);
        Ok (Markup.finishF st)
    else Ok (Markup.strip_cc CC (E markup), []).
End MarkupRender.

(* ---------------------------------------------------------------- Console.get_style
   theme : the names the theme stack answers (their values are Style objects: nothing to parse) *)
Inductive gs_val : Type := InTheme (name : str) | Parsed (s : style).

Definition get_style1 (theme : list str) (name : str) : res gs_val :=
  if existsb (str_eqb name) theme then Ok (InTheme name)
  else match style_parse name with
       | Ok s => Ok (Parsed s)
       | Doc e => if e =? E_StyleSyntaxError then Doc E_MissingStyle else Doc e
       | Crash k => Crash k
       end.

Definition get_style (theme : list str) (name : str) (default : option str) : res gs_val :=
  if existsb (str_eqb name) theme then Ok (InTheme name)
  else match style_parse name with
       | Ok s => Ok (Parsed s)
       | Doc e =>
           if e =? E_StyleSyntaxError then
             match default with
             | None => Doc E_MissingStyle
             | Some d => get_style1 theme d          (* return self.get_style(default) *)
             end
           else Doc e
       | Crash k => Crash k
       end.

Definition DEFAULT_THEME_NAMES := ThemeFacts.default_style_names.

(* ---------------------------------------------------------------- AnsiDecoder().decode(s) *)
Definition decode (fix_d8 : bool) (s : str) : res (list (list AnsiDecode.piece)) :=
  snd (AnsiDecode.decode fix_d8 style_null s).

(* ---------------------------------------------------------------- Text(s); len(Text(s)) *)
Definition text_ctor (s : str) : res (TextOps.text * Z) :=
  let t := TextOps.ctor TextOps.FIXED s (TextOps.default_meta 0) [] in
  do n <- TextOps.pylen t; Ok (t, n).

(* ---------------------------------------------------------------- Console.print(s, markup=False) *)
Definition to_ops (l : Wrap.text Z) : TextOps.text :=
  TextOps.mkText (Wrap.plain l) (zlen (Wrap.plain l)) (Wrap.spans l) (TextOps.default_meta (Wrap.base l)).

Definition NLT : TextOps.text := TextOps.ctor TextOps.FIXED [NL] (TextOps.default_meta 0) [].

(* Text.__rich_console__ of a Text with the given plain text and spans, at width W, with the options
   Console.print hands down (justify None -> "default", overflow None -> "fold", no_wrap False,
   tab_size 8): wrap, join with "\n", render *)
Definition render_text (p : str) (sps : list (Z * Z * Z)) (W : Z) : res (list (Z * list Z)) :=
  if W <? 1 then Ok []          (* Console.render: `if options.max_width < 1: return` *)
  else
    let lines := Wrap.wrap Z Z.eqb 0 (fun _ b => b) Wrap.repaired (Wrap.mkText p sps 0)
                           W Wrap.J_DEFAULT Wrap.OV_FOLD 8 false in
    do joined <- TextOps.join TextOps.FIXED NLT (map to_ops lines);
    TextOps.render joined.

Section Print.
  Variable hl : str -> list (Z * Z * Z).    (* the highlighter: spans it adds to Text(plain) *)
  Variable E : str -> str.                  (* _emoji_replace *)

  Definition print_no_markup (s : str) (W : Z) : res (list (Z * list Z)) :=
    let t0 := TextOps.ctor TextOps.FIXED (E s) (TextOps.default_meta 0) [] in
    let p := TextOps.plain t0 in
    render_text p (hl p) W.

  (* Console.print(s) with markup on: the spans of the tags (style names; resolved by
     get_style(.., default=null) inside Text.render, which cannot fail) come before the highlighter's *)
  Definition print_markup (asis : bool) (s : str) (W : Z) : res (list (Z * list Z)) :=
    do t <- markup_render E asis s;
    let p := fst t in
    let msp := map (fun x : Markup.span => let '(a, b, _) := x in (Z.of_nat a, Z.of_nat b, 1)) (snd t) in
    render_text p (hl p ++ msp) W.
End Print.

(* ---------------------------------------------------------------- Columns(items, width=cw) (D10)
   [fix_d10 = false]: as found, column_count = max_width // (width + padding) can be 0;
   [fix_d10 = true]: fixes/C14_columns_zero_division.diff, column_count = max(1, ...) *)
Definition iter_or_fail (n cc : Z) (cf : bool) := Frames.iter_items n cc cf.

Definition columns_count (fix_d10 : bool) (cwid wpad W : Z) : res Z :=
  if cwid + wpad =? 0 then Crash K_ZeroDivisionError
  else Ok (if fix_d10 then Z.max 1 (W / (cwid + wpad)) else W / (cwid + wpad)).

(* the column count and the item order of the grid, for `n` items of explicit column width `cwid` *)
Definition columns_fixed_width (fix_d10 : bool) (n cwid pl pr : Z) (cf : bool) (W : Z) : res (Z * list Z) :=
  if n =? 0 then Ok (0, [])
  else
    do cc <- columns_count fix_d10 cwid (Z.max pl pr) W;
    do items <- Frames.iter_items n cc cf;
    Ok (cc, items).

(* ---------------------------------------------------------------- renderable trees *)
Definition render (cf : Layout.cfg) (r : Layout.R) (W : Z) := Layout.render cf r Layout.ro0 W.
Definition measure (cf : Layout.cfg) (r : Layout.R) (W : Z) := Layout.measure cf r W.
