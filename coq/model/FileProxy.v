(* L4 proxy: rich/file_proxy.py (FileProxy.write / flush) as a state machine.   Definitions only.

   State: the list `__buffer` of pending chunks and the style of the private AnsiDecoder.
   An operation yields the console.print calls it makes: the printed object (a Text given by its
   per-line pieces, or a raw str) and the markup / emoji / highlight keywords of the call
   (None = not passed, the console's default -- enabled -- applies).  What console.print then does
   with a Text is C03's business; that a *str* goes through markup, emoji and the highlighter and is
   not ANSI-decoded is the defect D13 -- here it is visible as the kind of the printed object.

   Call-site facts (gen/FileProxyFacts.v, regenerated from /repo): whether the printed expression
   is the decoder's output, and the three keywords, for `write` and for `flush`.

   `write` returns len(text) of the *rest* -- always 0 (observation, not part of C19). *)
From RichModel Require Import Prelude Color Style AnsiDecode.
From RichGen Require FileProxyFacts.

Record facts : Type := mkFacts {
  f_write_decodes : bool; f_write_kw : list (option bool);
  f_flush_decodes : bool; f_flush_kw : list (option bool) }.

Definition kw_off : list (option bool) := [Some false; Some false; Some false].
(* rich 9.10.0 as found *)
Definition facts_asis : facts := mkFacts true kw_off false [None; None; None].
(* with fixes/C19_file_proxy_flush_decode.diff *)
Definition facts_fixed : facts := mkFacts true kw_off true kw_off.
(* what /repo says now *)
Definition facts_gen : facts :=
  mkFacts FileProxyFacts.WRITE_DECODES FileProxyFacts.WRITE_PRINT_KW
          FileProxyFacts.FLUSH_DECODES FileProxyFacts.FLUSH_PRINT_KW.

Inductive printed : Type :=
| PText (lines : list (list piece))     (* Text("\n").join(decoded lines) *)
| PStr (s : str).                       (* a str: rendered with the console's markup/emoji/highlight *)

Record event : Type := mkEvent {
  ev_raw : list str;        (* ghost: the raw lines handed to the decoder (not observable) *)
  ev_nl : bool;             (* ghost: those lines were "\n"-terminated (write) / a partial line (flush) *)
  ev_obj : printed;
  ev_kw : list (option bool) }.

Inductive out : Type :=
| OEvent (e : event)
| OCrash (doc : bool) (k : Z).   (* the call raised *)

Record pstate : Type := mkP { p_buffer : list str; p_style : style }.
Definition p_init : pstate := mkP [] style_null.
Definition pending (st : pstate) : str := concat (p_buffer st).

(* the `while text:` loop of write.  cur = reversed characters of the current partition piece;
   -> (buffer afterwards, completed lines) *)
Fixpoint write_loop (text cur : str) (buffer : list str) (lines : list str) : list str * list str :=
  match text with
  | [] => (match cur with [] => buffer | _ => buffer ++ [rev cur] end, rev lines)
  | c :: r =>
      if c =? 10 then write_loop r [] [] ((concat buffer ++ rev cur) :: lines)
      else write_loop r (c :: cur) buffer lines
  end.

Definition res_out {A} (r : res A) (f : A -> list out) : list out :=
  match r with Ok a => f a | Doc e => [OCrash true e] | Crash k => [OCrash false k] end.

Definition join_nl (lines : list str) : str := str_join [10] lines.

Definition proxy_write (fix_d8 : bool) (fc : facts) (st : pstate) (text : str) : pstate * list out :=
  let '(buffer, lines) := write_loop text [] (p_buffer st) [] in
  match lines with
  | [] => (mkP buffer (p_style st), [])
  | _ =>
      if f_write_decodes fc then
        let '(sty, r) := decode_lines fix_d8 (p_style st) lines in
        (mkP buffer sty, res_out r (fun pss => [OEvent (mkEvent lines true (PText pss) (f_write_kw fc))]))
      else (mkP buffer (p_style st), [OEvent (mkEvent lines true (PStr (join_nl lines)) (f_write_kw fc))])
  end.

Definition proxy_flush (fix_d8 : bool) (fc : facts) (st : pstate) : pstate * list out :=
  match p_buffer st with
  | [] => (st, [])
  | buf =>
      let line := concat buf in
      if f_flush_decodes fc then
        let '(sty, r) := decode_line fix_d8 (p_style st) line in
        (mkP [] sty, res_out r (fun ps => [OEvent (mkEvent [line] false (PText [ps]) (f_flush_kw fc))]))
      else (mkP [] (p_style st), [OEvent (mkEvent [line] false (PStr line) (f_flush_kw fc))])
  end.

Inductive op : Type := Write (s : str) | Flush.

Definition proxy_step (fix_d8 : bool) (fc : facts) (st : pstate) (o : op) : pstate * list out :=
  match o with Write s => proxy_write fix_d8 fc st s | Flush => proxy_flush fix_d8 fc st end.

Fixpoint proxy_run (fix_d8 : bool) (fc : facts) (st : pstate) (h : list op) : pstate * list out :=
  match h with
  | [] => (st, [])
  | o :: r =>
      let '(st1, o1) := proxy_step fix_d8 fc st o in
      let '(st2, o2) := proxy_run fix_d8 fc st1 r in
      (st2, o1 ++ o2)
  end.

Definition writes (h : list op) : str :=
  flat_map (fun o => match o with Write s => s | Flush => [] end) h.

(* ghost: the characters an output accounts for *)
Definition out_raw (o : out) : str :=
  match o with
  | OEvent e => if ev_nl e then flat_map (fun l => l ++ [10]) (ev_raw e) else concat (ev_raw e)
  | OCrash _ _ => []
  end.

(* ------------------------------------------------------------------ Live / Progress: redirection of ONE stream
   `_enable_redirect_io` / `_disable_redirect_io` (rich/live.py, rich/progress.py; Status wraps a Live):
       enable : if self._redirect_X [and self._restore_X is None]:      <- rf_guard
                    self._restore_X = sys.X;  sys.X = FileProxy(self.console, sys.X)
       disable: if self._restore_X:  sys.X = self._restore_X  [; self._restore_X = None]   <- rf_reset
   (call-site facts gen/FileProxyFacts.v).  The console is a terminal and redirection is requested. *)
Record rfacts : Type := mkRF { rf_guard : bool; rf_reset : bool }.
Inductive stream : Type := SRaw | SProxy (n : nat).      (* the n-th FileProxy this display created *)
Record rstate : Type := mkRS { r_cur : stream; r_restore : option stream; r_made : nat }.
Definition r_init : rstate := mkRS SRaw None 0.

Definition r_enable (rf : rfacts) (st : rstate) : rstate :=
  if rf_guard rf && (match r_restore st with Some _ => true | None => false end) then st
  else mkRS (SProxy (r_made st)) (Some (r_cur st)) (S (r_made st)).
Definition r_disable (rf : rfacts) (st : rstate) : rstate :=
  match r_restore st with
  | Some r => mkRS r (if rf_reset rf then None else Some r) (r_made st)
  | None => st
  end.

(* one run of the display: start(), the history written to sys.X, stop() *)
Record run_obs : Type := mkRO {
  ro_proxy : bool;          (* sys.X is a FileProxy created by this start() *)
  ro_outs : list out;       (* console.print calls made for this stream during the run *)
  ro_pending : str;
  ro_restored : bool }.     (* after stop() sys.X is the original stream again *)

Definition fresh_proxy (before after : rstate) : bool :=
  match r_cur after with SProxy n => Nat.eqb n (r_made before) | SRaw => false end.
Definition is_raw (s : stream) : bool := match s with SRaw => true | SProxy _ => false end.

Fixpoint restart_runs (fix_d8 : bool) (fc : facts) (rf : rfacts) (st : rstate) (hs : list (list op)) : list run_obs :=
  match hs with
  | [] => []
  | h :: r =>
      let st1 := r_enable rf st in
      let st2 := r_disable rf st1 in
      let red := fresh_proxy st st1 in
      let '(p, outs) := if red then proxy_run fix_d8 fc p_init h else (p_init, []) in
      mkRO red outs (pending p) (is_raw (r_cur st2)) :: restart_runs fix_d8 fc rf st2 r
  end.
