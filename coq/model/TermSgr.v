(* TermSgr: an INDEPENDENT interpreter of the character stream a terminal receives, restricted to
   what decides how a printed character looks: SGR (ECMA-48 8.3.117 "SELECT GRAPHIC RENDITION",
   with the xterm/aixterm/ISO-8613-6 colour extensions documented in xterm's ctlseqs) and the OSC 8
   hyperlink convention.  Written from those documents, NOT from rich: nothing of rich's model is
   imported.  Definitions only, no proofs.  The Python twin is tools/sgrterm.py; the two are compared
   on random escape strings (op `sgr.interp`).

   State of the terminal: 13 rendition flags, foreground, background, current hyperlink.
   Output: one cell (character, flags, fg, bg, link) per character that is not part of a control
   sequence, in stream order.  There is no grid: C0/C1 format effectors other than the ones named
   below (LF, CR, TAB, ...) are passed through as cells carrying the rendition that is current.

   Recognised (7-bit forms and the 8-bit introducers CSI U+009B, OSC U+009D, ST U+009C):
     ESC [ P..P I..I F     control sequence: parameter bytes 0x30-0x3F, intermediate bytes 0x20-0x2F,
                           final byte 0x40-0x7E.  Only F = m with parameters made of digits and ';'
                           is SGR; every other control sequence is skipped without effect.
                           A character outside 0x20-0x7E aborts the sequence and is processed afresh.
     ESC ] text (BEL|ST)   operating system command.  text = 8 ; params ; uri  sets the hyperlink
                           (empty uri: no hyperlink); any other OSC is skipped.
     ESC P/X/^/_ text ST   DCS / SOS / PM / APC strings: skipped.
     ESC I..I F            other escape sequences (intermediates 0x20-0x2F, final 0x30-0x7E): skipped.
     BEL                   outside a string: no cell.
   SGR parameters (empty = 0): 0 reset; 1 bold, 2 faint, 3 italic, 4 underline, 5 slow blink,
   6 rapid blink, 7 negative, 8 conceal, 9 crossed-out, 21 double underline; 22 neither bold nor
   faint, 23 not italic, 24 not underlined (single or double), 25 steady, 27 positive, 28 revealed,
   29 not crossed-out; 30-37 / 40-47 the eight colours, 90-97 / 100-107 their bright versions
   (palette entries 8-15), 38/48 ; 5 ; n palette entry n (0..255), 38/48 ; 2 ; r ; g ; b direct
   colour, 39 / 49 default; 51 framed, 52 encircled, 53 overlined, 54 neither framed nor
   encircled, 55 not overlined.  Other parameters (fonts 10-20, 26, 50, 56-65, ...) are ignored.
   A malformed 38/48 group ends the processing of that sequence.  SGR 0 does not touch the hyperlink. *)
From RichModel Require Import Prelude.

(* ------------------------------------------------------------------ terminal state *)
Inductive tcolor : Type :=
| TDefault
| TIdx (n : Z)              (* entry of the 256-colour palette; 0..7 normal, 8..15 bright *)
| TRgb (r g b : Z).

(* flag positions *)
Definition F_BOLD := 0%nat.        Definition F_FAINT := 1%nat.      Definition F_ITALIC := 2%nat.
Definition F_UNDERLINE := 3%nat.   Definition F_BLINK := 4%nat.      Definition F_RAPID := 5%nat.
Definition F_NEGATIVE := 6%nat.    Definition F_CONCEAL := 7%nat.    Definition F_CROSSED := 8%nat.
Definition F_DUNDERLINE := 9%nat.  Definition F_FRAMED := 10%nat.    Definition F_ENCIRCLED := 11%nat.
Definition F_OVERLINED := 12%nat.
Definition N_FLAGS := 13%nat.

Record tstate : Type := mkT {
  t_flags : list bool;           (* always N_FLAGS long *)
  t_fg : tcolor;
  t_bg : tcolor;
  t_link : option str
}.

Record cell : Type := mkCell {
  ch : Z; ch_flags : list bool; ch_fg : tcolor; ch_bg : tcolor; ch_link : option str }.

Definition no_flags : list bool := repeat false N_FLAGS.
Definition t_reset : tstate := mkT no_flags TDefault TDefault None.

Fixpoint upd {A} (l : list A) (i : nat) (v : A) : list A :=
  match l, i with
  | [], _ => []
  | _ :: r, O => v :: r
  | x :: r, S i' => x :: upd r i' v
  end.

Definition set_flag (i : nat) (v : bool) (st : tstate) : tstate :=
  mkT (upd (t_flags st) i v) (t_fg st) (t_bg st) (t_link st).
Definition set_fg (c : tcolor) (st : tstate) : tstate := mkT (t_flags st) c (t_bg st) (t_link st).
Definition set_bg (c : tcolor) (st : tstate) : tstate := mkT (t_flags st) (t_fg st) c (t_link st).
Definition set_link (l : option str) (st : tstate) : tstate := mkT (t_flags st) (t_fg st) (t_bg st) l.
Definition clear_flags (is : list nat) (st : tstate) : tstate :=
  fold_left (fun s i => set_flag i false s) is st.

(* ------------------------------------------------------------------ SGR *)
Definition SGR_SET : list (Z * nat) :=
  [(1, F_BOLD); (2, F_FAINT); (3, F_ITALIC); (4, F_UNDERLINE); (5, F_BLINK); (6, F_RAPID);
   (7, F_NEGATIVE); (8, F_CONCEAL); (9, F_CROSSED); (21, F_DUNDERLINE);
   (51, F_FRAMED); (52, F_ENCIRCLED); (53, F_OVERLINED)].
Definition SGR_CLEAR : list (Z * list nat) :=
  [(22, [F_BOLD; F_FAINT]); (23, [F_ITALIC]); (24, [F_UNDERLINE; F_DUNDERLINE]);
   (25, [F_BLINK; F_RAPID]); (27, [F_NEGATIVE]); (28, [F_CONCEAL]); (29, [F_CROSSED]);
   (54, [F_FRAMED; F_ENCIRCLED]); (55, [F_OVERLINED])].

Fixpoint lookupZ {B} (k : Z) (l : list (Z * B)) : option B :=
  match l with [] => None | (k', v) :: r => if k' =? k then Some v else lookupZ k r end.

Definition between (lo hi z : Z) : bool := (lo <=? z) && (z <=? hi).

(* one parameter that stands alone (everything except 38 and 48) *)
Definition sgr1 (st : tstate) (p : Z) : tstate :=
  if p =? 0 then mkT no_flags TDefault TDefault (t_link st)
  else match lookupZ p SGR_SET with
  | Some i => set_flag i true st
  | None =>
    match lookupZ p SGR_CLEAR with
    | Some is => clear_flags is st
    | None =>
        if between 30 37 p then set_fg (TIdx (p - 30)) st
        else if p =? 39 then set_fg TDefault st
        else if between 40 47 p then set_bg (TIdx (p - 40)) st
        else if p =? 49 then set_bg TDefault st
        else if between 90 97 p then set_fg (TIdx (p - 90 + 8)) st
        else if between 100 107 p then set_bg (TIdx (p - 100 + 8)) st
        else st
    end
  end.

Definition set_ground (fg : bool) (c : tcolor) (st : tstate) : tstate :=
  if fg then set_fg c st else set_bg c st.

(* the parameter list of one SGR sequence, left to right *)
Fixpoint apply_sgr (st : tstate) (ps : list Z) : tstate :=
  match ps with
  | [] => st
  | p :: r =>
      if (p =? 38) || (p =? 48) then
        match r with
        | sel :: r1 =>
            if sel =? 5 then
              match r1 with
              | n :: r2 => apply_sgr (if between 0 255 n then set_ground (p =? 38) (TIdx n) st else st) r2
              | [] => st
              end
            else if sel =? 2 then
              match r1 with
              | cr :: cg :: cb :: r2 =>
                  apply_sgr (if between 0 255 cr && between 0 255 cg && between 0 255 cb
                             then set_ground (p =? 38) (TRgb cr cg cb) st else st) r2
              | _ => st
              end
            else st
        | [] => st
        end
      else apply_sgr (sgr1 st p) r
  end.

Definition is_digit (c : Z) : bool := between 48 57 c.

(* "1;;38;5;9" -> [1;0;38;5;9]   (characters are digits and ';' only) *)
Fixpoint parse_params_go (s : str) (cur : Z) : list Z :=
  match s with
  | [] => [cur]
  | c :: r => if c =? 59 then cur :: parse_params_go r 0 else parse_params_go r (cur * 10 + (c - 48))
  end.
Definition parse_params (s : str) : list Z := parse_params_go s 0.

Definition sgr_param_chars (s : str) : bool := forallb (fun c => is_digit c || (c =? 59)) s.

(* ------------------------------------------------------------------ OSC *)
Fixpoint split_at_semicolon (s : str) (acc : str) : option (str * str) :=   (* first ';' *)
  match s with
  | [] => None
  | c :: r => if c =? 59 then Some (rev acc, r) else split_at_semicolon r (c :: acc)
  end.

Definition osc_dispatch (st : tstate) (payload : str) : tstate :=
  match payload with
  | 56 :: 59 :: rest =>                       (* "8;" *)
      match split_at_semicolon rest [] with
      | Some (_params, uri) => set_link (match uri with [] => None | _ => Some uri end) st
      | None => st
      end
  | _ => st
  end.

(* ------------------------------------------------------------------ the parser *)
Inductive pmode : Type :=
| PGround
| PEsc                      (* after ESC *)
| PEscI                     (* ESC + intermediates, waiting for the final byte *)
| PCsi (buf : str)          (* parameter/intermediate bytes so far, reversed *)
| POsc (buf : str)          (* OSC text so far, reversed *)
| POscEsc (buf : str)       (* OSC text, then ESC *)
| PStr                      (* DCS/SOS/PM/APC text *)
| PStrEsc.

(* what one input character produces *)
Inductive event : Type :=
| EChar (c : cell)          (* a character reaches the screen *)
| ESgr (ps : list Z)        (* an SGR sequence with these parameters was executed *)
| ELink (st : option str)   (* an OSC 8 was executed *)
| EOther.                   (* some other control function was recognised (and skipped) *)

Definition ESCc : Z := 27.
Definition BELc : Z := 7.
Definition CSIc : Z := 155.
Definition OSCc : Z := 157.
Definition STc : Z := 156.

Definition mk_cell (st : tstate) (c : Z) : cell := mkCell c (t_flags st) (t_fg st) (t_bg st) (t_link st).

Definition ground (st : tstate) (c : Z) : pmode * tstate * list event :=
  if c =? ESCc then (PEsc, st, [])
  else if c =? CSIc then (PCsi [], st, [])
  else if c =? OSCc then (POsc [], st, [])
  else if c =? BELc then (PGround, st, [EOther])
  else (PGround, st, [EChar (mk_cell st c)]).

Definition after_esc (st : tstate) (c : Z) : pmode * tstate * list event :=
  if c =? 91 then (PCsi [], st, [])
  else if c =? 93 then (POsc [], st, [])
  else if (c =? 80) || (c =? 88) || (c =? 94) || (c =? 95) then (PStr, st, [])
  else if c =? ESCc then (PEsc, st, [])
  else if between 32 47 c then (PEscI, st, [])
  else (PGround, st, [EOther]).

Definition csi_dispatch (st : tstate) (buf : str) (final : Z) : tstate * list event :=
  if (final =? 109) && sgr_param_chars buf
  then let ps := parse_params buf in (apply_sgr st ps, [ESgr ps])
  else (st, [EOther]).

Definition osc_end (st : tstate) (buf : str) : pmode * tstate * list event :=
  let st' := osc_dispatch st (rev buf) in
  (PGround, st',
   match rev buf with 56 :: 59 :: _ => [ELink (t_link st')] | _ => [EOther] end).

Definition step (m : pmode) (st : tstate) (c : Z) : pmode * tstate * list event :=
  match m with
  | PGround => ground st c
  | PEsc => after_esc st c
  | PEscI =>
      if between 32 47 c then (PEscI, st, [])
      else if between 48 126 c then (PGround, st, [EOther])
      else ground st c
  | PCsi buf =>
      if between 32 63 c then (PCsi (c :: buf), st, [])
      else if between 64 126 c then
        let '(st', ev) := csi_dispatch st (rev buf) c in (PGround, st', ev)
      else ground st c
  | POsc buf =>
      if (c =? BELc) || (c =? STc) then osc_end st buf
      else if c =? ESCc then (POscEsc buf, st, [])
      else (POsc (c :: buf), st, [])
  | POscEsc buf =>
      if c =? 92 then osc_end st buf else after_esc st c
  | PStr =>
      if c =? STc then (PGround, st, [EOther])
      else if c =? ESCc then (PStrEsc, st, [])
      else (PStr, st, [])
  | PStrEsc =>
      if c =? 92 then (PGround, st, [EOther]) else after_esc st c
  end.

Fixpoint run (m : pmode) (st : tstate) (s : str) : pmode * tstate * list event :=
  match s with
  | [] => (m, st, [])
  | c :: r =>
      let '(m1, st1, ev1) := step m st c in
      let '(m2, st2, ev2) := run m1 st1 r in
      (m2, st2, ev1 ++ ev2)
  end.

Definition cells_of (ev : list event) : list cell :=
  flat_map (fun e => match e with EChar c => [c] | _ => [] end) ev.
Definition sgr_params_of (ev : list event) : list Z :=
  flat_map (fun e => match e with ESgr ps => ps | _ => [] end) ev.
Definition others_of (ev : list event) : nat :=
  length (filter (fun e => match e with EOther => true | _ => false end) ev).

Definition events (s : str) : list event := snd (run PGround t_reset s).
(* THE meaning of a stream: what each printed character looks like *)
Definition interp (s : str) : list cell := cells_of (events s).
Definition final_mode (s : str) : pmode := fst (fst (run PGround t_reset s)).
Definition final_state (s : str) : tstate := snd (fst (run PGround t_reset s)).

(* ------------------------------------------------------------------ equality tests *)
Definition tcolor_eqb (a b : tcolor) : bool :=
  match a, b with
  | TDefault, TDefault => true
  | TIdx n, TIdx m => n =? m
  | TRgb r g b, TRgb r' g' b' => (r =? r') && (g =? g') && (b =? b')
  | _, _ => false
  end.
Fixpoint flags_eqb (a b : list bool) : bool :=
  match a, b with
  | [], [] => true
  | x :: a', y :: b' => Bool.eqb x y && flags_eqb a' b'
  | _, _ => false
  end.
Definition link_eqb (a b : option str) : bool :=
  match a, b with None, None => true | Some x, Some y => str_eqb x y | _, _ => false end.
Definition cell_eqb (a b : cell) : bool :=
  (ch a =? ch b) && flags_eqb (ch_flags a) (ch_flags b) && tcolor_eqb (ch_fg a) (ch_fg b)
  && tcolor_eqb (ch_bg a) (ch_bg b) && link_eqb (ch_link a) (ch_link b).
Fixpoint cells_eqb (a b : list cell) : bool :=
  match a, b with
  | [], [] => true
  | x :: a', y :: b' => cell_eqb x y && cells_eqb a' b'
  | _, _ => false
  end.
Definition tstate_eqb (a b : tstate) : bool :=
  flags_eqb (t_flags a) (t_flags b) && tcolor_eqb (t_fg a) (t_fg b) && tcolor_eqb (t_bg a) (t_bg b)
  && link_eqb (t_link a) (t_link b).
Definition is_ground (m : pmode) : bool := match m with PGround => true | _ => false end.
