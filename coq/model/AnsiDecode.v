(* L4 decoder: rich/ansi.py (_ansi_tokenize, SGR_STYLE_MAP, AnsiDecoder).   Definitions only, no proofs.

   Regexes as deterministic scanners (sources pinned in proofs/AnsiDecodeP.v against gen/AnsiRegex.v):

   re_ansi = (?:\x1b\[(.*?)m)|(?:\x1b\](.*?)\x1b\\)         used with finditer
     Both alternatives start with ESC and differ in the second character, so at a given start at most
     one applies.  `(.*?)` is lazy and is followed by a literal: the match ends at the FIRST `m`
     (resp. the first ESC `\`) after the introducer, provided no `\n` lies in between (`.` does not
     match a newline, no DOTALL).  If the terminator is not found the alternative fails at this
     start and the scan moves one character on (the ESC becomes plain text).  Matches are never
     empty, so finditer resumes exactly at the end of the previous match.

   re_csi = \x1B(?:[@-Z\\-_]|\[[0-?]*[ -/]*[@-~])             used with sub("", .)
     After ESC: one character of 0x40-0x5A / 0x5C-0x5F; or `[`, the longest run of 0x30-0x3F, the
     longest run of 0x20-0x2F, one character of 0x40-0x7E.  The three classes are pairwise disjoint,
     so giving back characters of a greedy run can never make the next item match: no backtracking
     is observable and the greedy runs are simply maximal.

   Interpreter facts (gen/AnsiRegex.v, from the running CPython): the code points str.isdigit
   accepts (ISDIGIT_RANGES); int() accepts a non-empty isdigit string iff all its characters are
   decimal digits (Nd) and it has at most INT_MAX_STR_DIGITS characters (checked by the translator);
   the str.splitlines boundaries.

   [fix_d8 = false] is rich 9.10.0 as found: `int(_code)` for every `_code.isdigit()` -- ValueError
   escapes for "²" or > 4300 digits (DESIGN D8).  [fix_d8 = true] is the proposed repair (such a
   parameter is ignored, like every other parameter that is not a number).

   Text is represented by the list of appended pieces (text after strip_control_codes, style or
   None); [text_of] gives rich's (plain, spans) view. *)
From RichModel Require Import Prelude Color Style.
From RichGen Require Import AnsiRegex SgrMap.

Inductive token : Type :=
| TPlain (p : str)     (* _AnsiToken(plain)            -- plain may be "" after remove_csi *)
| TSgr (g : str)       (* _AnsiToken("", sgr, None) *)
| TOsc (g : str).      (* _AnsiToken("", None, osc) *)

(* ------------------------------------------------------------------ re_csi.sub("", .) *)
Definition in_rng (lo hi c : Z) : bool := (lo <=? c) && (c <=? hi).
Fixpoint skip_class (lo hi : Z) (s : str) : str :=
  match s with
  | [] => []
  | c :: r => if in_rng lo hi c then skip_class lo hi r else s
  end.
(* the text after an ESC: Some rest when re_csi matches at that ESC *)
Definition csi_match (r : str) : option str :=
  match r with
  | [] => None
  | c :: r1 =>
      if in_rng 64 90 c || in_rng 92 95 c then Some r1
      else if c =? 91 then
        match skip_class 32 47 (skip_class 48 63 r1) with
        | f :: rest => if in_rng 64 126 f then Some rest else None
        | [] => None
        end
      else None
  end.
(* fuel >= length s suffices (proofs/AnsiDecodeP.v); every round consumes at least one character *)
Fixpoint remove_csi_go (fuel : nat) (s : str) : str :=
  match fuel with
  | O => s
  | S f =>
    match s with
    | [] => []
    | c :: r =>
        if c =? 27 then
          match csi_match r with
          | Some rest => remove_csi_go f rest
          | None => c :: remove_csi_go f r
          end
        else c :: remove_csi_go f r
    end
  end.
Definition remove_csi (s : str) : str := remove_csi_go (length s) s.

(* ------------------------------------------------------------------ re_ansi.finditer *)
(* after "ESC[" : (group, text after the `m`) *)
Fixpoint find_m (s : str) : option (str * str) :=
  match s with
  | [] => None
  | c :: r =>
      if c =? 109 then Some ([], r)
      else if c =? 10 then None
      else match find_m r with Some (g, rest) => Some (c :: g, rest) | None => None end
  end.
(* after "ESC]" : (group, text after ESC \) *)
Fixpoint find_st (s : str) : option (str * str) :=
  match s with
  | [] => None
  | c :: r =>
      match (if c =? 27 then match r with d :: r' => if d =? 92 then Some r' else None | [] => None end
             else None) with
      | Some rest => Some ([], rest)
      | None =>
          if c =? 10 then None
          else match find_st r with Some (g, rest) => Some (c :: g, rest) | None => None end
      end
  end.

(* `if start > position: yield _AnsiToken(remove_csi(text[position:start]))` ; acc is reversed *)
Definition plain_tok (acc : str) : list token :=
  match acc with [] => [] | _ => [TPlain (remove_csi (rev acc))] end.

Fixpoint tokenize_go (fuel : nat) (s : str) (acc : str) : list token :=
  match fuel with
  | O => []
  | S f =>
    match s with
    | [] => plain_tok acc
    | c :: r =>
        if c =? 27 then
          match r with
          | d :: r2 =>
              if d =? 91 then
                match find_m r2 with
                | Some (g, rest) => plain_tok acc ++ TSgr g :: tokenize_go f rest []
                | None => tokenize_go f r (c :: acc)
                end
              else if d =? 93 then
                match find_st r2 with
                | Some (g, rest) => plain_tok acc ++ TOsc g :: tokenize_go f rest []
                | None => tokenize_go f r (c :: acc)
                end
              else tokenize_go f r (c :: acc)
          | [] => tokenize_go f r (c :: acc)
          end
        else tokenize_go f r (c :: acc)
    end
  end.
Definition tokenize (s : str) : list token := tokenize_go (S (length s)) s [].

(* ------------------------------------------------------------------ SGR parameters *)
Definition is_digit_char (c : Z) : bool :=
  existsb (fun p => (fst p <=? c) && (c <=? snd p)) ISDIGIT_RANGES.
(* str.isdigit *)
Definition py_isdigit (s : str) : bool :=
  match s with [] => false | _ => forallb is_digit_char s end.

(* codes = [min(255, int(_code)) for _code in sgr.split(";") if _code.isdigit()] *)
Fixpoint sgr_codes (fix_d8 : bool) (parts : list str) : res (list Z) :=
  match parts with
  | [] => Ok []
  | p :: r =>
      if py_isdigit p then
        match py_int_digits p with
        | Some n => do cs <- sgr_codes fix_d8 r; Ok (Z.min 255 n :: cs)
        | None => if fix_d8 then sgr_codes fix_d8 r else Crash K_ValueError
        end
      else sgr_codes fix_d8 r
  end.

(* Style.from_color(color, bgcolor) -- local copy (Style.v's helper is not part of its frozen core) *)
Definition dec_from_color (color bgcolor : option color) : style :=
  mkStyle color bgcolor 0 0 None
          (match color, bgcolor with None, None => true | _, _ => false end)
          (mkHKey color bgcolor None None None) None None.
(* Style.update_link(link): a copy with the link replaced; never flagged null *)
Definition dec_update_link (s : style) (link : option str) : style :=
  mkStyle (s_color s) (s_bgcolor s) (s_attributes s) (s_set_attributes s) link
          false (s_hash s) (s_ansi s) (s_def s).

(* the `for code in iter_codes` loop with its inner next(iter_codes) calls; a StopIteration inside
   `with suppress(StopIteration)` leaves the iterator exhausted, so the loop ends *)
Fixpoint apply_codes (codes : list Z) (st : style) : res style :=
  match codes with
  | [] => Ok st
  | code :: rest =>
    if code =? 0 then apply_codes rest style_null
    else match assoc_Z code SGR_STYLE_MAP with
    | Some def => do p <- style_parse def; apply_codes rest (style_add st p)
    | None =>
      if (code =? 38) || (code =? 48) then
        let mk := fun c : color =>
          if code =? 38 then dec_from_color (Some c) None else dec_from_color None (Some c) in
        match rest with
        | [] => Ok st
        | ct :: rest1 =>
            if ct =? 5 then
              match rest1 with
              | [] => Ok st
              | n :: rest2 => apply_codes rest2 (style_add st (mk (from_ansi n)))
              end
            else if ct =? 2 then
              match rest1 with
              | r :: g :: b :: rest2 => apply_codes rest2 (style_add st (mk (from_rgb r g b)))
              | _ => Ok st
              end
            else apply_codes rest1 st
        end
      else apply_codes rest st
    end
  end.

(* osc.startswith("8;"): _params, semicolon, link = osc[2:].partition(";") *)
Fixpoint partition_semi (s : str) : option (str * str) :=
  match s with
  | [] => None
  | c :: r =>
      if c =? 59 then Some ([], r)
      else match partition_semi r with Some (a, b) => Some (c :: a, b) | None => None end
  end.
Definition apply_osc (g : str) (st : style) : style :=
  match g with
  | 56 :: 59 :: rest =>
      match partition_semi rest with
      | Some (_, link) => dec_update_link st (match link with [] => None | _ => Some link end)
      | None => st
      end
  | _ => st
  end.

(* ------------------------------------------------------------------ decode_line *)
Definition piece : Type := (str * option style)%type.

Definition strip_codes (s : str) : str := filter (fun c => negb (mem_Z c DEC_STRIP_CODES)) s.
(* line.rsplit("\r", 1)[-1] *)
Definition after_last_cr (s : str) : str :=
  rev (fold_left (fun acc c => if c =? 13 then [] else c :: acc) s []).

(* one token: new decoder style, appended piece *)
Definition step (fix_d8 : bool) (st : style) (t : token) : res (style * option piece) :=
  match t with
  | TPlain [] => Ok (st, None)
  | TPlain p => Ok (st, Some (strip_codes p, if style_bool st then Some st else None))
  | TOsc [] => Ok (st, None)
  | TOsc g => Ok (apply_osc g st, None)
  | TSgr [] => Ok (st, None)
  | TSgr g =>
      do codes <- sgr_codes fix_d8 (split_on 59 g);
      do st' <- apply_codes codes st;
      Ok (st', None)
  end.

Definition opt_cons {A} (o : option A) (l : list A) : list A :=
  match o with Some x => x :: l | None => l end.

(* -> (decoder style afterwards -- also when an exception escapes --, appended pieces) *)
Fixpoint decode_tokens (fix_d8 : bool) (toks : list token) (st : style) : style * res (list piece) :=
  match toks with
  | [] => (st, Ok [])
  | t :: r =>
      match step fix_d8 st t with
      | Ok (st', p) =>
          let '(s2, rr) := decode_tokens fix_d8 r st' in
          (s2, match rr with Ok ps => Ok (opt_cons p ps) | Doc e => Doc e | Crash k => Crash k end)
      | Doc e => (st, Doc e)
      | Crash k => (st, Crash k)
      end
  end.

Definition decode_line (fix_d8 : bool) (st : style) (line : str) : style * res (list piece) :=
  decode_tokens fix_d8 (tokenize (after_last_cr line)) st.

(* successive decode_line calls on one decoder; stops at the first exception *)
Fixpoint decode_lines (fix_d8 : bool) (st : style) (lines : list str) : style * res (list (list piece)) :=
  match lines with
  | [] => (st, Ok [])
  | l :: r =>
      match decode_line fix_d8 st l with
      | (st', Ok ps) =>
          let '(s2, rr) := decode_lines fix_d8 st' r in
          (s2, match rr with Ok pss => Ok (ps :: pss) | Doc e => Doc e | Crash k => Crash k end)
      | (st', Doc e) => (st', Doc e)
      | (st', Crash k) => (st', Crash k)
      end
  end.

(* ------------------------------------------------------------------ str.splitlines, decode *)
Definition is_line_boundary (c : Z) : bool := mem_Z c LINE_BOUNDARIES.
Fixpoint splitlines_go (s : str) (cur : str) : list str :=
  match s with
  | [] => match cur with [] => [] | _ => [rev cur] end
  | c :: r =>
      if c =? 13 then
        match r with
        | 10 :: r' => rev cur :: splitlines_go r' []
        | _ => rev cur :: splitlines_go r []
        end
      else if (c =? 10) || is_line_boundary c then rev cur :: splitlines_go r []
      else splitlines_go r (c :: cur)
  end.
Definition splitlines (s : str) : list str := splitlines_go s [].

(* list(AnsiDecoder().decode(text)) *)
Definition decode (fix_d8 : bool) (st : style) (text : str) : style * res (list (list piece)) :=
  decode_lines fix_d8 st (splitlines text).

(* ------------------------------------------------------------------ rich's view of the Text *)
Fixpoint spans_of (ps : list piece) (off : Z) : list (Z * Z * style) :=
  match ps with
  | [] => []
  | (p, o) :: r =>
      let e := off + zlen p in
      match o with
      | Some s => (off, e, s) :: spans_of r e
      | None => spans_of r e
      end
  end.
Definition plain_of (ps : list piece) : str := flat_map fst ps.
