(* wire glue for the layout layer (C01 / C09) *)
From RichModel Require Import Prelude Cells Segments Frames Layout SpecLayout.
From RichModel Require Table Wrap.

Definition tOZ (t : tree) : option Z := tOpt tZ t.
Definition tOB (t : tree) : option bool := tOpt tB t.
Definition t4 (t : tree) : Z * Z * Z * Z := (tZ (tNth t 0), tZ (tNth t 1), tZ (tNth t 2), tZ (tNth t 3)).

(* [box, edge, header, footer, lines, leading, [pt,pr,pb,pl], collapse, pad_edge, expand, width?, minw?] *)
Definition tTOpts (t : tree) : Table.topts :=
  Table.mkOpts (tB (tNth t 0)) (tB (tNth t 1)) (tB (tNth t 2)) (tB (tNth t 3)) (tB (tNth t 4)) (tZ (tNth t 5))
               (t4 (tNth t 6)) (tB (tNth t 7)) (tB (tNth t 8)) (tB (tNth t 9)) (tOZ (tNth t 10)) (tOZ (tNth t 11)).

(* [header, footer, justify, overflow, nowrap, width?, minw?, maxw?, ratio?] *)
Definition tColSpec (t : tree) : colspec :=
  mkColSpec (tStr (tNth t 0)) (tStr (tNth t 1)) (tZ (tNth t 2)) (tZ (tNth t 3)) (tB (tNth t 4))
            (tOZ (tNth t 5)) (tOZ (tNth t 6)) (tOZ (tNth t 7)) (tOZ (tNth t 8)).

(* [topts, box?, title, caption, cols, es] *)
Definition tTblSpec (t : tree) : tblspec :=
  mkTblSpec (tTOpts (tNth t 0)) (tOZ (tNth t 1)) (tStr (tNth t 2)) (tStr (tNth t 3))
            (tList tColSpec (tNth t 4)) (tList tB (tNth t 5)).

(* [[t,r,b,l], expand, equal, cf, rtl, align?, title] *)
Definition tColsOpts (t : tree) : colsopts :=
  mkColsOpts (t4 (tNth t 0)) (tB (tNth t 1)) (tB (tNth t 2)) (tB (tNth t 3)) (tB (tNth t 4))
             (tOZ (tNth t 5)) (tStr (tNth t 6)).

(* [[box, safe, legacy, ascii], title, talign, expand, width?, [t,r,b,l]] *)
Definition tPanelOpts (t : tree) : panel_opts :=
  let b := tNth t 0 in
  mkPanel (tZ (tNth b 0)) (tB (tNth b 1)) (tB (tNth b 2)) (tB (tNth b 3))
          (tStr (tNth t 1)) (tZ (tNth t 2)) (tB (tNth t 3)) (tOZ (tNth t 4)) (t4 (tNth t 5)) None None.

(* renderable trees: [tag, fields...] (see tools/corr/l_layout.py) *)
Fixpoint tR (fuel : nat) (t : tree) : R :=
  match fuel with
  | O => Txt [] None None None
  | S f =>
      let a := tNth t 1 in
      let k := tZ (tNth t 0) in
      if k =? 0 then Txt (tStr a) (tOZ (tNth t 2)) (tOZ (tNth t 3)) (tOB (tNth t 4))
      else if k =? 1 then Pad (tR f a) (tZ (tNth t 2)) (tZ (tNth t 3)) (tZ (tNth t 4)) (tZ (tNth t 5)) (tB (tNth t 6))
      else if k =? 2 then Panel (tR f a) (tPanelOpts (tNth t 2))
      else if k =? 3 then Align (tR f a) (tZ (tNth t 2)) (tB (tNth t 3)) (tOZ (tNth t 4))
      else if k =? 4 then Constrain (tR f a) (tOZ (tNth t 2))
      else if k =? 5 then Styled (tR f a)
      else if k =? 6 then Group (map (tR f) (tL a)) (tB (tNth t 2))
      else if k =? 7 then Rule (tStr a) (tStr (tNth t 2)) (tZ (tNth t 3))
      else if k =? 8 then Bar (tZ a) (tZ (tNth t 2)) (tZ (tNth t 3)) (tOZ (tNth t 4))
      else if k =? 9 then PBar (tZ a) (tZ (tNth t 2)) (tOZ (tNth t 3)) (tB (tNth t 4)) (tZ (tNth t 5))
      else if k =? 10 then Tbl (tTblSpec a) (map (fun row => map (tR f) (tL row)) (tL (tNth t 2)))
      else if k =? 11 then Cols (map (tR f) (tL a)) (tColsOpts (tNth t 2))
      else if k =? 12 then Tree (tR f a) (map (tR f) (tL (tNth t 2))) (tB (tNth t 3))
      else if k =? 13 then NoMeasure (tR f a)
      else Cast (tR f a)
  end.
Definition tRR (t : tree) : R := tR 40 t.

(* [cW, fix_d20, has_color?]  (a missing third field = no colour system) *)
Definition tCfg (t : tree) : cfg := mkCfgC (tZ (tNth t 0)) (tB (tNth t 1)) (tB (tNth t 2)).

Definition ofLinesText (ls : list line) : tree := ofList (fun l => ofStr (line_text l)) ls.
Definition ofM (m : Z * Z) : tree := L [I (fst m); I (snd m)].
Definition tM (t : tree) : Z * Z := (tZ (tNth t 0), tZ (tNth t 1)).
Definition tStrs (t : tree) : list str := tList tStr t.

(* outcome class only: Ok -> [0,[]] *)
Definition classOnly {A} (r : res A) : tree :=
  match r with Ok _ => L [I 0; L []] | Doc e => L [I 1; I e] | Crash k => L [I 2; I k] end.

(* c01  [cfg, R, W, classes_only]       -> list(Segment.split_lines(console.render(r, width=W))) as line texts
   c09  [cfg, R, avail, classes_only]   -> [Measurement.get(console, r, avail), [render at the reported maximum,
                                            render at the reported minimum]] *)
Definition enc (co : bool) (x : res (list line)) : tree := if co then classOnly x else ofRes ofLinesText x.

Definition c01_of (t : tree) : tree :=
  enc (tB (tNth t 3)) (render (tCfg (tNth t 0)) (tRR (tNth t 1)) ro0 (tZ (tNth t 2))).

Definition c09_of (t : tree) : tree :=
  let cf := tCfg (tNth t 0) in
  let r := tRR (tNth t 1) in
  let co := tB (tNth t 3) in
  let m := measure cf r (tZ (tNth t 2)) in
  L [(if co then classOnly m else ofRes ofM m);
     match m with
     | Ok (mn, mx) => L [enc co (render cf r ro0 mx); enc co (render cf r ro0 mn)]
     | _ => L []
     end].

(* ---- histories on ONE Text instance (C09): the plain string after an in-place edit.  In the functional model
   a measurement is a function of the current value; that the implementation keeps no stale memo across in-place
   edits is tied by this correspondence (measure, edit, measure again on the same object).
   edit = [kind, payload]: 0 append(str) 1 append_text(Text) 7 append_tokens([(str, None)]) -> plain ++ payload;
   2 pad(n) 3 pad_left(n) 4 pad_right(n); 5 stylize (no change); 6 truncate(n, "crop", pad) payload [n, pad];
   8 right_crop(n); 9 the plain setter *)
Definition apply_edit (s : str) (e : tree) : str :=
  let k := tZ (tNth e 0) in
  let p := tNth e 1 in
  if (k =? 0) || (k =? 1) || (k =? 7) then s ++ tStr p
  else if k =? 2 then (if 0 <? tZ p then py_repeat SP (tZ p) ++ s ++ py_repeat SP (tZ p) else s)
  else if k =? 3 then (if 0 <? tZ p then py_repeat SP (tZ p) ++ s else s)
  else if k =? 4 then s ++ py_repeat SP (tZ p)
  else if k =? 5 then s
  else if k =? 6 then
    @Wrap.plain unit (Wrap.truncate unit (tZ (tNth p 0)) Wrap.OV_CROP (tB (tNth p 1)) (Wrap.mkText s [] tt))
  else if k =? 8 then firstn (Z.to_nat (Z.max 0 (zlen s - tZ p))) s
  else tStr p.

Fixpoint hist_plains (s : str) (es : list tree) : list str :=
  match es with [] => [s] | e :: r => s :: hist_plains (apply_edit s e) r end.

(* [cfg, s0, edits, avail]: after every step [plain, Text.__rich_measure__]; for the final value: the Text itself and a
   fitted Panel around it (built BEFORE the edits on the implementation side), each [Measurement.get at avail,
   [lines at the maximum, lines at the minimum]] *)
Definition panel_fit (r : R) : R := Panel r (mkPanel 3 true false false [] 1 false None (0, 1, 0, 1) None None).
Definition c09_hist_of (t : tree) : tree :=
  let cf := tCfg (tNth t 0) in
  let plains := hist_plains (tStr (tNth t 1)) (tL (tNth t 2)) in
  let final := last plains [] in
  let avail := tZ (tNth t 3) in
  let obs (r : R) :=
    let m := measure cf r avail in
    L [ofRes ofM m;
       match m with
       | Ok (mn, mx) => L [enc false (render cf r ro0 mx); enc false (render cf r ro0 mn)]
       | _ => L []
       end] in
  L [ofList (fun s => L [ofStr s; ofM (text_measure (fix_d20 cf) s)]) plains;
     obs (Txt final None None None);
     obs (panel_fit (Txt final None None None))].

Definition ops : list (string * (tree -> tree)) := [
  ("c01", c01_of);
  ("c09", c09_of);
  ("c09_hist", c09_hist_of);
  (* [cfg, R, max_width?]: Measurement.get(console, r) with max_width omitted ([] = None = console width) or given *)
  ("c09_get", fun t => ofRes ofM (measure_opt (tCfg (tNth t 0)) (tRR (tNth t 1)) (tOZ (tNth t 2))));
  (* [cfg, R, W]: the same rendering as c01, for the UNGUARDED checker spec.fits (known-finding witnesses only;
     no generator emits it) *)
  ("fits_raw", fun t => enc false (render (tCfg (tNth t 0)) (tRR (tNth t 1)) ro0 (tZ (tNth t 2))));
  ("smin", fun t => L [I (smin (tRR t)); ofB (wrappable (tRR t)); I (table_depth (tRR t))]);
  (* [s, fix]: Text.__rich_measure__ *)
  ("text_measure", fun t => ofM (text_measure (tB (tNth t 1)) (tStr (tNth t 0))));
  (* [s, fix, justify?, overflow?]: the lines of the text rendered at its own measured maximum *)
  ("text_at_max", fun t =>
      let s := tStr (tNth t 0) in
      let mx := snd (text_measure (tB (tNth t 1)) s) in
      if mx <? 1 then L []
      else ofLinesText (split_lines (text_stream s (tOZ (tNth t 2)) (tOZ (tNth t 3)) None ro0 mx)));
  (* ---- spec-level checkers on the implementation's output *)
  (* [R, W, lines]: W >= smin r -> wrappable r -> fits *)
  ("spec.fits_dom", fun t =>
      let r := tRR (tNth t 0) in
      ofB (if (smin r <=? tZ (tNth t 1)) && wrappable r then fits_b (tZ (tNth t 1)) (tStrs (tNth t 2)) else true));
  ("spec.fits", fun t => ofB (fits_b (tZ (tNth t 0)) (tStrs (tNth t 1))));
  ("spec.meas_bounds", fun t => ofB (meas_bounds_b (tZ (tNth t 0)) (tM (tNth t 1))));
  (* [R, [mn,mx], lines at mx, lines at mn] *)
  ("spec.meas_sound_dom", fun t =>
      let r := tRR (tNth t 0) in
      ofB (if wrappable r then meas_sound_b (smin r) (tM (tNth t 1)) (tStrs (tNth t 2)) (tStrs (tNth t 3)) else true));
  ("spec.text_meas", fun t => ofB (text_meas_b (tStr (tNth t 0)) (tM (tNth t 1))));
  ("spec.not_wrapped", fun t => ofB (not_wrapped_b (tStr (tNth t 0)) (tStrs (tNth t 1))))
].
