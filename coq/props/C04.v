(* C04 -- Markup styles exactly the tagged regions, and escape() neutralises any text.
   Only property theorems live here; each is closed by `exact` and followed by Print Assumptions.

   Reading guide.  render cc norm E asis m  models rich.markup.render(m):
     cc   = control.STRIP_CONTROL_CODES (every Text drops these code points; regenerated from /repo),
     norm = Style.normalize (oracle: any function), E = _emoji_replace (id_str = emoji off),
     asis = true: rich 9.10.0 as found (sorted(spans)); false: Text.spans in opening order
            (fixes/C04_span_order.diff).
   Documents: doc = list (Open name params | Close name | CloseTop | Lit s), flatten writes
   Lit s as escape(s).  doc_ok = names are spellable as tags, every literal meets the side
   conditions of the property text (lit_ok: no trailing backslash, every '[' closed by a later ']').
   sem = meaning of a document: each character with the tokens of the tags open at that point,
   in opening order (the last one takes precedence); None = a closing tag had nothing to close. *)
From RichModel Require Import Prelude Markup SpecMarkup.
From RichGen Require Import MarkupRegex.
From RichProofs Require Import MarkupP MarkupP2 MarkupP3 MarkupP4 MarkupP5.

(* (0) the scanners were written for exactly the regexes that /repo contains today *)
Theorem C04_regex_sources_pinned :
  RE_TAGS_src = lit "((\\*)\[([a-z#\/].*?)\])" /\ RE_TAGS_flags = [lit "VERBOSE"]
  /\ ESCAPE_src = lit "(\\*)(\[[a-z#\/].*?\])" /\ ESCAPE_flags = []
  /\ ESCAPE_template = lit "{backslashes}{backslashes}\{text}".
Proof. exact (conj re_tags_src_ok (conj re_tags_flags_ok (conj escape_src_ok (conj escape_flags_ok escape_template_ok)))). Qed.
Print Assumptions C04_regex_sources_pinned.

(* (1) escape_verbatim: for EVERY string s, rendering escape(s) gives back s with no styling
   (minus the control codes that Text drops from any text) -- both span orders, any normalize *)
Theorem C04_escape_verbatim : forall cc norm asis s,
  render cc norm id_str asis (escape s) = Ok (strip_cc cc s, []).
Proof. exact escape_verbatim. Qed.
Print Assumptions C04_escape_verbatim.

Theorem C04_escape_verbatim_checker : forall cc norm asis s,
  escape_verbatim_b cc s (render cc norm id_str asis (escape s)) = true.
Proof. exact escape_verbatim_checker. Qed.
Print Assumptions C04_escape_verbatim_checker.

Example C04_escape_verbatim_nonvacuous :
  escape (lit "\\[a]\[/][b") = lit "\\\\\[a]\\\[/][b"
  /\ render STRIP_CONTROL_CODES norm_default id_str false (lit "\\\\\[a]\\\[/][b") = Ok (lit "\\[a]\[/][b", []).
Proof. vm_compute. split; reflexivity. Qed.

(* (2) escape_embedded: between a markup prefix without trailing backslash and with closed
   brackets, and ANY suffix, escape(s) (s: same two side conditions) is the one literal text s *)
Theorem C04_escape_embedded : forall cc norm asis pre s post, lit_ok pre = true -> lit_ok s = true ->
  render cc norm id_str asis (pre ++ escape s ++ post)
  = render_toks cc norm asis (parse pre ++ TText s :: parse post).
Proof. exact escape_embedded. Qed.
Print Assumptions C04_escape_embedded.

Example C04_escape_embedded_nonvacuous :
  lit_ok (lit "[b]x") = true /\ lit_ok (lit "[/]\[y]") = true
  /\ render STRIP_CONTROL_CODES norm_default id_str false (lit "[b]x" ++ escape (lit "[/]\[y]") ++ lit "[/b]z")
     = Ok (lit "x[/]\[y]z", [(0%nat, 8%nat, lit "bold")]).
Proof. vm_compute. repeat split; reflexivity. Qed.

(* each side condition is needed *)
Definition emb_lhs pre s post := render STRIP_CONTROL_CODES norm_default id_str false (pre ++ escape s ++ post).
Definition emb_rhs pre s post := render_toks STRIP_CONTROL_CODES norm_default false (parse pre ++ TText s :: parse post).
Example C04_embedded_needs_s_no_trailing_backslash :   (* s = \   followed by [a] *)
  emb_lhs [] (lit "\") (lit "[a]") = Ok (lit "[a]", []) /\ emb_rhs [] (lit "\") (lit "[a]") = Ok (lit "\", [(1%nat, 1%nat, lit "a")]).
Proof. vm_compute. split; reflexivity. Qed.
Example C04_embedded_needs_s_brackets_closed :        (* s = [a   followed by ] *)
  emb_lhs [] (lit "[a") (lit "]") = Ok ([], [(0%nat, 0%nat, lit "a")]) /\ emb_rhs [] (lit "[a") (lit "]") = Ok (lit "[a]", []).
Proof. vm_compute. split; reflexivity. Qed.
Example C04_embedded_needs_pre_no_trailing_backslash : (* pre = \   s = [a] *)
  emb_lhs (lit "\") (lit "[a]") [] = Ok (lit "\", [(1%nat, 1%nat, lit "a")]) /\ emb_rhs (lit "\") (lit "[a]") [] = Ok (lit "\[a]", []).
Proof. vm_compute. split; reflexivity. Qed.
Example C04_embedded_needs_pre_brackets_closed :       (* pre = [a   s = x] *)
  emb_lhs (lit "[a") (lit "x]") [] = Ok ([], [(0%nat, 0%nat, lit "ax")]) /\ emb_rhs (lit "[a") (lit "x]") [] = Ok (lit "[ax]", []).
Proof. vm_compute. split; reflexivity. Qed.

(* (3) render_styles: after the repair, every character of the rendered text is covered by
   exactly the tags open at that point, in opening order (later wins); unclosed tags run to the
   end; [/name] closes the most recent tag of that (normalised) name, [/] the most recent tag *)
Theorem C04_render_styles : forall cc norm d t, doc_ok d = true ->
  render cc norm id_str false (flatten d) = Ok t -> markup_ok_b cc norm d t = true.
Proof. exact render_styles. Qed.
Print Assumptions C04_render_styles.

(* the plain text is the concatenation of the literals *)
Theorem C04_render_plain : forall cc norm d t out, doc_ok d = true ->
  render cc norm id_str false (flatten d) = Ok t -> sem cc norm d = Some out -> fst t = map fst out.
Proof. exact render_plain. Qed.
Print Assumptions C04_render_plain.

Definition demo_doc : doc :=   (* [bold][red]a[/bold]b[blue]c[/][i]d  -- overlapping closes, unclosed tags *)
  [Open (lit "bold") None; Open (lit "red") None; Lit (lit "a"); Close (lit "bold"); Lit (lit "b");
   Open (lit "blue") None; Lit (lit "c"); CloseTop; Open (lit "i") None; Lit (lit "d")].
Example C04_render_styles_nonvacuous :
  doc_ok demo_doc = true
  /\ sem STRIP_CONTROL_CODES norm_default demo_doc
     = Some [(97, [lit "bold"; lit "red"]); (98, [lit "red"]); (99, [lit "red"; lit "blue"]); (100, [lit "red"; lit "i"])]
  /\ exists t, render STRIP_CONTROL_CODES norm_default id_str false (flatten demo_doc) = Ok t.
Proof. vm_compute. repeat split; try reflexivity. eexists. reflexivity. Qed.

(* ... and it is FALSE of rich 9.10.0 as found (DESIGN D3): sorted(spans) orders spans that start at
   the same offset by end, then by style string -- [red][blue]x[/][/] renders red although blue was
   opened later.  The witness replayed on the implementation is corpus/markup/d3_nested_same_start.json *)
Theorem C04_render_styles_asis_refuted : exists d t,
  doc_ok d = true
  /\ render STRIP_CONTROL_CODES norm_default id_str true (flatten d) = Ok t
  /\ markup_ok_b STRIP_CONTROL_CODES norm_default d t = false
  /\ covering (snd t) 0 = [lit "blue"; lit "red"].
Proof.
  exists [Open (lit "red") None; Open (lit "blue") None; Lit (lit "x"); CloseTop; CloseTop].
  eexists. vm_compute. repeat split; reflexivity.
Qed.
Print Assumptions C04_render_styles_asis_refuted.

(* (4) MarkupError exactly when a closing tag has nothing to close; no other failure *)
Theorem C04_markup_error_iff : forall cc norm d, doc_ok d = true ->
  (render cc norm id_str false (flatten d) = Doc E_MarkupError <-> sem cc norm d = None).
Proof. exact markup_error_iff. Qed.
Print Assumptions C04_markup_error_iff.

Theorem C04_error_iff_checker : forall cc norm d, doc_ok d = true ->
  error_iff_b cc norm d (render cc norm id_str false (flatten d)) = true.
Proof. exact error_iff_checker. Qed.
Print Assumptions C04_error_iff_checker.

Example C04_markup_error_nonvacuous :
  sem STRIP_CONTROL_CODES norm_default [Open (lit "b") None; Close (lit "bold"); CloseTop] = None
  /\ render STRIP_CONTROL_CODES norm_default id_str false (lit "[b][/bold][/]") = Doc E_MarkupError
  /\ render STRIP_CONTROL_CODES norm_default id_str false (lit "[b][/ bold ]") = Ok ([], [(0%nat, 0%nat, lit "bold")]).
Proof. vm_compute. repeat split; reflexivity. Qed.

(* (5) emoji=True: _emoji_replace is an oracle E of which only "identity on text without ':'" is
   used; on colon-free markup every statement above holds with emoji on *)
Theorem C04_emoji_on_colon_free : forall cc norm E,
  (forall t, ~ In MarkupP5.COLON t -> E t = t) -> forall asis m, ~ In MarkupP5.COLON m ->
  render cc norm E asis m = render cc norm id_str asis m.
Proof. exact MarkupP5.render_emoji_colon_free. Qed.
Print Assumptions C04_emoji_on_colon_free.
