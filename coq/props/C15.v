(* C15 -- Recording, capture and export agree with what was written.
   Only property theorems live here.  The model (model/Record.v) takes the renderable -> segments step
   as input and a style as a token; the four style-dependent functions are universally quantified:
     truthy s (bool(style)), esc cs lw s t (style.render), html_rule s, html_link s.
   `keep`/`hesc` are the two facts regenerated from /repo (gen/RecordFacts.v): Segment.simplify does
   not merge out of a control segment; export_html escapes the href value. *)
From RichModel Require Import Prelude Cells Segments Wire Record SpecRecord.
From RichGen Require Import RecordFacts.
From RichProofs Require Import RecordP RecordP2 RecordP3 RecordP4 RecordP5 RecordP6.
From RichModel Require Color Style SpecAnsi AnsiDecode SpecDecode.
From RichProofs Require AnsiDecodeP4 AnsiDecodeP7.

(* the hypothesis on the abstract ANSI wrapper: it is transparent to the (independent) terminal-text
   scanner -- if the scanner, started at rest on a text, ends at rest having shown o, then on the wrapped
   text it also ends at rest having shown o.  (Plain text shows itself, a complete control string nothing.) *)
Definition esc_removable (esc : Z -> bool -> Z -> str -> str) : Prop :=
  forall cs lw s t o, vrun VGround t = (VGround, o) -> vrun VGround (esc cs lw s t) = (VGround, o).

(* satisfiable: ESC [ n m text ESC [ 0 m *)
Example C15_esc_removable_nonvacuous : esc_removable toy_esc.
Proof. exact toy_esc_transparent. Qed.

(* well-formed histories (wf_hist_b): printed text has no ESC / C0 control characters but newline; the text
   of a control segment -- styled or not -- is made of complete escape sequences / control characters *)

(* (1) after EVERY well-formed history (any mix of print/log/rule/line/control/bell/clear/show_cursor,
   captures -- nested or unbalanced too -- and exports), on every configuration: export_text returns the
   visible text of everything rendered (written to the file, or returned by a capture: upstream records
   captured output as well) since the record was last emptied, in order *)
Theorem C15_export_text_is_visible_of_rendered :
  forall truthy esc html_rule html_link, esc_removable esc ->
  forall kc he c h clear, wf_hist_b c h = true ->
  let '(s, es) := run truthy esc html_rule html_link kc he c st0 h in
  ret (snd (step truthy esc html_rule html_link kc he c s (ExportText clear false)))
  = Some (visible (rendered_since_clear [] h es)).
Proof.
  intros truthy esc html_rule html_link He kc he c h clear Hwf.
  pose proof (record_is_visible_of_rendered truthy esc html_rule html_link He kc he c h Hwf) as P.
  destruct (run truthy esc html_rule html_link kc he c st0 h) as [s es]. destruct P as [P _].
  cbn. rewrite P. reflexivity.
Qed.
Print Assumptions C15_export_text_is_visible_of_rendered.

(* the same with the hypothesis on the calls' INPUTS: the segments Console.render yielded (before
   cropping to the width) and the strings given to control() *)
Theorem C15_export_text_is_visible_of_rendered_inputs :
  forall truthy esc html_rule html_link, esc_removable esc ->
  forall kc he c h clear, forallb wf_input_b h = true ->
  let '(s, es) := run truthy esc html_rule html_link kc he c st0 h in
  ret (snd (step truthy esc html_rule html_link kc he c s (ExportText clear false)))
  = Some (visible (rendered_since_clear [] h es)).
Proof.
  intros truthy esc html_rule html_link He kc he c h clear Hwf.
  apply C15_export_text_is_visible_of_rendered; [exact He|apply wf_input_hist; exact Hwf].
Qed.
Print Assumptions C15_export_text_is_visible_of_rendered_inputs.

(* ... in particular, with no capture and no clearing export: the visible text of the file *)
Theorem C15_export_text_is_visible_of_file :
  forall truthy esc html_rule html_link, esc_removable esc ->
  forall kc he c h, wf_hist_b c h = true -> quiet h = true ->
  let '(s, es) := run truthy esc html_rule html_link kc he c st0 h in
  export_plain (rec_ s) = visible (file_of es).
Proof.
  intros truthy esc html_rule html_link He kc he c h Hwf Hq.
  pose proof (record_is_visible_of_rendered truthy esc html_rule html_link He kc he c h Hwf) as P.
  pose proof (run_length truthy esc html_rule html_link kc he c h st0) as L.
  destruct (run truthy esc html_rule html_link kc he c st0 h) as [s es]. destruct P as [P _].
  rewrite (rsc_quiet h es [] Hq L) in P. symmetry. exact P.
Qed.
Print Assumptions C15_export_text_is_visible_of_file.

(* (2) the HTML export, tags removed and entities decoded, is the text export: every record, any text
   (< > & quotes ...), any link; relative to: the CSS rule of a style contains no double quote *)
Theorem C15_export_html_text :
  forall truthy html_rule html_link, (forall s, no_quote (html_rule s)) ->
  forall inline (r : list sg),
  html_text (html_code truthy html_rule html_link simplify_keeps_control href_is_escaped inline r)
  = export_plain r.
Proof. exact export_html_text_fixed. Qed.
Print Assumptions C15_export_html_text.

(* (2b) THE DOCUMENT.  export_html's document is the template regenerated from /repo (str.format with the
   stylesheet block, the theme colours and the code); pre_code -- the independent extraction of the body
   of the first <pre ...> element -- applied to it returns exactly the code: every record, both the
   inline and the stylesheet variant, any text and link; relative to: a CSS rule contains no '<'. *)
Theorem C15_html_document :
  forall truthy html_rule html_link, (forall s, nolt_b (html_rule s) = true) ->
  forall keep inline (r : list sg),
  pre_code (export_html truthy html_rule html_link keep href_is_escaped inline r)
  = Some (html_code truthy html_rule html_link keep href_is_escaped inline r).
Proof. exact html_document. Qed.
Print Assumptions C15_html_document.

Example C15_html_document_nonvacuous :
  let r := [mkSeg (lit "a<b") (Some 1) false; mkSeg [NL] None false] in
  pre_code (export_html all_truthy (fun _ => lit "color: #800000") quote_link true true false r)
  = Some (lit "<a href=""a&quot;&gt;b""><span class=""r1"">a&lt;b</span></a>" ++ [NL]).
Proof. vm_compute. reflexivity. Qed.

(* (1)+(2)+(3a) the very checker that is evaluated on the implementation's file / exports (it takes the
   whole HTML document), on the model, after every well-formed history *)
Theorem C15_exports_agree :
  forall truthy esc html_rule html_link, esc_removable esc ->
  (forall s, no_quote (html_rule s)) -> (forall s, nolt_b (html_rule s) = true) ->
  forall c h inline, wf_hist_b c h = true ->
  let '(s, es) := run truthy esc html_rule html_link simplify_keeps_control href_is_escaped c st0 h in
  exports_agree_b (rendered_since_clear [] h es) (export_plain (rec_ s))
    (export_html truthy html_rule html_link simplify_keeps_control href_is_escaped inline (rec_ s))
    (export_styled truthy esc (rec_ s)) = true.
Proof.
  intros truthy esc html_rule html_link He Hq Hl c h inline Hwf.
  pose proof (record_is_visible_of_rendered truthy esc html_rule html_link He
                simplify_keeps_control href_is_escaped c h Hwf) as P.
  destruct (run truthy esc html_rule html_link simplify_keeps_control href_is_escaped c st0 h) as [s es].
  destruct P as [P1 P2]. unfold exports_agree_b.
  rewrite (C15_html_document truthy html_rule html_link Hl simplify_keeps_control inline (rec_ s)).
  unfold texts_agree_b.
  rewrite P1, P2, (C15_export_html_text truthy html_rule html_link Hq inline (rec_ s)), str_eqb_refl.
  reflexivity.
Qed.
Print Assumptions C15_exports_agree.

Example C15_exports_agree_nonvacuous :
  let c := mkCfg 4 true 1 false false in
  let h := [Clear true; Line 1; Print true [mkSeg (lit "a<b&c>d") (Some 1) false; mkSeg [NL] None false];
            Print true [mkSeg CURSOR_HIDE (Some 5) true];      (* a STYLED control segment *)
            BeginCapture; Bell; Print true [mkSeg (lit "x") (Some 2) false]; EndCapture] in
  wf_hist_b c h = true /\
  (let '(s, es) := run all_truthy toy_esc norule quote_link true true c st0 h in
   (file_of es, export_plain (rec_ s),
    html_code all_truthy norule quote_link true true true (rec_ s)))
  = (CLEAR_HOME ++ [NL] ++ toy_esc 1 false 1 (lit "a<b&") ++ [NL]       (* cropped at width 4 *)
       ++ toy_esc 1 false 5 CURSOR_HIDE,
     [NL] ++ lit "a<b&" ++ [NL] ++ lit "x",                            (* the captured x is recorded *)
     [NL] ++ lit "<a href=""a&quot;&gt;b"">a&lt;b&amp;</a>" ++ [NL] ++ lit "<a href=""a&quot;&gt;b"">x</a>").
Proof. vm_compute. split; reflexivity. Qed.

(* (3) the styled export decodes to the record's characters with their styles -- relative to an
   abstract decoder `dec` characterised by four equations (it skips `neutral` control strings) *)
Theorem C15_styled_export_decodes :
  forall truthy esc (dec : str -> list (Z * option Z)) (neutral : str -> bool),
  dec [] = [] ->
  (forall ch rest, plain_b [ch] = true -> dec (ch :: rest) = (ch, None) :: dec rest) ->
  (forall s t rest, truthy s = true -> plain_b t = true ->
     dec (esc CS_TRUECOLOR false s t ++ rest) = map (fun ch => (ch, Some s)) t ++ dec rest) ->
  (forall k rest, neutral k = true -> dec (k ++ rest) = dec rest) ->
  forall html_rule html_link kc he c h,
  ops_all (dwf_seg_b truthy neutral) c h = true ->
  let '(s, _) := run truthy esc html_rule html_link kc he c st0 h in
  dec (export_styled truthy esc (rec_ s)) = styled_chars truthy (rec_ s).
Proof.
  intros truthy esc dec neutral H1 H2 H3 H4 html_rule html_link kc he c h Hh.
  pose proof (run_all truthy esc html_rule html_link (dwf_seg_b truthy neutral) kc he c h st0 eq_refl eq_refl Hh) as P.
  destruct (run truthy esc html_rule html_link kc he c st0 h) as [s es].
  exact (styled_export_decodes_rec truthy esc dec neutral H1 H2 H3 H4 (rec_ s) P).
Qed.
Print Assumptions C15_styled_export_decodes.

(* (3r) NO ABSTRACT ORACLE: tokens interpreted as real styles (sty_of), esc := the model of Style.render
   (RichModel.Style.style_render, b-C06/C03) -- it satisfies esc_removable whenever the styles are well
   formed (colours well formed, link free of ESC/BEL/ST), carry no stale _ansi memo, and the link id is
   free of ESC/BEL/ST/';' *)
Theorem C15_esc_removable_real :
  forall (sty_of : Z -> Style.style) lid,
  (forall s, SpecAnsi.style_wf (sty_of s) = true) -> (forall s, Style.s_ansi (sty_of s) = None) ->
  SpecAnsi.lid_ok lid = true ->
  esc_removable (real_esc sty_of lid).
Proof. intros sty_of lid H1 H2 H3 cs lw s t o. exact (real_esc_transparent sty_of lid H1 H2 H3 cs lw s t o). Qed.
Print Assumptions C15_esc_removable_real.

(* ... so (1) holds for the real encoder with no hypothesis on an abstract wrapper *)
Theorem C15_export_text_is_visible_of_rendered_real :
  forall (sty_of : Z -> Style.style) lid html_rule html_link,
  (forall s, SpecAnsi.style_wf (sty_of s) = true) -> (forall s, Style.s_ansi (sty_of s) = None) ->
  SpecAnsi.lid_ok lid = true ->
  forall kc he c h clear, wf_hist_b c h = true ->
  let '(s, es) := run (real_truthy sty_of) (real_esc sty_of lid) html_rule html_link kc he c st0 h in
  ret (snd (step (real_truthy sty_of) (real_esc sty_of lid) html_rule html_link kc he c s (ExportText clear false)))
  = Some (visible (rendered_since_clear [] h es)) /\
  visible (export_styled (real_truthy sty_of) (real_esc sty_of lid) (rec_ s)) = export_plain (rec_ s).
Proof.
  intros sty_of lid html_rule html_link H1 H2 H3 kc he c h clear Hwf.
  pose proof (record_is_visible_of_rendered (real_truthy sty_of) (real_esc sty_of lid) html_rule html_link
                (C15_esc_removable_real sty_of lid H1 H2 H3) kc he c h Hwf) as P.
  destruct (run (real_truthy sty_of) (real_esc sty_of lid) html_rule html_link kc he c st0 h) as [s es].
  destruct P as [P1 P2]. split; [cbn; rewrite P1; reflexivity|exact P2].
Qed.
Print Assumptions C15_export_text_is_visible_of_rendered_real.

(* (3d) the styled export read back by rich's OWN decoder (C19's model of AnsiDecoder.decode): for a record
   in line form (each line's segments, then Segment("\n") -- what print/log leave in the record) without
   control segments, whose runs meet C19's run_ok2 (clean text, fresh well-formed styles, links free of
   ESC and line boundaries): one decoded line per line, the same characters with the same visible
   attributes / colours / link, decoder left clean.  Rests on C19_decode_encode (full).
   NOT covered, and why: (i) records containing control segments -- AnsiDecoder is not transparent to
   non-SGR control sequences (re_ansi's lazy `ESC[ (.*?) m` swallows text after e.g. ESC[2J up to the next
   'm'), so this is false of the real decoder; the statement (3) above covers them for a decoder that skips
   them; (ii) a last line without its "\n" (print(end="")): missing adapter lemma
     decode true st (e ++ a) = decode_lines (lines of e ++ [a])   for a boundary-free tail a
   (C19 proves it only for tails terminated by LF: AnsiDecodeP7.decode_threads). *)
Theorem C15_styled_export_decodes_real :
  forall (sty_of : Z -> Style.style) lid (t : list (list sg)) e st,
  AnsiDecodeP7.lid_ok2 lid -> Forall (Forall AnsiDecodeP7.run_ok2) (map (map (run_of sty_of)) t) ->
  SpecDecode.encode_lines lid (map (map (run_of sty_of)) t) = Ok e -> AnsiDecodeP4.clean st None ->
  exists st' d,
    AnsiDecode.decode true st (export_styled (real_truthy sty_of) (real_esc sty_of lid) (rec_of_lines t)) = (st', Ok d)
    /\ Forall2 (fun runs ps => SpecDecode.vchars ps = SpecDecode.vchars runs) (map (map (run_of sty_of)) t) d
    /\ AnsiDecodeP4.clean st' None.
Proof. exact styled_export_decodes_real. Qed.
Print Assumptions C15_styled_export_decodes_real.

(* (4) a capture block opened at the top level (after any balanced history) returns exactly what its
   calls write when made without the capture, and nothing reaches the file meanwhile *)
Theorem C15_capture_returns_what_would_be_written :
  forall truthy esc html_rule html_link kc he c pre blk,
  balanced pre = true -> nocap blk = true ->
  let '(s, _) := run truthy esc html_rule html_link kc he c st0 pre in
  let '(_, es_c) := run truthy esc html_rule html_link kc he c s (BeginCapture :: blk ++ [EndCapture]) in
  let '(_, es_p) := run truthy esc html_rule html_link kc he c s blk in
  capture_ok_b (ret_or_nil (last es_c (mkEv [] None))) (file_of es_p) (file_of es_c) = true.
Proof.
  intros truthy esc html_rule html_link kc he c pre blk Hb Hn.
  pose proof (balanced_run truthy esc html_rule html_link kc he c pre 0 st0 Hb eq_refl (Z.le_refl 0) (fun _ => eq_refl)) as P.
  destruct (run truthy esc html_rule html_link kc he c st0 pre) as [s es]. destruct P as [P1 P2].
  exact (capture_block truthy esc html_rule html_link kc he c s blk P1 P2 Hn).
Qed.
Print Assumptions C15_capture_returns_what_would_be_written.

Example C15_capture_nonvacuous :
  let c := mkCfg 10 true 1 false true in
  let blk := [Print true [mkSeg (lit "hi") (Some 3) false; mkSeg [NL] None false]; Bell; Line 2] in
  map (@ret) (snd (run all_truthy toy_esc norule nolink true true c st0 (BeginCapture :: blk ++ [EndCapture])))
  = [None; None; None; None; Some (toy_esc 1 false 3 (lit "hi") ++ [NL] ++ BELL_CODE ++ [NL; NL])].
Proof. vm_compute. reflexivity. Qed.

(* (5) for EVERY history: no call made while a capture is open, and no capture/export call, writes *)
Theorem C15_capture_writes_nothing :
  forall truthy esc html_rule html_link kc he c h,
  capture_silent_b h (snd (run truthy esc html_rule html_link kc he c st0 h)) = true.
Proof.
  intros truthy esc html_rule html_link kc he c h.
  pose proof (capture_silent_run truthy esc html_rule html_link kc he c h st0) as P.
  destruct (run truthy esc html_rule html_link kc he c st0 h) as [s es]. exact P.
Qed.
Print Assumptions C15_capture_writes_nothing.

(* (6) in every state: an export with clear empties the record, without clear leaves it unchanged;
   either way buffer, nesting depth and file are untouched *)
Theorem C15_clear_flag :
  forall truthy esc html_rule html_link kc he c s o clear,
  (exists x, o = ExportText clear x) \/ (exists x, o = ExportHtml clear x) ->
  let '(s1, e) := step truthy esc html_rule html_link kc he c s o in
  clear_ok_b clear (rec_ s) (rec_ s1) = true /\ buf s1 = buf s /\ bidx s1 = bidx s /\ written e = [].
Proof. exact clear_flag_step. Qed.
Print Assumptions C15_clear_flag.

(* ---------- what is false of rich 9.10.0 as found (witnesses replayed on the implementation:
   corpus/record/d12_*.json, href_quote*.json) ---------- *)
(* D12: Segment.simplify merges a control segment with following unstyled text into a non-control
   segment: console.clear(); console.line() puts ESC[2J ESC[H into the HTML *)
Theorem C15_export_html_text_asis_refuted : exists (r : list sg) inline,
  forallb wf_seg_b r = true /\
  html_text (html_code all_truthy norule nolink false true inline r) <> export_plain r.
Proof.
  exists [mkSeg CLEAR_HOME None true; mkSeg [NL] None false], true. split; [reflexivity|].
  destruct html_text_asis_simplify_witness as [-> ->]. discriminate.
Qed.
Print Assumptions C15_export_html_text_asis_refuted.

(* export_html puts style.link unescaped into href="...": a link containing a double quote ends the
   attribute early and its tail becomes text *)
Theorem C15_export_html_href_asis_refuted : exists (r : list sg) html_link inline,
  html_text (html_code all_truthy norule html_link true false inline r) <> export_plain r.
Proof.
  exists [mkSeg (lit "hi") (Some 1) false], quote_link, true.
  destruct html_text_asis_href_witness as [-> ->]. discriminate.
Qed.
Print Assumptions C15_export_html_href_asis_refuted.

(* NESTED CAPTURES -- known finding C15-nested-capture (corpus/C15_known).  The property quantifies over
   "all sequences of print/log/rule/line/capture/export calls", which includes a capture opened inside
   another one; there the inner end_capture returns (and removes) what the outer block had printed so far.
   (a) the inner block returns MORE than was printed inside it: theorem (4) fails for a prefix that is not
   balanced; (b) the outer block returns LESS.  Modelled as found; repair not small (see notes). *)
Theorem C15_capture_inner_refuted : exists c pre blk,
  nocap blk = true /\ balanced pre = false /\
  let '(s, _) := run all_truthy toy_esc norule nolink true true c st0 pre in
  let '(_, es_c) := run all_truthy toy_esc norule nolink true true c s (BeginCapture :: blk ++ [EndCapture]) in
  let '(_, es_p) := run all_truthy toy_esc norule nolink true true c s blk in
  capture_ok_b (ret_or_nil (last es_c (mkEv [] None))) (file_of es_p) (file_of es_c) = false.
Proof.
  exists (mkCfg 80 false 0 false false), [BeginCapture; Print false [mkSeg (lit "a") None false]],
    [Print false [mkSeg (lit "b") None false]].
  vm_compute. repeat split; reflexivity.
Qed.
Print Assumptions C15_capture_inner_refuted.

(* nested captures (upstream behaviour, modelled as is, not repaired): the inner end_capture takes what
   the outer block had printed, so theorem (4) does not extend to blocks containing captures *)
Theorem C15_capture_nested_refuted : exists c blk,
  let '(_, es_c) := run all_truthy toy_esc norule nolink true true c st0 (BeginCapture :: blk ++ [EndCapture]) in
  let '(_, es_p) := run all_truthy toy_esc norule nolink true true c st0
                      (filter (fun o => negb (is_capture_op o)) blk) in
  capture_ok_b (ret_or_nil (last es_c (mkEv [] None))) (file_of es_p) (file_of es_c) = false.
Proof.
  exists (mkCfg 80 false 0 false false),
    [Print false [mkSeg (lit "a") None false]; BeginCapture; Print false [mkSeg (lit "b") None false];
     EndCapture; Print false [mkSeg (lit "c") None false]].
  vm_compute. reflexivity.
Qed.
Print Assumptions C15_capture_nested_refuted.
