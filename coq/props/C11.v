(* C11 -- Console output is thread-safe under every interleaving.

   STRENGTH: PARTIAL BY CONSTRUCTION.  The theorems below quantify over ALL schedules (arbitrary
   lists of thread ids, any length, any number of threads) of the *abstract event programs* of
   model/Conc.v, whose lock/shared-field events are tied to /repo by the table regenerated into
   gen/ConsoleLock.v (proofs/ConcP.v: bridge_* and well_locked, re-computed on every check).
   Preemption is at the granularity of those events.  Preemption at every executed LINE of
   rich/console.py / live.py / live_render.py is reached only by the scheduler-driven trace
   validation (tools/sched_console + tools/corr/l_conc.py: every observed trace must be admissible
   in this model and satisfy the same checkers) -- that part is testing, not proof.
   Only property theorems live here. *)
From RichModel Require Import Prelude Conc SpecConc.
From RichGen Require Import ConsoleLock.
From RichProofs Require Import ConcP ConcP2 ConcP3 ConcP4 ConcP5 ConcP6 ConcP7 ConcP8 ConcP9.
Open Scope list_scope.

(* (0) the tie: lock discipline computed on the table extracted from /repo's ASTs *)
Theorem C11_well_locked : forallb guarded (filter in_scope lock_table) = true.
Proof. exact well_locked. Qed.
Print Assumptions C11_well_locked.

(* (1) print_atomic_once.  For EVERY schedule and every thread u (whose own program does not
   start/stop the live display; the other threads may): once u has finished, the file restricted
   to u's write calls is exactly the serial specification of u's program -- every print of u is
   in exactly one write element (one file.write call = contiguous), in program order, grouped as
   u's outermost buffer exits group them, with nothing of another thread inside.  This is the
   per-thread clause of the checker writes_atomic_b. *)
Theorem C11_print_atomic_once : forall rep live sh0 r0 progs sched u,
  no_ss (progs u) = true ->
  let st := run rep sched (init_state live sh0 r0 progs) in
  prog (th st u) = [] ->
  nonempty_strips (proj u (file (sh st))) = only true (sspec u (progs u) [] 0).
Proof. exact writes_of_finished_thread. Qed.
Print Assumptions C11_print_atomic_once.

(* ... at every intermediate moment: done so far ++ still to come = serial specification *)
Theorem C11_thread_obs_serial : forall rep live sh0 r0 progs sched u,
  no_ss (progs u) = true ->
  local_fut u (th (run rep sched (init_state live sh0 r0 progs)) u) = sspec u (progs u) [] 0.
Proof. exact thread_obs_serial. Qed.
Print Assumptions C11_thread_obs_serial.

(* ... and each of those writes happens while the writer holds Console._lock *)
Theorem C11_write_under_console_lock : forall rep live sh0 r0 progs sched t r,
  let st := run rep sched (init_state live sh0 r0 progs) in
  prog (th st t) = IWrite :: r -> exists n, lkC (sh st) = Some (t, n).
Proof. intros. apply write_under_console_lock with (r := r); [apply run_inv, init_inv | assumption]. Qed.
Print Assumptions C11_write_under_console_lock.

Example C11_print_atomic_nonvacuous :
  let progs := progs_of [[Print 1; BeginBlock; Print 2; Print 3; EndBlock]; [BeginCap; Print 1; EndCap; Print 2]] in
  let st := run false (flat_map (fun _ => [1; 0; 0; 1; 1]%nat) (seq 0 60)) (init_state false None (0, 1%nat) progs) in
  finished st 2 = true
  /\ file (sh st) = [(0%nat, [Txt 0%nat 1]); (1%nat, [Txt 1%nat 2]); (0%nat, [Txt 0%nat 2; Txt 0%nat 3])]
  /\ writes_atomic_b [[Print 1; BeginBlock; Print 2; Print 3; EndBlock]; [BeginCap; Print 1; EndCap; Print 2]] (file (sh st)) = true.
Proof. vm_compute. repeat (split; [reflexivity|]). reflexivity. Qed.

(* (2) capture_isolated: what u's captures returned is the serial specification of u's program:
   a capture never contains another thread's output and never swallows it (the other threads'
   lines are all in the file, by (1) applied to them) *)
Theorem C11_capture_isolated : forall rep live sh0 r0 progs sched u,
  no_ss (progs u) = true ->
  let st := run rep sched (init_state live sh0 r0 progs) in
  prog (th st u) = [] ->
  nonempty_strips (map snd (filter (fun e => negb (fst e)) (olog (th st u)))) = only false (sspec u (progs u) [] 0).
Proof. exact captures_of_finished_thread. Qed.
Print Assumptions C11_capture_isolated.

(* (3) record_order_eq_file_order: in every reachable state the recorded copy minus captured
   text is the file, plus at most the one payload of the thread that is between
   _record_buffer.extend and file.write inside its critical section; with the console lock free
   (in particular when all threads have finished) they are equal *)
Theorem C11_record_order_eq_file_order : forall rep live sh0 r0 progs sched,
  let st := run rep sched (init_state live sh0 r0 progs) in
  lkC (sh st) = None ->
  written_part (record (sh st)) = file (sh st) /\ record_order_b (file (sh st)) (record (sh st)) = true.
Proof. exact record_order_quiescent. Qed.
Print Assumptions C11_record_order_eq_file_order.

(* (4) deadlock_free: the lock order Live._lock < Console._lock < Console._record_buffer_lock is
   respected by every reachable program suffix (static check `good`; on the /repo side: order_ok
   inside well_locked).  Hence in every reachable state where some thread is unfinished, some
   thread can step.  No exception: the IndexError of pop_render_hook on an empty hook list is
   unreachable (C11_pop_render_hook_safe) -- Live.stop pops only after reading _started = True
   under the live lock, so two threads stopping the same Live cannot both pop. *)
Theorem C11_deadlock_free : forall rep live sh0 r0 progs sched t0,
  join_targets_ok progs ->       (* whoever is joined runs a refresh loop and joins nobody *)
  let st := run rep sched (init_state live sh0 r0 progs) in
  prog (th st t0) <> [] -> exists t, step rep st t <> None.
Proof. exact deadlock_free_full. Qed.
Print Assumptions C11_deadlock_free.
(* Thread.join() is part of the model: a thread in join() is not runnable until the joined thread
   has finished, so the waits-for graph has join edges.  Live.stop() joins its refresh thread only
   after releasing the live lock (bridge_stop_auto; rule is_join of well_locked: join with no lock
   held).  With the join inside the lock the model deadlocks: *)
Theorem C11_join_under_lock_refuted :
  exists sched, let st := run false sched join_under_lock_state in
    runnable false st 2 = [] /\ finished st 2 = false.
Proof. exists [1; 0; 0; 0; 1; 0; 1]%nat. destruct join_under_lock_deadlocks as [A [B _]]. split; assumption. Qed.
Print Assumptions C11_join_under_lock_refuted.

Example C11_deadlock_free_nonvacuous :
  join_targets_ok (progs_of [[Print 1; StopAuto 1%nat]; [RefreshLoop]; [Print 2]]).
Proof.
  intros t t' Hin. destruct t as [|[|[|t]]]; cbn in Hin; try (destruct t; contradiction); try contradiction.
  destruct Hin as [<-|[]]. split; [reflexivity | cbn; auto].
Qed.

(* start()/stop(): exactly one hook while started, none otherwise, whenever the live lock is free:
   concurrent start() calls push exactly ONE hook (check-then-act in one critical section; /repo side:
   ConcP.start_stop_started_guarded, progress_start_check_then_act for Live AND Progress) *)
Theorem C11_hooks_match_started : forall rep live sh0 r0 progs sched,
  let st := run rep sched (init_state live sh0 r0 progs) in
  lkL (sh st) = None -> hooks (sh st) = (if started (sh st) then 1 else 0)%nat.
Proof. exact hooks_match_started. Qed.
Print Assumptions C11_hooks_match_started.

Example C11_concurrent_starts_nonvacuous :
  let st := run false (flat_map (fun _ => [0; 1; 2; 1; 0; 2]%nat) (seq 0 60))
                (init_state false None (0, 1%nat) (progs_of [[Start]; [Start]; [Start]])) in
  finished st 3 = true /\ hooks (sh st) = 1%nat /\ started (sh st) = true.
Proof. vm_compute. repeat (split; [reflexivity|]). reflexivity. Qed.

Theorem C11_pop_render_hook_safe : forall rep live sh0 r0 progs sched t r,
  let st := run rep sched (init_state live sh0 r0 progs) in
  prog (th st t) = IPopHook :: r -> (1 <= hooks (sh st))%nat.
Proof. intros. apply pop_render_hook_safe with (t := t) (r := r); [apply run_inv2, init_inv2 | assumption]. Qed.
Print Assumptions C11_pop_render_hook_safe.

Example C11_two_stops_nonvacuous :   (* two threads stop the same started Live, a third starts it again *)
  let st := run false (flat_map (fun _ => [0; 1; 2; 2; 1; 0]%nat) (seq 0 300))
                (init_state true None (0, 1%nat) (progs_of [[Stop]; [Stop]; [Start; Stop]])) in
  finished st 3 = true /\ hooks (sh st) = 0%nat /\ started (sh st) = false.
Proof. vm_compute. repeat (split; [reflexivity|]). reflexivity. Qed.

(* (5) live_screen_under_interleaving -- REFUTED for rich as it is (DESIGN D17, KNOWN FINDING):
   a 2-thread schedule after which a row of an old frame remains above the printed line.
   Reproduced on the real code by tools/sched_console (corpus/C11_known/live_print_race.json). *)
Theorem C11_live_screen_under_interleaving_refuted :
  exists progs sched,
    let st := run false sched (init_state true None (0, 1%nat) (progs_of progs)) in
    finished st (length progs) = true /\ screen_ok_b (file (sh st)) = false.
Proof.
  exists race_progs, race_sched.
  destruct live_race_asis as [A [_ [_ B]]]. split; [exact A | exact B].
Qed.
Print Assumptions C11_live_screen_under_interleaving_refuted.

(* ... and PROVED IN GENERAL for the repaired variant (hold Live._lock from position_cursor() until
   the write has happened): every schedule, any number of threads, every program over
   print / update(+refresh) / refresh / refresh-thread tick on a started display with frames of at
   least one row.  Whenever the live lock is free (in particular at the end), the terminal shows the
   printed lines in file order followed by the rows of the frame written last.
   Proof: invariant "live lock free -> the file is a consistent write sequence and _shape is the
   height of its last frame" (ConcP7, induction on the schedule, one simulation lemma per
   instruction of the lock owner) + sequential terminal lemma (ConcP8). *)
Theorem C11_live_screen_repaired : forall r0 progs sched,
  (1 <= snd r0)%nat -> (forall t, live_ops (progs t)) ->
  let st := run true sched (init_state true None r0 progs) in
  lkL (sh st) = None -> screen_ok_b (file (sh st)) = true.
Proof. exact live_screen_repaired. Qed.
Print Assumptions C11_live_screen_repaired.

Theorem C11_repaired_erase_never_stale : forall r0 progs sched,
  (1 <= snd r0)%nat -> (forall t, live_ops (progs t)) ->
  let st := run true sched (init_state true None r0 progs) in
  lkL (sh st) = None -> cons_file (file (sh st)) (shape (sh st)).
Proof. exact repaired_file_consistent. Qed.
Print Assumptions C11_repaired_erase_never_stale.

Example C11_live_screen_repaired_nonvacuous :
  let progs := progs_of [[Update 1 2%nat true; Print 7]; [Update 2 3%nat true]; [Tick; Print 1]] in
  let st := run true (flat_map (fun _ => [0; 1; 2; 2; 1; 0]%nat) (seq 0 60)) (init_state true None (0, 1%nat) progs) in
  finished st 3 = true /\ lkL (sh st) = None /\ length (file (sh st)) = 5%nat
  /\ forallb live_op (concat [[Update 1 2%nat true; Print 7]; [Update 2 3%nat true]; [Tick; Print 1]]) = true.
Proof. vm_compute. repeat (split; [reflexivity|]). reflexivity. Qed.

(* all schedules of five small programs, by exhaustive exploration (kept as an independent check
   of the general theorem; it also shows that all threads finish) *)
Theorem C11_live_screen_repaired_small : forall progs sched,
  In progs small_live_programs ->
  Forall (fun t => (t < length progs)%nat) sched ->
  let st := run true sched (init_state true None (0, 1%nat) (progs_of progs)) in
  runnable true st (length progs) = [] ->
  finished st (length progs) = true /\ screen_ok_b (file (sh st)) = true.
Proof. exact live_screen_repaired_small. Qed.
Print Assumptions C11_live_screen_repaired_small.
