(* C03 -- The ANSI stream written means exactly what the styled segments say.
   Only property theorems live here, each closed by `exact` and followed by Print Assumptions.

   Objects.  `render_buffer k segs` (model/Ansi.v) is Console._render_buffer on console facts
   k = (colour system or None, no_color, is_terminal, legacy_windows) plus two switches that select
   rich 9.10.0 as found (false) or the proposed repairs (true): k_fix_d16 (the `_ansi` memo is
   reused only for the colour system it was computed for) and k_fix_ctl (control segments are
   dropped on a non-terminal before the `if style:` test).  `interp` (model/TermSgr.v) is the
   INDEPENDENT SGR / OSC-8 interpreter; `expected k segs` (model/SpecAnsi.v) maps every character to
   (attributes that are on, foreground and background after Color.downgrade to k's system, link).
   Hypothesis `segs_ok k segs` (boolean, model/SpecAnsi.v), per segment:
     - text of styled and of ordinary segments is `plain_text` (no ESC, BEL, U+009B, U+009D: otherwise
       the text is itself a control sequence), link target without ESC/BEL/U+009C, link id
       additionally without ';';  colours well formed (what Color.parse/from_ansi/from_rgb build);
     - an unstyled control segment written to a terminal is `neutral_b` (cursor movement, erase, ...:
       interpreted from the reset state it ends in the reset state);
     - the `_ansi` memo is empty or was honestly produced by _make_ansi_codes of that style for some
       colour system -- with k_fix_d16 = false additionally: for THIS console's system ("fresh caches");
     - with k_fix_ctl = false additionally: no control segment with a truthy style on a non-terminal.
   With both switches true the last two restrictions vanish: that is the property as stated. *)
From RichModel Require Import Prelude Color Style SpecColor TermSgr Ansi SpecAnsi.
From RichGen Require Import AnsiFacts.
From RichProofs Require Import TermSgrP AnsiP AnsiP2 AnsiP3 AnsiP4.
From RichProofs.bridge Require BridgeColor.   (* tie 1 (T2): Color.get_ansi_codes regenerated from rich/color.py *)

(* ------------------------------------------------------------------ example inputs *)
Definition ex_red : color := from_rgb 255 0 0.
Definition ex_all : style :=      (* every attribute on, 24-bit foreground, 256-colour background, link *)
  style_make (Some (from_rgb 10 200 30)) (Some (from_ansi 200)) (repeat (Some true) 13) (Some (lit "http://h/p;q=1")).
Definition ex_off : style :=      (* attributes set to False must not emit codes; bright standard colour *)
  style_make (Some (from_ansi 9)) (Some color_default) [Some false; Some true; None; Some false] None.
Definition ex_segs : list aseg :=
  [mkASeg (lit "ab") (Some ex_all) (lit "0-0") None false;
   mkASeg (lit " plain ") None (lit "") None false;
   mkASeg [27; 91; 50; 74] None (lit "") None true;            (* ESC [ 2 J *)
   mkASeg (lit "c") (Some ex_off) (lit "") (Some (CS_TRUECOLOR, lit "2;91;49")) false;
   mkASeg (lit "d") (Some style_null) (lit "") None false].
Definition ex_cfg (sys : option ColorSystem) (nc term lw fx : bool) : cfg := mkCfg sys nc term lw fx fx.

(* (1) the stream means what the segments say; nothing is left switched on at its end *)
Theorem C03_stream_meaning : forall k segs,
  segs_ok k segs = true ->
  exists bytes, render_buffer k segs = Ok bytes
    /\ interp bytes = expected k segs
    /\ final_mode bytes = PGround /\ final_state bytes = t_reset
    /\ stream_means_b k segs bytes = true.
Proof. exact stream_meaning. Qed.
Print Assumptions C03_stream_meaning.

Example C03_stream_meaning_nonvacuous :
  segs_ok (ex_cfg (Some CS_EIGHT_BIT) false true false true) ex_segs = true
  /\ segs_ok (ex_cfg (Some CS_STANDARD) true false true true) ex_segs = true
  /\ segs_ok (ex_cfg (Some CS_TRUECOLOR) false true false false) ex_segs = true
  /\ segs_ok (ex_cfg (Some CS_EIGHT_BIT) false true false false) ex_segs = false   (* memo of another system *)
  /\ render_buffer (ex_cfg (Some CS_EIGHT_BIT) false true false true) ex_segs
     = Ok (lit "" ++ [27] ++ lit "]8;id=0-0;http://h/p;q=1" ++ [27; 92; 27]
           ++ lit "[1;2;3;4;5;6;7;8;9;21;51;52;53;38;5;41;48;5;200mab" ++ [27] ++ lit "[0m" ++ [27] ++ lit "]8;;" ++ [27; 92]
           ++ lit " plain " ++ [27] ++ lit "[2J" ++ [27] ++ lit "[2;91;49mc" ++ [27] ++ lit "[0md")
  /\ length (expected (ex_cfg (Some CS_EIGHT_BIT) false true false true) ex_segs) = 11%nat.
Proof. vm_compute. repeat split. Qed.

(* (2) no style leaks onto text that follows: cut the buffer anywhere -- the bytes of the first part
       leave the interpreter in the reset state (outside any sequence), the whole stream is the
       concatenation and means the concatenation, the second part means what it means alone *)
Theorem C03_no_leak : forall k a b,
  segs_ok k (a ++ b) = true ->
  exists ba bb, render_buffer k a = Ok ba /\ render_buffer k b = Ok bb
    /\ render_buffer k (a ++ b) = Ok (ba ++ bb)
    /\ final_mode ba = PGround /\ final_state ba = t_reset
    /\ interp (ba ++ bb) = interp ba ++ interp bb
    /\ interp bb = expected k b.
Proof. exact no_leak. Qed.
Print Assumptions C03_no_leak.

(* (3) colour disabled: the stream is the text, hence without any escape sequence
       (non-control segments; control segments are control codes by definition) *)
Theorem C03_no_escape_when_colorless : forall k segs,
  k_system k = None -> all_plain_noncontrol segs = true ->
  exists bytes, render_buffer k segs = Ok bytes /\ no_escape_b bytes = true.
Proof. exact no_escape_when_colorless. Qed.
Print Assumptions C03_no_escape_when_colorless.

Theorem C03_colorless_is_text : forall k segs,
  k_system k = None -> forallb (fun g => negb (a_ctl g)) segs = true ->
  render_buffer k segs = Ok (flat_map a_text segs).
Proof. exact colorless_is_text. Qed.
Print Assumptions C03_colorless_is_text.

Example C03_no_escape_nonvacuous :
  all_plain_noncontrol [mkASeg (lit "ab") (Some ex_all) (lit "0-0") None false; mkASeg (lit "c") None [] None false] = true
  /\ no_escape_b (lit "abc") = true /\ no_escape_b [97; 27; 91; 109] = false.
Proof. vm_compute. repeat split. Qed.

(* (4) NO_COLOR: no SGR sequence of the stream carries a parameter 30-49 or 90-107 (this covers
       38 and 48).  `ctl_colorless`: the text of an unstyled control segment (written verbatim on a
       terminal) does not itself contain one. *)
Theorem C03_no_color_params : forall k segs,
  k_no_color k = true -> segs_ok k segs = true -> forallb ctl_colorless segs = true ->
  exists bytes, render_buffer k segs = Ok bytes /\ no_color_params_b bytes = true.
Proof. exact no_color_params. Qed.
Print Assumptions C03_no_color_params.

Example C03_no_color_params_nonvacuous :
  forallb ctl_colorless ex_segs = true
  /\ render_buffer (ex_cfg (Some CS_TRUECOLOR) true true true false) ex_segs
     = Ok (lit "" ++ [27] ++ lit "[1;2;3;4;5;6;7;8;9;21;51;52;53mab" ++ [27] ++ lit "[0m plain " ++ [27] ++ lit "[2J"
           ++ [27] ++ lit "[2mc" ++ [27] ++ lit "[0md")
  /\ no_color_params_b ([27] ++ lit "[1;38;5;9mx") = false /\ no_color_params_b ([27] ++ lit "[1;91mx") = false.
Proof. vm_compute. repeat split. Qed.

(* (4b) the NO_COLOR convention: Console(...) without the no_color keyword has colour off exactly when
        the variable NO_COLOR is PRESENT in the environment, whatever its value (empty, "0", ...) -- for
        every other keyword and environment (force_terminal, colour system incl. "auto", legacy_windows,
        TERM, COLORTERM); the stream then carries no colour parameter *)
Theorem C03_no_color_convention : forall arg e,
  no_color_convention_b arg (match e_no_color e with Some _ => true | None => false end) (no_color_of arg e) = true.
Proof. exact no_color_env_convention. Qed.
Print Assumptions C03_no_color_convention.

Theorem C03_no_color_env_params : forall ft tty cs lw e v fx fc segs,
  e_no_color e = Some v ->
  let k := cfg_of_env ft tty cs None lw e fx fc in
  k_no_color k = true
  /\ (segs_ok k segs = true -> forallb ctl_colorless segs = true ->
      exists bytes, render_buffer k segs = Ok bytes /\ no_color_params_b bytes = true).
Proof. exact no_color_env_params. Qed.
Print Assumptions C03_no_color_env_params.

Example C03_no_color_env_nonvacuous :      (* NO_COLOR="" counts; TERM/COLORTERM detection of "auto" *)
  let e := mkEnv (Some []) (Some (lit " TrueColor ")) (Some (lit "xterm-256color")) in
  cfg_of_env (Some true) false CSA_auto None None e true true = mkCfg (Some CS_TRUECOLOR) true true false true true
  /\ k_system (cfg_of_env (Some true) false CSA_auto None None (mkEnv None None (Some (lit "xterm-256color"))) true true) = Some CS_EIGHT_BIT
  /\ k_system (cfg_of_env (Some true) false CSA_auto None None (mkEnv None None (Some (lit "DUMB"))) true true) = None
  /\ k_system (cfg_of_env None false CSA_auto None None e true true) = None
  /\ k_no_color (cfg_of_env (Some true) false CSA_auto (Some false) None e true true) = false
  /\ render_buffer (cfg_of_env (Some true) false (CSA_name CS_STANDARD) None None e true true)
                   [mkASeg (lit "x") (Some ex_off) [] None false] = Ok ([27] ++ lit "[2mx" ++ [27] ++ lit "[0m").
Proof. vm_compute. repeat split. Qed.

(* (5) not a terminal: no control function other than SGR / OSC 8 reaches the file, and the stream
       means the non-control segments only.  Proved for k_fix_ctl = true without restriction; for the
       code as found (k_fix_ctl = false) `segs_ok` excludes control segments that carry a truthy
       style -- and that exclusion is necessary: *)
Theorem C03_no_controls_when_not_terminal : forall k segs,
  k_terminal k = false -> segs_ok k segs = true ->
  exists bytes, render_buffer k segs = Ok bytes /\ no_controls_b bytes = true
    /\ interp bytes = expected k segs.
Proof. exact no_controls_when_not_terminal. Qed.
Print Assumptions C03_no_controls_when_not_terminal.

Definition ex_ctl : list aseg :=
  [mkASeg [27; 91; 50; 74] (Some (style_make None None [Some true] None)) [] None true].

(* FULL STATEMENT, false of rich 9.10.0 as found:
     forall k segs, k_terminal k = false -> <inputs plain, colours well formed> ->
       no_controls_b (render_buffer k segs) = true.
   Witness: Segment.control("\x1b[2J", Style(bold=True)) on a non-terminal console without colour
   system: ESC [ 2 J is written (and with it an escape sequence although colour is disabled). *)
Theorem C03_no_controls_asis_refuted : exists k segs bytes,
  k_fix_ctl k = false /\ k_terminal k = false /\ k_system k = None
  /\ segs_ok (mkCfg (k_system k) (k_no_color k) (k_terminal k) (k_legacy k) (k_fix_d16 k) true) segs = true
  /\ render_buffer k segs = Ok bytes
  /\ no_controls_b bytes = false /\ no_escape_b bytes = false /\ expected k segs = [].
Proof.
  exists (ex_cfg None false false false false), ex_ctl, [27; 91; 50; 74]. vm_compute. repeat split.
Qed.
Print Assumptions C03_no_controls_asis_refuted.

Example C03_no_controls_nonvacuous :      (* the repaired code on the same input *)
  segs_ok (ex_cfg None false false false true) ex_ctl = true
  /\ render_buffer (ex_cfg None false false false true) ex_ctl = Ok [].
Proof. vm_compute. repeat split. Qed.

(* (6) the `_ansi` memo is transparent (repaired code): a style object rendered by consoles of any
       colour systems, in any order, starting from any honestly filled memo, writes what a fresh
       style object would write on each of them *)
Theorem C03_ansi_cache_transparent : forall s text lid systems m,
  memo_honest s m = true ->
  render_history true s m text lid systems = fresh_renders s text lid systems.
Proof. intros. now apply ansi_cache_transparent. Qed.
Print Assumptions C03_ansi_cache_transparent.

(* FULL STATEMENT, false of rich 9.10.0 as found (DESIGN D16): same with `render_history false`.
   Witness: Style(color="#ff0000") written by a truecolor console, then by a standard one: the second
   console receives 38;2;255;0;0, which does not mean "red of the 8-colour palette" (31). *)
Theorem C03_ansi_cache_transparent_asis_refuted : exists s text lid o1 o2 o2',
  style_wf s = true
  /\ render_history false s None text lid [CS_TRUECOLOR; CS_STANDARD] = Ok [o1; o2]
  /\ fresh_renders s text lid [CS_TRUECOLOR; CS_STANDARD] = Ok [o1; o2']
  /\ str_eqb o2 o2' = false
  /\ stream_means_b (ex_cfg (Some CS_STANDARD) false true false false)
                    [mkASeg text (Some s) lid None false] o2 = false
  /\ stream_means_b (ex_cfg (Some CS_STANDARD) false true false false)
                    [mkASeg text (Some s) lid None false] o2' = true.
Proof.
  exists (style_make (Some ex_red) None [] None), (lit "x"), [],
         ([27] ++ lit "[38;2;255;0;0mx" ++ [27] ++ lit "[0m"),
         ([27] ++ lit "[38;2;255;0;0mx" ++ [27] ++ lit "[0m"),
         ([27] ++ lit "[31mx" ++ [27] ++ lit "[0m").
  vm_compute. repeat split.
Qed.
Print Assumptions C03_ansi_cache_transparent_asis_refuted.

(* (6b) cache histories: ONE style instance written by consoles of arbitrary configuration (colour
        system or none, no_color, is_terminal, legacy_windows), interleaved with the derivations
        without_color / copy() / update_link() / + taken from the instance in whatever memo state it
        is (copy and update_link inherit `_ansi`, without_color and + start empty -- as the code does,
        pinned by gen/AnsiFacts.v).  Repaired code: the memo is invisible ... *)
Theorem C03_history_transparent : forall lid ops o1 o2,
  memo_honest (fst o1) (snd o1) = true -> fst o1 = fst o2 -> snd o2 = None ->
  Forall hop_repaired ops ->
  run_hist true lid o1 ops = run_hist false lid o2 ops.
Proof. exact hist_transparent. Qed.
Print Assumptions C03_history_transparent.

(* ... and every write satisfies every clause of the property for the style the object has at that
   moment (`hist_ok_b`: stream meaning, no colour parameter under NO_COLOR, no escape without colour
   system, no control function on a non-terminal) -- the checker the harness evaluates on rich's bytes *)
Theorem C03_history_means : forall lid ops s m,
  lid_ok lid = true -> style_wf s = true -> memo_honest s m = true -> forallb hop_full ops = true ->
  exists outs, run_hist true lid (s, m) ops = Ok outs
    /\ run_hist false lid (s, None) ops = Ok outs
    /\ hist_ok_b lid s ops outs = true.
Proof. exact hist_repaired_ok. Qed.
Print Assumptions C03_history_means.

Definition ex_hist : list hop :=
  [HRender (ex_cfg (Some CS_TRUECOLOR) false true false true) (lit "warm");
   HRender (ex_cfg (Some CS_TRUECOLOR) true true false true) (lit "hello");
   HCopy; HUpdateLink (Some (lit "http://x"));
   HRender (ex_cfg (Some CS_TRUECOLOR) true false false true) (lit "copy");
   HAddRight ex_off; HWithoutColor;
   HRender (ex_cfg (Some CS_STANDARD) false true false true) (lit "z")].
Example C03_history_nonvacuous :
  forallb hop_full ex_hist = true
  /\ run_hist true (lit "0-0") (ex_all, None) ex_hist
     = Ok [lit "" ++ [27] ++ lit "]8;id=0-0;http://h/p;q=1" ++ [27; 92; 27]
             ++ lit "[1;2;3;4;5;6;7;8;9;21;51;52;53;38;2;10;200;30;48;5;200mwarm" ++ [27] ++ lit "[0m" ++ [27] ++ lit "]8;;" ++ [27; 92];
           lit "" ++ [27] ++ lit "]8;id=0-0;http://h/p;q=1" ++ [27; 92; 27]
             ++ lit "[1;2;3;4;5;6;7;8;9;21;51;52;53mhello" ++ [27] ++ lit "[0m" ++ [27] ++ lit "]8;;" ++ [27; 92];
           lit "" ++ [27] ++ lit "]8;id=0-0;http://x" ++ [27; 92; 27]
             ++ lit "[1;2;3;4;5;6;7;8;9;21;51;52;53mcopy" ++ [27] ++ lit "[0m" ++ [27] ++ lit "]8;;" ++ [27; 92];
           lit "" ++ [27] ++ lit "]8;id=0-0;http://x" ++ [27; 92; 27]
             ++ lit "[2;3;5;6;7;8;9;21;51;52;53mz" ++ [27] ++ lit "[0m" ++ [27] ++ lit "]8;;" ++ [27; 92]].
Proof. vm_compute. repeat split. Qed.

(* why without_color must start with an empty memo (seeded mutation C03-m1: without_color built on
   copy()): the memo of the coloured source is not an honest memo of the colourless style, and
   rendering the colourless style with it puts colour parameters into a NO_COLOR stream *)
Example C03_without_color_must_reset_memo :
  let s := style_make (Some (from_rgb 255 135 0)) (Some (from_ansi 4)) [Some true; None; None; Some true] None in
  let k := ex_cfg (Some CS_TRUECOLOR) true true false true in
  exists a, make_ansi_codes s CS_TRUECOLOR = Ok a
    /\ memo_honest s (Some (CS_TRUECOLOR, a)) = true
    /\ memo_honest (style_without_color s) (Some (CS_TRUECOLOR, a)) = false
    /\ render_styled true (style_without_color s) (Some (CS_TRUECOLOR, a)) (lit "hello") (Some CS_TRUECOLOR) false []
       = Ok ([27] ++ lit "[1;4;38;2;255;135;0;44mhello" ++ [27] ++ lit "[0m")
    /\ no_color_params_b ([27] ++ lit "[1;4;38;2;255;135;0;44mhello" ++ [27] ++ lit "[0m") = false
    /\ render_buffer k [mkASeg (lit "hello") (Some s) [] (Some (CS_TRUECOLOR, a)) false]
       = Ok ([27] ++ lit "[1;4mhello" ++ [27] ++ lit "[0m").
Proof. exists (lit "1;4;38;2;255;135;0;44"). vm_compute. repeat split. Qed.

(* (6c) Segment.remove_color as coded keeps a dict {style: colourless copy}; a later segment whose
        style matches a key (`same`: any relation implying Style.__eq__, e.g. equal hash and __eq__)
        reuses the earlier copy OBJECT -- its link id, and its `_ansi` slot in whatever state this
        console's earlier renders left it (`reuse_ok`).  That is invisible: the buffer renders exactly
        as with a private `without_color` per segment, which is what `render_buffer` models.
        (Link ids equal: the harness pins them; ids are not part of the meaning.) *)
Theorem C03_remove_color_dict_transparent : forall k same reuse_memo lid segs,
  (forall a b, same a b = true -> style_eqb a b = true) ->
  reuse_ok k reuse_memo ->
  Forall (fun g => a_lid g = lid) segs ->
  render_segs k (remove_color_cached same reuse_memo [] segs) = render_segs k (map remove_color_seg segs).
Proof.
  intros k same reuse_memo lid segs SE RO U.
  apply (remove_color_dict_transparent k same reuse_memo lid segs [] SE RO); [|exact U].
  intros s0 cs clid [].
Qed.
Print Assumptions C03_remove_color_dict_transparent.

Example C03_remove_color_dict_nonvacuous :     (* the second, equal style reuses the first copy: hash of the FIRST *)
  let a := style_make (Some ex_red) None [Some true] None in
  let b := style_add (style_make None None [Some true] None) (style_make (Some ex_red) None [] None) in
  style_eqb a b = true
  /\ map a_style (remove_color_cached style_eqb (fun _ => None) []
                    [mkASeg (lit "x") (Some a) [] None false; mkASeg (lit "y") (Some b) [] None false])
     = [Some (style_without_color a); Some (style_without_color a)].
Proof. vm_compute. repeat split. Qed.

(* (7) the per-style lemma behind (1): from the reset rendition with hyperlink l, the parameter
       list rich computes for style s on colour system sys puts the independent interpreter in
       exactly the state (attributes on, down-converted fg, bg, l) *)
Theorem C03_style_parameters_mean_style : forall s sys l,
  style_wf s = true ->
  make_ansi_codes s sys = Ok (str_join [59] (map str_of_Z (style_nums s sys)))
  /\ apply_sgr (mkT no_flags TDefault TDefault l) (style_nums s sys) = vis_state s sys l
  /\ (style_nums s sys <> [] ->
      parse_params (str_join [59] (map str_of_Z (style_nums s sys))) = style_nums s sys).
Proof.
  intros s sys l W. split; [exact (make_ansi_codes_spec s sys W)|]. split; [exact (apply_style_nums s sys l W)|].
  intros N. exact (proj1 (parse_nums _ N (style_nums_ok s sys W))).
Qed.
Print Assumptions C03_style_parameters_mean_style.

(* the code in the tree under verification today is the repaired one (tie 1: gen/AnsiFacts.v is
   regenerated from the source of Style._make_ansi_codes and Console._render_buffer on every run;
   these two break when a repair is missing or removed) *)
Example C03_memo_keyed_today : ANSI_MEMO_KEYED_BY_SYSTEM = true.
Proof. reflexivity. Qed.
Example C03_control_guard_today : RENDER_BUFFER_CONTROL_GUARD_FIRST = true.
Proof. reflexivity. Qed.
(* Console.__init__ derives no_color from the PRESENCE of NO_COLOR (statement checked verbatim by the translator) *)
Example C03_no_color_by_presence_today : NO_COLOR_BY_PRESENCE = true.
Proof. reflexivity. Qed.
(* which derivation inherits the memo: copy and update_link do, without_color and + do not *)
Example C03_memo_carrying_today :
  (COPY_CARRIES_MEMO, UPDATE_LINK_CARRIES_MEMO, WITHOUT_COLOR_CARRIES_MEMO, ADD_CARRIES_MEMO) = (true, true, false, false).
Proof. reflexivity. Qed.
