(* C09 -- Measurements are sound bounds on what rendering produces.
   Model: model/Layout.v -- measure cf r avail = Measurement.get(console, r, avail) (normalize, with_maximum,
   the (0, max_width) answer for renderables without __rich_measure__, __rich__ casting, measure_renderables,
   every __rich_measure__ of the tree) and render (see props/C01.v).  Checkers: SpecLayout.meas_bounds_b,
   meas_sound_b, text_meas_b, not_wrapped_b.  Only property theorems live here. *)
From RichModel Require Import Prelude Cells Segments Ratio Frames Layout SpecLayout.
From RichModel Require Table Wrap.
From RichProofs Require Import LayoutP LayoutP2 LayoutP8 LayoutP9 LayoutP10 LayoutP3 LayoutP4 LayoutP5 LayoutP6 LayoutP7.
(* T2 tie: Measurement.normalize/with_maximum/clamp, Padding.unpack, Table padding arithmetic regenerated from /repo and proved equal to the hand model *)
From RichProofs.bridge Require BridgeMeasure.

(* (1) 0 <= minimum <= maximum <= available width: for EVERY renderable tree (objects without a measure
   method and __rich__ casts included), every available width >= 0, unconditionally ... *)
Theorem C09_get_normalised : forall cf r avail m, 0 <= avail ->
  measure cf r avail = Ok m -> meas_bounds_b avail m = true.
Proof. exact measure_normalised. Qed.
Print Assumptions C09_get_normalised.

(* ... because Measurement.get normalises whatever __rich_measure__ answers: any measurement function at all *)
Theorem C09_get_normalised_any_child : forall (c : child) w, 0 <= w ->
  0 <= fst (measurement_get c w) /\ fst (measurement_get c w) <= snd (measurement_get c w) /\ snd (measurement_get c w) <= w.
Proof. exact get_normalised. Qed.
Print Assumptions C09_get_normalised_any_child.

Example C09_get_normalised_nonvacuous :
  measurement_get (mkChild (fun _ => (9, -3)) (fun _ => [])) 5 = (0, 0)
  /\ measurement_get (mkChild (fun _ => (7, 40)) (fun _ => [])) 12 = (7, 12)
  /\ measure (mkCfg 80 true) (NoMeasure (Txt (lit "hello world") None None None)) 30 = Ok (0, 30)
  /\ measure (mkCfg 80 true) (Cast (Txt (lit "hello world") None None None)) 30 = Ok (5, 11)
  /\ measure (mkCfg 80 true) (Txt (lit "hello world") None None None) 3 = Ok (3, 3).
Proof. vm_compute. repeat split; reflexivity. Qed.

(* (2) Rendering at the reported maximum, and at the reported minimum, yields no line wider than that value,
   for values at or above the structural minimum: every tree of the option domain `wrappable` -- all nestings
   to any depth incl. Tbl / Cols with ARBITRARY cells.  It is C01_render_fits at W = maximum and W = minimum;
   the cell contract and the monotonicity of the table measurement in the available width that DESIGN
   expected to need are not needed (cells are cropped by render_lines). *)
Theorem C09_measure_sound : forall cf r avail mn mx Lmx Lmn,
  wrappable r = true -> mx <= cW cf ->
  measure cf r avail = Ok (mn, mx) ->
  render cf r ro0 mx = Ok Lmx -> render cf r ro0 mn = Ok Lmn ->
  meas_sound_b (smin r) (mn, mx) (map line_text Lmx) (map line_text Lmn) = true.
Proof. exact measure_sound. Qed.
Print Assumptions C09_measure_sound.

Example C09_measure_sound_nonvacuous :
  let r := Panel (Txt (lit "hello wide world") None None None) (mkPanel 12 true false false [] 1 false None (0, 1, 0, 1) None None) in
  wrappable r = true /\ smin r = 5 /\ measure (mkCfg 40 true) r 40 = Ok (20, 20)
  /\ widest (render (mkCfg 40 true) r ro0 20) = 20.
Proof. vm_compute. repeat split; reflexivity. Qed.

(* (3) Text: minimum = widest word, maximum = widest line -- in the vocabulary of the wrapper itself
   (_wrap.words' words, Text.wrap's "\n"-separated lines); every string *)
Theorem C09_text_measure_words_lines : forall s, text_meas_b s (text_measure true s) = true.
Proof. exact text_measure_words_lines. Qed.
Print Assumptions C09_text_measure_words_lines.

Example C09_text_measure_nonvacuous :
  text_measure true (lit "ab  cde" ++ [NL; 12354; 12354; 32; 120]) = (4, 7) /\ text_measure true (lit "   ") = (3, 3).
Proof. vm_compute. split; reflexivity. Qed.

(* (4) ... so text without tabs given its maximum is never wrapped: one output line per source line, every
   justify and overflow mode.  Holds for the REPAIRED measurement (lines split at "\n" only) ... *)
Theorem C09_text_at_max_not_wrapped : forall s j ov, forallb (fun c => negb (c =? 9)) s = true ->
  let mx := snd (text_measure true s) in 1 <= mx ->
  not_wrapped_b s (map (@Wrap.plain unit)
    (Wrap.wrap unit (fun _ _ => true) tt (fun _ _ => tt) Wrap.repaired (Wrap.mkText s [] tt) mx j ov 8 false)) = true.
Proof. exact text_at_max_not_wrapped. Qed.
Print Assumptions C09_text_at_max_not_wrapped.

Theorem C09_text_rendered_at_max_not_wrapped : forall s, forallb (fun c => negb (c =? 9)) s = true ->
  let mx := snd (text_measure true s) in 1 <= mx ->
  not_wrapped_b s (map line_text (split_lines (text_stream s None None None ro0 mx))) = true.
Proof. exact text_stream_at_max_not_wrapped. Qed.
Print Assumptions C09_text_rendered_at_max_not_wrapped.

(* ... and is FALSE of rich 9.10.0 as found (D20): Text.__rich_measure__ splits lines with str.splitlines(),
   Text.wrap only at "\n".  "a" U+2028 "bbbb" reports maximum 4 and is wrapped into two lines at width 4. *)
Theorem C09_text_at_max_not_wrapped_refuted : exists s, forallb (fun c => negb (c =? 9)) s = true /\
  let mx := snd (text_measure false s) in 1 <= mx /\
  not_wrapped_b s (map line_text (split_lines (text_stream s None None None ro0 mx))) = false.
Proof. exact text_at_max_not_wrapped_refuted. Qed.
Print Assumptions C09_text_at_max_not_wrapped_refuted.

Example C09_d20_witness_repaired :
  snd (text_measure false d20_witness) = 4 /\ snd (text_measure true d20_witness) = 5 /\
  not_wrapped_b d20_witness
    (map line_text (split_lines (text_stream d20_witness None None None ro0 (snd (text_measure true d20_witness))))) = true.
Proof. vm_compute. repeat split; reflexivity. Qed.
