(* C02 -- Word wrapping keeps every character, in order, with its own style.
   Only property theorems live here; each is closed by `exact` and followed by Print Assumptions.
   Model: model/Wrap.v (rich/_wrap.py, Text.wrap and everything it runs, Lines.justify); checkers:
   model/SpecWrap.v.  Styles are an abstract type S with dict-key equality seqb, null style and
   combination add; `fx` selects the as-is (asis) or repaired (repaired) behaviour of Text.divide's
   span precedence (D15) and of pad_left with a negative count.  Theorems quantified over `fx` hold
   for both. *)
From RichModel Require Import Prelude Cells Wrap SpecWrap.
From RichProofs.bridge Require BridgeCells.   (* tie 1 (T2): rich/cells.py (chop_cells, set_cell_size, widths) regenerated *)
From RichProofs Require Import CellsP WrapP WrapP2 WrapP3 WrapP4 WrapP5 WrapP6 WrapS3 WrapS6.

Arguments plain {S}.

(* ------------------------------------------------------------------ (b) every produced line fits *)
(* every string, every span set, every width >= 1, every justify mode, every overflow mode except
   "ignore", wrapped or no_wrap *)
Theorem C02_wrap_fits : forall S seqb null add fx (t : text S) w j ov ts nw,
  1 <= w -> ov <> OV_IGNORE ->
  all_fit_b w (map plain (wrap S seqb null add fx t w j ov ts nw)) = true.
Proof. exact wrap_fits_all. Qed.
Print Assumptions C02_wrap_fits.

Example C02_wrap_fits_nonvacuous :
  map plain (wrap Z Z.eqb 0 (fun a b => b) repaired (mkText (lit "ab cdefgh") [(0, 4, 1)] 0) 4 J_LEFT OV_FOLD 8 false)
  = [lit "ab c"; lit "defg"; lit "h   "].
Proof. vm_compute. reflexivity. Qed.

(* ------------------------------------------------------------------ central lemma *)
(* break offsets are monotone, inside the string, and every line between two consecutive offsets,
   right-stripped, fits -- all strings incl. zero-width / double-width characters and every
   whitespace character of the interpreter, all widths >= 2 *)
Theorem C02_divide_line_lines_fit : forall s w, 2 <= w ->
  mono_from 0 (divide_line s w true ++ [zlen s]) /\
  concat (line_pieces s (divide_line s w true)) = s /\
  Forall (fun p => cell_len (rstrip p) <= w) (line_pieces s (divide_line s w true)).
Proof.
  intros s w Hw. pose proof (divide_line_sorted s w true ltac:(lia)) as Hm.
  split; [exact Hm|split; [exact (line_pieces_concat s _ Hm)|exact (divide_line_lines_fit s w Hw)]].
Qed.
Print Assumptions C02_divide_line_lines_fit.

Example C02_width_two_needed :   (* at width 1 a double-width character cannot fit *)
  forallb (fun p => cell_len (rstrip p) <=? 1) (line_pieces [12354] (divide_line [12354] 1 true)) = false.
Proof. vm_compute. reflexivity. Qed.

(* ------------------------------------------------------------------ (a) no non-whitespace character dropped, duplicated, reordered *)
(* the property's statement, at full strength: all strings (tabs expanded, newlines, zero-width,
   double-width, every whitespace character of the interpreter), all span sets, all widths >= 2, EVERY
   justify mode (default, left, center, right, full), both model variants *)
Theorem C02_wrap_keeps_nonspace : forall S seqb null add fx (t : text S) w j ts,
  2 <= w ->
  same_nonspace_b (plain t) (map plain (wrap S seqb null add fx t w j OV_FOLD ts false)) = true.
Proof. exact wrap_keeps_nonspace_all. Qed.
Print Assumptions C02_wrap_keeps_nonspace.

Example C02_keeps_nonvacuous :
  map plain (wrap Z Z.eqb 0 (fun a b => b) repaired
               (mkText [97; 9; 12354; 12354; 12354; 32; 98; 769; 10; 99] [] 0) 4 J_CENTER OV_FOLD 2 false)
  = [[97; 32; 12354]; [12354; 12354]; [32; 32; 98; 769; 32]; [32; 99; 32; 32]].
Proof. vm_compute. reflexivity. Qed.

Example C02_keeps_full_nonvacuous :
  map plain (wrap Z Z.eqb 0 (fun a b => b) repaired (mkText (lit "ab  cd e fghi jk") [] 0) 12 J_FULL OV_FOLD 8 false)
  = [lit "ab    cd   e"; lit "fghi jk"].
Proof. vm_compute. reflexivity. Qed.

(* ------------------------------------------------------------------ (d) words are broken only when too long *)
(* at the level of Text.wrap's OUTPUT: a word (maximal non-whitespace run of a tab-expanded source line,
   the first one measured together with the indentation before it) lies on two different output lines
   only if it is wider than the width.  All strings, widths >= 2, every justify mode, both variants. *)
Theorem C02_wrap_breaks_only_long_words : forall S seqb null add fx (t : text S) w j ts, 2 <= w ->
  breaks_only_long_b w (map plain (expanded_lines S seqb fx t ts))
                       (map plain (wrap S seqb null add fx t w j OV_FOLD ts false)) = true.
Proof. exact wrap_breaks_only_long. Qed.
Print Assumptions C02_wrap_breaks_only_long_words.

(* the same fact about the break offsets: every offset is the start of a word, or lies strictly inside
   a word that is wider than the width *)
Theorem C02_divide_line_breaks_only_long : forall s w o, 2 <= w -> In o (divide_line s w true) ->
  exists st e wd, In (st, e, wd) (words s) /\ (o = st \/ (st < o < e /\ w < cell_len (rstrip wd))).
Proof. exact divide_line_breaks_only_long. Qed.
Print Assumptions C02_divide_line_breaks_only_long.

Example C02_breaks_wrap_nonvacuous :
  map plain (wrap Z Z.eqb 0 (fun a b => b) repaired (mkText (lit "   abcd ef") [] 0) 5 J_DEFAULT OV_FOLD 8 false)
  = [lit "   ab"; lit "cd ef"].     (* "abcd" is 4 <= 5 wide but is broken: with its indentation it is 7 wide *)
Proof. vm_compute. reflexivity. Qed.

Example C02_breaks_nonvacuous :
  divide_line (lit "ab cdefgh ij") 4 true = [4; 8] /\ words (lit "ab cdefgh ij") = [(0, 3, lit "ab "); (3, 10, lit "cdefgh "); (10, 12, lit "ij")].
Proof. vm_compute. split; reflexivity. Qed.

(* ------------------------------------------------------------------ (c) every character keeps its styles *)
(* Dividing a text at monotone offsets (what wrap does with the break offsets, and what split does at
   separators): every line has the right characters, the same base style, and every character is
   covered by exactly the same styles in the same order as before.  Repaired span precedence
   (fixes/C02_divide_span_order.diff); NO hypothesis on the spans: empty, inverted, duplicated,
   coinciding, overlapping, out-of-range spans included. *)
Theorem C02_divide_styles : forall S seqb fx (t : text S) offs,
  fix_order fx = true -> mono_from3 0 (offs ++ [tlen S t]) ->
  Forall2 (fun r line =>
             plain line = zslice (plain t) (fst r) (snd r) /\ base line = base t /\
             forall j, 0 <= j < snd r - fst r -> cover_styles S line j = cover_styles S t (fst r + j))
          (zip_ranges (0 :: offs ++ [tlen S t])) (divide S seqb fx t offs).
Proof. exact divide_styles_repaired. Qed.
Print Assumptions C02_divide_styles.

(* the as-is Text.divide (value-keyed dict) is correct when no two spans carry the same style -- the
   class of inputs on which a clipped span can never coincide with another dict key *)
Theorem C02_divide_styles_asis_partial : forall S seqb, (forall a b, seqb a b = true <-> a = b) ->
  forall fx (t : text S) offs,
  fix_order fx = false -> NoDup (map (@sp_style S) (spans t)) -> mono_from3 0 (offs ++ [tlen S t]) ->
  Forall2 (fun r line =>
             plain line = zslice (plain t) (fst r) (snd r) /\ base line = base t /\
             forall j, 0 <= j < snd r - fst r -> cover_styles S line j = cover_styles S t (fst r + j))
          (zip_ranges (0 :: offs ++ [tlen S t])) (divide S seqb fx t offs).
Proof. exact divide_styles_asis_partial. Qed.
Print Assumptions C02_divide_styles_asis_partial.

Example C02_divide_styles_nonvacuous :
  map (fun l => (plain l, spans l)) (divide Z Z.eqb repaired (mkText (lit "abcdefgh") [(1, 7, 1); (3, 5, 2); (0, 4, 3)] 0) [4])
  = [(lit "abcd", [(1, 4, 1); (3, 4, 2); (0, 4, 3)]); (lit "efgh", [(0, 3, 1); (0, 1, 2)])].
Proof. vm_compute. reflexivity. Qed.

(* STATEMENT (c) AT THE LEVEL OF Text.wrap, one theorem: for every overflow mode (fold, crop, ellipsis,
   ignore), every justify mode (default, left, center, right, full), wrapped or no_wrap, every tab size,
   every width >= 2, all strings and ALL span sets (empty, inverted, duplicated, coinciding, negative,
   past the end): the styled non-whitespace characters of the output lines are, line by line and in
   order, characters of the input with their code point and their normalised ordered covering styles
   unchanged (provenance: each output line is a prefix of its source piece -- the whole piece when
   folding or ignoring the width -- optionally followed by the one ellipsis character; everything else
   that is inserted is whitespace).  Repaired Text.divide and pad_left; style equality decidable.
   kept_mode: with no_wrap a fold line is cropped (tests/test_text.py::test_no_wrap_no_crop). *)
Theorem C02_wrap_styles : forall S seqb null add fx (t : text S) w j ov ts nw,
  (forall a b, seqb a b = true <-> a = b) -> fix_order fx = true -> fix_pad fx = true ->
  2 <= w -> 0 <= ov <= 3 ->
  styles_kept_b S seqb (kept_mode ov nw) (styled S seqb null t)
    (map (styled S seqb null) (wrap S seqb null add fx t w j ov ts nw)) = true.
Proof. intros S seqb null add fx t w j ov ts nw He Ho Hp Hw Hov. apply wrap_styles_all; assumption. Qed.
Print Assumptions C02_wrap_styles.

Example C02_wrap_styles_nonvacuous :   (* ellipsis + full justify + tabs + overlapping/duplicated spans *)
  map (fun l => (plain l, spans l))
      (wrap Z Z.eqb 0 (fun a b => b) repaired
         (mkText (lit "ab cdefgh ijk") [(0, 13, 1); (1, 5, 2); (1, 5, 2); (4, 4, 3); (0, 5, 1)] 0) 5 J_LEFT OV_ELLIPSIS 8 false)
  = [(lit "ab   ", [(0, 3, 1); (1, 3, 2); (1, 3, 2); (0, 3, 1)]);
     (lit "cdef" ++ [8230], [(0, 5, 1); (0, 2, 2); (0, 2, 2); (1, 1, 3); (0, 2, 1)]);
     (lit "ijk  ", [(0, 3, 1)])].
Proof. vm_compute. reflexivity. Qed.

(* rich 9.10.0 as found: the precedence of clipped spans lives in a dict keyed by the span VALUE; the
   clipped first span (0,5,red) collides with the third span and drags it below blue (DESIGN D15).
   Styles: 1 = red, 2 = blue; add = "later wins". *)
Definition d15_text : text Z := mkText (lit "abcd efghi") [(0, 10, 1); (0, 5, 2); (0, 5, 1)] 0.
Theorem C02_wrap_styles_asis_refuted : exists (t : text Z) w,
  styles_kept_b Z Z.eqb OV_FOLD (styled Z Z.eqb 0 t)
    (map (styled Z Z.eqb 0) (wrap Z Z.eqb 0 (fun a b => b) asis t w J_DEFAULT OV_FOLD 8 false)) = false.
Proof. exists d15_text, 5. vm_compute. reflexivity. Qed.
Print Assumptions C02_wrap_styles_asis_refuted.

Example C02_wrap_styles_d15_repaired :
  styles_kept_b Z Z.eqb OV_FOLD (styled Z Z.eqb 0 d15_text)
    (map (styled Z Z.eqb 0) (wrap Z Z.eqb 0 (fun a b => b) repaired d15_text 5 J_DEFAULT OV_FOLD 8 false)) = true
  /\ map (fun l => style_at Z (fun a b => b) l 0) (wrap Z Z.eqb 0 (fun a b => b) asis d15_text 5 J_DEFAULT OV_FOLD 8 false) = [2; 1]
  /\ map (fun l => style_at Z (fun a b => b) l 0) (wrap Z Z.eqb 0 (fun a b => b) repaired d15_text 5 J_DEFAULT OV_FOLD 8 false) = [1; 1].
Proof. vm_compute. repeat split. Qed.

(* second defect found by this check: justify center/right with overflow="ignore" on a line wider than
   the width calls pad_left with a negative count, which leaves the characters alone but shifts every
   span to the left -- the styled characters 'e','f' lose their style, 'b','c' gain it. *)
Definition pad_text : text Z := mkText (lit "abcdefghij") [(4, 6, 1)] 0.
Theorem C02_wrap_styles_pad_asis_refuted : exists (t : text Z) w j,
  styles_kept_b Z Z.eqb OV_IGNORE (styled Z Z.eqb 0 t)
    (map (styled Z Z.eqb 0) (wrap Z Z.eqb 0 (fun a b => b) asis t w j OV_IGNORE 8 false)) = false.
Proof. exists pad_text, 4, J_CENTER. vm_compute. reflexivity. Qed.
Print Assumptions C02_wrap_styles_pad_asis_refuted.

Example C02_wrap_styles_pad_repaired :
  forallb (fun j => styles_kept_b Z Z.eqb OV_IGNORE (styled Z Z.eqb 0 pad_text)
    (map (styled Z Z.eqb 0) (wrap Z Z.eqb 0 (fun a b => b) repaired pad_text 4 j OV_IGNORE 8 false)))
    [J_DEFAULT; J_LEFT; J_CENTER; J_RIGHT; J_FULL] = true.
Proof. vm_compute. reflexivity. Qed.

