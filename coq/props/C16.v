(* C16 -- Pretty-printed data evaluates back to the data.
   Theorems about the executable model of rich/pretty.py (model/Pretty.v) with the _BRACES table
   regenerated from /repo (gen/PrettyBraces.v).  The last step of "evaluates back" -- that a text which
   is the canonical token stream up to layout denotes the value -- is Python's parser; it is validated
   in the harness by eval / ast.literal_eval of the implementation's output (recorded assumption). *)
From RichModel Require Import Prelude Wire Cells Pretty SpecPretty.
From RichGen Require Import PrettyBraces.
From RichProofs Require Import CellsP PrettyP PrettyP2 PrettyP3 PrettyP4 PrettyP5.

Definition L1 (s : string) : V := Leaf (lit s, None).
Definition tup123 : V := Seq KTuple [] [L1 "1"; L1 "2"; L1 "3"].

(* (0) today's _BRACES table is, for every container type, what evaluates back (D5: the empty-array
   entry must be an f-string) *)
Theorem C16_braces_table_ok :
  table_complete BRACES = true /\
  (forall k a, bf_of BRACES (sname k) a = braces_spec_s k a) /\
  (forall k a, bf_of BRACES (mname k) a = braces_spec_m k a).
Proof. exact (conj braces_complete (conj braces_gen_s braces_gen_m)). Qed.
Print Assumptions C16_braces_table_ok.

(* (1) the while-loop of Node.render equals the structurally recursive printer and never runs out of
   fuel: for every value, width, indent, option *)
Theorem C16_render_terminates : forall v W ind ml ms ea, ml_ok ml v = true ->
  pretty_repr v W ind ml ms ea = Ok (rs W ind ea (the_node ml ms v) (root_line (the_node ml ms v))).
Proof. exact pretty_repr_rec. Qed.
Print Assumptions C16_render_terminates.

Theorem C16_worklist_is_recursive : forall keep W ind ea n,
  render_lines keep n W ind ea = Ok (rr keep W ind ea n (root_line n)).
Proof. exact render_lines_rec. Qed.
Print Assumptions C16_worklist_is_recursive.

(* (2) pretty_tokens_canonical: at EVERY width, indent, expand_all, max_length, max_string, for EVERY
   value (any depth, cycles included) the output is the canonical one-line token stream of the value
   up to newlines/indentation between tokens -- the 1-tuple comma is a token and must be there *)
Theorem C16_pretty_tokens_canonical : forall v W ind ml ms ea s,
  pretty_repr v W ind ml ms ea = Ok s -> canonical_b ml ms v s = true.
Proof. exact pretty_tokens_canonical. Qed.
Print Assumptions C16_pretty_tokens_canonical.

Example C16_canonical_nonvacuous :
  pretty_repr (Seq KTuple [] [tup123]) 5 4 None None false
  = Ok (lit "(" ++ NL :: lit "    (" ++ NL :: lit "        1," ++ NL :: lit "        2," ++ NL :: lit "        3"
          ++ NL :: lit "    )," ++ NL :: lit ")")
  /\ canonical_b None None (Seq KTuple [] [tup123]) (lit "((1,2,3))") = false.
Proof. vm_compute. split; reflexivity. Qed.

(* ... and this is false of rich 9.10.0 as it was (D22): the closing line of an expanded child forgot
   the suffix of the line it replaces, so the comma of an enclosing 1-tuple was dropped *)
Theorem C16_pretty_tokens_canonical_asis_refuted : exists v W ind s,
  pretty_repr_T BRACES false v W ind None None false = Ok s /\ canonical_b None None v s = false.
Proof. exists (Seq KTuple [] [tup123]), 5, 4. eexists. split; [vm_compute; reflexivity|vm_compute; reflexivity]. Qed.
Print Assumptions C16_pretty_tokens_canonical_asis_refuted.

(* D5: with the table as it was, array('i') prints a text that is not the stream of the value *)
Theorem C16_empty_array_asis_refuted : exists v s,
  pretty_repr_T BRACES_asis true v 80 4 None None false = Ok s /\ canonical_b None None v s = false
  /\ s = lit "array({_object.typecode!r})".
Proof. exists (Seq KArray (lit "'i'") []). eexists. split; [vm_compute; reflexivity|split; vm_compute; reflexivity]. Qed.
Print Assumptions C16_empty_array_asis_refuted.

Example C16_empty_array_now :
  pretty_repr (Seq KArray (lit "'i'") []) 80 4 None None false = Ok (lit "array('i')").
Proof. vm_compute. reflexivity. Qed.

(* (3) one_line_when_fits: whenever the one-line form fits the width it is the output ... *)
Theorem C16_one_line_when_fits : forall v W ind ml ms, ml_ok ml v = true ->
  cell_len (canon_str ml ms v) <= W -> pretty_repr v W ind ml ms false = Ok (canon_str ml ms v).
Proof. exact one_line_when_fits. Qed.
Print Assumptions C16_one_line_when_fits.

Theorem C16_one_line_spec : forall v W ind ml ms ea s,
  pretty_repr v W ind ml ms ea = Ok s -> one_line_b W ea ml ms v s = true.
Proof. exact one_line_spec. Qed.
Print Assumptions C16_one_line_spec.

(* ... and the one-line form is the text of the node tree (str(traverse(obj))) *)
Theorem C16_one_line_is_node_str : forall v ml ms,
  canon_str ml ms v = node_str (traverse (bf_of BRACES) ml ms v).
Proof. intros v ml ms. exact (canon_str_node (bf_of BRACES) braces_gen_s braces_gen_m ml ms v). Qed.
Print Assumptions C16_one_line_is_node_str.

(* ... and for list / tuple / dict / set / frozenset over leaves it is Python's repr() (py_repr is the spec of
   repr for these types; it is compared with the real repr() on every generated plain value) *)
Theorem C16_one_line_is_repr : forall v r, leaves_ok v = true -> py_repr v = Some r -> canon_str None None v = r.
Proof. exact canon_is_repr. Qed.
Print Assumptions C16_one_line_is_repr.

Example C16_one_line_nonvacuous :
  canon_str None None (Map KDict [] [((lit "'a'", None), Seq KSet [] []); ((lit "'b'", None), Seq KTuple [] [L1 "1"])])
  = lit "{'a': set(), 'b': (1,)}"
  /\ py_repr (Map KDict [] [((lit "'a'", None), Seq KSet [] []); ((lit "'b'", None), Seq KTuple [] [L1 "1"])])
     = Some (lit "{'a': set(), 'b': (1,)}").
Proof. vm_compute. split; reflexivity. Qed.

(* (4) expanded_layout, on the lines the printer produces (root at indentation 0):
   (a) a line that still carries a non-empty container fits the width (and expand_all is off);
   (b) the indentation of every line is spaces only and the root's plus a whole number of indents.
   PARTIAL: the string-level checker layout_b (one item per line; indentation = depth * indent_size;
   a container is on one line iff that line fits) is evaluated on the implementation's output for every
   generated case, and on the model by the examples below; the general theorem
     forall v .., leaves_ok v = true -> pretty_repr v W ind ml ms ea = Ok s -> layout_b W ind ea ml ms v s = true
   is not proved (it needs split_nl (join_nl lines) = lines for newline-free reprs and a walk over rr). *)
Theorem C16_expanded_layout_partial : forall W ind ea n,
  Forall (fun l => line_fits W l /\ (expandable_node l <> None -> ea = false)
                   /\ all_sp (l_ws l) = true
                   /\ exists k : nat, l_ws l = concat (repeat (py_repeat SP ind) k))
         (rr true W ind ea n (root_line n)).
Proof.
  intros W ind ea n.
  pose proof (kept_lines_fit W ind ea n (root_line n) eq_refl eq_refl eq_refl) as A.
  pose proof (lines_indent W ind ea n (root_line n) eq_refl eq_refl) as B.
  rewrite Forall_forall in *. intros l Hl. destruct (A l Hl) as [A1 A2]. destruct (B l Hl) as [B1 B2].
  repeat split; assumption.
Qed.
Print Assumptions C16_expanded_layout_partial.

Example C16_layout_nonvacuous :
  let v := Seq KList [] [L1 "1"; Seq KTuple [] [tup123]; Map KDict [] [((lit "'k'", None), Seq KList [] [])]] in
  forallb (fun W => match pretty_repr v W 2 None None false with
                    | Ok s => layout_b W 2 false None None v s && canonical_b None None v s
                    | _ => false
                    end) (map Z.of_nat (seq 1 40)) = true
  /\ layout_b 5 2 false None None v (lit "[1, ((1, 2, 3),), {'k': []}]") = false.
Proof. vm_compute. split; reflexivity. Qed.

(* (5) single_tuple_comma: the stream of a one-element tuple has the comma token, so by (2) every
   output has it, whatever the element expands to *)
Theorem C16_single_tuple_comma : forall x ms a,
  canon None ms (Seq KTuple a [x]) = TOpen (lit "(") :: canon None ms x ++ [TTup; TClose (lit ")")].
Proof. intros. cbn. now rewrite <- app_assoc. Qed.
Print Assumptions C16_single_tuple_comma.

(* (6) cycle_marker: a reference to a container being traversed is the atom "..." -- and by (1) the
   printer terminates on every value containing such references *)
Theorem C16_cycle_marker : forall ml ms, canon ml ms Cycle = [TAtom (lit "...")].
Proof. reflexivity. Qed.
Print Assumptions C16_cycle_marker.

Example C16_cycle_nonvacuous :
  pretty_repr (Seq KList [] [L1 "1"; Cycle; Map KDict [] [((lit "'a'", None), Cycle)]]) 80 4 None None false
  = Ok (lit "[1, ..., {'a': ...}]").
Proof. vm_compute. reflexivity. Qed.

(* (7) abbreviation_counts: with max_length = m < len the first m items are shown and the marker reports
   exactly the number of items not shown; with max_string = m < len(s) the first m characters are shown
   and the suffix reports exactly the number cut; nothing is reported when nothing is cut *)
Theorem C16_abbreviation_counts_seq : forall k a xs m ms, 0 <= m < zlen xs ->
  canon (Some m) ms (Seq k a xs)
  = TOpen (fst (fst (braces_spec_s k a)))
      :: body (is_tup k)
              (map (canon (Some m) ms) (firstn (Z.to_nat m) xs)
                 ++ [[TAtom (lit "... +" ++ print_Z (zlen xs - Z.of_nat (length (firstn (Z.to_nat m) xs))))]])
      ++ [TClose (snd (fst (braces_spec_s k a)))].
Proof. exact abbreviation_counts_seq. Qed.
Print Assumptions C16_abbreviation_counts_seq.

Theorem C16_abbreviation_counts_map : forall k a kvs m ms, 0 <= m < zlen kvs ->
  canon (Some m) ms (Map k a kvs)
  = TOpen (fst (fst (braces_spec_m k a)))
      :: body false
              (map (fun kv => keytoks (to_repr ms (fst kv)) ++ canon (Some m) ms (snd kv)) (firstn (Z.to_nat m) kvs)
                 ++ [[TAtom (lit "... +" ++ print_Z (zlen kvs - Z.of_nat (length (firstn (Z.to_nat m) kvs))))]])
      ++ [TClose (snd (fst (braces_spec_m k a)))].
Proof. exact abbreviation_counts_map. Qed.
Print Assumptions C16_abbreviation_counts_map.

Theorem C16_abbreviation_counts_str : forall r n rt m, n > m ->
  to_repr (Some m) (r, Some (n, rt)) = rt ++ lit "+" ++ print_Z (n - m).
Proof. exact abbreviation_counts_str. Qed.
Print Assumptions C16_abbreviation_counts_str.

Example C16_abbreviation_nonvacuous :
  pretty_repr (Seq KList [] [L1 "1"; L1 "2"; L1 "3"; Leaf (lit "'Hello'", Some (5, lit "'He'"))]) 80 4 (Some 2) (Some 2) false
  = Ok (lit "[1, 2, ... +2]")
  /\ pretty_repr (Seq KList [] [Leaf (lit "'Hello'", Some (5, lit "'He'"))]) 80 4 (Some 2) (Some 2) false
  = Ok (lit "['He'+3]").
Proof. vm_compute. split; reflexivity. Qed.
