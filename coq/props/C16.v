(* C16 -- Pretty-printed data evaluates back to the data.
   Theorems about the executable model of rich/pretty.py (model/Pretty.v) with the _BRACES table
   regenerated from /repo (gen/PrettyBraces.v).  The last step of "evaluates back" -- that a text which
   is the canonical token stream up to layout denotes the value -- is Python's parser; it is validated
   in the harness by eval / ast.literal_eval of the implementation's output (recorded assumption). *)
From RichModel Require Import Prelude Wire Cells Pretty SpecPretty.
From RichGen Require Import PrettyBraces.
From RichProofs Require Import CellsP PrettyP PrettyP2 PrettyP3 PrettyP4 PrettyP5 PrettyP6.

Definition L1 (s : string) : V := Leaf (lit s, None).
Definition tup123 : V := Seq KTuple [] [L1 "1"; L1 "2"; L1 "3"].

(* (0) today's _BRACES table is, for every container type, what evaluates back (D5: the empty-array
   entry must be an f-string) *)
Theorem C16_braces_table_ok :
  table_complete BRACES = true /\
  (forall k a, bf_of BRACES (sname k) a = braces_spec_s k a) /\
  (forall k a, bf_of BRACES (mname k) a = braces_spec_m k a).
Proof. exact (conj braces_complete (conj braces_gen_s braces_gen_m)). Qed.
Print Assumptions C16_braces_table_ok.

(* (1) the while-loop of Node.render equals the structurally recursive printer and never runs out of
   fuel: for every value, width, indent, option *)
Theorem C16_render_terminates : forall v W ind ml ms ea, ml_ok ml v = true ->
  pretty_repr v W ind ml ms ea = Ok (rs W ind ea (the_node ml ms v) (root_line (the_node ml ms v))).
Proof. exact pretty_repr_rec. Qed.
Print Assumptions C16_render_terminates.

Theorem C16_worklist_is_recursive : forall keep W ind ea n,
  render_lines keep n W ind ea = Ok (rr keep W ind ea n (root_line n)).
Proof. exact render_lines_rec. Qed.
Print Assumptions C16_worklist_is_recursive.

(* (2) pretty_tokens_canonical: at EVERY width, indent, expand_all, max_length, max_string, for EVERY
   value (any depth, cycles included) the output is the canonical one-line token stream of the value
   up to newlines/indentation between tokens -- the 1-tuple comma is a token and must be there *)
Theorem C16_pretty_tokens_canonical : forall v W ind ml ms ea s,
  pretty_repr v W ind ml ms ea = Ok s -> canonical_b ml ms v s = true.
Proof. exact pretty_tokens_canonical. Qed.
Print Assumptions C16_pretty_tokens_canonical.

Example C16_canonical_nonvacuous :
  pretty_repr (Seq KTuple [] [tup123]) 5 4 None None false
  = Ok (lit "(" ++ NL :: lit "    (" ++ NL :: lit "        1," ++ NL :: lit "        2," ++ NL :: lit "        3"
          ++ NL :: lit "    )," ++ NL :: lit ")")
  /\ canonical_b None None (Seq KTuple [] [tup123]) (lit "((1,2,3))") = false.
Proof. vm_compute. split; reflexivity. Qed.

(* ... and this is false of rich 9.10.0 as it was (D22): the closing line of an expanded child forgot
   the suffix of the line it replaces, so the comma of an enclosing 1-tuple was dropped *)
Theorem C16_pretty_tokens_canonical_asis_refuted : exists v W ind s,
  pretty_repr_T BRACES false v W ind None None false = Ok s /\ canonical_b None None v s = false.
Proof. exists (Seq KTuple [] [tup123]), 5, 4. eexists. split; [vm_compute; reflexivity|vm_compute; reflexivity]. Qed.
Print Assumptions C16_pretty_tokens_canonical_asis_refuted.

(* D5: with the table as it was, array('i') prints a text that is not the stream of the value *)
Theorem C16_empty_array_asis_refuted : exists v s,
  pretty_repr_T BRACES_asis true v 80 4 None None false = Ok s /\ canonical_b None None v s = false
  /\ s = lit "array({_object.typecode!r})".
Proof. exists (Seq KArray (lit "'i'") []). eexists. split; [vm_compute; reflexivity|split; vm_compute; reflexivity]. Qed.
Print Assumptions C16_empty_array_asis_refuted.

Example C16_empty_array_now :
  pretty_repr (Seq KArray (lit "'i'") []) 80 4 None None false = Ok (lit "array('i')").
Proof. vm_compute. reflexivity. Qed.

(* (3) one_line_when_fits: whenever the one-line form fits the width it is the output ... *)
Theorem C16_one_line_when_fits : forall v W ind ml ms, ml_ok ml v = true ->
  cell_len (canon_str ml ms v) <= W -> pretty_repr v W ind ml ms false = Ok (canon_str ml ms v).
Proof. exact one_line_when_fits. Qed.
Print Assumptions C16_one_line_when_fits.

Theorem C16_one_line_spec : forall v W ind ml ms ea s,
  pretty_repr v W ind ml ms ea = Ok s -> one_line_b W ea ml ms v s = true.
Proof. exact one_line_spec. Qed.
Print Assumptions C16_one_line_spec.

(* ... and the one-line form is the text of the node tree (str(traverse(obj))) *)
Theorem C16_one_line_is_node_str : forall v ml ms,
  canon_str ml ms v = node_str (traverse (bf_of BRACES) ml ms v).
Proof. intros v ml ms. exact (canon_str_node (bf_of BRACES) braces_gen_s braces_gen_m ml ms v). Qed.
Print Assumptions C16_one_line_is_node_str.

(* ... and it is Python's repr() -- py_repr is the spec of repr(), compared with the real repr() on every
   generated value it is defined for -- for list / tuple / dict / set / frozenset, and also for array (empty or not),
   defaultdict (empty or not), non-empty deque (without maxlen) and the empty Counter.  The only hypothesis: no
   mapping key has an empty repr (true of every built-in literal; see the Example for why it is needed). *)
Theorem C16_one_line_is_repr : forall v r, keys_nonempty v = true -> py_repr v = Some r -> canon_str None None v = r.
Proof. exact canon_is_repr. Qed.
Print Assumptions C16_one_line_is_repr.

(* the hypothesis cannot be dropped: Node.iter_tokens tests `if self.key_repr:`, so a key whose repr is the
   empty string loses its ": " -- rich prints {1} where repr() prints {: 1} *)
Example C16_one_line_is_repr_needs_keys :
  let v := Map KDict [] [(([], None), L1 "1")] in
  py_repr v = Some (lit "{: 1}") /\ canon_str None None v = lit "{1}"
  /\ pretty_repr v 80 4 None None false = Ok (lit "{1}").
Proof. vm_compute. repeat split; reflexivity. Qed.
(* ... whereas an empty repr of a non-key leaf is harmless (no hypothesis on leaves) *)
Example C16_one_line_is_repr_empty_leaf :
  canon_str None None (Seq KList [] [Leaf ([], None); L1 "2"]) = lit "[, 2]"
  /\ py_repr (Seq KList [] [Leaf ([], None); L1 "2"]) = Some (lit "[, 2]").
Proof. vm_compute. split; reflexivity. Qed.

(* what pretty prints on one line for EVERY container kind (deque, Counter, defaultdict, array included):
   open brace, the items' one-line forms joined by ", " (a one-element tuple: item then ","), close brace;
   the empty container is the third string of the table *)
Theorem C16_one_line_seq : forall k a x r ms,
  canon_str None ms (Seq k a (x :: r))
  = fst (fst (braces_spec_s k a)) ++ items_text (is_tup k) (map (canon_str None ms) (x :: r))
      ++ snd (fst (braces_spec_s k a)).
Proof. exact canon_str_seq. Qed.
Print Assumptions C16_one_line_seq.

Theorem C16_one_line_map : forall k a x r ms,
  canon_str None ms (Map k a (x :: r))
  = fst (fst (braces_spec_m k a))
      ++ items_text false (map (fun kv => tstr (keytoks (to_repr ms (fst kv))) ++ canon_str None ms (snd kv)) (x :: r))
      ++ snd (fst (braces_spec_m k a)).
Proof. exact canon_str_map. Qed.
Print Assumptions C16_one_line_map.

Theorem C16_one_line_empty : forall ms,
  (forall k a, canon_str None ms (Seq k a []) = snd (braces_spec_s k a)) /\
  (forall k a, canon_str None ms (Map k a []) = snd (braces_spec_m k a)).
Proof. intros ms. split; intros; [apply canon_str_seq_empty|apply canon_str_map_empty]. Qed.
Print Assumptions C16_one_line_empty.

(* the typed containers next to Python's repr():  same text for array, defaultdict, non-empty deque ... *)
Example C16_typed_containers_same_as_repr :
  canon_str None None (Seq KArray (lit "'i'") [L1 "1"; L1 "2"]) = lit "array('i', [1, 2])"
  /\ py_repr (Seq KArray (lit "'i'") [L1 "1"; L1 "2"]) = Some (lit "array('i', [1, 2])")
  /\ canon_str None None (Seq KArray (lit "'d'") []) = lit "array('d')"
  /\ py_repr (Seq KArray (lit "'d'") []) = Some (lit "array('d')")
  /\ canon_str None None (Map KDefaultdict (lit "<class 'list'>") [((lit "'a'", None), Seq KList [] [])])
     = lit "defaultdict(<class 'list'>, {'a': []})"
  /\ py_repr (Map KDefaultdict (lit "None") []) = Some (lit "defaultdict(None, {})")
  /\ canon_str None None (Map KDefaultdict (lit "None") []) = lit "defaultdict(None, {})"
  /\ canon_str None None (Seq KDeque [] [L1 "1"; Seq KDeque [] [L1 "2"]]) = lit "deque([1, deque([2])])"
  /\ py_repr (Seq KDeque [] [L1 "1"; Seq KDeque [] [L1 "2"]]) = Some (lit "deque([1, deque([2])])")
  /\ canon_str None None (Map KCounter [] []) = lit "Counter()".
Proof. vm_compute. repeat split; reflexivity. Qed.
(* ... and different BY DESIGN (both texts evaluate to equal values; validated by eval in the harness):
   - the empty deque: rich prints deque(), repr() prints deque([]) -- py_repr is undefined there;
   - deque(.., maxlen=n): repr() appends ", maxlen=n", rich does not print it (the value evaluated back
     compares equal, deque.__eq__ ignores maxlen, but the bound is lost) -- outside the model's values;
   - Counter: rich lists items in insertion order, Counter.__repr__ by decreasing count;
   - a defaultdict with a factory prints <class 'list'> like repr(), which is not an expression. *)
Example C16_typed_containers_by_design :
  canon_str None None (Seq KDeque [] []) = lit "deque()" /\ py_repr (Seq KDeque [] []) = None
  /\ canon_str None None (Map KCounter [] [((lit "'a'", None), L1 "1"); ((lit "'b'", None), L1 "2")])
     = lit "Counter({'a': 1, 'b': 2})"
  /\ py_repr (Map KCounter [] [((lit "'a'", None), L1 "1"); ((lit "'b'", None), L1 "2")]) = None.
Proof. vm_compute. repeat split; reflexivity. Qed.

Example C16_one_line_nonvacuous :
  canon_str None None (Map KDict [] [((lit "'a'", None), Seq KSet [] []); ((lit "'b'", None), Seq KTuple [] [L1 "1"])])
  = lit "{'a': set(), 'b': (1,)}"
  /\ py_repr (Map KDict [] [((lit "'a'", None), Seq KSet [] []); ((lit "'b'", None), Seq KTuple [] [L1 "1"])])
     = Some (lit "{'a': set(), 'b': (1,)}").
Proof. vm_compute. split; reflexivity. Qed.

(* (4) expanded_layout: the string-level checker layout_b -- split the output at newlines and walk it along
   the value: a non-empty container is on ONE physical line exactly when that line (indentation, key, one-line
   form, trailing comma) fits the width and expand_all is off; otherwise its first line is the indentation and
   `key: open brace`, every item follows on its own line(s) indented by exactly indent_size more (depth *
   indent_size from the root), and the closing brace is on its own line at the container's indentation --
   holds of EVERY output, for all values, widths, indents, max_length, max_string, expand_all.
   Hypothesis: no repr contains a raw newline (repr() of str/bytes escapes it; the harness checks leaves_ok,
   which implies it, on every case; the Example shows the statement is false without it). *)
Theorem C16_expanded_layout : forall v W ind ml ms ea s, nl_free v = true ->
  pretty_repr v W ind ml ms ea = Ok s -> layout_b W ind ea ml ms v s = true.
Proof. exact expanded_layout. Qed.
Print Assumptions C16_expanded_layout.

Theorem C16_side_conditions_checked : forall v, leaves_ok v = true -> nl_free v = true /\ keys_nonempty v = true.
Proof. intros v H. split; [exact (leaves_ok_nl_free v H)|exact (leaves_ok_keys_nonempty v H)]. Qed.
Print Assumptions C16_side_conditions_checked.

Example C16_expanded_layout_needs_nl_free :
  let v := Seq KList [] [Leaf ([97; NL; 98], None)] in
  nl_free v = false /\ exists s, pretty_repr v 80 4 None None false = Ok s /\ layout_b 80 4 false None None v s = false.
Proof. split; [reflexivity|]. eexists. split; vm_compute; reflexivity. Qed.

(* the same facts on the _Line level, for every Node tree (also ill-formed ones): a line that still carries a
   non-empty container fits the width and expand_all is off; indentation is spaces only and a whole number
   of indents *)
Theorem C16_expanded_layout_lines : forall W ind ea n,
  Forall (fun l => line_fits W l /\ (expandable_node l <> None -> ea = false)
                   /\ all_sp (l_ws l) = true
                   /\ exists k : nat, l_ws l = concat (repeat (py_repeat SP ind) k))
         (rr true W ind ea n (root_line n)).
Proof.
  intros W ind ea n.
  pose proof (kept_lines_fit W ind ea n (root_line n) eq_refl eq_refl eq_refl) as A.
  pose proof (lines_indent W ind ea n (root_line n) eq_refl eq_refl) as B.
  rewrite Forall_forall in *. intros l Hl. destruct (A l Hl) as [A1 A2]. destruct (B l Hl) as [B1 B2].
  repeat split; assumption.
Qed.
Print Assumptions C16_expanded_layout_lines.

Example C16_layout_nonvacuous :
  let v := Seq KList [] [L1 "1"; Seq KTuple [] [tup123]; Map KDict [] [((lit "'k'", None), Seq KList [] [])]] in
  forallb (fun W => match pretty_repr v W 2 None None false with
                    | Ok s => layout_b W 2 false None None v s && canonical_b None None v s
                    | _ => false
                    end) (map Z.of_nat (seq 1 40)) = true
  /\ layout_b 5 2 false None None v (lit "[1, ((1, 2, 3),), {'k': []}]") = false.
Proof. vm_compute. split; reflexivity. Qed.

(* (5) single_tuple_comma: the stream of a one-element tuple has the comma token, so by (2) every
   output has it, whatever the element expands to *)
Theorem C16_single_tuple_comma : forall x ms a,
  canon None ms (Seq KTuple a [x]) = TOpen (lit "(") :: canon None ms x ++ [TTup; TClose (lit ")")].
Proof. intros. cbn. now rewrite <- app_assoc. Qed.
Print Assumptions C16_single_tuple_comma.

(* (6) cycle_marker: a reference to a container being traversed is the atom "..." -- and by (1) the
   printer terminates on every value containing such references *)
Theorem C16_cycle_marker : forall ml ms, canon ml ms Cycle = [TAtom (lit "...")].
Proof. reflexivity. Qed.
Print Assumptions C16_cycle_marker.

Example C16_cycle_nonvacuous :
  pretty_repr (Seq KList [] [L1 "1"; Cycle; Map KDict [] [((lit "'a'", None), Cycle)]]) 80 4 None None false
  = Ok (lit "[1, ..., {'a': ...}]").
Proof. vm_compute. reflexivity. Qed.

(* (7) abbreviation_counts: with max_length = m < len the first m items are shown and the marker reports
   exactly the number of items not shown; with max_string = m < len(s) the first m characters are shown
   and the suffix reports exactly the number cut; nothing is reported when nothing is cut *)
Theorem C16_abbreviation_counts_seq : forall k a xs m ms, 0 <= m < zlen xs ->
  canon (Some m) ms (Seq k a xs)
  = TOpen (fst (fst (braces_spec_s k a)))
      :: body (is_tup k)
              (map (canon (Some m) ms) (firstn (Z.to_nat m) xs)
                 ++ [[TAtom (lit "... +" ++ print_Z (zlen xs - Z.of_nat (length (firstn (Z.to_nat m) xs))))]])
      ++ [TClose (snd (fst (braces_spec_s k a)))].
Proof. exact abbreviation_counts_seq. Qed.
Print Assumptions C16_abbreviation_counts_seq.

Theorem C16_abbreviation_counts_map : forall k a kvs m ms, 0 <= m < zlen kvs ->
  canon (Some m) ms (Map k a kvs)
  = TOpen (fst (fst (braces_spec_m k a)))
      :: body false
              (map (fun kv => keytoks (to_repr ms (fst kv)) ++ canon (Some m) ms (snd kv)) (firstn (Z.to_nat m) kvs)
                 ++ [[TAtom (lit "... +" ++ print_Z (zlen kvs - Z.of_nat (length (firstn (Z.to_nat m) kvs))))]])
      ++ [TClose (snd (fst (braces_spec_m k a)))].
Proof. exact abbreviation_counts_map. Qed.
Print Assumptions C16_abbreviation_counts_map.

Theorem C16_abbreviation_counts_str : forall r n rt m, n > m ->
  to_repr (Some m) (r, Some (n, rt)) = rt ++ lit "+" ++ print_Z (n - m).
Proof. exact abbreviation_counts_str. Qed.
Print Assumptions C16_abbreviation_counts_str.

Example C16_abbreviation_nonvacuous :
  pretty_repr (Seq KList [] [L1 "1"; L1 "2"; L1 "3"; Leaf (lit "'Hello'", Some (5, lit "'He'"))]) 80 4 (Some 2) (Some 2) false
  = Ok (lit "[1, 2, ... +2]")
  /\ pretty_repr (Seq KList [] [Leaf (lit "'Hello'", Some (5, lit "'He'"))]) 80 4 (Some 2) (Some 2) false
  = Ok (lit "['He'+3]").
Proof. vm_compute. split; reflexivity. Qed.
