(* C06 -- Styles form a consistent algebra, round-trip through text, and hash consistently.
   Only property theorems live here; each is closed by `exact` (or a one-line wrapper) and followed
   by Print Assumptions.  The statements are about the executable model Style.v of rich/style.py;
   the checkers (assoc_b, bias_b, identity_b, inv_b, wf_style_b, roundtrip_b, eq_hash_b,
   spelling_b) are the ones the harness evaluates on the implementation's outputs.
   `==` is rich's Style.__eq__ (style_eqb: colour, bgcolor, attributes, set_attributes, link).
   inv_b s = "the _null flag implies empty fields, value bits lie inside the set bits, the link
   is not the empty string" -- proved below to hold on every construction route. *)
From RichModel Require Import Prelude Color Style SpecStyle.
From RichGen Require Import StyleTables.
From RichProofs Require Import StyleP StyleP2 StyleP3.
From RichProofs.bridge Require BridgeStyle.   (* tie 1 (T2): Style.__add__ regenerated statement by statement from rich/style.py *)

(* ------------------------------------------------------------------ algebra *)
(* (1) associativity -- for ALL styles: attribute words are arbitrary integers, any flags, any
       colours, `_null` short-cuts included; equality of the whole records (hash key and memo
       state too), hence also rich's == *)
Theorem C06_add_assoc_records : forall a b c, style_add (style_add a b) c = style_add a (style_add b c).
Proof. exact add_assoc_eq. Qed.
Print Assumptions C06_add_assoc_records.

Theorem C06_add_assoc : forall a b c, assoc_b (style_add (style_add a b) c) (style_add a (style_add b c)) = true.
Proof. exact add_assoc. Qed.
Print Assumptions C06_add_assoc.

(* (2) the null style is the identity *)
Theorem C06_add_null_r : forall a, style_add a style_null = a.
Proof. exact add_null_r. Qed.
Print Assumptions C06_add_null_r.

Theorem C06_add_null_l : forall a, inv_b a = true -> identity_b a (style_add style_null a) = true.
Proof. exact add_null_l. Qed.
Print Assumptions C06_add_null_l.

Example C06_add_null_l_nonvacuous :
  inv_b kw_bold_red = true /\ style_add style_null kw_bold_red = kw_bold_red
  (* the hypothesis matters: Style(link="") is flagged null but != Style() *)
  /\ inv_b (style_make None None [] (Some [])) = false
  /\ identity_b (style_make None None [] (Some [])) (style_add style_null (style_make None None [] (Some []))) = false.
Proof. vm_compute. repeat split. Qed.

(* (3) right bias: the right operand wins exactly where it specifies a value -- per attribute
       (every bit number i >= 0), colour, background colour, link *)
Theorem C06_add_right_bias_attr : forall a b i, inv_b a = true -> inv_b b = true -> 0 <= i ->
  style_attr (style_add a b) i = match style_attr b i with Some v => Some v | None => style_attr a i end.
Proof. exact add_right_bias_attr. Qed.
Print Assumptions C06_add_right_bias_attr.

Theorem C06_add_right_bias_color : forall a b, inv_b a = true -> inv_b b = true ->
  s_color (style_add a b) = color_or (s_color b) (s_color a)
  /\ s_bgcolor (style_add a b) = color_or (s_bgcolor b) (s_bgcolor a)
  /\ s_link (style_add a b) = link_or (s_link b) (s_link a).
Proof. exact add_right_bias_color. Qed.
Print Assumptions C06_add_right_bias_color.

(* the composite checker, the one evaluated on rich's outputs *)
Theorem C06_add_ok : forall a b, add_ok_b a b (style_add a b) = true.
Proof.
  intros a b. unfold add_ok_b. destruct (inv_b a) eqn:A, (inv_b b) eqn:B; try reflexivity.
  cbn. rewrite (add_bias a b A B), (inv_add a b A B). reflexivity.
Qed.
Print Assumptions C06_add_ok.

Example C06_right_bias_nonvacuous :
  inv_b kw_bold_red = true /\ inv_b (style_make None None [Some false; Some true] None) = true
  /\ style_attr (style_add kw_bold_red (style_make None None [Some false; Some true] None)) 0 = Some false
  /\ style_attr (style_add kw_bold_red (style_make None None [None; Some true] None)) 0 = Some true
  /\ s_color (style_add kw_bold_red (style_make None None [Some false] None)) = Some red.
Proof. vm_compute. repeat split. Qed.

(* (4) the `_null` short-cuts of __add__ agree with the general formula under the invariant ... *)
Theorem C06_add_shortcuts_consistent : forall a b, inv_b a = true -> inv_b b = true ->
  style_eqb (style_add a b) (style_merge a b) = true.
Proof. exact add_shortcuts_consistent. Qed.
Print Assumptions C06_add_shortcuts_consistent.

(* ... and the invariant holds on every construction route (links given as None or non-empty) *)
Theorem C06_inv_constructors :
  inv_b style_null = true
  /\ (forall c b fl l, l <> Some [] -> inv_b (style_make c b fl l) = true)
  /\ (forall c b, inv_b (style_from_color c b) = true)
  /\ (forall a b, inv_b a = true -> inv_b b = true -> inv_b (style_add a b) = true)
  /\ (forall a, inv_b a = true -> inv_b (style_copy a) = true)
  /\ (forall fx a l, inv_b a = true -> l <> Some [] -> inv_b (style_update_link fx a l) = true)
  /\ (forall a, inv_b a = true -> inv_b (style_without_color a) = true)
  /\ (forall d s, style_parse d = Ok s -> inv_b s = true).
Proof.
  repeat split; [exact inv_make|exact inv_from_color|exact inv_add|exact inv_copy
                |exact inv_update_link|exact inv_without_color|exact inv_parse].
Qed.
Print Assumptions C06_inv_constructors.

(* ------------------------------------------------------------------ round trip *)
(* (5) parse(str(s)) == s  for every style of the quantifier (wf_style_b: 13 tri-state attributes,
       colours whose name is one word that Color.parse maps back to the colour, link a non-empty
       whitespace-free string); str computed from the fields *)
Theorem C06_parse_str_roundtrip : forall s, wf_style_b s = true ->
  exists s', style_parse (style_str_fresh s) = Ok s' /\ style_eqb s' s = true.
Proof. exact parse_str_roundtrip. Qed.
Print Assumptions C06_parse_str_roundtrip.

(* the checker evaluated on rich's outputs *)
Theorem C06_roundtrip_ok : forall s, roundtrip_ok_b s (style_parse (style_str_fresh s)) = true.
Proof. exact roundtrip_ok. Qed.
Print Assumptions C06_roundtrip_ok.

(* str() as coded consults a memo; on every route of the REPAIRED code the memo is the fresh
   string, so the round trip holds for str() itself *)
Theorem C06_str_memo_transparent : forall s, Reach true s -> style_str s = style_str_fresh s.
Proof. exact str_is_fresh. Qed.
Print Assumptions C06_str_memo_transparent.

Theorem C06_parse_str_roundtrip_reach : forall s, Reach true s -> wf_style_b s = true ->
  exists s', style_parse (style_str s) = Ok s' /\ style_eqb s' s = true.
Proof. intros s R W. rewrite (str_is_fresh s R). exact (parse_str_roundtrip s W). Qed.
Print Assumptions C06_parse_str_roundtrip_reach.

(* as found (rich 9.10.0): update_link copies the memo of the source -- finding of C06 *)
Theorem C06_str_memo_asis_refuted :
  Reach false stale_witness
  /\ style_str stale_witness = lit "bold"
  /\ style_str_fresh stale_witness = lit "bold link x"
  /\ wf_style_b stale_witness = true
  /\ roundtrip_b stale_witness (style_parse (style_str stale_witness)) = false.
Proof. exact str_memo_asis_refuted. Qed.
Print Assumptions C06_str_memo_asis_refuted.

(* (6) normalize: a definition that parses is normalised to the string form of its style, which
       parses to an equal style and is a fixed point of normalize *)
Theorem C06_parse_normalize : forall d s, style_parse d = Ok s -> wf_style_b s = true ->
  exists n s', style_normalize d = Ok n /\ style_parse n = Ok s' /\ style_eqb s' s = true
               /\ style_normalize n = Ok n.
Proof. exact parse_normalize. Qed.
Print Assumptions C06_parse_normalize.

Example C06_roundtrip_nonvacuous :
  wf_style_b kw_bold_red = true /\ style_str_fresh kw_bold_red = lit "bold red"
  /\ style_normalize (lit " B  RED ") = Ok (lit "bold red")
  /\ wf_style_b (style_make (Some (mkColor (lit "#ff0000") CT_TRUECOLOR None (Some (mkTriplet 255 0 0))))
                            (Some (mkColor (lit "color(9)") CT_STANDARD (Some 9) None))
                            [Some false; None; Some true] (Some (lit "http://x"))) = true.
Proof. vm_compute. repeat split. Qed.

(* (7) every documented spelling of an attribute (docs/source/style.rst, with and without `not`)
       and of a colour (docs/source/appendix/colors.rst, as foreground and after `on`) parses to
       the style it names; the table is regenerated from the docs on every run *)
Theorem C06_spelling_table :
  Forall (fun p => spelling_b (style_parse (fst p)) (snd p) = true) documented_spellings.
Proof. exact spelling_table. Qed.
Print Assumptions C06_spelling_table.

Example C06_spelling_nonvacuous : (400 <=? length documented_spellings)%nat = true.
Proof. exact documented_spellings_count. Qed.

(* ------------------------------------------------------------------ hashing *)
(* (8) equal styles have equal hash keys however they were constructed -- REPAIRED code
       (hash computed from the fields __eq__ compares); holds for all records, a fortiori on
       the routes *)
Theorem C06_eq_hash : forall fd a b, Reach fd a -> Reach fd b -> style_eqb a b = true ->
  eq_hash_b (style_eqb a b) (hkey_eqb (hash_key true a) (hash_key true b)) = true.
Proof. exact eq_hash. Qed.
Print Assumptions C06_eq_hash.

Theorem C06_eq_hash_all : forall a b, style_eqb a b = true -> hash_key true a = hash_key true b.
Proof. exact eq_hash_all. Qed.
Print Assumptions C06_eq_hash_all.

(* (8') the repaired `_hash` is a lazily filled memo, so whether hash() was already called on an
        intermediate style is part of a route.  HReach: the same routes over objects-with-memo
        (hobj), with hash() and str() calls interleaved arbitrarily.  The memo is never stale ... *)
Theorem C06_hash_memo_never_stale : forall fd o, HReach fd o ->
  ho_memo o = None \/ ho_memo o = Some (fields_key (ho_style o)).
Proof. exact memo_ok_reach. Qed.
Print Assumptions C06_hash_memo_never_stale.

(* ... hence equal styles hash equally on every pair of such routes *)
Theorem C06_eq_hash_routes : forall fd a b, HReach fd a -> HReach fd b ->
  style_eqb (ho_style a) (ho_style b) = true -> ho_hash a = ho_hash b.
Proof. exact eq_hash_routes. Qed.
Print Assumptions C06_eq_hash_routes.

Theorem C06_eq_hash_routes_ok : forall fd a b, HReach fd a -> HReach fd b ->
  eq_hash_b (style_eqb (ho_style a) (ho_style b)) (hkey_eqb (ho_hash a) (ho_hash b)) = true.
Proof. exact eq_hash_routes_b. Qed.
Print Assumptions C06_eq_hash_routes_ok.

(* the memo model can express a stale hash: a without_color that keeps the memo when the source
   has no FOREGROUND colour (seeded mutation C06-m1) is refuted, the real one is not *)
Theorem C06_eq_hash_stale_memo_m1_refuted : forall fd,
  HReach fd (ho_init kw_bold_on_blue) /\ HReach fd (ho_init kw_bold)
  /\ style_eqb (ho_style (ho_without_color_m1 (ho_init kw_bold_on_blue))) (ho_style (ho_init kw_bold)) = true
  /\ hkey_eqb (ho_hash (ho_without_color_m1 (ho_init kw_bold_on_blue))) (ho_hash (ho_init kw_bold)) = false
  /\ hkey_eqb (ho_hash (ho_without_color (ho_init kw_bold_on_blue))) (ho_hash (ho_init kw_bold)) = true.
Proof. exact stale_memo_m1_refuted. Qed.
Print Assumptions C06_eq_hash_stale_memo_m1_refuted.

(* as found (rich 9.10.0), DESIGN D4: refuted on the routes the property names *)
Theorem C06_eq_hash_asis_refuted : forall fd,
  exists a b, Reach fd a /\ Reach fd b /\ style_eqb a b = true /\ hash_key false a <> hash_key false b.
Proof. exact eq_hash_asis_refuted. Qed.
Print Assumptions C06_eq_hash_asis_refuted.

(* the other three ways: from_color, update_link, without_color *)
Theorem C06_eq_hash_asis_refuted_more : forall fd,
  (style_eqb kw_red (style_from_color (Some red) None) = true
   /\ hkey_eqb (hash_key false kw_red) (hash_key false (style_from_color (Some red) None)) = false)
  /\ (style_eqb kw_bold_link (style_update_link fd kw_bold (Some (lit "x"))) = true
      /\ hkey_eqb (hash_key false kw_bold_link) (hash_key false (style_update_link fd kw_bold (Some (lit "x")))) = false)
  /\ (style_eqb kw_bold (style_without_color kw_bold_red) = true
      /\ hkey_eqb (hash_key false kw_bold) (hash_key false (style_without_color kw_bold_red)) = false).
Proof.
  intros fd. split; [exact hash_asis_from_color|]. split; [exact (hash_asis_update_link fd)|exact hash_asis_without_color].
Qed.
Print Assumptions C06_eq_hash_asis_refuted_more.

(* what is consistent as found: the routes through __init__ (keywords, parse, null) *)
Theorem C06_eq_hash_asis_partial : forall a b,
  s_hash a = fields_key a -> s_hash b = fields_key b -> style_eqb a b = true ->
  hash_key false a = hash_key false b.
Proof. exact eq_hash_asis_init_routes. Qed.
Print Assumptions C06_eq_hash_asis_partial.
