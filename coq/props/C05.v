(* C05 -- Text editing operations keep characters and styles attached.
   Only property theorems live here; each is closed by `exact` (or a vm_compute witness) and followed
   by Print Assumptions.  Model: RichModel.TextOps (rich/text.py as coded, flags in `fixes` select the
   code as found / with fixes/C05_*.diff + fixes/C02_{divide_span_order,pad_negative_count}.diff).
   Reference: RichModel.SpecTextOps (characters with the ordered list of covering styles). *)
From RichModel Require Import Prelude Cells TextOps SpecTextOps.
From RichGen Require Import ControlCodes.
From RichProofs.bridge Require BridgeSpan.   (* tie 1 (T2): Span.split/move/right_crop regenerated from rich/text.py *)
From RichProofs Require Import TextOpsP TextOpsP2 TextOpsP3 TextOpsP4 TextOpsP5 TextOpsP6 TextOpsP7 TextOpsP8 TextOpsP9 TextOpsP10.

(* (0) the facts of /repo the model was written for *)
Example C05_strip_codes_pinned : STRIP_CONTROL_CODES = [8; 11; 12; 13].
Proof. reflexivity. Qed.
Example C05_re_whitespace_pinned : RE_WHITESPACE_src = lit "\s+$".
Proof. reflexivity. Qed.

(* (1) MAIN (DESIGN section 9), full strength: every consistent text, every in-domain history of any length
   over all 29 modelled operations (construct, append str/Text, append_text, append_tokens, assemble, join,
   split, divide, t[i], t[a:b], pad, pad_left, pad_right, align, truncate, right_crop, set_length, rstrip,
   rstrip_end, expand_tabs, copy, blank_copy, plain setter, remove_suffix, stylize, highlight_words,
   highlight_regex, copy_styles); unbounded in strings, span sets, arguments (offsets beyond the ends,
   negative indices and counts included) and history length. *)
Theorem C05_ops_refine : forall ops t,
  Consistent t -> in_domain ops (abs t) = true ->
  abs (run FIXED ops t) = run_ref ops (abs t) /\ Consistent (run FIXED ops t).
Proof. exact ops_refine. Qed.
Print Assumptions C05_ops_refine.

(* read back in the property's words: plain is the reference string and len() is its length *)
Theorem C05_plain_and_len : forall ops t,
  Consistent t -> in_domain ops (abs t) = true ->
  plain (run FIXED ops t) = rplain (rchars (run_ref ops (abs t))) /\
  len (run FIXED ops t) = zlen (rchars (run_ref ops (abs t))).
Proof. exact refines_run_all. Qed.
Print Assumptions C05_plain_and_len.

(* the heart of it: Text.divide (repaired precedence) hands every character of every line exactly the
   ordered covering styles it had, for all ascending offsets (beyond the end included) and ALL well-formed
   span lists -- empty, duplicated, coinciding, overlapping spans included *)
Theorem C05_divide : forall t offs, Consistent t -> sorted_from 0 offs = true ->
  map abs (divide FIXED t offs) = r_divide (abs t) offs /\ Forall Consistent (divide FIXED t offs).
Proof. exact sim_divide. Qed.
Print Assumptions C05_divide.

Example C05_ops_refine_nonvacuous :
  let t := ctor FIXED (lit "a" ++ [13] ++ lit "b c") (default_meta 2) [(0, 2, 1); (1, 3, 4)] in
  let ops := [OAppendStr (lit "x" ++ [8] ++ lit "y") (Some 3); OPadLeft 2 46; OStylize 5 (-3) None;
              OTruncate 6 3 false; OIndex (-2); OJoinSep [(lit "pq", 1, [(0, 1, 6)]); (lit "r", 0, [])];
              ORightCrop 0; ORemoveSuffix []; OSetLength 9; OAlign 1 12 42;
              OAppendStr [9; 120; 10; 9; 121] (Some 2); OExpandTabs (Some 4); OSlice (Some (-9)) None;
              OSplit [10] false false 1; ODivide [1; 3; 99] 1] in
  Consistent t /\ in_domain ops (abs t) = true /\
  rplain (rchars (run_ref (firstn 10 ops) (abs t))) = lit "*pq r     **" /\
  rplain (rchars (run_ref ops (abs t))) = lit "  " /\ len (run FIXED ops t) = 2.
Proof. vm_compute. repeat split; reflexivity. Qed.

(* (1b) the reference split / expand_tabs are written as "cut at the separator occurrences" / "lines, parts,
   pad to the tab stop".  Two INDEPENDENT renderings -- str.split as one scan, expand_tabs as one walk with
   a column counter -- coincide with them on an exhaustive finite domain (511 strings over {a,b} up to length
   8 x 20 split instances; 3280 strings over {a,TAB,NL} up to length 7 x 7 tab sizes; every character with
   its own style).  A proof for that domain only; `alt_ok` is also evaluated on every generated case. *)
Theorem C05_independent_renderings_small : forall r o,
  (In r split_texts /\ In o split_ops) \/ (In r tab_texts /\ In o tab_ops) -> alt_ok o r = true.
Proof. exact alt_small_forall. Qed.
Print Assumptions C05_independent_renderings_small.
Example C05_independent_renderings_nonvacuous :
  (length split_texts, length split_ops, length tab_texts, length tab_ops) = (511%nat, 20%nat, 3280%nat, 7%nat).
Proof. exact alt_domain_size. Qed.

(* (1c) SEVERAL LIVE VALUES.  Histories over a store of named Text values: `y := x.copy()` and the
   other operations that return a Text built from the receiver's parts (blank_copy, t[i], t[a:b],
   split/divide -- one line or the whole `Lines` --, join, assemble), in-place edits of any stored value,
   and operations that take other stored values as arguments (append, append_text, copy_styles, join,
   assemble).
   Frame: a step changes at most the slot it names; every other live value is exactly what it was.
   IMPORTANT: in this purely functional model the frame property holds by construction -- values cannot
   share mutable parts, so the model CANNOT exhibit aliasing (a copy sharing its source's span list, as
   in seeded/C05-m2).  What the theorems give is the reference behaviour: the store of independent
   reference values.  That the implementation's OBJECTS behave like independent values is tied by the
   multi-object correspondence only: `store_hist` runs the same store history on real Text objects and
   compares EVERY live object with the model after EVERY step (plain, _length, _spans, metadata,
   rendered styles), and `spec.store_hist_ok` checks refines_b for every live object against srun_ref. *)
Theorem C05_store_frame : forall fx sops st k t,
  nth_error st k = Some t -> Forall (fun s => starget s <> Some k) sops ->
  nth_error (srun fx sops st) k = Some t.
Proof. intros fx sops st k t. exact (srun_frame fx sops st k t). Qed.
Print Assumptions C05_store_frame.

Theorem C05_store_refine : forall sops st,
  Forall Consistent st -> in_sdomain sops (map abs st) = true ->
  map abs (srun FIXED sops st) = srun_ref sops (map abs st) /\ Forall Consistent (srun FIXED sops st).
Proof. exact store_refine. Qed.
Print Assumptions C05_store_refine.

Example C05_store_nonvacuous :
  let st := [ctor FIXED (lit "hello world") (default_meta 0) [(0, 5, 1); (6, 11, 2)]] in
  let sops := [SApply 1 0 OCopy; SApply 0 0 (ORightCrop 3); SApply 0 0 (OPadLeft 2 32); SAppendText 1 0;
               SJoin 2 1 [0; 1; 0]%nat; SAssemble 3 4 [2; 0]%nat; SLines 3 (OSplit [32] true false 0);
               SApply 0 3 (OSlice (Some 2) (Some (-1)))] in
  Forall Consistent st /\ in_sdomain sops (map abs st) = true /\
  (* the copy made in step 1 is untouched by the two edits of its source *)
  nth_error (srun FIXED (firstn 3 sops) st) 1 = nth_error (srun FIXED (firstn 1 sops) st) 1 /\
  (4 < length (srun FIXED sops st))%nat.
Proof. vm_compute. repeat split; try reflexivity; repeat constructor. Qed.

(* the constructor establishes the invariant, whatever control codes the string contains *)
Theorem C05_constructor : forall s m, Consistent (ctor FIXED s m []) /\ abs (ctor FIXED s m []) = r_ctor s m.
Proof.
  intros s m. rewrite ctor_fixed. split.
  - apply mk_consistent; [reflexivity|apply ctl_free_strip|constructor].
  - unfold abs, abs_chars, r_ctor. simpl. now rewrite abs_nil_spans.
Qed.
Print Assumptions C05_constructor.

(* (2) operations that only add styling never change the characters (any text, consistent or not) *)
Definition styling_op (o : op) : bool :=
  match o with OStylize _ _ _ | OHighlightWords _ _ | OHighlightRuns _ _ | OCopyStyles _ => true | _ => false end.
Theorem C05_styling_only_ops_keep_chars : forall fx o t, styling_op o = true ->
  plain (step fx t o) = plain t /\ len (step fx t o) = len t.
Proof.
  intros fx o t H. destruct o; try discriminate; unfold step; simpl; try (split; reflexivity).
  unfold stylize. destruct (pylen t); simpl; try (split; reflexivity).
  match goal with |- context [if ?c then _ else _] => destruct c end; split; reflexivity.
Qed.
Print Assumptions C05_styling_only_ops_keep_chars.

(* (2b) rich/highlighter.py: Highlighter.__call__ on a Text.  For EVERY highlighter -- the matcher is an oracle
   (ReprHighlighter's regexes, a user's highlight()) of which only "its spans lie inside the text it is given"
   is assumed -- the result is a consistent Text with the same characters, length and metadata (base style,
   justify, overflow, no_wrap, end, tab_size), every existing span kept in place and order, and the matches
   appended: in reference terms, exactly "append these spans".  (The histories' OHighlighter operation, the
   executable instance with character-class patterns, str and non-text arguments, is inside C05_ops_refine.) *)
Theorem C05_highlighter_call : forall (matcher : str -> list span),
  (forall p, Within (zlen p) (matcher p)) -> forall t, Consistent t ->
  abs (hl_oracle matcher t) = r_add_spans (abs t) (matcher (plain t)) /\ Consistent (hl_oracle matcher t) /\
  plain (hl_oracle matcher t) = plain t /\ len (hl_oracle matcher t) = len t /\
  tmeta (hl_oracle matcher t) = tmeta t /\ spans (hl_oracle matcher t) = spans t ++ matcher (plain t).
Proof. exact hl_oracle_spec. Qed.
Print Assumptions C05_highlighter_call.
Example C05_highlighter_nonvacuous :
  let t := ctor FIXED (lit "x=12 y") (mkMeta 3 1 2 0 [] (Some 4)) [(0, 1, 5)] in
  step FIXED t (OHighlighter [(lit "0123456789", 2); (lit "xy", 1)] HText)
  = mkText (lit "x=12 y") 6 [(0, 1, 5); (2, 4, 2); (0, 1, 1); (5, 6, 1)] (mkMeta 3 1 2 0 [] (Some 4))
  /\ apply FIXED (OHighlighter [] HOther) t = Crash K_TypeError.
Proof. vm_compute. split; reflexivity. Qed.

(* (3) refutations: the code as found.  `only f` = every fix applied except f, so each witness also
   shows that the corresponding patch is necessary.  All witnesses are inside the theorem's domain. *)
Definition violates (fx : fixes) (s : str) (sps : list span) (ops : list op) : Prop :=
  let t0 := ctor FIXED s (default_meta 0) sps in
  Consistent t0 /\ in_domain ops (abs t0) = true /\
  refines_b (run_ref ops (abs t0)) (run fx ops (ctor fx s (default_meta 0) sps)) = false.

Definition no_ctor := mkFixes false true true true true true true true true.
Definition no_crop := mkFixes true false true true true true true true true.
Definition no_index := mkFixes true true false true true true true true true.
Definition no_tokens := mkFixes true true true false true true true true true.
Definition no_setter := mkFixes true true true true false true true true true.
Definition no_stylize := mkFixes true true true true true false true true true.
Definition no_divide := mkFixes true true true true true true false true true.
Definition no_split := mkFixes true true true true true true true false true.
Definition no_pad := mkFixes true true true true true true true true false.

(* D1: Text("a\rb") has plain "ab" but len 3; a following styled append is then misplaced *)
Theorem C05_ctor_length_refuted : exists s, violates no_ctor s [] [] /\ violates no_ctor s [] [OAppendStr (lit "c") (Some 1)].
Proof. exists [97; 13; 98]. split; vm_compute; repeat split; reflexivity. Qed.
Print Assumptions C05_ctor_length_refuted.

(* D19: right_crop(0) / remove_suffix("") wipe the text and keep the length; right_crop(n > len): negative len *)
Theorem C05_right_crop_refuted :
  violates no_crop (lit "hello") [] [ORightCrop 0] /\ violates no_crop (lit "hello") [] [ORemoveSuffix []] /\
  violates no_crop (lit "hello") [] [ORightCrop 7] /\
  len (run no_crop [ORightCrop 7] (ctor no_crop (lit "hello") (default_meta 0) [])) = -2.
Proof. vm_compute. repeat split; reflexivity. Qed.
Print Assumptions C05_right_crop_refuted.

(* D19: t[-k] drops the span styles, t[i] drops the base style *)
Theorem C05_getitem_refuted :
  violates no_index (lit "ab") [(0, 2, 1)] [OIndex (-1)] /\
  (let t0 := ctor FIXED (lit "ab") (default_meta 3) [] in
   refines_b (run_ref [OIndex 0] (abs t0)) (run no_index [OIndex 0] t0) = false).
Proof. vm_compute. repeat split; reflexivity. Qed.
Print Assumptions C05_getitem_refuted.

(* D19: append_tokens / the plain setter let the stripped control codes in; a later slice, split or
   copy strips them again (constructor) while the spans keep the old offsets *)
Theorem C05_append_tokens_refuted :
  violates no_tokens (lit "x") [] [OAppendTokens [([97; 13; 98], Some 1)]] /\
  violates no_tokens (lit "x") [] [OAppendTokens [([97; 13; 98], None)]; OStylize 1 (-1) None; OCopy].
Proof. vm_compute. repeat split; reflexivity. Qed.
Print Assumptions C05_append_tokens_refuted.
Theorem C05_plain_setter_refuted : violates no_setter (lit "abc") [] [OSetPlain [97; 13; 98; 99; 100]].
Proof. vm_compute. repeat split; reflexivity. Qed.
Print Assumptions C05_plain_setter_refuted.

(* stylize(style, -100, 3) stores Span(-95, 3): the next pad_left gives the padding that style *)
Theorem C05_stylize_negative_refuted : violates no_stylize (lit "hello") [] [OStylize 1 (-100) (Some 3); OPadLeft 2 32].
Proof. vm_compute. repeat split; reflexivity. Qed.
Print Assumptions C05_stylize_negative_refuted.

(* D15 (shared with C02): divide's `order` dict is keyed by span VALUE; equal clipped spans swap precedence *)
Theorem C05_divide_order_refuted :
  violates no_divide (lit "0123456789") [(0, 10, 1); (0, 5, 3); (0, 5, 1)] [ODivide [5] 0] /\
  violates no_divide (lit "0123456789") [(0, 10, 1); (0, 5, 3); (0, 5, 1)] [OSlice None (Some 5)].
Proof. vm_compute. repeat split; reflexivity. Qed.
Print Assumptions C05_divide_order_refuted.

(* split with a self-overlapping separator: "aaa".split("aa") = ["", "a"], Text gives [""] -- "a" is lost *)
Theorem C05_split_overlap_refuted : violates no_split (lit "aaa") [] [OSplit (lit "aa") false false 1].
Proof. vm_compute. repeat split; reflexivity. Qed.
Print Assumptions C05_split_overlap_refuted.

(* pad(-1) / pad_left(-1) add nothing but shift every span (fixes/C02_pad_negative_count.diff) *)
Theorem C05_pad_negative_refuted : violates no_pad (lit "abc") [(1, 2, 1)] [OPadLeft (-1) 32].
Proof. vm_compute. repeat split; reflexivity. Qed.
Print Assumptions C05_pad_negative_refuted.

(* ... and none of the witnesses above violates the property once the fixes are in *)
Example C05_witnesses_pass_when_fixed :
  forallb (fun '(s, sps, ops) =>
             let t0 := ctor FIXED s (default_meta 0) sps in
             refines_b (run_ref ops (abs t0)) (run FIXED ops t0))
    [([97; 13; 98], [], [OAppendStr (lit "c") (Some 1)]); (lit "hello", [], [ORightCrop 0]);
     (lit "hello", [], [ORemoveSuffix []]); (lit "hello", [], [ORightCrop 7]);
     (lit "ab", [(0, 2, 1)], [OIndex (-1)]);
     (lit "x", [], [OAppendTokens [([97; 13; 98], None)]; OStylize 1 (-1) None; OCopy]);
     (lit "abc", [], [OSetPlain [97; 13; 98; 99; 100]]);
     (lit "hello", [], [OStylize 1 (-100) (Some 3); OPadLeft 2 32]);
     (lit "0123456789", [(0, 10, 1); (0, 5, 3); (0, 5, 1)], [ODivide [5] 0]);
     (lit "0123456789", [(0, 10, 1); (0, 5, 3); (0, 5, 1)], [OSlice None (Some 5)]);
     (lit "aaa", [], [OSplit (lit "aa") false false 1]); (lit "abc", [(1, 2, 1)], [OPadLeft (-1) 32])] = true.
Proof. vm_compute. reflexivity. Qed.
