(* C12 -- Progress accounting is exact for any history and any interleaving.
   Only property theorems live here; each is closed by `exact` and followed by Print Assumptions.
   Sequential statements quantify over ALL operation histories (any number of tasks, rational
   amounts, zero / negative / huge totals, total changes, resets, stops) with clock readings as inputs;
   the concurrent statements quantify over ALL schedules of any number of threads, at the granularity
   of the events that tools/translate extracts from rich/progress.py (gen/ProgressLock.v). *)
From RichModel Require Import Prelude Progress SpecProgress.
From RichGen Require Import ProgressLock.
From RichProofs Require Import ProgressP ProgressConcP ProgressConcP2 ProgressSerP ProgressMixP ProgressFloatP.
From RichProofs.bridge Require BridgeProgress.   (* tie 1 (T2): Task.remaining/elapsed/finished/percentage/time_remaining regenerated from rich/progress.py *)
From Coq Require Import QArith.

(* (1) completed = last explicitly set value + sum of the advances since, for every task, after
   every history; the reference (ref_step) is the spec's own reading of the operations *)
Theorem C12_completed_is_set_plus_advances : forall per h,
  Forall2 (fun t r => t_id t = r_id r /\ completed_ok_b (r_base r) (r_advs r) (t_completed t) = true)
          (p_tasks (run (empty_progress per) h))
          (c_refs (fold_left ref_step (ops_of h) (mkC [] 0%Z true))).
Proof. exact completed_is_set_plus_advances. Qed.
Print Assumptions C12_completed_is_set_plus_advances.

Example C12_accounting_nonvacuous :
  let h := [(AddTask true 10 2 true, 0, 0); (Advance 0 3, 1, 1); (Update 0 None (Some 1) (Some 50) None, 2, 2);
            (Advance 0 (-4 # 1), 3, 3); (Update 0 (Some 0) None (Some 2) None, 4, 4)]%Q in
  map (fun t => (t_completed t, percentage t)) (p_tasks (run (empty_progress 30) h)) = [((1 + -4 # 1) + 2, 0)]%Q.
Proof. vm_compute. reflexivity. Qed.

(* (2) percentage = completed/total*100 clamped to 0..100, and 0 when total = 0 -- of every task
   state whatsoever (any sign of total and completed); the clamp constants are regenerated *)
Theorem C12_percentage_clamped : forall t, pct_ok_b 0 (t_completed t) (t_total t) (percentage t) = true.
Proof. exact percentage_clamped. Qed.
Print Assumptions C12_percentage_clamped.

(* (3a) after any advance / update, a started task with completed >= total reports finished
   (in any state of any Progress, hence after any history) *)
Theorem C12_finish_reported : forall p o t1 t2 id t',
  advances o id = true -> find_task id (p_tasks (step_total p o t1 t2)) = Some t' ->
  finish_ok_b (started t') (t_completed t') (t_total t') (finished t') = true.
Proof. exact finish_reported. Qed.
Print Assumptions C12_finish_reported.

(* (3b) the recorded finish time stays fixed over any stretch of history that does not change the
   task's total, reset it or remove it *)
Theorem C12_finished_latches : forall h p id t f,
  find_task id (p_tasks p) = Some t -> t_fin t = Some f -> quiet id h ->
  exists t', find_task id (p_tasks (run p h)) = Some t' /\ t_fin t' = Some f.
Proof. exact finished_latches. Qed.
Print Assumptions C12_finished_latches.

Example C12_latch_nonvacuous :
  let h := [(AddTask true 5 0 true, 0, 0); (Advance 0 5, 1, 2); (Advance 0 1, 3, 4);
            (Update 0 None (Some 0) None None, 5, 6); (StopTask 0, 7, 7)]%Q in
  map (fun t => (t_fin t, finished t)) (p_tasks (run (empty_progress 30) h)) = [(Some (2 - 0), true)]%Q.
Proof. vm_compute. reflexivity. Qed.
(* an unstarted task does not finish (its elapsed time is None): the proviso "started" is needed *)
Example C12_unstarted_never_finishes :
  map finished (p_tasks (run (empty_progress 30) [(AddTask false 5 0 true, 0, 0); (Advance 0 9, 1, 2)]%Q)) = [false].
Proof. vm_compute. reflexivity. Qed.

(* (4) sequentially, with a monotone clock and non-negative advance() amounts, no speed estimate
   is ever negative (update() may move completed either way: it only samples positive deltas) *)
Theorem C12_speed_nonneg : forall per h t0,
  mono_hist t0 h -> nonneg_hist h = true ->
  Forall (fun t => speed_ok_b (speed t) = true) (p_tasks (run (empty_progress per) h)).
Proof. exact speed_nonneg. Qed.
Print Assumptions C12_speed_nonneg.

Example C12_speed_nonvacuous :
  let h := [(AddTask true 100 0 true, 0, 0); (Advance 0 3, 1, 1); (Advance 0 4, 3, 3)]%Q in
  mono_hist 0 h /\ nonneg_hist h = true /\
  map (fun t => (speed t, time_remaining t)) (p_tasks (run (empty_progress 30) h)) = [(Some (4 / (3 - 1)), Some 47%Z)]%Q.
Proof. vm_compute. repeat split; intros; discriminate. Qed.
Example C12_speed_needs_nonneg_advances :
  let h := [(AddTask true 100 0 true, 0, 0); (Advance 0 3, 1, 1); (Advance 0 (-4 # 1), 3, 3)]%Q in
  map (fun t => speed_ok_b (speed t)) (p_tasks (run (empty_progress 30) h)) = [false].
Proof. vm_compute. reflexivity. Qed.

(* (5) the time-remaining estimate of a started task is not negative right after it advances *)
Theorem C12_time_remaining_nonneg : forall per h t0 o t1 t2 id t',
  mono_hist t0 (h ++ [(o, t1, t2)]) -> nonneg_hist (h ++ [(o, t1, t2)]) = true ->
  advances o id = true ->
  find_task id (p_tasks (run (empty_progress per) (h ++ [(o, t1, t2)]))) = Some t' ->
  started t' = true -> tr_ok_b (time_remaining t') = true.
Proof. exact time_remaining_nonneg. Qed.
Print Assumptions C12_time_remaining_nonneg.
(* "running whenever it advances" is needed: advanced past its total while not started, then started *)
Example C12_time_remaining_needs_running :
  let h := [(AddTask false 5 0 true, 0, 0); (Advance 0 4, 1, 1); (Advance 0 4, 3, 3); (StartTask 0, 4, 4)]%Q in
  map (fun t => time_remaining t) (p_tasks (run (empty_progress 30) h)) = [Some (-1)%Z].
Proof. vm_compute. reflexivity. Qed.

(* (6) track(): every element once, in order; a fresh task ends at the number of elements -- direct
   path and _TrackThread path, the latter for EVERY wake-up schedule of the helper thread *)
Theorem C12_track_direct : forall p0 total (xs : list Z) clk,
  find_task (p_next p0) (p_tasks p0) = None ->
  let evs := track_direct None (p_next p0) total xs in
  exists t, find_task (p_next p0) (p_tasks (run p0 (with_clock (calls evs) clk))) = Some t /\
            track_ok_b xs (yields evs) (t_completed t) = true.
Proof. exact track_direct_fresh. Qed.
Print Assumptions C12_track_direct.

Theorem C12_track_thread : forall p0 total (xs : list Z) sched clk,
  find_task (p_next p0) (p_tasks p0) = None ->
  let evs := track_thread None (p_next p0) total xs sched in
  exists t, find_task (p_next p0) (p_tasks (run p0 (with_clock (calls evs) clk))) = Some t /\
            track_ok_b xs (yields evs) (t_completed t) = true.
Proof. exact track_thread_fresh. Qed.
Print Assumptions C12_track_thread.

Example C12_track_nonvacuous :
  calls (track_thread None 0 3 [7; 8; 9]%Z [true; true; false; true; false; false; true]) =
  [AddTask true 3 0 true; Advance 0 (qZ 1); Advance 0 (qZ 1); Update 0 None (Some (qZ 3)) None None].
Proof. vm_compute. reflexivity. Qed.
(* outside the property (not a fresh task): the helper's final update(completed = counter) overwrites
   what the task had before -- the direct path keeps it *)
Example C12_track_existing_task_differs :
  let p0 := step_total (empty_progress 30) (AddTask true 5 (10 # 1) true) 0 0 in
  let fin evs := map t_completed (p_tasks (run p0 (with_clock (calls evs) []))) in
  (fin (track_direct (Some 0%Z) 1 2 [1; 2]%Z), fin (track_thread (Some 0%Z) 1 2 [1; 2]%Z [])) = ([10 + 1 + 1], [qZ 2])%Q.
Proof. vm_compute. reflexivity. Qed.

(* (7) no lost update: for every schedule of any number of threads, each performing any list of
   advance() calls on the task, once all calls have returned completed = initial + sum of all
   amounts.  Proved for EVERY event list satisfying the static discipline wf_b (all shared accesses
   inside the lock, completed written once from a value read in the same critical section), which
   the list regenerated from /repo's advance() satisfies (vm_compute). *)
Theorem C12_no_lost_update_any_disciplined_code : forall evs, Conc.wf_b evs = true ->
  forall c0 tot start per progs sched,
  let st := Conc.srun evs (Conc.init_state c0 tot start per progs) sched in
  Conc.all_done st = true -> Conc.completed (fst st) = (c0 + sumZ (concat progs))%Z.
Proof. exact no_lost_update_evs. Qed.
Print Assumptions C12_no_lost_update_any_disciplined_code.

Theorem C12_no_lost_update : forall c0 tot start per progs sched,
  let st := Conc.srun advance_events (Conc.init_state c0 tot start per progs) sched in
  Conc.all_done st = true ->
  no_lost_update_b c0 (concat progs) (Conc.completed (fst st)) = true.
Proof. exact no_lost_update. Qed.
Print Assumptions C12_no_lost_update.

(* ... and at every step of every schedule the count is the initial value plus the amounts of
   exactly those calls whose write has happened *)
Theorem C12_completed_at_every_step : forall c0 tot start per progs sched,
  let st := Conc.srun advance_events (Conc.init_state c0 tot start per progs) sched in
  Conc.completed (fst st) = (c0 + sum_acct (snd st))%Z.
Proof. exact (completed_at_every_step advance_events advance_events_wf). Qed.
Print Assumptions C12_completed_at_every_step.

Example C12_no_lost_update_nonvacuous :
  let st := Conc.srun advance_events (Conc.init_state 5 100 (Some 0%Z) 30 [[1; 2]; [3]; [4]]%Z)
                 (concat (repeat [0; 1; 2]%nat 200)) in
  Conc.all_done st = true /\ Conc.completed (fst st) = 15%Z.
Proof. exact no_lost_update_nonvacuous. Qed.

(* every other mutator keeps its accesses to shared state inside the lock (regenerated lists) *)
Theorem C12_mutators_guarded :
  forallb Conc.guarded [advance_events; update_events; reset_events; start_task_events; stop_task_events;
                        remove_task_events; add_task_events] = true.
Proof. exact mutators_guarded. Qed.
Print Assumptions C12_mutators_guarded.

(* (8) D14 -- speed / time_remaining under concurrency.  rich 9.10.0 as found reads the clock BEFORE
   taking the lock in advance() (and reset()): a two-thread schedule appends the samples out of time
   order, giving a negative speed and a negative time_remaining although both amounts are positive. *)
Theorem C12_speed_nonneg_concurrent_refuted : exists progs sched,
  Forall (Forall (fun a => (0 <= a)%Z)) progs /\
  let st := Conc.srun Conc.advance_events_asis (Conc.init_state 0 100 (Some 0%Z) 30 progs) sched in
  Conc.all_done st = true /\
  speed_ok_b (speed (Conc.task_of (fst st))) = false /\
  tr_ok_b (time_remaining (Conc.task_of (fst st))) = false.
Proof. exact speed_nonneg_concurrent_refuted. Qed.
Print Assumptions C12_speed_nonneg_concurrent_refuted.

(* the repaired code (fixes/C12_clock_inside_lock.diff) reads the clock inside the lock in advance()
   and reset(), and stamps every sample with a reading made in the same critical section: *)
Theorem C12_clock_read_under_lock :
  Conc.clock_inside_b advance_events = true /\ Conc.stamp_b advance_events = true /\
  Conc.clock_inside_b reset_events = true /\ Conc.clock_inside_b update_events = true.
Proof. exact clock_read_under_lock. Qed.
Print Assumptions C12_clock_read_under_lock.

(* (9) ... and then, for EVERY event list that reads the clock and stamps its samples inside the
   critical section (and the regenerated advance() does), under every schedule of any number of threads
   with non-negative amounts the samples are in clock order at every step; so no speed estimate is
   negative at any step of any schedule. *)
Theorem C12_samples_in_clock_order_any_disciplined_code : forall evs,
  Conc.wf_b evs = true -> Conc.clock_inside_b evs = true -> Conc.stamp_b evs = true ->
  forall c0 tot start per progs sched,
  Forall (Forall (fun a => (0 <= a)%Z)) progs ->
  let s := fst (Conc.srun evs (Conc.init_state c0 tot start per progs) sched) in
  sortedZ (Conc.samples s) /\ Forall (fun x => (0 <= snd x)%Z) (Conc.samples s).
Proof. exact samples_in_order. Qed.
Print Assumptions C12_samples_in_clock_order_any_disciplined_code.

Theorem C12_speed_nonneg_concurrent : forall c0 tot start per progs sched,
  Forall (Forall (fun a => (0 <= a)%Z)) progs ->
  speed_ok_b (speed (Conc.task_of (fst (Conc.srun advance_events (Conc.init_state c0 tot start per progs) sched)))) = true.
Proof. exact speed_nonneg_concurrent. Qed.
Print Assumptions C12_speed_nonneg_concurrent.

(* (10) at every quiescent point (lock free) of every schedule: a started task with completed >= total
   reports finished, and its time-remaining estimate is not negative.  The proviso on the initial
   state excludes a task that starts out started, unfinished and already at its total (only reset()
   with completed >= total produces that); a fresh task satisfies it. *)
Theorem C12_finish_reported_concurrent : forall c0 tot start per progs sched,
  (start = None \/ (c0 < tot)%Z) ->
  let s := fst (Conc.srun advance_events (Conc.init_state c0 tot start per progs) sched) in
  Conc.lock s = None ->
  finish_ok_b (started (Conc.task_of s)) (t_completed (Conc.task_of s)) (t_total (Conc.task_of s))
              (finished (Conc.task_of s)) = true.
Proof. exact finish_reported_concurrent. Qed.
Print Assumptions C12_finish_reported_concurrent.

Theorem C12_time_remaining_nonneg_concurrent : forall c0 tot start per progs sched,
  Forall (Forall (fun a => (0 <= a)%Z)) progs -> (start = None \/ (c0 < tot)%Z) ->
  let s := fst (Conc.srun advance_events (Conc.init_state c0 tot start per progs) sched) in
  Conc.lock s = None -> tr_ok_b (time_remaining (Conc.task_of s)) = true.
Proof. exact time_remaining_nonneg_concurrent. Qed.
Print Assumptions C12_time_remaining_nonneg_concurrent.

Example C12_concurrent_nonvacuous :
  let s := fst (Conc.srun advance_events (Conc.init_state 0 6 (Some 0%Z) 30 [[1; 2]; [3]]%Z)
                  (concat (repeat [0; 1]%nat 200))) in
  Conc.lock s = None /\ Conc.completed s = 6%Z /\ finished (Conc.task_of s) = true /\
  List.length (Conc.samples s) = 3%nat.
Proof. vm_compute. repeat split; reflexivity. Qed.

(* (11) once recorded, the finish time is the same after any further steps of any threads (any
   event list, no hypothesis) *)
Theorem C12_finish_latched_concurrent : forall evs sched st f,
  Conc.fin_time (fst st) = Some f -> Conc.fin_time (fst (Conc.srun evs st sched)) = Some f.
Proof. exact finish_latched_concurrent. Qed.
Print Assumptions C12_finish_latched_concurrent.

(* (12) ANY operations from ANY number of threads.  Each operation is one critical section (checked on
   the regenerated event lists: C12_mutators_single_cs) whose body is an ARBITRARY sequence of
   micro-steps -- the theorem is closed over every decomposition (Lo, Ms, mexec, body, lo0) of the
   sequential operation, down to single bytecodes.  At every quiescent point of every schedule the
   Progress object is the sequential model's result for the operations in lock-acquisition order with
   a strictly increasing clock; hence theorems (1)-(5) hold there. *)
Theorem C12_concurrent_is_sequential :
  forall (Lo Ms : Type) (mexec : Ms -> psh * Lo -> psh * Lo) (body : op -> list Ms) (lo0 : op -> Lo),
  (forall o x, Ser.run_op mexec body lo0 o x = seq_op o x) ->
  forall per progs sched,
  let s := Ser.run mexec body lo0 (@Ser.init psh Lo op Ms (empty_progress per, 0%Z) progs) sched in
  Ser.lock s = None ->
  exists os, (forall P : op -> Prop, Forall (Forall P) progs -> Forall P os) /\
             fst (Ser.sh s) = run (empty_progress per) (tick_hist 0 os) /\
             mono_hist 0 (tick_hist 0 os).
Proof. exact concurrent_is_sequential. Qed.
Print Assumptions C12_concurrent_is_sequential.

Theorem C12_concurrent_completed_accounting :
  forall (Lo Ms : Type) (mexec : Ms -> psh * Lo -> psh * Lo) (body : op -> list Ms) (lo0 : op -> Lo),
  (forall o x, Ser.run_op mexec body lo0 o x = seq_op o x) ->
  forall per progs sched,
  let s := Ser.run mexec body lo0 (@Ser.init psh Lo op Ms (empty_progress per, 0%Z) progs) sched in
  Ser.lock s = None ->
  exists os, (forall P : op -> Prop, Forall (Forall P) progs -> Forall P os) /\
  Forall2 (fun t r => t_id t = r_id r /\ completed_ok_b (r_base r) (r_advs r) (t_completed t) = true)
          (p_tasks (fst (Ser.sh s))) (c_refs (fold_left ref_step os (mkC [] 0%Z true))).
Proof. exact concurrent_completed_accounting. Qed.
Print Assumptions C12_concurrent_completed_accounting.

Theorem C12_concurrent_speed_nonneg :
  forall (Lo Ms : Type) (mexec : Ms -> psh * Lo -> psh * Lo) (body : op -> list Ms) (lo0 : op -> Lo),
  (forall o x, Ser.run_op mexec body lo0 o x = seq_op o x) ->
  forall per progs sched,
  Forall (Forall (fun o => nonneg_op o = true)) progs ->
  let s := Ser.run mexec body lo0 (@Ser.init psh Lo op Ms (empty_progress per, 0%Z) progs) sched in
  Ser.lock s = None ->
  Forall (fun t => speed_ok_b (speed t) = true) (p_tasks (fst (Ser.sh s))).
Proof. exact concurrent_speed_nonneg. Qed.
Print Assumptions C12_concurrent_speed_nonneg.

Theorem C12_concurrent_finish_latched :
  forall (Lo Ms : Type) (mexec : Ms -> psh * Lo -> psh * Lo) (body : op -> list Ms) (lo0 : op -> Lo),
  (forall o x, Ser.run_op mexec body lo0 o x = seq_op o x) ->
  forall per progs sched1 sched2 id t f,
  Forall (Forall (fun o => resets o id = false /\ not_removing o id)) progs ->
  let s1 := Ser.run mexec body lo0 (@Ser.init psh Lo op Ms (empty_progress per, 0%Z) progs) sched1 in
  let s2 := Ser.run mexec body lo0 s1 sched2 in
  Ser.lock s1 = None -> Ser.lock s2 = None ->
  find_task id (p_tasks (fst (Ser.sh s1))) = Some t -> t_fin t = Some f ->
  exists t', find_task id (p_tasks (fst (Ser.sh s2))) = Some t' /\ t_fin t' = Some f.
Proof. exact concurrent_finish_latched. Qed.
Print Assumptions C12_concurrent_finish_latched.

(* right after the critical section of an advance / update of task id (the last lock acquisition), at a
   quiescent point of any interleaving of any operations: finished is reported and the time-remaining
   estimate of a started task is not negative *)
Theorem C12_concurrent_after_advance :
  forall (Lo Ms : Type) (mexec : Ms -> psh * Lo -> psh * Lo) (body : op -> list Ms) (lo0 : op -> Lo),
  (forall o x, Ser.run_op mexec body lo0 o x = seq_op o x) ->
  forall per progs sched os' o id t',
  Forall (Forall (fun o => nonneg_op o = true)) progs ->
  let s := Ser.run mexec body lo0 (@Ser.init psh Lo op Ms (empty_progress per, 0%Z) progs) sched in
  Ser.lock s = None -> map snd (Ser.hist s) = os' ++ [o] -> advances o id = true ->
  find_task id (p_tasks (fst (Ser.sh s))) = Some t' ->
  finish_ok_b (started t') (t_completed t') (t_total t') (finished t') = true /\
  (started t' = true -> tr_ok_b (time_remaining t') = true).
Proof. exact concurrent_after_advance. Qed.
Print Assumptions C12_concurrent_after_advance.

Theorem C12_mutators_single_cs :
  forallb SerFacts.single_cs_b [advance_events; update_events; reset_events; start_task_events; stop_task_events] = true
  /\ forallb (fun l => Nat.eqb (SerFacts.count_acq l) 1 && Conc.guarded l) [remove_task_events; add_task_events] = true.
Proof. exact mutators_single_cs. Qed.
Print Assumptions C12_mutators_single_cs.

Example C12_ser_nonvacuous :
  let mexec := fun (o : op) (x : psh * unit) => (seq_op o (fst x), tt) in
  let s := Ser.run mexec (fun o => [o]) (fun _ => tt)
             (@Ser.init psh unit op op (empty_progress 30, 0%Z) [[AddTask true 10 0 true; Advance 0 3]; [Advance 0 4]])
             [0; 0; 0; 1; 1; 1; 0; 0; 0]%nat in
  Ser.lock s = None /\ map t_completed (p_tasks (fst (Ser.sh s))) = [0 + 4 + 3]%Q.
Proof. exact ser_nonvacuous. Qed.

(* (12b) schedules MIXING advance / update / reset at EVENT granularity (model Progress.Mix over the finer
   event lists regenerated from the source: the `+= advance` and `= completed` writes told apart, with
   the `<arg> is not None` guard they sit under).  For every triple of event lists satisfying the static
   discipline wfx_b, every schedule, any number of threads: at every step task.completed is the fold of
   the writes performed so far (no += is lost or applied to a stale read), and at every quiescent point
   those writes are exactly the ones of the calls in lock-acquisition order. *)
Theorem C12_mixed_completed_any_disciplined_code : forall evA evU evR,
  Mix.wfx_b evA = true -> Mix.wfx_b evU = true -> Mix.wfx_b evR = true ->
  forall c0 progs sched,
  let s := fst (Mix.srun evA evU evR (Mix.init_state c0 progs) sched) in
  Mix.completed s = Mix.eval_log c0 (Mix.wlog s) /\
  (Mix.lock s = None ->
   Mix.completed s = Mix.eval_log c0 (concat (map (Mix.writes_of evA evU evR) (Mix.hist s)))).
Proof.
  intros evA evU evR A U R c0 progs sched s. split.
  - exact (mixed_completed_every_step evA evU evR A U R c0 progs sched).
  - exact (mixed_quiescent evA evU evR A U R c0 progs sched).
Qed.
Print Assumptions C12_mixed_completed_any_disciplined_code.

(* for the lists regenerated from /repo (wfx_b by vm_compute; what each call writes = the property's
   reading of the call, spec_writes, by computation) *)
Theorem C12_mixed_no_lost_update : forall c0 progs sched,
  let s := fst (Mix.srun advance_xevents update_xevents reset_xevents (Mix.init_state c0 progs) sched) in
  Mix.completed s = Mix.eval_log c0 (Mix.wlog s) /\
  (Mix.lock s = None -> Mix.completed s = Mix.eval_log c0 (concat (map Mix.spec_writes (Mix.hist s)))).
Proof. exact mixed_no_lost_update. Qed.
Print Assumptions C12_mixed_no_lost_update.

(* the fold of the writes IS "last explicitly set value + sum of the advances since" *)
Theorem C12_eval_log_is_last_set_plus_advances : forall c0 l,
  Mix.eval_log c0 l = (fst (log_ref c0 l) + sumZ (snd (log_ref c0 l)))%Z.
Proof. exact eval_log_is_last_set_plus_advances. Qed.
Print Assumptions C12_eval_log_is_last_set_plus_advances.

Example C12_mixed_nonvacuous :
  let s := fst (Mix.srun advance_xevents update_xevents reset_xevents
                  (Mix.init_state 5 [[Mix.MAdv 1; Mix.MUpd None None (Some 2)]; [Mix.MUpd None (Some 10) (Some 7); Mix.MAdv 3]]%Z)
                  (concat (repeat [0; 1]%nat 120))) in
  Mix.lock s = None /\ List.length (Mix.hist s) = 4%nat /\ Mix.completed s = Mix.eval_log 5 (Mix.wlog s).
Proof. exact mixed_nonvacuous. Qed.

(* (12c) FLOAT amounts.  Every `+=` rounds, so the identity of (1) is false of IEEE doubles (absorption);
   what holds: if every observed value is within relative error u of the exact sum of the previous
   observed value and the amount (IEEE round-to-nearest: u = 2^-53) and every set is exact -- the
   condition float_accounting_ok_b, evaluated on the real object after every operation of float
   histories -- then the distance to "last set + sum of advances" is at most u * sum |inputs of the
   roundings|; with u = 0 (ints, Fractions) the identity is exact. *)
Theorem C12_float_accounting : forall u c0 l, 0 <= u -> chain_ok_b u c0 l = true ->
  Qabs.Qabs (chain_last c0 l - chain_exact c0 l) <= adds_bound u c0 l.
Proof. exact float_accounting. Qed.
Print Assumptions C12_float_accounting.

Theorem C12_exact_accounting : forall c0 l, chain_ok_b 0 c0 l = true -> chain_last c0 l == chain_exact c0 l.
Proof. exact exact_accounting. Qed.
Print Assumptions C12_exact_accounting.

(* 1e16, advance(1.0) twice: stays 1e16 (replayed on the real code: op float_witness) *)
Theorem C12_float_exact_accounting_refuted : exists c0 l,
  chain_ok_b u_binary64 c0 l = true /\ ~ chain_last c0 l == chain_exact c0 l.
Proof. exact float_exact_accounting_refuted. Qed.
Print Assumptions C12_float_exact_accounting_refuted.

(* Task.speed uses iter()/next() (outside the T2 subset): its statement sequence is checked by the
   translator and the number of skipped samples is regenerated; the hand model is for exactly one *)
Theorem C12_speed_shape : SPEED_SKIP = 1%Z.
Proof. exact speed_skip_one. Qed.
Print Assumptions C12_speed_shape.

(* (13) outside the property text, pinned down: a consumer that abandons the loop while holding the k-th
   element leaves completed = k - 1 (the count is of elements whose loop body finished) *)
Theorem C12_track_abandoned : forall p0 total (xs : list Z) k clk,
  find_task (p_next p0) (p_tasks p0) = None -> (1 <= k <= List.length xs)%nat ->
  let evs := track_direct_abandoned None (p_next p0) total xs k in
  yields evs = firstn k xs /\
  exists t, find_task (p_next p0) (p_tasks (run p0 (with_clock (calls evs) clk))) = Some t /\
            t_completed t == qZ (Z.of_nat k - 1).
Proof. exact track_direct_abandoned_count. Qed.
Print Assumptions C12_track_abandoned.
