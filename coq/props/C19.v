(* C19 -- The ANSI decoder inverts the encoder, and redirected output is never lost.
   Only property theorems live here; each is closed by `exact` (or a one-line wrapper) and followed by
   Print Assumptions.  Models: model/AnsiDecode.v (rich/ansi.py), model/FileProxy.v (rich/file_proxy.py),
   model/Style.v + Color.v (the encoder side: Style.render in truecolor); checkers: model/SpecDecode.v.
   `true` as first argument of decode_line / proxy_run selects the repaired decoder (DESIGN D8);
   facts_fixed are the call-site facts of the repaired FileProxy.flush (DESIGN D13). *)
From RichModel Require Import Prelude Color Style AnsiDecode FileProxy SpecDecode.
From RichGen Require AnsiRegex SgrMap FileProxyFacts.
From RichProofs Require Import AnsiDecodeP FileProxyP AnsiDecodeP2 AnsiDecodeP3 AnsiDecodeP4 AnsiDecodeP5 AnsiDecodeP6 AnsiDecodeP7 FileProxyP2.

(* ---- ties to /repo: the scanners were written for exactly these patterns; the call sites of
   console.print in FileProxy.write / flush are the repaired ones (this one fails on rich 9.10.0 as
   found: flush passes the raw string and no keywords) *)
Theorem C19_regex_sources :
  AnsiRegex.RE_ANSI_src = lit "(?:\x1b\[(.*?)m)|(?:\x1b\](.*?)\x1b\\)" /\
  AnsiRegex.RE_CSI_src = lit "\x1B(?:[@-Z\\-_]|\[[0-?]*[ -/]*[@-~])".
Proof. exact (conj re_ansi_src_ok re_csi_src_ok). Qed.
Print Assumptions C19_regex_sources.

Theorem C19_call_site_facts : facts_gen = facts_fixed.
Proof. reflexivity. Qed.
Print Assumptions C19_call_site_facts.

(* ---- (1) round trip *)
(* (1a) the SGR parameters: for EVERY well-formed style (13 attributes tri-state; each colour none /
   default / standard / indexed / 24-bit), the parameter string Style._make_ansi_codes emits in
   truecolor is read back by the decoder as the same numbers, and folding them into any clean decoder
   state (nothing set, perhaps a link) yields a state that shows exactly what the style shows *)
Theorem C19_sgr_roundtrip : forall s st lk, wf_style s -> null_ok st -> view_of st = mkView None None 0 0 lk ->
  make_ansi_codes s CS_TRUECOLOR = Ok (ATTRS s) /\
  (style_nums s <> [] -> sgr_codes true (split_on 59 (ATTRS s)) = Ok (style_nums s)) /\
  exists st', apply_codes (style_nums s) st = Ok st' /\ null_ok st' /\
    view_of st' = mkView (option_map ckey_of (s_color s)) (option_map ckey_of (s_bgcolor s))
                         (Z.land (s_attributes s) (s_set_attributes s))
                         (Z.land (s_attributes s) (s_set_attributes s)) lk.
Proof.
  intros s st lk W Hn V. split; [|split].
  - unfold make_ansi_codes. rewrite (proj1 (sgr_list_nums s W)). reflexivity.
  - intros Hne. exact (proj2 (proj2 (proj2 (attrs_facts s W Hne)))).
  - exact (apply_style_nums s st lk W Hn V).
Qed.
Print Assumptions C19_sgr_roundtrip.

(* (1b) THE ROUND TRIP.  A styled text is a list of lines, each a list of runs (text, style) -- what a
   console writes: Console.print splits every segment at "\n" (Segment.split_and_crop_lines), so the
   encoder closes (CSI 0 m, OSC 8 ;;) and re-opens the style on every line; a style "spanning a
   newline" is a run with that style on each of the lines.  encode_lines = what Console._render_buffer
   emits for these segments in truecolor (Style.render per styled segment, "\n" after each line).

   For EVERY such text (any number of lines and runs; text free of ESC, of the characters Text.append
   strips and of the str.splitlines boundaries; any well-formed fresh style; links free of ESC and
   line boundaries) AnsiDecoder.decode (str.splitlines, then decode_line per line with the decoder
   style carried from line to line) raises nothing and returns exactly one decoded line per printed
   line, with
     PRESERVED   the characters, in order, line by line; per character the attributes that are set
                 AND true, foreground and background by (kind, number | r,g,b), the link (truthy);
     CLEAN       the decoder state after every line (and at the end) shows nothing and has no link:
                 nothing leaks onto the next run, the next line or a later decode call;
     NOT PRESERVED (by design of the statement) the segmentation into runs/spans (adjacent runs that
                 show nothing merge; a span is created per plain token), attributes that are set but
                 False vs. unset, a colour's `name`, the link id, a falsy link "".
   roundtrip_b is the checker evaluated on rich's own output in the correspondence. *)
Theorem C19_decode_encode : forall lid t e st,
  lid_ok2 lid -> Forall (Forall run_ok2) t -> encode_lines lid t = Ok e -> clean st None ->
  exists st' d, decode true st e = (st', Ok d)
    /\ Forall2 (fun runs ps => vchars ps = vchars runs) t d
    /\ roundtrip_b t d = true /\ clean st' None.
Proof.
  intros lid t e st HL HF He Hc. destruct (decode_encode_lines lid HL t e st HF He Hc) as [st' [d [D [F C]]]].
  exists st', d. split; [exact D|]. split; [exact F|]. split; [exact (roundtrip_of_Forall2 t d F)|exact C].
Qed.
Print Assumptions C19_decode_encode.

(* the encoding of such a line contains no CR and no other str.splitlines boundary *)
Theorem C19_encoding_boundary_free : forall lid runs e,
  lid_ok2 lid -> Forall run_ok2 runs -> encode_line lid runs = Ok e -> nb_str e.
Proof. intros lid runs e HL. exact (encode_line_nb lid HL runs e). Qed.
Print Assumptions C19_encoding_boundary_free.

(* the decoder state threads across lines for ANY stream, not only rich's own output: a first line
   (free of line boundaries) that opens a style or a link and leaves it open hands exactly the state it
   ends in to the decoding of the rest -- this is what makes a segment printed with an embedded "\n"
   (crop=False, other programs' output through FileProxy) come back with its style on both lines *)
Theorem C19_decode_state_threads : forall fx st l rest, nb_str l ->
  decode fx st (l ++ 10 :: rest) = decode_lines fx st (l :: splitlines rest).
Proof. exact decode_threads. Qed.
Print Assumptions C19_decode_state_threads.

(* the hypotheses are satisfiable on a non-trivial input, and the checker accepts the model's own round
   trip of it (bold+underline red-on-indexed linked run, a plain run, a 24-bit run; two lines); a bold
   run left open across a newline comes back bold on both lines *)
Definition ex_style1 : style :=
  style_make (Some (mkColor (lit "red") CT_STANDARD (Some 1) None)) (Some (from_ansi 200))
             [Some true; None; None; Some true; Some false] (Some (lit "http://a;b")).
Definition ex_style2 : style := style_make (Some (from_rgb 1 2 255)) None [None; Some true] None.
Definition ex_text : list (list run) :=
  [[(lit "ab", Some ex_style1); (lit " c", None); (lit "d", Some ex_style2)]; []; [(lit "e", Some ex_style2)]].
Example C19_decode_encode_nonvacuous :
  lid_ok2 (lit "0") /\ Forall (Forall run_ok2) ex_text /\
  match encode_lines (lit "0") ex_text with
  | Ok e => match snd (decode true style_null e) with
            | Ok d => roundtrip_b ex_text d && (length d =? 3)%nat
            | _ => false
            end
  | _ => false
  end = true.
Proof.
  split; [repeat split; reflexivity|]. split; [|vm_compute; reflexivity].
  repeat constructor; try reflexivity; try (cbn; lia); try (intros H; discriminate H);
  try (match goal with H : s_null _ = true |- _ => vm_compute in H; discriminate H end).
Qed.
Example C19_open_style_spans_newline :
  match snd (decode true style_null [27; 91; 49; 109; 97; 10; 98; 27; 91; 48; 109; 10; 99; 10]) with
  | Ok [l1; l2; l3] =>
      vchars_eqb (vchars l1) [(97, mkVis 1 None None None)]
      && vchars_eqb (vchars l2) [(98, mkVis 1 None None None)]
      && vchars_eqb (vchars l3) [(99, vis_none)]
  | _ => false
  end = true.
Proof. vm_compute. reflexivity. Qed.

(* ---- (2) the decoder accepts any string (repaired code) -- cited by C14 *)
Theorem C19_decoder_total : forall st s k, snd (decode_line true st s) <> Crash k.
Proof. exact decode_line_no_crash. Qed.
Print Assumptions C19_decoder_total.
Theorem C19_decode_total : forall st text, exists lines, snd (decode true st text) = Ok lines.
Proof. exact decode_total. Qed.
Print Assumptions C19_decode_total.
(* rich 9.10.0 as found: AnsiDecoder().decode_line("\x1b[²m") raises ValueError (D8) *)
Theorem C19_decoder_asis_refuted : snd (decode_line false style_null [27; 91; 178; 109]) = Crash K_ValueError.
Proof. exact decode_line_asis_refuted. Qed.
Print Assumptions C19_decoder_asis_refuted.

(* ---- (3) the proxy: every history of write() / flush() calls *)
(* the property checker (the one evaluated on the implementation's output): every "\n"-terminated line
   printed exactly once, in order, complete, ANSI-decoded with ONE decoder whose state is carried across
   lines and chunk boundaries, as a Text with markup / emoji / highlight off; flush prints the pending
   partial line the same way; what is left is the unterminated tail *)
Theorem C19_proxy_lines : forall h,
  let '(st, outs) := proxy_run true facts_fixed p_init h in proxy_ok_b h outs (pending st) = true.
Proof. exact proxy_ok. Qed.
Print Assumptions C19_proxy_lines.

(* nothing lost, nothing invented: printed (with the "\n" of each complete line) ++ pending = concat writes *)
Theorem C19_proxy_conservation : forall h,
  let '(st, outs) := proxy_run true facts_fixed p_init h in
  concat (map out_raw outs) ++ pending st = writes h.
Proof. exact proxy_conservation. Qed.
Print Assumptions C19_proxy_conservation.

Theorem C19_proxy_no_exception : forall h,
  Forall (fun o => match o with OEvent _ => True | OCrash _ _ => False end)
         (snd (proxy_run true facts_fixed p_init h)).
Proof. exact proxy_no_crash. Qed.
Print Assumptions C19_proxy_no_exception.

(* where the stream is cut does not matter (inside lines, inside escape sequences, empty writes, many
   newlines at once): two flush-free histories writing the same characters print the same decoded
   lines in the same order, keep the same tail and leave the decoder in the same state *)
Theorem C19_proxy_cut_independent : forall h1 h2,
  no_flush h1 -> no_flush h2 -> writes h1 = writes h2 ->
  let '(s1, e1) := spec_run s_init h1 in
  let '(s2, e2) := spec_run s_init h2 in
  concat e1 = concat e2 /\ sp_pend s1 = sp_pend s2 /\ sp_style s1 = sp_style s2.
Proof. exact spec_cut_independent. Qed.
Print Assumptions C19_proxy_cut_independent.

Example C19_proxy_cut_nonvacuous :   (* a line cut inside its escape sequence is reassembled *)
  let s := [27; 91; 49; 109; 120; 10; 121; 10] in
  let h1 := [Write s] in
  let h2 := [Write [27; 91]; Write []; Write [49]; Write [109; 120; 10; 121]; Write [10]] in
  writes h1 = writes h2 /\
  snd (proxy_run true facts_fixed p_init h2) <> [] /\
  concat (snd (spec_run s_init h1)) = concat (snd (spec_run s_init h2)).
Proof. vm_compute. repeat split; try reflexivity. discriminate. Qed.

(* restart histories: start() / writes / stop() repeated any number of times on ONE Live, Status (wraps a
   Live) or Progress object.  T3 facts regenerated from rich/live.py and rich/progress.py: for stdout and
   stderr, (the enabling test also requires `self._restore_X is None`, disabling resets it to None).
   As long as no stream has the guard without the reset, EVERY run redirects the stream to a fresh
   FileProxy, prints every line of that run exactly once (proxy_ok_b + conservation, per run) and
   restores the original stream at stop() *)
Definition redirect_facts_ok (l : list (bool * bool)) : Prop :=
  length l = 2%nat /\ Forall (fun p => rf_ok (mkRF (fst p) (snd p))) l.
Theorem C19_redirect_facts :
  redirect_facts_ok FileProxyFacts.LIVE_REDIRECT /\ redirect_facts_ok FileProxyFacts.PROGRESS_REDIRECT.
Proof. split; (split; [reflexivity|repeat constructor]). Qed.
Print Assumptions C19_redirect_facts.

Theorem C19_restart_histories : forall rf hs, rf_ok rf ->
  Forall2 run_ok_obs hs (restart_runs true facts_fixed rf r_init hs).
Proof. intros rf hs H. exact (restart_ok rf H hs r_init (between_init rf)). Qed.
Print Assumptions C19_restart_histories.

(* the seeded pair of edits (None-guard in enable, no reset in disable): the second run is not redirected *)
Theorem C19_restart_guard_without_reset_refuted :
  let hs := [[Write [97; 10]]; [Write [98; 10]]] in
  match restart_runs true facts_fixed (mkRF true false) r_init hs with
  | [r1; r2] => ro_proxy r1 = true /\ ro_proxy r2 = false
                /\ proxy_ok_b [Write [98; 10]] (ro_outs r2) (ro_pending r2) = false
  | _ => False
  end.
Proof. exact restart_guard_without_reset_refuted. Qed.
Print Assumptions C19_restart_guard_without_reset_refuted.

(* scope: an unterminated tail that is never flushed stays in the proxy's buffer -- the property gives
   complete lines to write() and the partial line to flush(); Live.stop() restores sys.stdout without
   flushing the proxy, so such a tail is dropped with it (notes/C19.md, observation O1) *)
Example C19_unflushed_tail_stays_pending :
  let '(st, outs) := proxy_run true facts_fixed p_init [Write (lit "ab"); Write [10; 99; 100]] in
  length outs = 1%nat /\ pending st = lit "cd".
Proof. vm_compute. split; reflexivity. Qed.

(* a flush emits the pending partial line (decoded, markup off) and leaves nothing pending *)
Theorem C19_flush_emits_pending : forall st,
  chunks_ok (p_buffer st) -> pending st <> [] ->
  exists sty ps,
    decode_line true (p_style st) (pending st) = (sty, Ok ps) /\
    proxy_flush true facts_fixed st
      = (mkP [] sty, [OEvent (mkEvent [pending st] false (PText [ps]) kw_off)]).
Proof. exact flush_emits_pending. Qed.
Print Assumptions C19_flush_emits_pending.

(* rich 9.10.0 as found (D13): flush hands the raw string to console.print with markup, emoji and
   highlighting enabled and without ANSI decoding -- "[b]x" loses "[b]", "[/]" raises MarkupError *)
Theorem C19_flush_asis_refuted :
  let h := [Write (lit "[b]x"); Flush] in
  let '(st, outs) := proxy_run true facts_asis p_init h in
  outs = [OEvent (mkEvent [lit "[b]x"] false (PStr (lit "[b]x")) [None; None; None])]
  /\ proxy_ok_b h outs (pending st) = false.
Proof. exact flush_asis_refuted. Qed.
Print Assumptions C19_flush_asis_refuted.

(* rich 9.10.0 as found (D8 through the proxy): the line "\x1b[²mx" is lost, write raises ValueError *)
Theorem C19_write_asis_refuted :
  let h := [Write [27; 91; 178; 109; 120; 10]] in
  let '(st, outs) := proxy_run false facts_fixed p_init h in
  outs = [OCrash false K_ValueError] /\ pending st = [] /\ proxy_ok_b h outs (pending st) = false.
Proof. exact write_asis_d8_refuted. Qed.
Print Assumptions C19_write_asis_refuted.
