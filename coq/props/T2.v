(* T2 -- tie file, NOT a property.  The property theorems of C07 / C13 / C09 are about hand-written
   models; here they are restated about the functions REGENERATED from /repo on every run
   (gen/T2_*.v, tools/translate/t2.py) by rewriting through the bridge lemmas of proofs/bridge/.
   If the Python source of one of these functions changes its meaning, its bridge lemma (and the
   corollary below) stops compiling. *)
From RichModel Require Import Prelude Cells Ratio T2Lib Frames Segments Color Progress.
From RichGen Require Import CellWidthTable T2_Ratio T2_Cells T2_Measure T2_Segment T2_Color T2_Progress T2_Bar T2_ProgressBar.
From RichProofs Require Import CellsP FramesP.
From RichProofs.bridge Require Import BridgeLib BridgeRatio BridgeCells BridgeMeasure BridgeSegment BridgeColor
  BridgeProgress BridgeBar BridgeProgressBar.
From RichProps Require C07 C13 C09 C18 C12 C08.
Import RichModel.SpecTable RichModel.SpecCells RichModel.SpecColor RichModel.SpecProgress RichModel.SpecFrames.

(* ---- C07: the ratio kernels and Table._collapse_widths, as found in the source today ---- *)
Theorem T2_ratio_distribute_sum : forall total ratios,
  bounded26 total -> Forall bounded26 ratios ->
  0 <= total -> Forall (fun r => 0 <= r) ratios -> 0 < sumZ ratios ->
  exists out, ratio_distribute_gen total ratios None = Ok out /\
              distribute_sum_b total out = true /\ Forall (fun d => 0 <= d) out /\
              length out = length ratios.
Proof. intros. rewrite ratio_distribute_gen_eq_hand. now apply C07.C07_ratio_distribute_sum. Qed.
Print Assumptions T2_ratio_distribute_sum.

Example T2_ratio_distribute_nonvacuous : ratio_distribute_gen 10 [1; 2; 1] None = Ok [3; 5; 2].
Proof. vm_compute. reflexivity. Qed.

Theorem T2_ratio_distribute_ge : forall total ratios mins out,
  Forall (fun r => 0 <= r) (zip_mask ratios mins) -> length mins = length ratios -> mins <> [] ->
  ratio_distribute_gen total ratios (Some mins) = Ok out -> total <= sumZ out.
Proof. intros *. rewrite ratio_distribute_gen_eq_hand. apply C07.C07_ratio_distribute_ge. Qed.
Print Assumptions T2_ratio_distribute_ge.

Theorem T2_ratio_reduce_bound : forall total ratios maxs vals,
  bounded26 total -> Forall bounded26 ratios ->
  length maxs = length ratios -> length vals = length ratios ->
  Forall (fun r => 0 <= r) ratios -> Forall (fun m => 0 <= m) maxs -> 0 <= total ->
  sumZ (zip_mask ratios maxs) <> 0 ->
  exists out, ratio_reduce_gen total ratios maxs vals = Ok out /\
              reduce_bound_b total maxs vals out = true.
Proof.
  intros. rewrite ratio_reduce_gen_eq_hand. eexists; split; [reflexivity|].
  now apply C07.C07_ratio_reduce_bound.
Qed.
Print Assumptions T2_ratio_reduce_bound.

Example T2_ratio_reduce_nonvacuous : ratio_reduce_gen 5 [1; 1] [9; 9] [10; 10] = Ok [8; 7].
Proof. vm_compute. reflexivity. Qed.

Theorem T2_ratio_reduce_sum : forall total ratios maxs vals,
  bounded26 total -> Forall bounded26 ratios ->
  length maxs = length ratios -> length vals = length ratios ->
  Forall (fun r => 0 <= r) ratios -> 0 <= total -> Forall (fun m => total <= m /\ m <> 0) maxs ->
  0 < sumZ ratios ->
  exists out, ratio_reduce_gen total ratios maxs vals = Ok out /\ reduce_sum_b total vals out = true.
Proof.
  intros. rewrite ratio_reduce_gen_eq_hand. eexists; split; [reflexivity|].
  now apply C07.C07_ratio_reduce_sum.
Qed.
Print Assumptions T2_ratio_reduce_sum.

Theorem T2_collapse_widths_spec : forall widths wrapable max_width,
  Forall bounded26 widths -> bounded26 max_width ->
  length wrapable = length widths -> Forall (fun w => 0 <= w) widths ->
  exists out, collapse_widths_gen (collapse_fuel widths max_width) widths wrapable max_width = Ok out /\
              collapse_ok_b widths wrapable max_width out = true.
Proof. intros. rewrite collapse_widths_gen_eq_hand_default. now apply C07.C07_collapse_widths_spec. Qed.
Print Assumptions T2_collapse_widths_spec.

Example T2_collapse_nonvacuous :
  collapse_widths_gen (collapse_fuel [10; 3; 8] 12) [10; 3; 8] [true; true; true] 12 = Ok [4; 3; 5].
Proof. vm_compute. reflexivity. Qed.

(* ---- C13: the binary search and the string shaping of rich/cells.py ---- *)
Theorem T2_bsearch_is_linear : forall cp,
  get_codepoint_cell_size_gen (S (length CELL_WIDTHS)) cp = Ok (lookup_linear CELL_WIDTHS cp).
Proof.
  intro cp. rewrite get_codepoint_cell_size_gen_eq_model.
  exact (C13.C13_bsearch_is_linear CELL_WIDTHS cp table_sorted table_nonempty).
Qed.
Print Assumptions T2_bsearch_is_linear.

Theorem T2_cw_spec : forall fuel cp, (S (length CELL_WIDTHS) <= fuel)%nat ->
  get_character_cell_size_gen fuel cp = Ok (char_size cp) /\ char_size cp = cw cp /\ 0 <= cw cp <= 2.
Proof.
  intros fuel cp H. split; [now apply get_character_cell_size_gen_big|].
  exact (proj2 (C13.C13_cw_spec cp)).
Qed.
Print Assumptions T2_cw_spec.

Theorem T2_set_cell_size_spec : forall fuel s n,
  (S (length CELL_WIDTHS) <= fuel)%nat -> (length s < fuel)%nat -> 0 <= n ->
  exists out, set_cell_size_gen fuel cell_len s n = Ok out /\ resize_ok_b s n out = true.
Proof.
  intros fuel s n Hf Hl Hn. rewrite set_cell_size_gen_eq_hand by assumption.
  eexists; split; [reflexivity|]. now apply C13.C13_set_cell_size_spec.
Qed.
Print Assumptions T2_set_cell_size_spec.

Theorem T2_chop_cells_spec : forall fuel s w,
  (S (length CELL_WIDTHS) <= fuel)%nat -> (length s < fuel)%nat -> 2 <= w ->
  exists out, chop_cells_gen fuel s w 0 = Ok out /\ chop_ok_b s w out = true.
Proof.
  intros fuel s w Hf Hl Hw. rewrite chop_cells_gen_eq_hand by assumption.
  eexists; split; [reflexivity|]. now apply C13.C13_chop_cells_spec.
Qed.
Print Assumptions T2_chop_cells_spec.

(* ---- C09 / C01: Measurement.get is normalize . with_maximum . normalize of the generated code ---- *)
Theorem T2_measurement_get : forall (c : child) w,
  measurement_get c w =
  if w <? 1 then (0, 0)
  else let m := with_maximum_gen (normalize_gen (cmeasure c w)) w in
       if snd m <? 1 then (0, 0) else normalize_gen m.
Proof.
  intros c w. unfold measurement_get. destruct (w <? 1); [reflexivity|]. cbv zeta.
  rewrite (with_maximum_gen_eq_hand (normalize_gen (cmeasure c w)) w).
  rewrite (normalize_gen_eq_hand (cmeasure c w)).
  destruct (snd (m_with_maximum w (m_normalize (cmeasure c w))) <? 1); [reflexivity|].
  apply eq_sym, normalize_gen_eq_hand.
Qed.
Print Assumptions T2_measurement_get.

Theorem T2_get_normalised : forall (c : child) w, 0 <= w ->
  let m := if w <? 1 then (0, 0)
           else let m := with_maximum_gen (normalize_gen (cmeasure c w)) w in
                if snd m <? 1 then (0, 0) else normalize_gen m in
  0 <= fst m /\ fst m <= snd m /\ snd m <= w.
Proof. intros c w Hw. cbv zeta. rewrite <- T2_measurement_get. now apply C09.C09_get_normalised_any_child. Qed.
Print Assumptions T2_get_normalised.

(* ---- round 2: C13 line shaping, C18 SGR parameters, C12 percentage, C08 bars ---- *)
Theorem T2_adjust_line_length_spec : forall fuel (line : list (seg Z)) n style pad,
  (S (length CELL_WIDTHS) <= fuel)%nat -> Forall (fun g => (length (txt g) < fuel)%nat) line -> 0 <= n ->
  exists out, adjust_line_length_gen fuel cell_len (map seg_t line) n style pad = Ok (map seg_t out) /\
              adjust_ok_b line n style pad out = true.
Proof.
  intros fuel line n style pad Hf Hl Hn. rewrite adjust_line_length_gen_eq_hand by assumption.
  eexists; split; [reflexivity|]. now apply C13.C13_adjust_line_length_spec.
Qed.
Print Assumptions T2_adjust_line_length_spec.

Theorem T2_ansi_codes_standard : forall c fg, wf_color_b c = true ->
  exists codes, get_ansi_codes_gen (ColorType_int (c_type c)) (c_number c)
                  (option_map triplet_tuple (c_triplet c)) fg = Ok codes /\ codes_ok_b c fg codes = true.
Proof. intros c fg H. rewrite get_ansi_codes_gen_eq_hand. now apply C18.C18_ansi_codes_standard. Qed.
Print Assumptions T2_ansi_codes_standard.

Theorem T2_percentage_clamped : forall t,
  exists p, percentage_gen (t_total t) (t_completed t) = Ok p /\ pct_ok_b (QArith_base.Qmake 0 1) (t_completed t) (t_total t) p = true.
Proof. intro t. rewrite percentage_gen_eq_hand. eexists; split; [reflexivity|]. apply C12.C12_percentage_clamped. Qed.
Print Assumptions T2_percentage_clamped.

Theorem T2_bar_exact : forall size b e bw st W, 0 < size -> 0 <= W ->
  match bw with Some x => 0 <= x | None => True end ->
  exists text, bar_console_gen bw (Z.max b 0) (Z.min e size) size st W = Ok [(text, st, false); ([10], None, false)] /\
               bar_within_b (bar_width bw W) true text = true.
Proof.
  intros size b e bw st W Hs HW Hbw. rewrite bar_console_gen_eq_hand by exact Hs.
  eexists; split; [reflexivity|]. now apply C08.C08_bar_exact.
Qed.
Print Assumptions T2_bar_exact.

Theorem T2_pbar_within : forall rp gs pw total completed st cst fst_ W lw ao no_color cs, 0 <= W ->
  match pw with Some x => 0 <= x | None => True end ->
  exists out, pbar_console_gen rp gs pw false total completed st cst fst_ W lw ao no_color cs = Ok out /\
    bar_within_b (bar_width pw W) ((match cs with Some _ => true | None => false end) && negb no_color)
                 (concat (map seg_text out)) = true.
Proof.
  intros rp gs pw total completed st cst fst_ W lw ao no_color cs HW Hpw.
  destruct (pbar_console_gen_eq_hand rp gs pw total completed st cst fst_ W lw ao no_color cs 0) as (out & H1 & H2).
  exists out. split; [exact H1|]. rewrite H2. now apply C08.C08_pbar_within.
Qed.
Print Assumptions T2_pbar_within.
