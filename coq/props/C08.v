(* C08 -- Framing renderables draw exact rectangles around intact content.
   Children are abstract (any measurement function, any segment stream per width); styles are tokens.
   Only property theorems live here; each is closed by `exact` and followed by Print Assumptions. *)
From RichModel Require Import Prelude Cells Segments SpecCells Frames SpecFrames.
From RichGen Require Import FrameBoxes.
From RichProofs Require Import CellsP SegmentsP SegmentsP2 FramesP FramesP2 FramesP3.

(* (1) Padding: all lines `width` cells (= W when expanding); t blank rows, the child's own lines
   (rendered alone at the inner width) unchanged and in order between exactly l and r spaces, b rows.
   Every child, every style, every width at or above the structural minimum l + r. *)
Theorem C08_padding_rect : forall c t r b l st expand W,
  0 <= l -> 0 <= r -> l + r <= W ->
  let width := padding_width c r l expand W in
  frame_ok_b (if expand then Some W else None) (Z.to_nat t) (Z.to_nat b) (spaces l) (spaces r) None None
             (map flat (render_lines c (width - l - r) (Some st) false))
             (map flat (padding_lines c t r b l st expand W)) = true.
Proof. exact padding_rect. Qed.
Print Assumptions C08_padding_rect.

Example C08_padding_nonvacuous :
  map flat (padding_lines (mkChild (fun _ => (2, 2)) (fun _ => [mkSeg [12354] (Some 3) false; mkSeg [NL] None false]))
                          1 1 0 2 (Some 7) false 9)
  = [[(32, Some 7); (32, Some 7); (32, Some 7); (32, Some 7); (32, Some 7)];
     [(32, Some 7); (32, Some 7); (12354, Some 3); (32, Some 7)]].
Proof. vm_compute. reflexivity. Qed.

(* (2) Panel (every box incl. safe_box / legacy_windows / ascii_only substitution, title, title_align,
   expand, width): every line child_width + 2 cells; top row, the child's own lines unchanged and in
   order between the two border characters, bottom row.  Stated for padding (0,0,0,0); with padding
   the child is first wrapped in a Padding (C08_padding_rect) -- see C08_panel_padded_partial below. *)
Theorem C08_panel_rect : forall c o W cW,
  p_pad o = (0, 0, 0, 0) ->
  let cwid := panel_child_width c o W in
  0 <= cwid ->
  (p_title o <> [] -> 2 <= cwid /\ cwid - 2 <= cW) ->
  let box := box_substitute (p_box o) (p_legacy o) (p_safe o) (p_ascii o) in
  frame_ok_b (Some (cwid + 2)) 1 1 [box_char box 3 0] [box_char box 3 3] None None
             (map flat (render_lines c cwid (Some (p_style o)) false))
             (map flat (panel_lines false c o W cW)) = true.
Proof. exact panel_rect. Qed.
Print Assumptions C08_panel_rect.

Theorem C08_panel_expand_width : forall c o W,
  p_expand o = true -> p_width o = None -> panel_child_width c o W + 2 = W.
Proof. exact panel_expand_width. Qed.
Print Assumptions C08_panel_expand_width.

(* FULL STATEMENT NOT PROVED (padded panels): for p_pad o = (t, r, b, l) <> 0 the rows are
     border . l spaces . child line . spaces . r spaces . border
   and there are 1 + t rows above and 1 + b rows below.  What is proved: Panel hands the Padding
   child_width cells (panel_inner), and Padding is an exact rectangle of that width (C08_padding_rect
   with expand = true); what is missing is the lemma that Console.render_lines re-splits the Padding's
   newline-terminated stream into the same lines (split_lines (stream_of ls) = ls for newline-free ls).
   The composed statement is checked on the implementation for every generated case (spec.frame_ok). *)
Theorem C08_panel_padded_partial : forall c t r b l W, 0 <= l -> 0 <= r -> l + r <= W ->
  frame_ok_b (Some W) (Z.to_nat t) (Z.to_nat b) (spaces l) (spaces r) None None
             (map flat (render_lines c (W - l - r) (Some None) false))
             (map flat (padding_lines c t r b l None true W)) = true.
Proof. intros c t r b l W Hl Hr HW. exact (padding_rect c t r b l None true W Hl Hr HW). Qed.
Print Assumptions C08_panel_padded_partial.

(* rich 9.10.0 as found (title rendered through Text.wrap): a title with zero-width characters loses its
   padding space and the top row is one cell short; the repaired code is rectangular on the same input *)
Theorem C08_panel_asis_refuted :
  frame_ok_b None 1 1 [9474] [9474] None None
             (map flat (render_lines zw_child (panel_child_width zw_child zw_panel 20) (Some None) false))
             (map flat (panel_lines true zw_child zw_panel 20 20)) = false
  /\ frame_ok_b None 1 1 [9474] [9474] None None
             (map flat (render_lines zw_child (panel_child_width zw_child zw_panel 20) (Some None) false))
             (map flat (panel_lines false zw_child zw_panel 20 20)) = true.
Proof. exact panel_asis_refuted. Qed.
Print Assumptions C08_panel_asis_refuted.

(* (3) Align left / center / right, pad, width, style: left = 0 | excess // 2 | excess spaces, the
   child's block, right = the remainder when padding (odd excess: the extra cell goes right) *)
Theorem C08_align_rect : forall c how pad awidth ast W cW, 1 <= W ->
  let inner := Z.min (match awidth with None => snd (measurement_get c cW)
                                     | Some aw => Z.min (snd (measurement_get c cW)) aw end) W in
  let CL := split_lines (render_at c inner) in
  let w := fst (get_shape CL) in
  let left := align_left how (W - w) in
  let right := align_right how pad (W - w) in
  frame_ok_b (Some (left + w + right)) 0 0 (spaces left) (spaces right) None None
             (map (fun l => flat (overlay ast l)) CL)
             (map flat (align_lines c how pad awidth ast W cW)) = true.
Proof. exact align_rect. Qed.
Print Assumptions C08_align_rect.

Example C08_align_odd_split : align_left 1 5 = 2 /\ align_right 1 true 5 = 3 /\ align_left 2 5 = 5
  /\ align_right 0 false 5 = 0.
Proof. vm_compute. repeat split. Qed.

(* (4) Constrain and Styled are transparent: Constrain renders the child at min(width, available) and
   nothing else; Styled keeps every segment's text and control flag, hence every line's characters *)
Theorem C08_constrain_styled_transparent : forall c cw st W, 1 <= W ->
  constrain_render c cw W = render_at c (match cw with None => W | Some x => Z.min x W end)
  /\ map (@txt Z) (styled_render c st W) = map (@txt Z) (render_at c W)
  /\ map (@ctl Z) (styled_render c st W) = map (@ctl Z) (render_at c W)
  /\ same_chars_b (map flat (split_lines (render_at c W))) (map flat (split_lines (styled_render c st W))) = true.
Proof. exact constrain_styled_transparent. Qed.
Print Assumptions C08_constrain_styled_transparent.

(* (5) Rule: exactly W cells for EVERY title (truncated with an ellipsis when too long), EVERY
   `characters` string (wide ones included), every alignment, ascii_only or not -- repaired code *)
Theorem C08_rule_fills_exactly : forall title chars how ascii W, 1 <= W ->
  rule_lines_b W (rule_lines false title chars how ascii W) = true.
Proof. exact rule_fills_exactly. Qed.
Print Assumptions C08_rule_fills_exactly.

Example C08_rule_nonvacuous :
  rule_lines false (lit "ab") [12354] 1 false 11 = [[12354; 32; 32; 97; 98; 32; 12354; 12354]]
  /\ rule_lines false (lit "a long title") [45] 0 false 8 = [lit "a lon" ++ [8230; 32; 45]].
Proof. vm_compute. split; reflexivity. Qed.

(* rich 9.10.0 as found (the line goes through Text.wrap / rstrip_end): one cell short *)
Theorem C08_rule_asis_refuted : exists title chars how W,
  1 <= W /\ rule_lines_b W (rule_lines true title chars how false W) = false.
Proof. exact rule_asis_refuted. Qed.
Print Assumptions C08_rule_asis_refuted.

Theorem C08_rule_asis_exact_when_no_zero_width : forall title chars how ascii W, 1 <= W ->
  Forall (fun c => 1 <= char_size c) (rule_text title chars how ascii W) ->
  rule_lines_b W (rule_lines true title chars how ascii W) = true.
Proof. exact rule_asis_exact_when_no_zero_width. Qed.
Print Assumptions C08_rule_asis_exact_when_no_zero_width.

(* (6) Bar fills exactly its width; ProgressBar never exceeds it and fills it exactly when colour is
   available (and always when pulsing); total = 0 and negative totals included *)
Theorem C08_bar_exact : forall size b e bw W, 0 <= W ->
  match bw with Some x => 0 <= x | None => True end ->
  bar_within_b (bar_width bw W) true (bar_text size b e bw W) = true.
Proof. exact bar_exact. Qed.
Print Assumptions C08_bar_exact.

Theorem C08_pbar_within : forall total completed pw t ascii has_color no_color W, 0 <= W ->
  match pw with Some x => 0 <= x | None => True end ->
  bar_within_b (bar_width pw W) (has_color && negb no_color)
               (pbar_text total completed pw false t ascii has_color no_color W) = true.
Proof. exact pbar_within. Qed.
Print Assumptions C08_pbar_within.

Theorem C08_pbar_pulse_exact : forall total completed pw t ascii has_color no_color W, 0 <= W ->
  match pw with Some x => 0 <= x | None => True end ->
  bar_within_b (bar_width pw W) true (pbar_text total completed pw true t ascii has_color no_color W) = true.
Proof. exact pbar_pulse_exact. Qed.
Print Assumptions C08_pbar_pulse_exact.

Example C08_bars_nonvacuous :
  bar_text 10 3 7 None 8 = [32; 32; 9616; 9608; 9608; 9612; 32; 32]
  /\ pbar_text 0 5 None false 0 false true false 4 = [9473; 9473; 9473; 9473]
  /\ pbar_text 3 1 None false 0 false false false 6 = [9473; 9473].
Proof. vm_compute. repeat split. Qed.

(* (7) Columns.
   FULL STATEMENT NOT PROVED:  forall n cc, 0 <= n -> 1 <= cc -> grid_ok n cc cf rtl = true
   (every item exactly once, row-first / column-first / right-to-left order, blanks only after the last
   item; i.e. the column-first fill is a bijection onto the cells (r, c) with r * cc + c < n).
   Proved: the statement for every n <= 48 and cc <= 50 (a finite sweep, which is a proof of the bounded
   statement), and, unbounded, that the column-first fill never fails and numbers its n positions
   0 .. n-1 in order (C08_column_first_total).  Missing: the induction over columns that turns the
   position list into the row-major grid for arbitrary n. *)
Theorem C08_columns_each_once_partial : forall n cc cf rtl, 0 <= n <= 48 -> 1 <= cc <= 50 ->
  grid_ok n cc cf rtl = true.
Proof. exact columns_each_once_bounded. Qed.
Print Assumptions C08_columns_each_once_partial.

Theorem C08_column_first_total : forall k idx row col lens acc,
  Forall (fun x => 1 <= x) lens -> Z.of_nat k <= sumZ lens ->
  exists pos, cf_go k idx row col lens acc = Ok (rev acc ++ pos) /\ length pos = k /\
              map (fun p => snd p) pos = iota k idx.
Proof. exact cf_go_ok. Qed.
Print Assumptions C08_column_first_total.

Example C08_columns_nonvacuous :
  grid_of 7 3 true false = Some [[0; 3; 5]; [1; 4; 6]; [2; -1; -1]]
  /\ grid_of 7 3 false true = Some [[2; 1; 0]; [5; 4; 3]; [-1; -1; 6]].
Proof. vm_compute. split; reflexivity. Qed.

(* (8) Tree.
   FULL STATEMENT NOT PROVED:  forall t W, tree_render ascii legacy t W = Ok ls /\
                               tree_dfs_b (tree_preorder W 0 t) ls = true
   (depth-first order over the explicit stack, for every shape and every `expanded` flag).
   Proved, unbounded: every guide segment is exactly 4 cells for every guide style / ascii / legacy
   (guide_text_4), and the block a node contributes is its label lines, unchanged and in order, each
   behind exactly 4 * depth cells (C08_tree_prefix).  The depth-first order itself is replayed inside
   Coq on a concrete tree (tree_dfs_demo) and checked on the implementation for every generated tree
   (spec.tree_dfs); missing is the stack invariant relating the iterator stack to the preorder. *)
Theorem C08_tree_prefix_partial : forall ascii legacy (prefix_rev : list guide) last (lab : list str),
  Forall guide_ok prefix_rev ->
  all2 (tree_line_b (zlen prefix_rev)) lab (node_lines ascii legacy prefix_rev last lab) = true.
Proof. exact node_block_ok. Qed.
Print Assumptions C08_tree_prefix_partial.

Theorem C08_guide_four_cells : forall ascii legacy g, guide_ok g -> cell_len (guide_text ascii legacy g) = 4.
Proof. exact guide_text_4. Qed.
Print Assumptions C08_guide_four_cells.
