(* C08 -- Framing renderables draw exact rectangles around intact content.
   Children are abstract (any measurement function, any segment stream per width); styles are tokens.
   Only property theorems live here; each is closed by `exact` and followed by Print Assumptions. *)
From RichModel Require Import Prelude Cells Segments SpecCells Frames SpecFrames.
From RichGen Require Import FrameBoxes.
From RichProofs Require Import CellsP SegmentsP SegmentsP2 FramesP FramesP2 FramesP3 FramesP4 FramesP5 FramesP6 FramesP7.
From RichProofs.bridge Require BridgeBar BridgeProgressBar.   (* tie 1 (T2): Bar.__rich_console__ regenerated from rich/bar.py *)

(* (1) Padding: all lines `width` cells (= W when expanding); t blank rows, the child's own lines
   (rendered alone at the inner width) unchanged and in order between exactly l and r spaces, b rows.
   Every child, every style, every width at or above the structural minimum l + r. *)
Theorem C08_padding_rect : forall c t r b l st expand W,
  0 <= l -> 0 <= r -> l + r <= W ->
  let width := padding_width c r l expand W in
  frame_ok_b (if expand then Some W else None) (Z.to_nat t) (Z.to_nat b) (spaces l) (spaces r) None None
             (map flat (render_lines c (width - l - r) (Some st) false))
             (map flat (padding_lines c t r b l st expand W)) = true.
Proof. exact padding_rect. Qed.
Print Assumptions C08_padding_rect.

Example C08_padding_nonvacuous :
  map flat (padding_lines (mkChild (fun _ => (2, 2)) (fun _ => [mkSeg [12354] (Some 3) false; mkSeg [NL] None false]))
                          1 1 0 2 (Some 7) false 9)
  = [[(32, Some 7); (32, Some 7); (32, Some 7); (32, Some 7); (32, Some 7)];
     [(32, Some 7); (32, Some 7); (12354, Some 3); (32, Some 7)]].
Proof. vm_compute. reflexivity. Qed.

(* (2) Panel (every box incl. safe_box / legacy_windows / ascii_only substitution, title, title_align,
   expand, width): every line child_width + 2 cells; top row, the child's own lines unchanged and in
   order between the two border characters, bottom row.  Stated for padding (0,0,0,0); with padding
   the child is first wrapped in a Padding (C08_padding_rect) -- see C08_panel_padded_rect below. *)
Theorem C08_panel_rect : forall c o W cW,
  p_pad o = (0, 0, 0, 0) ->
  let cwid := panel_child_width c o W in
  0 <= cwid ->
  (p_title o <> [] -> 2 <= cwid /\ cwid - 2 <= cW) ->
  let box := box_substitute (p_box o) (p_legacy o) (p_safe o) (p_ascii o) in
  frame_ok_b (Some (cwid + 2)) 1 1 [box_char box 3 0] [box_char box 3 3] None None
             (map flat (render_lines c cwid (Some (p_style o)) false))
             (map flat (panel_lines false c o W cW)) = true.
Proof. exact panel_rect. Qed.
Print Assumptions C08_panel_rect.

Theorem C08_panel_expand_width : forall c o W,
  p_expand o = true -> p_width o = None -> panel_child_width c o W + 2 = W.
Proof. exact panel_expand_width. Qed.
Print Assumptions C08_panel_expand_width.

(* (2b) Padded panels (the default padding (0,1) included).  Panel wraps the child in a Padding and
   renders that through Console.render_lines; the re-split of the Padding's newline-terminated stream
   returns exactly its lines (split_lines_stream), so: every line child_width + 2 cells; top border and
   t padding rows; the child's own lines (rendered alone at child_width - l - r, overlaid with the
   panel's style) unchanged and in order between  border . l spaces  and  r spaces . border;
   b padding rows and the bottom border.  Structural minimum: child_width >= max 1 (l + r). *)
Theorem C08_panel_padded_rect : forall c o W cW t r b l,
  p_pad o = (t, r, b, l) -> ((t =? 0) && (r =? 0) && (b =? 0) && (l =? 0) = false) ->
  let cwid := panel_child_width c o W in
  1 <= cwid -> 0 <= l -> 0 <= r -> l + r <= cwid ->
  (p_title o <> [] -> 2 <= cwid /\ cwid - 2 <= cW) ->
  let box := box_substitute (p_box o) (p_legacy o) (p_safe o) (p_ascii o) in
  frame_ok_b (Some (cwid + 2)) (1 + Z.to_nat t) (Z.to_nat b + 1)
             (box_char box 3 0 :: spaces l) (spaces r ++ [box_char box 3 3]) None None
             (map (fun cl => flat (apply_style (p_style o) cl)) (render_lines c (cwid - l - r) (Some None) false))
             (map flat (panel_lines false c o W cW)) = true.
Proof. exact panel_padded_rect. Qed.
Print Assumptions C08_panel_padded_rect.

Example C08_panel_padded_nonvacuous :
  map (fun l => map fst (flat l))
      (panel_lines false (mkChild (fun _ => (2, 2)) (fun _ => [mkSeg (lit "hi") None false; mkSeg [NL] None false]))
                   (mkPanel BOX_ROUNDED_INDEX true false false [] 1 true None (0, 1, 0, 1) None None) 8 8)
  = [[9581; 9472; 9472; 9472; 9472; 9472; 9472; 9582]; [9474; 32; 104; 105; 32; 32; 32; 9474];
     [9584; 9472; 9472; 9472; 9472; 9472; 9472; 9583]].
Proof. vm_compute. reflexivity. Qed.

(* the round trip used above: Console.render_lines / Segment.split_lines give back the lines of a
   newline-terminated stream whose segments contain no newline *)
Theorem C08_split_lines_stream : forall s ls, Forall (Forall nlfree) ls -> split_lines (stream_s s ls) = ls.
Proof. exact split_lines_stream. Qed.
Print Assumptions C08_split_lines_stream.

(* rich 9.10.0 as found (title rendered through Text.wrap): a title with zero-width characters loses its
   padding space and the top row is one cell short; the repaired code is rectangular on the same input *)
Theorem C08_panel_asis_refuted :
  frame_ok_b None 1 1 [9474] [9474] None None
             (map flat (render_lines zw_child (panel_child_width zw_child zw_panel 20) (Some None) false))
             (map flat (panel_lines true zw_child zw_panel 20 20)) = false
  /\ frame_ok_b None 1 1 [9474] [9474] None None
             (map flat (render_lines zw_child (panel_child_width zw_child zw_panel 20) (Some None) false))
             (map flat (panel_lines false zw_child zw_panel 20 20)) = true.
Proof. exact panel_asis_refuted. Qed.
Print Assumptions C08_panel_asis_refuted.

(* (3) Align left / center / right, pad, width, style: left = 0 | excess // 2 | excess spaces, the
   child's block, right = the remainder when padding (odd excess: the extra cell goes right) *)
Theorem C08_align_rect : forall c how pad awidth ast W cW, 1 <= W ->
  let inner := Z.min (match awidth with None => snd (measurement_get c cW)
                                     | Some aw => Z.min (snd (measurement_get c cW)) aw end) W in
  let CL := split_lines (render_at c inner) in
  let w := fst (get_shape CL) in
  let left := align_left how (W - w) in
  let right := align_right how pad (W - w) in
  frame_ok_b (Some (left + w + right)) 0 0 (spaces left) (spaces right) None None
             (map (fun l => flat (overlay ast l)) CL)
             (map flat (align_lines c how pad awidth ast W cW)) = true.
Proof. exact align_rect. Qed.
Print Assumptions C08_align_rect.

Example C08_align_odd_split : align_left 1 5 = 2 /\ align_right 1 true 5 = 3 /\ align_left 2 5 = 5
  /\ align_right 0 false 5 = 0.
Proof. vm_compute. repeat split. Qed.

(* (4) Constrain and Styled are transparent: Constrain renders the child at min(width, available) and
   nothing else; Styled keeps every segment's text and control flag, hence every line's characters *)
Theorem C08_constrain_styled_transparent : forall c cw st W, 1 <= W ->
  constrain_render c cw W = render_at c (match cw with None => W | Some x => Z.min x W end)
  /\ map (@txt Z) (styled_render c st W) = map (@txt Z) (render_at c W)
  /\ map (@ctl Z) (styled_render c st W) = map (@ctl Z) (render_at c W)
  /\ same_chars_b (map flat (split_lines (render_at c W))) (map flat (split_lines (styled_render c st W))) = true.
Proof. exact constrain_styled_transparent. Qed.
Print Assumptions C08_constrain_styled_transparent.

(* (5) Rule: exactly W cells for EVERY title (truncated with an ellipsis when too long), EVERY
   `characters` string (wide ones included), every alignment, ascii_only or not -- repaired code *)
Theorem C08_rule_fills_exactly : forall title chars how ascii W, 1 <= W ->
  rule_lines_b W (rule_lines false title chars how ascii W) = true.
Proof. exact rule_fills_exactly. Qed.
Print Assumptions C08_rule_fills_exactly.

Example C08_rule_nonvacuous :
  rule_lines false (lit "ab") [12354] 1 false 11 = [[12354; 32; 32; 97; 98; 32; 12354; 12354]]
  /\ rule_lines false (lit "a long title") [45] 0 false 8 = [lit "a lon" ++ [8230; 32; 45]].
Proof. vm_compute. split; reflexivity. Qed.

(* rich 9.10.0 as found (the line goes through Text.wrap / rstrip_end): one cell short *)
Theorem C08_rule_asis_refuted : exists title chars how W,
  1 <= W /\ rule_lines_b W (rule_lines true title chars how false W) = false.
Proof. exact rule_asis_refuted. Qed.
Print Assumptions C08_rule_asis_refuted.

Theorem C08_rule_asis_exact_when_no_zero_width : forall title chars how ascii W, 1 <= W ->
  Forall (fun c => 1 <= char_size c) (rule_text title chars how ascii W) ->
  rule_lines_b W (rule_lines true title chars how ascii W) = true.
Proof. exact rule_asis_exact_when_no_zero_width. Qed.
Print Assumptions C08_rule_asis_exact_when_no_zero_width.

(* (6) Bar fills exactly its width; ProgressBar never exceeds it and fills it exactly when colour is
   available (and always when pulsing); total = 0 and negative totals included *)
Theorem C08_bar_exact : forall size b e bw W, 0 <= W ->
  match bw with Some x => 0 <= x | None => True end ->
  bar_within_b (bar_width bw W) true (bar_text size b e bw W) = true.
Proof. exact bar_exact. Qed.
Print Assumptions C08_bar_exact.

Theorem C08_pbar_within : forall total completed pw t ascii has_color no_color W, 0 <= W ->
  match pw with Some x => 0 <= x | None => True end ->
  bar_within_b (bar_width pw W) (has_color && negb no_color)
               (pbar_text total completed pw false t ascii has_color no_color W) = true.
Proof. exact pbar_within. Qed.
Print Assumptions C08_pbar_within.

Theorem C08_pbar_pulse_exact : forall total completed pw t ascii has_color no_color W, 0 <= W ->
  match pw with Some x => 0 <= x | None => True end ->
  bar_within_b (bar_width pw W) true (pbar_text total completed pw true t ascii has_color no_color W) = true.
Proof. exact pbar_pulse_exact. Qed.
Print Assumptions C08_pbar_pulse_exact.

Example C08_bars_nonvacuous :
  bar_text 10 3 7 None 8 = [32; 32; 9616; 9608; 9608; 9612; 32; 32]
  /\ pbar_text 0 5 None false 0 false true false 4 = [9473; 9473; 9473; 9473]
  /\ pbar_text 3 1 None false 0 false false false 6 = [9473; 9473].
Proof. vm_compute. repeat split. Qed.

(* (7) Columns: for EVERY item count n >= 0 and EVERY column count cc >= 1, each of the four fill orders
   (row-first, column-first, each with right_to_left) puts every item exactly once into the grid, in the
   documented order (reading along rows / down columns gives 0 .. n-1; right_to_left mirrors each row),
   every row has cc cells and blanks occur only after the last item.  For column-first this is the
   index arithmetic of the imperative fill as coded (column c holds n/cc + [c < n mod cc] items, cell
   (r, c) = sum of the previous column lengths + r), proved through Euclidean division. *)
Theorem C08_columns_each_once : forall n cc cf rtl, 0 <= n -> 1 <= cc -> grid_ok n cc cf rtl = true.
Proof. exact columns_each_once. Qed.
Print Assumptions C08_columns_each_once.

(* ... for the grid Columns.__rich_console__ actually builds (width loop / explicit width, equal, padding) *)
Theorem C08_columns_grid_once : forall ws cwidth pl pr equal cf rtl W cc g,
  ws <> [] -> columns_grid_fixed ws cwidth pl pr equal cf rtl W = Ok (cc, g) -> 1 <= cc ->
  columns_once_b cf rtl (length ws) cc g = true.
Proof. exact columns_grid_once. Qed.
Print Assumptions C08_columns_grid_once.

Theorem C08_column_first_total : forall k idx row col lens acc,
  Forall (fun x => 1 <= x) lens -> Z.of_nat k <= sumZ lens ->
  exists pos, cf_go k idx row col lens acc = Ok (rev acc ++ pos) /\ length pos = k /\
              map (fun p => snd p) pos = iota k idx.
Proof. exact cf_go_ok. Qed.
Print Assumptions C08_column_first_total.

Example C08_columns_nonvacuous :
  grid_of 7 3 true false = Some [[0; 3; 5]; [1; 4; 6]; [2; -1; -1]]
  /\ grid_of 7 3 false true = Some [[2; 1; 0]; [5; 4; 3]; [-1; -1; 6]].
Proof. vm_compute. split; reflexivity. Qed.

(* (8) Tree: for EVERY tree shape, every `expanded` flag, every guide style, ascii / legacy or not, and
   every width, the explicit-stack loop of Tree.__rich_console__ terminates within the supplied fuel and
   emits the nodes in depth-first pre-order (children of collapsed nodes skipped), every label line
   unchanged behind a guide prefix of exactly 4 * depth cells. *)
Theorem C08_tree_dfs_prefix : forall ascii legacy t W,
  exists ls, tree_render ascii legacy t W = Ok ls /\ tree_dfs_b (tree_preorder W 0 t) ls = true.
Proof. exact tree_dfs_prefix. Qed.
Print Assumptions C08_tree_dfs_prefix.

Example C08_tree_nonvacuous :
  match tree_render false false demo_tree 20 with
  | Ok ls => (length ls =? 6)%nat
  | _ => false
  end = true.
Proof. vm_compute. reflexivity. Qed.

Theorem C08_tree_prefix : forall ascii legacy (prefix_rev : list guide) last (lab : list str),
  Forall guide_ok prefix_rev ->
  all2 (tree_line_b (zlen prefix_rev)) lab (node_lines ascii legacy prefix_rev last lab) = true.
Proof. exact node_block_ok. Qed.
Print Assumptions C08_tree_prefix.

Theorem C08_guide_four_cells : forall ascii legacy g, guide_ok g -> cell_len (guide_text ascii legacy g) = 4.
Proof. exact guide_text_4. Qed.
Print Assumptions C08_guide_four_cells.

(* (9) Printing a frame: console.print(r, width=N) lays the frame out at min(N, W) (N = 0 / no width: W) --
   the rule is a T3 fact regenerated from Console.print -- so every frame theorem above applies at that
   width, and the final crop at the console width leaves lines that fit untouched: the frame is printed
   intact. *)
Theorem C08_print_width_rule : forall width W, 0 <= W ->
  match width with Some n => 0 <= n | None => True end ->
  let E := print_render_width width W in
  E <= W /\ E = match width with None => W | Some n => if n =? 0 then W else Z.min n W end.
Proof. exact print_width_rule. Qed.
Print Assumptions C08_print_width_rule.

Theorem C08_print_keeps_fitting_lines : forall W segs, 0 <= W ->
  Forall (fun l : line => line_len l <= W) (split_lines segs) -> print_lines W segs = split_lines segs.
Proof. exact print_keeps_fitting_lines. Qed.
Print Assumptions C08_print_keeps_fitting_lines.
