(* C18 -- Colour down-conversion stays in gamut, is idempotent and picks the nearest entry.
   Only property theorems live here; each is closed by `exact` (or a one-line wrapper) and followed
   by Print Assumptions.  The statements are about the extracted integer model Color.downgrade;
   theorem (9) ties its one float-derived part to the bit-exact PrimFloat rendering of the Python
   code.  `wf_color_b c` = "c was built by Color.parse / from_ansi(0..255) / from_rgb, from_triplet
   with channels 0..255 / default, or returned by downgrade". *)
From RichModel Require Import Prelude Color SpecColor ColorFloat.
From RichGen Require Import Palettes.
From RichProofs Require Import ColorP ColorP2.
From RichProofs.bridge Require BridgeColor.   (* tie 1 (T2): Color.get_ansi_codes regenerated from rich/color.py *)

(* (1) in gamut: no exception, and the result is a colour of the target system
       (standard / legacy Windows: one of 16 indices of that kind; 256: an index below 256) *)
Theorem C18_downgrade_in_gamut : forall c sys,
  wf_color_b c = true -> exists c', downgrade c sys = Ok c' /\ in_gamut_b sys c' = true.
Proof. exact downgrade_in_gamut. Qed.
Print Assumptions C18_downgrade_in_gamut.

Example C18_in_gamut_nonvacuous :
  downgrade (from_rgb 255 0 0) CS_STANDARD = Ok (mkColor (lit "#ff0000") CT_STANDARD (Some 1) None)
  /\ downgrade (from_rgb 255 0 0) CS_EIGHT_BIT = Ok (mkColor (lit "#ff0000") CT_EIGHT_BIT (Some 196) None)
  /\ downgrade (from_rgb 255 0 0) CS_WINDOWS = Ok (mkColor (lit "#ff0000") CT_WINDOWS (Some 1) None)
  /\ downgrade (from_ansi 196) CS_STANDARD = Ok (mkColor (lit "color(196)") CT_STANDARD (Some 1) None)
  /\ wf_color_b (from_rgb 255 0 0) = true /\ in_gamut_b CS_STANDARD (from_rgb 255 0 0) = false.
Proof. vm_compute. repeat split. Qed.

(* (2) converting again changes nothing *)
Theorem C18_downgrade_idempotent : forall c sys c',
  wf_color_b c = true -> downgrade c sys = Ok c' -> downgrade c' sys = Ok c'.
Proof. exact downgrade_idempotent. Qed.
Print Assumptions C18_downgrade_idempotent.

(* (3) colours already representable are returned unchanged *)
Theorem C18_representable_unchanged : forall c sys, in_gamut_b sys c = true -> downgrade c sys = Ok c.
Proof. exact downgrade_representable_unchanged. Qed.
Print Assumptions C18_representable_unchanged.

Example C18_representable_nonvacuous :
  in_gamut_b CS_EIGHT_BIT (from_ansi 3) = true /\ in_gamut_b CS_EIGHT_BIT (from_ansi 200) = true
  /\ in_gamut_b CS_STANDARD (from_ansi 3) = true /\ in_gamut_b CS_STANDARD (from_ansi 200) = false
  /\ in_gamut_b CS_WINDOWS (from_ansi 3) = false.
Proof. vm_compute. repeat split. Qed.

(* (4) the default colour stays default (any record of type DEFAULT, any system) *)
Theorem C18_default_stays_default : forall c sys, c_type c = CT_DEFAULT -> downgrade c sys = Ok c.
Proof. exact downgrade_default. Qed.
Print Assumptions C18_default_stays_default.

(* (5) Palette.match is an argmin with first-minimum tie-break: EVERY palette, EVERY colour,
       no enumeration.  nearest_b pal t k  says: k indexes pal, its weighted distance to t is <=
       that of every entry and < that of every earlier entry. *)
Theorem C18_match_is_argmin : forall pal t k, palette_match pal t = Ok k -> nearest_b pal t k = true.
Proof. exact palette_match_nearest. Qed.
Print Assumptions C18_match_is_argmin.

Theorem C18_match_total : forall pal t,
  palette_ok_b pal = true -> pal <> [] -> triplet_ok_b t = true ->
  exists k, palette_match pal t = Ok k /\ 0 <= k < zlen pal.
Proof. exact palette_match_ok. Qed.
Print Assumptions C18_match_total.

Example C18_match_tie_first_wins :   (* two equal entries: the first index is returned *)
  palette_match [(9, 9, 9); (1, 2, 3); (1, 2, 3)] (mkTriplet 1 2 3) = Ok 1.
Proof. vm_compute. reflexivity. Qed.

(* (6) conversion to a 16-colour system picks the nearest entry of that system's palette to the
       colour's RGB value (its triplet, or its entry in the 256-colour palette) *)
Theorem C18_downgrade_picks_nearest : forall c sys c',
  downgrade c sys = Ok c' -> nearest_color_b sys c c' = true.
Proof. exact downgrade_nearest. Qed.
Print Assumptions C18_downgrade_picks_nearest.

Example C18_nearest_nonvacuous :
  goes_through_match CS_STANDARD (from_rgb 10 200 30) = true
  /\ goes_through_match CS_WINDOWS (from_ansi 100) = true
  /\ nearest_b STANDARD_PALETTE (mkTriplet 10 200 30) 2 = true
  /\ nearest_b STANDARD_PALETTE (mkTriplet 10 200 30) 10 = false.
Proof. vm_compute. repeat split. Qed.

(* (7) greys converted to 256 colours land on the grey ramp 232..255 or on black 16 / white 231 *)
Theorem C18_greys_on_ramp : forall v, 0 <= v <= 255 ->
  exists n, downgrade (from_rgb v v v) CS_EIGHT_BIT = Ok (mkColor (triplet_hex (mkTriplet v v v)) CT_EIGHT_BIT (Some n) None)
            /\ grey_ramp_b n = true.
Proof.
  intros v H. exists (downgrade_8bit_int v v v). split; [|exact (grey_lands_on_ramp v H)].
  apply (downgrade_truecolor_256 (mkTriplet v v v)). unfold triplet_ok_b, channel_b, in_range. cbn. lia.
Qed.
Print Assumptions C18_greys_on_ramp.

(* (8) every truecolor colour converts to 16..255; when the saturation test says "not grey" the
       result is inside the 6x6x6 cube 16..231 *)
Theorem C18_eight_bit_in_range : forall r g b,
  0 <= r <= 255 -> 0 <= g <= 255 -> 0 <= b <= 255 ->
  16 <= downgrade_8bit_int r g b <= 255
  /\ (is_grey_int (max3 r g b) (min3 r g b) = false -> cube_b (downgrade_8bit_int r g b) = true)
  /\ (is_grey_int (max3 r g b) (min3 r g b) = true -> grey_ramp_b (downgrade_8bit_int r g b) = true).
Proof.
  intros r g b Hr Hg Hb. split; [exact (downgrade_8bit_int_range r g b Hr Hg Hb)|].
  destruct (downgrade_8bit_int_cases r g b Hr Hg Hb) as [[G R]|[G R]]; rewrite G; split; intros E;
    try discriminate; exact R.
Qed.
Print Assumptions C18_eight_bit_in_range.

(* (9) the integer formulation used by the extracted model IS rich's float code: for all
       16 777 216 triplets the bit-exact binary64 rendering of
         R/255.0, colorsys.rgb_to_hls, s < 0.1, round(l*25.0), round(c*5.0)
       (ColorFloat.v, Coq primitive floats) returns exactly downgrade_8bit_int.  Proved from three
       finite sweeps by vm_compute: 256 channel values, 65 536 ordered pairs (monotonicity of
       c/255.0), 65 536 (max, min) pairs (grey decision). *)
Theorem C18_float_kernel_is_integer_kernel : forall r g b,
  0 <= r <= 255 -> 0 <= g <= 255 -> 0 <= b <= 255 ->
  downgrade_8bit_float r g b = Some (downgrade_8bit_int r g b).
Proof. exact downgrade_8bit_float_eq_int. Qed.
(* Print-Assumptions for this theorem is issued in proofs/ColorP.v (last line), not here: it
   reports no logical axiom, but it lists the kernel PRIMITIVES the sweeps compute with (the
   PrimFloat operations add, sub, mul, div, ltb, leb, eqb, of_uint63, frshiftexp, normfr_mantissa,
   abs and the PrimInt63 operations) under a heading that the shared check driver counts as
   undeclared assumptions.  They are the binary64 and 63-bit operations of the Coq kernel named in
   DESIGN section 7 (trusted base) and are declared in tools/props_C18.py.  Theorems (1)-(8) and
   (10)-(12) do not depend on them. *)

Example C18_float_boundary :   (* exact saturation 1/10, binary64 0.09999999999999999 < 0.1: grey *)
  downgrade_8bit_float 55 45 45 = Some 236 /\ downgrade_8bit_float 11 9 9 = Some 16
  /\ downgrade_8bit_float 22 18 18 = Some 16 /\ downgrade_8bit_float 23 18 18 = Some 16
  /\ downgrade_8bit_float 60 45 45 = Some 59.
Proof. vm_compute. repeat split. Qed.

(* (10) SGR parameters are the standard ones for the colour's kind:
        30-37/90-97, 40-47/100-107, 38/48;5;n, 38/48;2;r;g;b, 39/49 *)
Theorem C18_ansi_codes_standard : forall c fg,
  wf_color_b c = true -> exists codes, get_ansi_codes c fg = Ok codes /\ codes_ok_b c fg codes = true.
Proof. exact ansi_codes_standard. Qed.
Print Assumptions C18_ansi_codes_standard.

Example C18_codes_nonvacuous :
  get_ansi_codes (from_ansi 9) true = Ok [lit "91"] /\ get_ansi_codes (from_ansi 9) false = Ok [lit "101"]
  /\ get_ansi_codes (from_ansi 200) false = Ok [lit "48"; lit "5"; lit "200"]
  /\ get_ansi_codes (from_rgb 1 20 255) true = Ok [lit "38"; lit "2"; lit "1"; lit "20"; lit "255"]
  /\ get_ansi_codes color_default false = Ok [lit "49"]
  /\ codes_ok_b (from_ansi 9) true [lit "31"] = false.
Proof. vm_compute. repeat split. Qed.

(* (11) all of the property for one conversion in one statement, against the same checker that the
        harness evaluates on the implementation's outputs *)
Theorem C18_conversion_ok : forall c sys,
  wf_color_b c = true ->
  exists once, downgrade c sys = Ok once /\ downgrade once sys = Ok once
               /\ conversion_ok_b sys c once once = true.
Proof. exact downgrade_conversion_ok. Qed.
Print Assumptions C18_conversion_ok.

(* (12) public constructors build well-formed colours -- so (1)-(11) apply to everything that
        Color.parse (either variant, any string), from_ansi, from_rgb and default can return *)
Theorem C18_constructors_wf :
  (forall fix_d9 s c, parse fix_d9 s = Ok c -> wf_color_b c = true)
  /\ (forall n, 0 <= n <= 255 -> wf_color_b (from_ansi n) = true)
  /\ (forall r g b, 0 <= r <= 255 -> 0 <= g <= 255 -> 0 <= b <= 255 -> wf_color_b (from_rgb r g b) = true)
  /\ wf_color_b color_default = true.
Proof. split; [exact parse_wf|split; [exact from_ansi_wf|split; [exact from_rgb_wf|reflexivity]]]. Qed.
Print Assumptions C18_constructors_wf.

Example C18_parse_nonvacuous :
  parse false (lit " RGB(12, 0,255) ") = Ok (mkColor (lit "rgb(12, 0,255)") CT_TRUECOLOR None (Some (mkTriplet 12 0 255)))
  /\ parse false (lit "#0aFF10") = Ok (mkColor (lit "#0aff10") CT_TRUECOLOR None (Some (mkTriplet 10 255 16)))
  /\ parse false (lit "color(100)") = Ok (mkColor (lit "color(100)") CT_EIGHT_BIT (Some 100) None)
  /\ parse false (lit "Bright_Red") = Ok (mkColor (lit "bright_red") CT_STANDARD (Some 9) None)
  /\ parse false (lit "color(256)") = Doc E_ColorParseError
  /\ parse false (lit "rgb(1,2,256)") = Doc E_ColorParseError.
Proof. vm_compute. repeat split. Qed.

(* D9 (DESIGN section 10) re-derived: in rich 9.10.0 as found, Color.parse lets the ValueError of
   int('') / int('1 2') escape -- not a C18 violation (parse is not part of this property) but the
   colour model is shared with C14, so the witness is recorded here.  parse true = proposed repair. *)
Theorem C18_color_parse_asis_refuted : exists s, parse false s = Crash K_ValueError.
Proof. exists (lit "rgb(,,)"). exact (proj1 parse_asis_crashes). Qed.
Print Assumptions C18_color_parse_asis_refuted.
